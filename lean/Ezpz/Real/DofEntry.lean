/-
C05 at the public entry point: the under-constrained list returned by a successful
`solveWithPriority … (some svd)` (`solve_analysis`) over ℝ **is** the set of variables that take part
in the null space of the Jacobian the solver analysed — `Ezpz/Real/Dof.lean: dof_spec` composed with
`Ezpz/Properties/C05.lean: analysis_of_returned_model`.

Which Jacobian is analysed (`LastRound`, `solveWithPriority_lastRound`; every scalar type): the
assembled Jacobian of the requests of priority `≤` the solved priority, evaluated at the values `y`
the LAST EXECUTED Newton round started from.
* If that round stopped at the residual test, `y` is the returned point.
* If it stopped at the step-size test, the returned point is `y + d` (`applyStep y d`, `d` the small
  step just computed) while the Jacobian analysed is still the one at `y`: the point BEFORE the last
  step.  The Rust code analyses `self.jc` "as last refreshed", and the refresh happens at the top of
  the round, before the step is applied.  `DofEntryEx.lastJac_is_before_last_step` is a run where the two
  points differ.
-/
import Ezpz.Properties.C05
import Ezpz.Real.Union
set_option linter.unusedSectionVars false
namespace Ezpz
open Transc

section Generic
variable {α : Type} [Add α] [Sub α] [Mul α] [Div α] [Neg α] [OfScientific α]
  [LT α] [DecidableLT α] [LE α] [DecidableLE α] [Transc α]

/-- `LastRound es cfg solve y jac vals`: a Newton round on the entries `es` started at the values `y`
is a *returning* round that hands on the Jacobian contributions `jac` and the values `vals`.
Residual and Jacobian are evaluated at `y` (`jac` is the assembled Jacobian at `y`) and the residual
is non-empty; then either the residual test passed and `vals = y`, or it did not, the linear solve
answered a step `d` of the right length that passed the step-size test, and `vals = y + d`
— in which case `jac` is the Jacobian at the point before the last step. -/
def LastRound (es : List (Entry α)) (cfg : Config α)
    (solve : Nat → List (Triplet α) → List α → Except SolveError (List α))
    (y : List α) (jac : List (Triplet α)) (vals : List α) : Prop :=
  ∃ r w1 w2 largest, residualAll es (lookup y) = .ok (r, w1) ∧
    jacobianAll es (lookup y) = .ok (jac, w2) ∧ maxAbs? r = some largest ∧
    ((largest ≤ cfg.convergenceTolerance ∧ vals = y) ∨
     (¬ largest ≤ cfg.convergenceTolerance ∧ ∃ k d, solve k jac r = .ok d ∧ d.length = y.length ∧
        stepInfNorm d ≤ stepThreshold cfg y ∧ vals = applyStep y d))

/-- ∀α: a round that returns is a `LastRound` started at its input values, and the returned values
have the input's length. -/
theorem newtonStep_done_lastRound (es : List (Entry α)) (cfg : Config α)
    (solve : Nat → List (Triplet α) → List α → Except SolveError (List α)) (k : Nat) (x : List α)
    (ws : List (Warning α)) (res : NewtonOk α) (h : newtonStep es cfg solve k x ws = .done res) :
    LastRound es cfg solve x res.lastJac res.values ∧ x.length = res.values.length := by
  unfold newtonStep at h
  split at h
  · simp at h
  · rename_i r w1 hr
    split at h
    · simp at h
    · rename_i jac w2 hj
      split at h
      · simp at h
      · rename_i largest hl
        split at h
        · rename_i hle
          injection h with h; subst h
          exact ⟨⟨r, w1, w2, largest, hr, hj, hl, Or.inl ⟨hle, rfl⟩⟩, rfl⟩
        · rename_i hnle
          split at h
          · simp at h
          · rename_i d hd
            split at h
            · simp at h
            · rename_i hlen
              split at h
              · simp at h
              · split at h
                · rename_i hstep
                  injection h with h; subst h
                  have hl' : d.length = x.length := by simpa using hlen
                  refine ⟨⟨r, w1, w2, largest, hr, hj, hl,
                    Or.inr ⟨hnle, k, d, hd, hl', hstep, rfl⟩⟩, ?_⟩
                  simp [applyStep, List.length_zipWith, hl']
                · simp at h

/-- ∀α: a successful Newton loop ended with a `LastRound` started at some visited configuration of
the right length. -/
theorem newtonLoop_lastRound (es : List (Entry α)) (cfg : Config α)
    (solve : Nat → List (Triplet α) → List α → Except SolveError (List α)) :
    ∀ (fuel k : Nat) (x : List α) (ws : List (Warning α)) (r : NewtonOk α),
      newtonLoop es cfg solve fuel k x ws = .ok r →
      ∃ y, LastRound es cfg solve y r.lastJac r.values ∧ y.length = r.values.length := by
  intro fuel
  induction fuel with
  | zero => intro k x ws r h; simp [newtonLoop] at h
  | succ fuel ih =>
    intro k x ws r h
    unfold newtonLoop at h
    split at h
    · rename_i r' hr
      injection h with h; subst h
      exact ⟨x, newtonStep_done_lastRound es cfg solve k x ws _ hr⟩
    · simp at h
    · exact ih _ _ _ _ h

/-- The requests the returned outcome was computed from: those of priority `≤` the solved one. -/
def attempted (reqs : List (Constraint α × Nat)) (o : Outcome α) : List (Entry α) :=
  (enumerate reqs).filter (fun e => e.priority ≤ o.prioritySolved)

/-- ∀α — **which Jacobian `solve_analysis` analyses.**  A successful `solveWithPriority` with
analysis on a non-empty request list, at the priority level (call number `i`) whose result is
returned, ended its Newton loop with a `LastRound` on the attempted requests started at some `y`
(as long as the guess list), handing on a Jacobian `jac` and the returned values; the attempted
requests only mention declared variables; the SVD oracle of that call answered `(sigma, V)` on
exactly `jac`, and the reported list is `calculate(sigma, V, #variables)`. -/
theorem solveWithPriority_lastRound (reqs : List (Constraint α × Nat)) (g : List (Nat × α))
    (cfg : Config α) (solve : LinSolve α) (svd : Svd α) (o : Outcome α) (hne : reqs ≠ [])
    (h : solveWithPriority reqs g cfg solve (some svd) = .ok o) :
    ∃ (i : Nat) (y : List α) (jac : List (Triplet α)) (sigma : List α) (V : List (List α))
      (us : List Nat),
      y.length = g.length ∧
      LastRound (attempted reqs o) cfg (solve i) y jac o.finalValues ∧
      Declared (attempted reqs o) g.length ∧
      svd i jac = .ok (sigma, V) ∧
      dofCalculate sigma V g.length = .ok us ∧
      o.underconstrained = some us := by
  obtain ⟨P, i, _, hs, hp⟩ := C03.result_is_subset_solve reqs g cfg solve (some svd) o hne h
  obtain ⟨nr, hn, hm, hv, _, _, _, _, ha⟩ := solveInner_ok _ _ _ _ _ _ hs
  unfold newton at hn
  obtain ⟨y, hlr, hl⟩ := newtonLoop_lastRound _ cfg (solve i) _ _ _ _ _ hn
  have hlen := solveInner_final_length _ _ _ _ _ _ hs
  have hdecl := modelNew_ok_declared_lt _ _ hm
  simp only [Option.map_some] at ha
  unfold runAnalysis at ha
  split at ha
  · rename_i hsv; simp at hsv
  · rename_i svdf hsv
    injection hsv with hsv
    subst hsv
    split at ha
    · simp at ha
    · rename_i sigma V hsvd
      split at ha
      · simp at ha
      · rename_i us hd
        injection ha with ha
        refine ⟨i, y, nr.lastJac, sigma, V, us, ?_, ?_, ?_, hsvd, hd, ha.symm⟩
        · rw [hl, ← hv, hlen]
        · unfold attempted; rw [hp, hv]; exact hlr
        · unfold attempted; rw [hp]
          intro e he id hid
          simpa using hdecl e he id hid

end Generic

/-! ### Over ℝ: the reported list is the null-space participation set of that Jacobian -/

section Real
open Matrix

/-- The hypotheses of `dof_spec` about an SVD answer `(sigma, V)` for the matrix `J` with `n`
columns: non-empty non-increasing spectrum, `V` at least `n × n`, the SVD contract `GN.SvdSpec`
(with `sigma` padded by zeros), the spectrum gap and the participation gap ("well-separated"). -/
structure DofHyp {R n : Nat} (J : Matrix (Fin R) (Fin n) ℝ) (sigma : List ℝ) (V : List (List ℝ)) :
    Prop where
  ne : sigma ≠ []
  sorted : sigma.Pairwise (· ≥ ·)
  shape : ∀ j < n, ∃ row, V[j]? = some row ∧ n ≤ row.length
  gapS : ∀ s ∈ sigma, s = 0 ∨ ∀ s' ∈ sigma, Gen.DOF_RANK_TOLERANCE * s' < s
  gapP : ∀ j < n, partic V (dofRank sigma) n j = 0 ∨
    ∀ j' < n, Gen.DOF_PARTICIPATION_TOLERANCE * partic V (dofRank sigma) n j'
      < partic V (dofRank sigma) n j
  svd : GN.SvdSpec J (fun k : Fin n => sigma.getD k 0) (fun j k : Fin n => entryR V j k)

/-- `dof_spec` with the hypotheses bundled, for a given successful `calculate`. -/
theorem dof_spec_of_hyp {R n : Nat} (J : Matrix (Fin R) (Fin n) ℝ) (sigma : List ℝ)
    (V : List (List ℝ)) (us : List Nat) (hh : DofHyp J sigma V)
    (hd : dofCalculate sigma V n = .ok us) :
    ∀ (j : Nat) (hj : j < n), j ∈ us ↔ ∃ v : Fin n → ℝ, J *ᵥ v = 0 ∧ v ⟨j, hj⟩ ≠ 0 := by
  obtain ⟨out, hout, hmem⟩ :=
    dof_spec J sigma V hh.ne hh.sorted hh.shape hh.gapS hh.gapP hh.svd
  rw [hd] at hout
  injection hout with hout
  subst hout
  exact hmem

/-- **C05 at the entry point, witness form** (ℝ; no hypothesis on the oracles).  A successful
`solve_analysis` of a non-empty request list determines a call number `i`, a configuration `y` of
the right length, the Jacobian contributions `jac` of the attempted requests (priority `≤` the
solved one) at `y` — `y` being where the last executed Newton round started: the returned point if
that round stopped at the residual test, the point before the last step if it stopped at the
step-size test (`LastRound`) — all lying inside the `numRows × #variables` matrix, and the answer
`(sigma, V)` of the SVD oracle on `jac`; the outcome carries a list `us` (strictly increasing,
`< #variables`), and **if `(sigma, V)` meets the hypotheses of `dof_spec` for the matrix of `jac`,
then `j ∈ us` iff some `v` with `J v = 0` has `v j ≠ 0`.** -/
theorem underconstrained_nullspace_witness (reqs : List (Constraint ℝ × Nat)) (g : List (Nat × ℝ))
    (cfg : Config ℝ) (solve : LinSolve ℝ) (svd : Svd ℝ) (o : Outcome ℝ) (hne : reqs ≠ [])
    (h : solveWithPriority reqs g cfg solve (some svd) = .ok o) :
    ∃ (i : Nat) (y : List ℝ) (jac : List (Triplet ℝ)) (sigma : List ℝ) (V : List (List ℝ))
      (us : List Nat),
      y.length = g.length ∧
      LastRound (attempted reqs o) cfg (solve i) y jac o.finalValues ∧
      (∀ t ∈ jac, t.1 < numRows (attempted reqs o) ∧ t.2.1 < g.length) ∧
      svd i jac = .ok (sigma, V) ∧
      o.underconstrained = some us ∧ us.Pairwise (· < ·) ∧ (∀ j ∈ us, j < g.length) ∧
      (DofHyp (matOf (numRows (attempted reqs o)) g.length jac) sigma V →
        ∀ (j : Nat) (hj : j < g.length), j ∈ us ↔
          ∃ v : Fin g.length → ℝ,
            matOf (numRows (attempted reqs o)) g.length jac *ᵥ v = 0 ∧ v ⟨j, hj⟩ ≠ 0) := by
  obtain ⟨i, y, jac, sigma, V, us, hlen, hlr, hdecl, hsvd, hd, hu⟩ :=
    solveWithPriority_lastRound reqs g cfg solve svd o hne h
  obtain ⟨hp, hlt⟩ := dofCalculate_sorted_lt sigma V g.length us hd
  refine ⟨i, y, jac, sigma, V, us, hlen, hlr, ?_, hsvd, hu, hp, hlt, ?_⟩
  · obtain ⟨_, _, w2, _, _, hj, _⟩ := hlr
    exact jacobianAll_in_range _ _ _ hdecl _ _ hj
  · intro hh
    exact dof_spec_of_hyp _ sigma V us hh hd

/-- **C05 at the entry point: the under-constrained list of `solve_analysis` is the null-space
participation set of the analysed Jacobian** (ℝ, well-separated case).

Hypothesis `hsvd` (the only one beyond success): whenever the SVD oracle of a call `i` answers
`(sigma, V)` on contributions `jac` that are the Jacobian of the attempted requests at the start `y`
of a returning Newton round producing the returned values, that answer meets the hypotheses of
`dof_spec` for `J = matOf (numRows …) (#variables) jac` — SVD contract, spectrum gap, participation
gap (`DofHyp`).  (Any oracle that is a correct SVD with well-separated output on the Jacobians of
the attempted requests satisfies it.)

Conclusion: `o.underconstrained = some us`, and there are `y`, `jac` as above — `jac` is the
assembled Jacobian of the requests of priority `≤ o.prioritySolved` at `y`, where `y` is the
returned point when the last round stopped at the residual test and THE POINT BEFORE THE LAST STEP
(`o.finalValues = y + d`) when it stopped at the step-size test — such that for every variable
position `j`: `j ∈ us ↔ ∃ v, J v = 0 ∧ v j ≠ 0`. -/
theorem underconstrained_is_nullspace_participation (reqs : List (Constraint ℝ × Nat))
    (g : List (Nat × ℝ)) (cfg : Config ℝ) (solve : LinSolve ℝ) (svd : Svd ℝ) (o : Outcome ℝ)
    (hne : reqs ≠ []) (h : solveWithPriority reqs g cfg solve (some svd) = .ok o)
    (hsvd : ∀ (i : Nat) (y : List ℝ) (jac : List (Triplet ℝ)) (sigma : List ℝ) (V : List (List ℝ)),
      y.length = g.length →
      LastRound (attempted reqs o) cfg (solve i) y jac o.finalValues →
      svd i jac = .ok (sigma, V) →
      DofHyp (matOf (numRows (attempted reqs o)) g.length jac) sigma V) :
    ∃ (us : List Nat) (i : Nat) (y : List ℝ) (jac : List (Triplet ℝ)),
      o.underconstrained = some us ∧
      y.length = g.length ∧
      LastRound (attempted reqs o) cfg (solve i) y jac o.finalValues ∧
      (∀ t ∈ jac, t.1 < numRows (attempted reqs o) ∧ t.2.1 < g.length) ∧
      ∀ (j : Nat) (hj : j < g.length), j ∈ us ↔
        ∃ v : Fin g.length → ℝ,
          matOf (numRows (attempted reqs o)) g.length jac *ᵥ v = 0 ∧ v ⟨j, hj⟩ ≠ 0 := by
  obtain ⟨i, y, jac, sigma, V, us, hlen, hlr, hin, hs, hu, _, _, hiff⟩ :=
    underconstrained_nullspace_witness reqs g cfg solve svd o hne h
  exact ⟨us, i, y, jac, hu, hlen, hlr, hin, hiff (hsvd i y jac sigma V hlen hlr hs)⟩

end Real

/-! ### Non-vacuity: a concrete run meets every hypothesis

`reqs = [(Fixed(x0 = 1), priority 0)]`, two variables started at `[1, 0]`, SVD oracle answering
`σ = [1]`, `V = I₂`.  The run succeeds, the hypothesis `hsvd` holds, and the theorem's conclusion is
obtained: the report is `[1]` — the unmentioned variable. -/

namespace DofEntryEx
open Matrix

/-- The SVD oracle of the example: `σ = [1]`, `V = I₂` (a correct SVD of `[1 0]`). -/
def exSvd : Svd ℝ := fun _ _ => .ok ([1], [[1, 0], [0, 1]])
/-- The LU oracle of the example (`d = -r` at every level). -/
def exSolve : LinSolve ℝ := fun _ => negSolve
/-- Tolerances `1e-5`, 30 rounds. -/
def exCfg : Config ℝ := ⟨30, 1e-5, 1e-5⟩
/-- The single entry "variable 0 fixed to 1". -/
def exEs : List (Entry ℝ) := [⟨.fixed 0 1, 0, 0⟩]
/-- The outcome of the example run: values `[1, 0]`, variable 1 reported free. -/
def exOut : Outcome ℝ := ⟨[], [1, 0], 0, [], 0, some [1]⟩

/-- Started at the solution `[1, 0]`, the first round returns at the residual test. -/
theorem ex_step : newtonStep exEs exCfg negSolve 0 [1, 0] [] =
    .done ⟨[1, 0], 0, [], [(0, 0, 1.0)], true⟩ := by
  simp [exEs, exCfg, newtonStep, residualAll, jacobianAll, jacobianFrom, pattern, patternFrom,
    Constraint.residual, Constraint.jacobianRows, Constraint.residualV, Constraint.jacobianV,
    Constraint.residualReads, Constraint.jacobianReads, lookup, takeRows, Constraint.residualDim,
    Res.mk1, maxAbs?, Constraint.nonzeroes]
  norm_num

/-- Hence the Newton loop returns `[1, 0]` with the Jacobian contribution `(0, 0, 1)`. -/
theorem ex_newton : newton exEs exCfg negSolve [1, 0] =
    .ok ⟨[1, 0], 0, [], [(0, 0, 1.0)], true⟩ := by
  have : exCfg.maxIterations = 29 + 1 := rfl
  rw [newton, this, newtonLoop, ex_step]

/-- Example: one non-zero singular value. -/
theorem ex_rank : dofRank [1] = 1 := by simp [dofRank]

/-- Example: variable 0 has participation 0. -/
theorem ex_p0 : partic [[1, 0], [0, 1]] 1 2 0 = 0 := by
  have : Finset.Ico 1 2 = {1} := by decide
  simp [partic, this, entryR]

/-- Example: variable 1 has participation 1. -/
theorem ex_p1 : partic [[1, 0], [0, 1]] 1 2 1 = 1 := by
  have : Finset.Ico 1 2 = {1} := by decide
  simp [partic, this, entryR]

/-- Example: `V` is 2×2. -/
theorem ex_hV : ∀ j < 2, ∃ row, ([[1, 0], [0, 1]] : List (List ℝ))[j]? = some row ∧
    2 ≤ row.length := by
  intro j hj
  have : j = 0 ∨ j = 1 := by omega
  rcases this with rfl | rfl <;> simp

/-- Example: the spectrum gap holds. -/
theorem ex_gapS : ∀ s ∈ ([1] : List ℝ), s = 0 ∨
    ∀ s' ∈ ([1] : List ℝ), Gen.DOF_RANK_TOLERANCE * s' < s := by
  intro s hs
  simp only [List.mem_singleton] at hs
  subst hs
  right
  intro s' hs'
  simp only [List.mem_singleton] at hs'
  subst hs'
  rw [DOF_RANK_TOLERANCE_real]; norm_num

/-- Example: the participation gap holds. -/
theorem ex_gapP : ∀ j < 2, partic [[1, 0], [0, 1]] (dofRank [1]) 2 j = 0 ∨
    ∀ j' < 2, Gen.DOF_PARTICIPATION_TOLERANCE * partic [[1, 0], [0, 1]] (dofRank [1]) 2 j'
      < partic [[1, 0], [0, 1]] (dofRank [1]) 2 j := by
  intro j hj
  rw [ex_rank]
  have : j = 0 ∨ j = 1 := by omega
  rcases this with rfl | rfl
  · exact Or.inl ex_p0
  · right
    intro j' hj'
    have : j' = 0 ∨ j' = 1 := by omega
    rcases this with rfl | rfl
    · rw [ex_p0, ex_p1]; norm_num
    · rw [ex_p1, DOF_PARTICIPATION_TOLERANCE_real]; norm_num

/-- Example: `σ = [1]`, `V = I₂` meet the SVD contract for `J = [1 0]`. -/
theorem ex_svd : GN.SvdSpec (!![1, 0] : Matrix (Fin 1) (Fin 2) ℝ)
    (fun k : Fin 2 => ([1] : List ℝ).getD k 0)
    (fun j k : Fin 2 => entryR [[1, 0], [0, 1]] j k) := by
  have hV : (fun j k : Fin 2 => entryR [[1, 0], [0, 1]] j k) = (1 : Matrix (Fin 2) (Fin 2) ℝ) := by
    ext a b
    fin_cases a <;> fin_cases b <;> simp [entryR]
  rw [hV]
  constructor
  · simp
  · rw [transpose_one, Matrix.one_mul, Matrix.mul_one]
    ext a b
    fin_cases a <;> fin_cases b <;> simp [Matrix.mul_apply]

/-- Example: `calculate` reports `[1]`. -/
theorem ex_dof : dofCalculate ([1] : List ℝ) [[1, 0], [0, 1]] 2 = .ok [1] := by
  rw [dofCalculate_eq _ _ _ (by simp) ex_hV ex_gapS, ex_rank]
  have hmax : maxPartic [[1, 0], [0, 1]] 1 2 = 1 := by
    simp [maxPartic, List.range_succ, ex_p0, ex_p1]
  have hr : List.range 2 = [0, 1] := by decide
  rw [hmax, hr]
  simp [List.filter_cons, ex_p0, ex_p1, DOF_PARTICIPATION_TOLERANCE_real]
  norm_num

/-- The matrix of the single contribution `(0, 0, 1)` is `[1 0]`. -/
theorem ex_mat : matOf 1 2 [(0, 0, (1.0 : ℝ))] = !![1, 0] := by
  ext a b
  fin_cases a; fin_cases b <;> simp [matOf, lit_1]

/-- The Jacobian of "variable 0 fixed" is the contribution `(0, 0, 1)` at every point. -/
theorem ex_jac (y : List ℝ) (jac : List (Triplet ℝ)) (w2 : List (Warning ℝ))
    (h : jacobianAll exEs (lookup y) = .ok (jac, w2)) : jac = [(0, 0, 1.0)] := by
  simp [exEs, jacobianAll, jacobianFrom, pattern, patternFrom,
    Constraint.jacobianRows, Constraint.jacobianV, Constraint.jacobianReads, lookup, takeRows,
    Constraint.residualDim, Constraint.nonzeroes] at h
  exact h.1.symm

/-- `solve_inner` on the example returns `exOut`. -/
theorem ex_inner :
    solveInner exEs [(0, 1), (1, 0)] exCfg negSolve (some (exSvd 0)) = .ok exOut := by
  have hn : newton exEs exCfg negSolve (List.map (·.2) [((0:Nat), (1:ℝ)), (1, 0)]) =
      .ok ⟨[1, 0], 0, [], [(0, 0, 1.0)], true⟩ := ex_newton
  unfold solveInner
  rw [hn]
  simp [exEs, modelNew, validateVariables, firstMissing, pattern, patternFrom,
    Constraint.nonzeroes, takeRows, Constraint.residualDim, unsatisfiedSweep, Constraint.residual,
    Constraint.residualV, Constraint.residualReads, lookup, isSatisfied, Res.mk1, runAnalysis,
    exSvd, ex_dof, lint, lintOne, maxPriority, EPS_real, exOut]
  norm_num

/-- **The example run succeeds**: `solve_analysis` of `[Fixed(0, 1)]` on two variables started at
`[1, 0]` returns `exOut` (under-constrained list `[1]`). -/
theorem ex_run : solveWithPriority [((.fixed 0 1 : Constraint ℝ), 0)] [(0, 1), (1, 0)] exCfg
    exSolve (some exSvd) = .ok exOut := by
  have hi : solveInner (List.filter (fun e => decide (e.priority ≤ 0)) exEs) [(0, 1), (1, 0)]
      exCfg (exSolve 0) (Option.map (fun s => s 0) (some exSvd)) = .ok exOut := ex_inner
  have he : enumerate [((.fixed 0 1 : Constraint ℝ), 0)] = exEs := rfl
  have hl : levels exEs = [0] := rfl
  unfold solveWithPriority
  rw [he, hl]
  simp only [List.isEmpty_cons, Bool.false_eq_true, if_false, priorityLoop]
  rw [hi]
  simp [exOut]

/-- The attempted requests of the example run. -/
theorem ex_attempted : attempted [((.fixed 0 1 : Constraint ℝ), 0)] exOut = exEs := by
  simp [attempted, exOut, enumerate, exEs]

/-- **The hypothesis `hsvd` of `underconstrained_is_nullspace_participation` holds for the example
run.** -/
theorem ex_hyp : ∀ (i : Nat) (y : List ℝ) (jac : List (Triplet ℝ)) (sigma : List ℝ)
    (V : List (List ℝ)),
      y.length = ([(0, 1), (1, 0)] : List (Nat × ℝ)).length →
      LastRound (attempted [((.fixed 0 1 : Constraint ℝ), 0)] exOut) exCfg (exSolve i) y jac
        exOut.finalValues →
      exSvd i jac = .ok (sigma, V) →
      DofHyp (matOf (numRows (attempted [((.fixed 0 1 : Constraint ℝ), 0)] exOut))
        ([(0, 1), (1, 0)] : List (Nat × ℝ)).length jac) sigma V := by
  intro i y jac sigma V hy hlr hs
  rw [ex_attempted] at hlr ⊢
  obtain ⟨_, _, w2, _, _, hj, _⟩ := hlr
  have hjac := ex_jac y jac w2 hj
  subst hjac
  simp only [exSvd, Except.ok.injEq, Prod.mk.injEq] at hs
  obtain ⟨rfl, rfl⟩ := hs
  have hR : numRows exEs = 1 := rfl
  rw [hR]
  show DofHyp (matOf 1 2 [(0, 0, (1.0 : ℝ))]) _ _
  rw [ex_mat]
  exact ⟨by simp, by simp, ex_hV, ex_gapS, ex_gapP, ex_svd⟩

/-- **The theorem applied to the example run**: the under-constrained list is `[1]` and it is the
null-space participation set of the Jacobian `jac` of the attempted requests at the start `y` of
the last round. -/
theorem ex_conclusion :
    ∃ (us : List Nat) (i : Nat) (y : List ℝ) (jac : List (Triplet ℝ)),
      exOut.underconstrained = some us ∧ us = [1] ∧ y.length = 2 ∧
      LastRound (attempted [((.fixed 0 1 : Constraint ℝ), 0)] exOut) exCfg (exSolve i) y jac
        exOut.finalValues ∧
      ∀ (j : Nat) (hj : j < 2), j ∈ us ↔
        ∃ v : Fin 2 → ℝ,
          matOf (numRows (attempted [((.fixed 0 1 : Constraint ℝ), 0)] exOut)) 2 jac *ᵥ v = 0 ∧
            v ⟨j, hj⟩ ≠ 0 := by
  obtain ⟨us, i, y, jac, hu, hy, hlr, _, hiff⟩ :=
    underconstrained_is_nullspace_participation [((.fixed 0 1 : Constraint ℝ), 0)] [(0, 1), (1, 0)]
      exCfg exSolve exSvd exOut (by simp) ex_run ex_hyp
  refine ⟨us, i, y, jac, hu, ?_, hy, hlr, hiff⟩
  simpa [exOut] using hu.symm

/-! ### The analysed Jacobian is the one BEFORE the last step when the loop stops at the step test

A non-linear request ("is an arc") with an LU oracle that answers a tiny step: the solve returns
after one round at the step-size test, with values `y + d`; the Jacobian handed to the analysis is
the one at `y`, whose matrix differs from the Jacobian at the returned values. -/

/-- One "is an arc" request: start `(x0, x1)`, end `(x2, x3)`, centre `(x4, x5)`; residual
`|s-c|² - |e-c|²` (non-linear: the Jacobian depends on the point). -/
def arcEs : List (Entry ℝ) := [⟨.isArc ⟨⟨4, 5⟩, ⟨0, 1⟩, ⟨2, 3⟩⟩, 0, 0⟩]
/-- An LU oracle that always answers the tiny step `1e-9` on variable 0 (as a heavily damped
solve may). -/
def tinySolve : Nat → List (Triplet ℝ) → List ℝ → Except SolveError (List ℝ) :=
  fun _ _ _ => .ok [1e-9, 0, 0, 0, 0, 0]
/-- The Jacobian contributions of `arcEs` at `[a, 0, 0, 2, 0, 0]`. -/
def arcJac (a : ℝ) : List (Triplet ℝ) :=
  [(0, 0, 2 * a), (0, 1, 0), (0, 2, 0), (0, 3, -4), (0, 4, -(2 * a)), (0, 5, 4)]

/-- Started at `[1, 0, 0, 2, 0, 0]` (residual `-3`), the first round stops at the STEP-SIZE test:
it returns the values moved by the step, with the Jacobian at the unmoved values. -/
theorem arc_step : newtonStep arcEs exCfg tinySolve 0 [1, 0, 0, 2, 0, 0] [] =
    .done ⟨[1 + 1e-9, 0, 0, 2, 0, 0], 0, [], arcJac 1, false⟩ := by
  simp [arcEs, exCfg, newtonStep, residualAll, jacobianAll, jacobianFrom, pattern, patternFrom,
    Constraint.residual, Constraint.jacobianRows, Constraint.residualV, Constraint.jacobianV,
    Constraint.residualReads, Constraint.jacobianReads, lookup, takeRows, Constraint.residualDim,
    Res.mk1, maxAbs?, Constraint.nonzeroes, ArcD.vars, tinySolve, applyStep, allFinite,
    stepInfNorm, stepThreshold, maxAbs0, sqr, arcJac]
  rw [if_neg (by norm_num [abs_of_neg]), if_pos (by norm_num [abs_of_pos, lit_0])]
  norm_num

/-- The Jacobian of `arcEs` at `[a, 0, 0, 2, 0, 0]`. -/
theorem arc_jac (a : ℝ) : jacobianAll arcEs (lookup [a, 0, 0, 2, 0, 0]) = .ok (arcJac a, []) := by
  simp [arcEs, jacobianAll, jacobianFrom, pattern, patternFrom,
    Constraint.jacobianRows, Constraint.jacobianV, Constraint.jacobianReads, lookup, takeRows,
    Constraint.residualDim, Constraint.nonzeroes, ArcD.vars, arcJac]
  norm_num
  exact mul_comm _ _

/-- The Jacobian matrices at the returned point and at the point before the last step differ. -/
theorem arc_mat_ne : matOf 1 6 (arcJac (1 + 1e-9)) ≠ matOf 1 6 (arcJac 1) := by
  intro h
  have := congrFun (congrFun h 0) 0
  simp [matOf, arcJac] at this
  norm_num at this

/-- A 6×6 zero matrix (a `V` that is large enough for `calculate` not to panic). -/
def arcV : List (List ℝ) := List.replicate 6 (List.replicate 6 0)
/-- An SVD oracle for the second example (its quality is irrelevant there). -/
def arcSvd : Svd ℝ := fun _ _ => .ok ([1], arcV)
/-- The request list of the second example. -/
def arcReqs : List (Constraint ℝ × Nat) := [(.isArc ⟨⟨4, 5⟩, ⟨0, 1⟩, ⟨2, 3⟩⟩, 0)]
/-- The initial guesses of the second example. -/
def arcG : List (Nat × ℝ) := [(0, 1), (1, 0), (2, 0), (3, 2), (4, 0), (5, 0)]
/-- The values returned in the second example. -/
def arcRet : List ℝ := [1 + 1e-9, 0, 0, 2, 0, 0]

/-- The Newton loop of the second example returns after one round, at the step-size test. -/
theorem arc_newton : newton arcEs exCfg tinySolve [1, 0, 0, 2, 0, 0] =
    .ok ⟨arcRet, 0, [], arcJac 1, false⟩ := by
  have : exCfg.maxIterations = 29 + 1 := rfl
  rw [newton, this, newtonLoop, arc_step]; rfl

/-- `calculate` succeeds on the second example's SVD answer. -/
theorem arc_dof : ∃ us, dofCalculate ([1] : List ℝ) arcV 6 = .ok us := by
  refine ⟨_, dofCalculate_eq _ _ _ (by simp) ?_ ?_⟩
  · intro j hj
    refine ⟨List.replicate 6 0, ?_, by simp⟩
    unfold arcV
    rw [List.getElem?_replicate, if_pos hj]
  · intro s hs
    simp only [List.mem_singleton] at hs
    subst hs
    right
    intro s' hs'
    simp only [List.mem_singleton] at hs'
    subst hs'
    rw [DOF_RANK_TOLERANCE_real]; norm_num

/-- `solve_inner` on the second example succeeds (the request stays unsatisfied). -/
theorem arc_inner : ∃ us, solveInner arcEs arcG exCfg tinySolve (some (arcSvd 0)) =
    .ok ⟨[0], arcRet, 0, [], 0, some us⟩ := by
  obtain ⟨us, hus⟩ := arc_dof
  refine ⟨us, ?_⟩
  have hn : newton arcEs exCfg tinySolve (List.map (·.2) arcG) =
      .ok ⟨arcRet, 0, [], arcJac 1, false⟩ := arc_newton
  have hl : lint arcEs = [] := rfl
  unfold solveInner
  rw [hn, hl]
  simp [arcEs, arcG, arcRet, modelNew, validateVariables, firstMissing, pattern, patternFrom,
    Constraint.nonzeroes, takeRows, Constraint.residualDim, unsatisfiedSweep, Constraint.residual,
    Constraint.residualV, ArcD.vars, Constraint.residualReads, lookup, isSatisfied, Res.mk1,
    runAnalysis, arcSvd, hus, maxPriority, EPS_real, sqr]
  apply decide_eq_false
  rw [abs_of_neg (by norm_num)]
  norm_num

/-- The second example run succeeds and returns `arcRet`. -/
theorem arc_run : ∃ us, solveWithPriority arcReqs arcG exCfg (fun _ => tinySolve) (some arcSvd) =
    .ok ⟨[0], arcRet, 0, [], 0, some us⟩ := by
  obtain ⟨us, hus⟩ := arc_inner
  refine ⟨us, ?_⟩
  have hi : solveInner (List.filter (fun e => decide (e.priority ≤ 0)) arcEs) arcG exCfg
      ((fun _ => tinySolve) 0) (Option.map (fun s => s 0) (some arcSvd)) = _ := hus
  have he : enumerate arcReqs = arcEs := rfl
  have hl : levels arcEs = [0] := rfl
  unfold solveWithPriority
  rw [he, hl]
  have hne : arcReqs.isEmpty = false := rfl
  simp only [hne, Bool.false_eq_true, if_false, priorityLoop]
  rw [hi]
  simp

/-- The only returning round that produces `arcRet` starts at `[1, 0, 0, 2, 0, 0]` and hands on
the Jacobian at that point. -/
theorem arc_lastRound_unique (y : List ℝ) (jac : List (Triplet ℝ)) (hy : y.length = 6)
    (h : LastRound arcEs exCfg tinySolve y jac arcRet) :
    y = [1, 0, 0, 2, 0, 0] ∧ jac = arcJac 1 := by
  obtain ⟨r, w1, w2, largest, hr, hj, hl, hcase⟩ := h
  have hy0 : y = [1, 0, 0, 2, 0, 0] := by
    rcases hcase with ⟨hle, hv⟩ | ⟨_, k, d, hd, _, _, hv⟩
    · subst hv
      exfalso
      simp [arcEs, arcRet, residualAll, Constraint.residual, Constraint.residualV, ArcD.vars,
        Constraint.residualReads, lookup, takeRows, Constraint.residualDim, Res.mk1, sqr] at hr
      obtain ⟨rfl, _⟩ := hr
      simp [maxAbs?] at hl
      subst hl
      rw [abs_of_neg (by norm_num)] at hle
      simp [exCfg] at hle
      norm_num at hle
    · simp only [tinySolve, Except.ok.injEq] at hd
      subst hd
      match y, hy with
      | [a, b, c, d, e, f], _ =>
        simp [arcRet, applyStep] at hv
        obtain ⟨h1, h2, h3, h4, h5, h6⟩ := hv
        simp [← h2, ← h3, ← h4, ← h5, ← h6]
        linarith
  subst hy0
  rw [arc_jac 1] at hj
  simp at hj
  exact ⟨rfl, hj.1.symm⟩

/-- **`solve_analysis` analyses the Jacobian at the point before the last step** when the Newton
loop stops at the step-size test.  For the run above: the solve succeeds and returns `arcRet`
(`= y + d`); every `LastRound` compatible with the returned values — in particular the one of
`solveWithPriority_lastRound`, whose `jac` is what the SVD oracle receives — starts at
`y = [1, 0, 0, 2, 0, 0] ≠ arcRet` and hands on the Jacobian at `y`; the Jacobian of the same
requests at the returned values exists and has a different matrix. -/
theorem lastJac_is_before_last_step :
    ∃ o, solveWithPriority arcReqs arcG exCfg (fun _ => tinySolve) (some arcSvd) = .ok o ∧
      o.finalValues = arcRet ∧ attempted arcReqs o = arcEs ∧
      (∀ (y : List ℝ) (jac : List (Triplet ℝ)), y.length = arcG.length →
        LastRound (attempted arcReqs o) exCfg tinySolve y jac o.finalValues →
        y = [1, 0, 0, 2, 0, 0] ∧ jac = arcJac 1) ∧
      jacobianAll (attempted arcReqs o) (lookup o.finalValues) = .ok (arcJac (1 + 1e-9), []) ∧
      matOf (numRows (attempted arcReqs o)) arcG.length (arcJac (1 + 1e-9)) ≠
        matOf (numRows (attempted arcReqs o)) arcG.length (arcJac 1) := by
  obtain ⟨us, hrun⟩ := arc_run
  have hatt : attempted arcReqs (⟨[0], arcRet, 0, [], 0, some us⟩ : Outcome ℝ) = arcEs := by
    simp [attempted, arcReqs, enumerate, arcEs]
  refine ⟨_, hrun, rfl, hatt, ?_, ?_, ?_⟩
  · intro y jac hy hlr
    rw [hatt] at hlr
    exact arc_lastRound_unique y jac hy hlr
  · rw [hatt]
    exact arc_jac (1 + 1e-9)
  · rw [hatt]
    exact arc_mat_ne

end DofEntryEx

end Ezpz
