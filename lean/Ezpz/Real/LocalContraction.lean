/-
The analytic core of C02: derivative information at a solution gives the contraction hypothesis of
`contraction_gives_C02`.

* abstract part (real normed spaces): a Newton-like update `G x = x - B (r x)` with an approximate
  left inverse `B` of the derivative `D` of `r` at the solution `xs` contracts towards `xs` in a
  neighbourhood of `xs`;
* matrix part: for the damped Gauss–Newton choice `B = (JᵀJ + lam I)⁻¹ Jᵀ` the defect `1 - B J` is
  exactly `lam (JᵀJ + lam I)⁻¹`, whose quadratic form is at most `lam / (σ_min² + lam)`.
-/
import Ezpz.Real.GaussNewton3
import Mathlib.Analysis.Calculus.FDeriv.Basic
import Mathlib.Analysis.Calculus.FDeriv.Linear
import Mathlib.Analysis.Normed.Operator.Basic
import Mathlib.Analysis.Normed.Operator.NormedSpace
import Mathlib.LinearAlgebra.Matrix.NonsingularInverse
import Mathlib.Algebra.Order.BigOperators.Ring.Finset
import Mathlib.Analysis.Normed.Operator.BoundedLinearMaps
import Mathlib.Analysis.InnerProductSpace.PiL2
namespace Ezpz.GN
open Matrix Topology

section Abstract
variable {E F : Type*} [NormedAddCommGroup E] [NormedSpace ℝ E]
  [NormedAddCommGroup F] [NormedSpace ℝ F]

/-- C02.5a — **error formula of a Newton-like update** (pure algebra).  For a residual map `r` with
`r xs = 0`, a continuous linear `D` (meant: the derivative of `r` at `xs`) and *any* continuous
linear `B : F → E` (the approximate left inverse used at the current point), the update
`G x = x - B (r x)` has error
`G x - xs = (1 - B ∘ D)(x - xs) - B (r x - D (x - xs))`:
the defect of `B` as a left inverse of `D`, applied to the old error, minus `B` applied to the
linearisation remainder of `r`.  (`r xs = 0` is not even needed: the remainder is written with
`r x`, not `r x - r xs`.) -/
theorem newton_like_error (r : E → F) (xs : E) (D : E →L[ℝ] F) (B : F →L[ℝ] E) (x : E) :
    x - B (r x) - xs
      = ((1 : E →L[ℝ] E) - B.comp D) (x - xs) - B (r x - D (x - xs)) := by
  simp only [_root_.sub_apply, one_apply_eq_self, ContinuousLinearMap.comp_apply, map_sub]
  abel

/-- C02.5b — **one-point contraction estimate**.  If the left-inverse defect has norm
`‖1 - B ∘ D‖ ≤ q₁`, `‖B‖ ≤ M`, and the linearisation remainder at `x` is at most `ε‖x - xs‖`, then
the Newton-like update satisfies `‖G x - xs‖ ≤ (q₁ + M ε)‖x - xs‖`. -/
theorem newton_like_contraction (r : E → F) (xs : E) (D : E →L[ℝ] F) (B : F →L[ℝ] E) (x : E)
    (q₁ M ε : ℝ) (hq₁ : ‖(1 : E →L[ℝ] E) - B.comp D‖ ≤ q₁) (hM : ‖B‖ ≤ M)
    (hrem : ‖r x - D (x - xs)‖ ≤ ε * ‖x - xs‖) :
    ‖x - B (r x) - xs‖ ≤ (q₁ + M * ε) * ‖x - xs‖ := by
  rw [newton_like_error r xs D B x]
  have hn : 0 ≤ ‖x - xs‖ := norm_nonneg _
  have hM0 : 0 ≤ M := le_trans (norm_nonneg _) hM
  have h1 : ‖((1 : E →L[ℝ] E) - B.comp D) (x - xs)‖ ≤ q₁ * ‖x - xs‖ :=
    le_trans (ContinuousLinearMap.le_opNorm _ _) (mul_le_mul_of_nonneg_right hq₁ hn)
  have h2 : ‖B (r x - D (x - xs))‖ ≤ M * (ε * ‖x - xs‖) :=
    le_trans (ContinuousLinearMap.le_opNorm _ _)
      (mul_le_mul hM hrem (norm_nonneg _) hM0)
  calc ‖((1 : E →L[ℝ] E) - B.comp D) (x - xs) - B (r x - D (x - xs))‖
      ≤ ‖((1 : E →L[ℝ] E) - B.comp D) (x - xs)‖ + ‖B (r x - D (x - xs))‖ := norm_sub_le _ _
    _ ≤ q₁ * ‖x - xs‖ + M * (ε * ‖x - xs‖) := add_le_add h1 h2
    _ = (q₁ + M * ε) * ‖x - xs‖ := by ring

/-- Differentiability at a zero, in `ε`–`δ` form: if `r` has Fréchet derivative `D` at `xs` and
`r xs = 0`, then for every `ε > 0` there is `δ > 0` with `‖r x - D (x - xs)‖ ≤ ε‖x - xs‖` whenever
`‖x - xs‖ ≤ δ`. -/
theorem remainder_small_of_hasFDerivAt (r : E → F) (xs : E) (D : E →L[ℝ] F)
    (hD : HasFDerivAt r D xs) (hxs : r xs = 0) (ε : ℝ) (hε : 0 < ε) :
    ∃ δ : ℝ, 0 < δ ∧ ∀ x, ‖x - xs‖ ≤ δ → ‖r x - D (x - xs)‖ ≤ ε * ‖x - xs‖ := by
  have h := (hD.isLittleO).def hε
  obtain ⟨δ, hδ, hball⟩ := Metric.eventually_nhds_iff.mp h
  refine ⟨δ / 2, by linarith, fun x hx => ?_⟩
  have hdist : dist x xs < δ := by rw [dist_eq_norm]; linarith
  have := hball hdist
  simpa [hxs] using this

/-- C02.5c — **local contraction from differentiability at the solution**.  Let `r` have Fréchet
derivative `D` at `xs`, `r xs = 0`, and let the iteration use at each point `x` some continuous
linear `B x` (e.g. `(JₓᵀJₓ + lam I)⁻¹Jₓᵀ` built from the Jacobian at `x`) such that, for all `x` in a
neighbourhood of `xs`, `‖1 - B x ∘ D‖ ≤ q₁` and `‖B x‖ ≤ M`.  Then for every `q > q₁` there is a
radius `ρ > 0` such that the update contracts by `q` on the ball:
`‖x - xs‖ ≤ ρ → ‖x - B x (r x) - xs‖ ≤ q‖x - xs‖`. -/
theorem local_contraction_of_hasFDerivAt (r : E → F) (xs : E) (D : E →L[ℝ] F)
    (B : E → (F →L[ℝ] E)) (q₁ q M : ℝ) (hD : HasFDerivAt r D xs) (hxs : r xs = 0)
    (hB : ∀ᶠ x in 𝓝 xs, ‖(1 : E →L[ℝ] E) - (B x).comp D‖ ≤ q₁ ∧ ‖B x‖ ≤ M)
    (hq : q₁ < q) :
    ∃ ρ : ℝ, 0 < ρ ∧ ∀ x, ‖x - xs‖ ≤ ρ → ‖x - B x (r x) - xs‖ ≤ q * ‖x - xs‖ := by
  obtain ⟨δ₁, hδ₁, hball⟩ := Metric.eventually_nhds_iff.mp hB
  -- a positive bound on `‖B x‖`
  set M' : ℝ := |M| + 1 with hM'
  have hM'pos : 0 < M' := by positivity
  have hMM' : M ≤ M' := by have := le_abs_self M; linarith
  set ε : ℝ := (q - q₁) / M' with hε
  have hεpos : 0 < ε := div_pos (by linarith) hM'pos
  obtain ⟨δ₂, hδ₂, hrem⟩ := remainder_small_of_hasFDerivAt r xs D hD hxs ε hεpos
  refine ⟨min (δ₁ / 2) δ₂, lt_min (by linarith) hδ₂, fun x hx => ?_⟩
  have hx1 : dist x xs < δ₁ := by
    rw [dist_eq_norm]; have := min_le_left (δ₁ / 2) δ₂; linarith
  have hx2 : ‖x - xs‖ ≤ δ₂ := le_trans hx (min_le_right _ _)
  obtain ⟨hb1, hb2⟩ := hball hx1
  have h := newton_like_contraction r xs D (B x) x q₁ M' ε hb1 (le_trans hb2 hMM') (hrem x hx2)
  have hqe : q₁ + M' * ε = q := by rw [hε]; field_simp; ring
  rwa [hqe] at h

/-- The same with a strict Fréchet derivative (which is what a `C¹` residual map provides). -/
theorem local_contraction_of_hasStrictFDerivAt (r : E → F) (xs : E) (D : E →L[ℝ] F)
    (B : E → (F →L[ℝ] E)) (q₁ q M : ℝ) (hD : HasStrictFDerivAt r D xs) (hxs : r xs = 0)
    (hB : ∀ᶠ x in 𝓝 xs, ‖(1 : E →L[ℝ] E) - (B x).comp D‖ ≤ q₁ ∧ ‖B x‖ ≤ M)
    (hq : q₁ < q) :
    ∃ ρ : ℝ, 0 < ρ ∧ ∀ x, ‖x - xs‖ ≤ ρ → ‖x - B x (r x) - xs‖ ≤ q * ‖x - xs‖ :=
  local_contraction_of_hasFDerivAt r xs D B q₁ q M hD.hasFDerivAt hxs hB hq

/-- C02.5d — **C02 for a Newton-like iteration near a non-degenerate solution**.  Under the
hypotheses of `local_contraction_of_hasFDerivAt` with `q₁ < q ≤ 1/2`, the iteration
`G x = x - B x (r x)` has a radius `ρ > 0` such that from every start `x0` within `ρ` of the
solution `xs`: all iterates stay within `ρ` of `xs`; the error after `k` rounds is at most
`q^k ≤ 2^-k` times the initial one ("solved quickly"); and no iterate is farther from the start
than 1.5 times the distance from the start to `xs` ("the result stays near the guess"). -/
theorem local_newton_C02 (r : E → F) (xs : E) (D : E →L[ℝ] F)
    (B : E → (F →L[ℝ] E)) (q₁ q M : ℝ) (hD : HasFDerivAt r D xs) (hxs : r xs = 0)
    (hB : ∀ᶠ x in 𝓝 xs, ‖(1 : E →L[ℝ] E) - (B x).comp D‖ ≤ q₁ ∧ ‖B x‖ ≤ M)
    (hq : q₁ < q) (hq2 : q ≤ 1 / 2) :
    ∃ ρ : ℝ, 0 < ρ ∧ ∀ x0, ‖x0 - xs‖ ≤ ρ → ∀ k : ℕ,
      ‖(fun x => x - B x (r x))^[k] x0 - xs‖ ≤ q ^ k * ‖x0 - xs‖ ∧
      ‖(fun x => x - B x (r x))^[k] x0 - xs‖ ≤ (1 / 2) ^ k * ‖x0 - xs‖ ∧
      ‖(fun x => x - B x (r x))^[k] x0 - xs‖ ≤ ρ ∧
      ‖(fun x => x - B x (r x))^[k] x0 - x0‖ ≤ 1.5 * ‖x0 - xs‖ := by
  have hq₁0 : 0 ≤ q₁ := le_trans (norm_nonneg _) (hB.self_of_nhds).1
  have hq0 : 0 ≤ q := by linarith
  obtain ⟨ρ, hρ, hG⟩ := local_contraction_of_hasFDerivAt r xs D B q₁ q M hD hxs hB hq
  refine ⟨ρ, hρ, fun x0 h0 k => ?_⟩
  obtain ⟨h1, h2, h3⟩ :=
    contraction_gives_C02 (fun x => x - B x (r x)) xs ρ q hq0 hq2 hG x0 h0 k
  refine ⟨h1, le_trans h1 ?_, h2, h3⟩
  exact mul_le_mul_of_nonneg_right (pow_le_pow_left₀ hq0 hq2 k) (norm_nonneg _)

/-- The hypotheses of `newton_like_contraction`, `local_contraction_of_hasFDerivAt` and
`local_newton_C02` are satisfiable, non-trivially: `E = F = ℝ`, `r x = 2x` (solution `0`,
derivative `2·`), `B = ½·` at every point; the defect `1 - B ∘ D` is `0`, `‖B‖ = ½ ≤ 1`. -/
example :
    let r : ℝ → ℝ := fun x => (2 : ℝ) • x
    let D : ℝ →L[ℝ] ℝ := (2 : ℝ) • (1 : ℝ →L[ℝ] ℝ)
    let B : ℝ → (ℝ →L[ℝ] ℝ) := fun _ => (1 / 2 : ℝ) • (1 : ℝ →L[ℝ] ℝ)
    HasFDerivAt r D 0 ∧ r 0 = 0 ∧
      (∀ᶠ x in 𝓝 (0 : ℝ), ‖(1 : ℝ →L[ℝ] ℝ) - (B x).comp D‖ ≤ 0 ∧ ‖B x‖ ≤ 1) ∧
      (0 : ℝ) < 1 / 2 ∧ (1 / 2 : ℝ) ≤ 1 / 2 := by
  intro r D B
  refine ⟨?_, by simp [r], Filter.Eventually.of_forall fun x => ⟨?_, ?_⟩, by norm_num, le_rfl⟩
  · exact ((2 : ℝ) • (1 : ℝ →L[ℝ] ℝ)).hasFDerivAt
  · have : (1 : ℝ →L[ℝ] ℝ) - (B x).comp D = 0 := by
      ext; simp [B, D]
    rw [this, norm_zero]
  · refine ContinuousLinearMap.opNorm_le_bound _ (by norm_num) (fun y => ?_)
    simp only [B, _root_.smul_apply, one_apply_eq_self, smul_eq_mul, norm_mul,
      Real.norm_eq_abs]
    have : |(1 / 2 : ℝ)| = 1 / 2 := abs_of_pos (by norm_num)
    rw [this]
    have := abs_nonneg y
    linarith

/-- Hypotheses at the solution only: if `x ↦ B x` is continuous at `xs` (the approximate inverse
is built continuously from the Jacobian at `x`) and the defect *at the solution* is strictly below
`q₁`, `‖1 - B xs ∘ D‖ < q₁`, then the neighbourhood hypothesis of
`local_contraction_of_hasFDerivAt` holds with `M = ‖B xs‖ + 1`. -/
theorem eventually_defect_of_continuousAt (xs : E) (D : E →L[ℝ] F) (B : E → (F →L[ℝ] E))
    (q₁ : ℝ) (hcont : ContinuousAt B xs) (h0 : ‖(1 : E →L[ℝ] E) - (B xs).comp D‖ < q₁) :
    ∀ᶠ x in 𝓝 xs, ‖(1 : E →L[ℝ] E) - (B x).comp D‖ ≤ q₁ ∧ ‖B x‖ ≤ ‖B xs‖ + 1 := by
  have hc1 : ContinuousAt (fun x => ‖(1 : E →L[ℝ] E) - (B x).comp D‖) xs :=
    (continuousAt_const.sub (hcont.clm_comp continuousAt_const)).norm
  have hc2 : ContinuousAt (fun x => ‖B x‖) xs := hcont.norm
  have e1 := hc1.tendsto.eventually (Iio_mem_nhds h0)
  have e2 := hc2.tendsto.eventually (Iio_mem_nhds (lt_add_one ‖B xs‖))
  filter_upwards [e1, e2] with x h1 h2
  exact ⟨le_of_lt h1, le_of_lt h2⟩

/-- C02.5e — **C02 from data at the solution**: `r` differentiable at the solution `xs` with
derivative `D`, `r xs = 0`, the approximate inverse `B x` continuous in `x` at `xs`, and the defect
at the solution `‖1 - B xs ∘ D‖ < 1/2`.  Then there is `ρ > 0` such that from every start within
`ρ` of `xs` the iteration `x ↦ x - B x (r x)` halves the error each round, stays within `ρ` of
`xs`, and never gets farther from the start than 1.5 times the start-to-solution distance. -/
theorem local_newton_C02_of_continuousAt (r : E → F) (xs : E) (D : E →L[ℝ] F)
    (B : E → (F →L[ℝ] E)) (hD : HasFDerivAt r D xs) (hxs : r xs = 0)
    (hcont : ContinuousAt B xs) (h0 : ‖(1 : E →L[ℝ] E) - (B xs).comp D‖ < 1 / 2) :
    ∃ ρ : ℝ, 0 < ρ ∧ ∀ x0, ‖x0 - xs‖ ≤ ρ → ∀ k : ℕ,
      ‖(fun x => x - B x (r x))^[k] x0 - xs‖ ≤ (1 / 2) ^ k * ‖x0 - xs‖ ∧
      ‖(fun x => x - B x (r x))^[k] x0 - xs‖ ≤ ρ ∧
      ‖(fun x => x - B x (r x))^[k] x0 - x0‖ ≤ 1.5 * ‖x0 - xs‖ := by
  obtain ⟨q₁, hq₁a, hq₁b⟩ := exists_between h0
  obtain ⟨ρ, hρ, h⟩ := local_newton_C02 r xs D B q₁ (1 / 2) (‖B xs‖ + 1) hD hxs
    (eventually_defect_of_continuousAt xs D B q₁ hcont hq₁a) hq₁b le_rfl
  exact ⟨ρ, hρ, fun x0 hx0 k => ⟨(h x0 hx0 k).1, (h x0 hx0 k).2.2.1, (h x0 hx0 k).2.2.2⟩⟩

end Abstract

section Damped
set_option linter.unusedSectionVars false
variable {m n : Type} [Fintype m] [Fintype n] [DecidableEq n]

/-- The damped normal matrix `JᵀJ + lam I` is invertible for positive damping (its determinant is a
unit), from `normal_matrix_ker`. -/
theorem normal_matrix_isUnit_det (J : Matrix m n ℝ) (lam : ℝ) (hlam : 0 < lam) :
    IsUnit (Jᵀ * J + lam • (1 : Matrix n n ℝ)).det := by
  rw [← Matrix.isUnit_iff_isUnit_det, ← Matrix.mulVec_injective_iff_isUnit]
  intro a b hab
  have hab' : (Jᵀ * J + lam • (1 : Matrix n n ℝ)) *ᵥ a
      = (Jᵀ * J + lam • (1 : Matrix n n ℝ)) *ᵥ b := hab
  have h0 : (Jᵀ * J + lam • (1 : Matrix n n ℝ)) *ᵥ (a - b) = 0 := by
    rw [mulVec_sub, hab', sub_self]
  exact sub_eq_zero.mp (normal_matrix_ker J lam hlam _ h0)

/-- C02.6a — **the left-inverse defect of the damped Gauss–Newton step**:
`(JᵀJ + lam I)⁻¹ (JᵀJ) = 1 - lam (JᵀJ + lam I)⁻¹`.  So with `B = (JᵀJ + lam I)⁻¹Jᵀ` (the map
residual ↦ minus step, see `step_iff_eq_inv`) the defect in `newton_like_error` is
`1 - B J = lam (JᵀJ + lam I)⁻¹` (`damped_defect'`).

Meaning.  When `J` has full column rank (the solution is non-degenerate and the sketch is pinned
down), the spectral norm of `lam (JᵀJ + lam I)⁻¹` is `lam / (σ_min² + lam)` (`σ_min` the least
singular value of `J`; see `damped_defect_norm_le` for the bound), which is tiny for the code's
`lam = 1e-9`: `q₁ ≈ 0` and `local_newton_C02` applies with room to spare.  When `J` is
rank-deficient the defect acts as the identity on `ker J` (`damped_defect_on_kernel`), has norm 1,
and no contraction follows: the iterates may slide along the solution manifold — the regime of
known finding F15. -/
theorem damped_defect (J : Matrix m n ℝ) (lam : ℝ) (hlam : 0 < lam) :
    (Jᵀ * J + lam • (1 : Matrix n n ℝ))⁻¹ * (Jᵀ * J)
      = 1 - lam • (Jᵀ * J + lam • (1 : Matrix n n ℝ))⁻¹ := by
  have hu := normal_matrix_isUnit_det J lam hlam
  obtain ⟨A, hA⟩ : ∃ A, A = Jᵀ * J + lam • (1 : Matrix n n ℝ) := ⟨_, rfl⟩
  rw [← hA] at hu ⊢
  have h : A⁻¹ * A = 1 := nonsing_inv_mul _ hu
  have e : Jᵀ * J = A - lam • (1 : Matrix n n ℝ) := by rw [hA]; abel
  rw [e, mul_sub, h, mul_smul_comm, mul_one]

/-- The defect written with `B = (JᵀJ + lam I)⁻¹Jᵀ`: `1 - B J = lam (JᵀJ + lam I)⁻¹`. -/
theorem damped_defect' (J : Matrix m n ℝ) (lam : ℝ) (hlam : 0 < lam) :
    1 - ((Jᵀ * J + lam • (1 : Matrix n n ℝ))⁻¹ * Jᵀ) * J
      = lam • (Jᵀ * J + lam • (1 : Matrix n n ℝ))⁻¹ := by
  rw [Matrix.mul_assoc, damped_defect J lam hlam]; abel

/-- The damped step *is* the Newton-like update with `B = (JᵀJ + lam I)⁻¹Jᵀ`:
`IsStep J r lam d ↔ d = -(B r)`, so `x + d = x - B r`. -/
theorem step_iff_eq_inv (J : Matrix m n ℝ) (r : m → ℝ) (lam : ℝ) (hlam : 0 < lam) (d : n → ℝ) :
    IsStep J r lam d ↔ d = -(((Jᵀ * J + lam • (1 : Matrix n n ℝ))⁻¹ * Jᵀ) *ᵥ r) := by
  have hu := normal_matrix_isUnit_det J lam hlam
  unfold IsStep
  obtain ⟨A, hA⟩ : ∃ A, A = Jᵀ * J + lam • (1 : Matrix n n ℝ) := ⟨_, rfl⟩
  rw [← hA] at hu ⊢
  have h1 : A⁻¹ * A = 1 := nonsing_inv_mul _ hu
  have h2 : A * A⁻¹ = 1 := mul_nonsing_inv _ hu
  constructor
  · intro h
    have : A⁻¹ *ᵥ (A *ᵥ d) = A⁻¹ *ᵥ (-(Jᵀ *ᵥ r)) := by rw [h]
    rw [mulVec_mulVec, h1, one_mulVec, mulVec_neg, mulVec_mulVec] at this
    exact this
  · intro h
    rw [h, mulVec_neg, mulVec_mulVec, ← Matrix.mul_assoc, h2, Matrix.one_mul]

/-- On the kernel of `J` the defect `lam (JᵀJ + lam I)⁻¹` is the identity: a rank-deficient
Jacobian gives no contraction in kernel directions (the F15 regime). -/
theorem damped_defect_on_kernel (J : Matrix m n ℝ) (lam : ℝ) (hlam : 0 < lam) (z : n → ℝ)
    (hz : J *ᵥ z = 0) : (lam • (Jᵀ * J + lam • (1 : Matrix n n ℝ))⁻¹) *ᵥ z = z := by
  have hu := normal_matrix_isUnit_det J lam hlam
  have hAz : (Jᵀ * J + lam • (1 : Matrix n n ℝ)) *ᵥ z = lam • z := by
    rw [add_mulVec, smul_mulVec, one_mulVec, ← mulVec_mulVec, hz, mulVec_zero, zero_add]
  obtain ⟨A, hA⟩ : ∃ A, A = Jᵀ * J + lam • (1 : Matrix n n ℝ) := ⟨_, rfl⟩
  rw [← hA] at hu hAz ⊢
  have h1 : A⁻¹ * A = 1 := nonsing_inv_mul _ hu
  have : A⁻¹ *ᵥ (A *ᵥ z) = A⁻¹ *ᵥ (lam • z) := by rw [hAz]
  rw [mulVec_mulVec, h1, one_mulVec, mulVec_smul] at this
  rw [smul_mulVec, ← this]

/-- Cauchy–Schwarz for the dot product. -/
theorem dot_sq_le {k : Type} [Fintype k] (v w : k → ℝ) :
    (v ⬝ᵥ w) ^ 2 ≤ (v ⬝ᵥ v) * (w ⬝ᵥ w) := by
  have := Finset.sum_mul_sq_le_sq_mul_sq Finset.univ v w
  simpa [dotProduct, sq] using this

/-- The three quantities behind both bounds below.  With `w = (JᵀJ + lam I)⁻¹ z`,
`a = ‖J w‖²`, `b = ‖w‖²`, `g = ‖JᵀJ w‖²`: `z·(lam w) = lam (a + lam b)`,
`‖z‖² = g + 2 lam a + lam² b`, and `a² ≤ b g`. -/
theorem damped_quantities (J : Matrix m n ℝ) (lam : ℝ) (hlam : 0 < lam) (z : n → ℝ) :
    ∃ w : n → ℝ, (Jᵀ * J + lam • (1 : Matrix n n ℝ))⁻¹ *ᵥ z = w ∧
      z ⬝ᵥ w = (J *ᵥ w) ⬝ᵥ (J *ᵥ w) + lam * (w ⬝ᵥ w) ∧
      z ⬝ᵥ z = (Jᵀ *ᵥ (J *ᵥ w)) ⬝ᵥ (Jᵀ *ᵥ (J *ᵥ w)) + 2 * lam * ((J *ᵥ w) ⬝ᵥ (J *ᵥ w))
        + lam ^ 2 * (w ⬝ᵥ w) ∧
      ((J *ᵥ w) ⬝ᵥ (J *ᵥ w)) ^ 2 ≤ (w ⬝ᵥ w) * ((Jᵀ *ᵥ (J *ᵥ w)) ⬝ᵥ (Jᵀ *ᵥ (J *ᵥ w))) := by
  have hu := normal_matrix_isUnit_det J lam hlam
  refine ⟨(Jᵀ * J + lam • (1 : Matrix n n ℝ))⁻¹ *ᵥ z, rfl, ?_⟩
  set w := (Jᵀ * J + lam • (1 : Matrix n n ℝ))⁻¹ *ᵥ z with hw
  have hAw : (Jᵀ * J + lam • (1 : Matrix n n ℝ)) *ᵥ w = z := by
    rw [hw, mulVec_mulVec, mul_nonsing_inv _ hu, one_mulVec]
  have hAw' : z = Jᵀ *ᵥ (J *ᵥ w) + lam • w := by
    have h := hAw
    rw [add_mulVec, smul_mulVec, one_mulVec, ← mulVec_mulVec] at h
    exact h.symm
  have hwu : w ⬝ᵥ (Jᵀ *ᵥ (J *ᵥ w)) = (J *ᵥ w) ⬝ᵥ (J *ᵥ w) := by
    rw [dotProduct_mulVec, vecMul_transpose]
  have huw : (Jᵀ *ᵥ (J *ᵥ w)) ⬝ᵥ w = (J *ᵥ w) ⬝ᵥ (J *ᵥ w) := by
    rw [dotProduct_comm, hwu]
  refine ⟨?_, ?_, ?_⟩
  · rw [dotProduct_comm, ← hAw]; exact quad_form J lam w
  · conv_lhs => rw [hAw']
    simp only [add_dotProduct, dotProduct_add, smul_dotProduct, dotProduct_smul, smul_eq_mul,
      hwu, huw]
    ring
  · have := dot_sq_le w (Jᵀ *ᵥ (J *ᵥ w))
    rwa [hwu] at this

/-- C02.6b — **size of the defect, quadratic form**.  If `σ_min(J)² ≥ c ≥ 0`, i.e.
`c‖v‖² ≤ ‖J v‖²` for all `v`, then the (symmetric, positive definite) defect
`lam (JᵀJ + lam I)⁻¹` has Rayleigh quotient at most `lam / (c + lam)`:
`z·(lam (JᵀJ + lam I)⁻¹ z) ≤ lam/(c + lam) · ‖z‖²`. -/
theorem damped_defect_quad_le (J : Matrix m n ℝ) (lam : ℝ) (hlam : 0 < lam) (c : ℝ) (hc : 0 ≤ c)
    (hJ : ∀ v : n → ℝ, c * (v ⬝ᵥ v) ≤ (J *ᵥ v) ⬝ᵥ (J *ᵥ v)) (z : n → ℝ) :
    z ⬝ᵥ ((lam • (Jᵀ * J + lam • (1 : Matrix n n ℝ))⁻¹) *ᵥ z) ≤ lam / (c + lam) * (z ⬝ᵥ z) := by
  obtain ⟨w, hw, h1, h2, h3⟩ := damped_quantities J lam hlam z
  rw [smul_mulVec, hw, dotProduct_smul, smul_eq_mul, h1, h2]
  have ha : 0 ≤ (J *ᵥ w) ⬝ᵥ (J *ᵥ w) := dot_self_nonneg _
  have hb : 0 ≤ w ⬝ᵥ w := dot_self_nonneg _
  have hg : 0 ≤ (Jᵀ *ᵥ (J *ᵥ w)) ⬝ᵥ (Jᵀ *ᵥ (J *ᵥ w)) := dot_self_nonneg _
  have hcb := hJ w
  set a := (J *ᵥ w) ⬝ᵥ (J *ᵥ w)
  set b := w ⬝ᵥ w
  set g := (Jᵀ *ᵥ (J *ᵥ w)) ⬝ᵥ (Jᵀ *ᵥ (J *ᵥ w))
  have hcag : c * a ≤ g := by
    rcases ha.eq_or_lt with h0 | hpos
    · rw [← h0, mul_zero]; exact hg
    · have : c * a * a ≤ g * a := by nlinarith [mul_nonneg hc hg, mul_nonneg hc hb]
      exact le_of_mul_le_mul_right this hpos
  have hcl : 0 < c + lam := by linarith
  rw [div_mul_eq_mul_div, le_div_iff₀ hcl]
  nlinarith [mul_nonneg hlam.le (sub_nonneg.mpr hcb), mul_nonneg hlam.le (sub_nonneg.mpr hcag)]

/-- The defect never expands in the quadratic-form sense, whatever the rank of `J`:
`z·(lam (JᵀJ + lam I)⁻¹ z) ≤ ‖z‖²` (the case `c = 0` of `damped_defect_quad_le`; equality on
`ker J` by `damped_defect_on_kernel`). -/
theorem damped_defect_quad_le_one (J : Matrix m n ℝ) (lam : ℝ) (hlam : 0 < lam) (z : n → ℝ) :
    z ⬝ᵥ ((lam • (Jᵀ * J + lam • (1 : Matrix n n ℝ))⁻¹) *ᵥ z) ≤ z ⬝ᵥ z := by
  have h := damped_defect_quad_le J lam hlam 0 le_rfl
    (fun v => by rw [zero_mul]; exact dot_self_nonneg _) z
  rwa [zero_add, div_self hlam.ne', one_mul] at h

/-- C02.6c — **size of the defect, Euclidean operator-norm form**.  If `c‖v‖² ≤ ‖J v‖²` for all
`v` (`σ_min(J)² ≥ c ≥ 0`), then `‖lam (JᵀJ + lam I)⁻¹ z‖² ≤ (lam/(c + lam))² ‖z‖²` for every `z`:
the Euclidean operator norm of the defect is at most `lam / (c + lam)`.  For `lam = 1e-9` and a
well-conditioned sketch (`c` of order 1) this is `≈ 1e-9`. -/
theorem damped_defect_norm_le (J : Matrix m n ℝ) (lam : ℝ) (hlam : 0 < lam) (c : ℝ) (hc : 0 ≤ c)
    (hJ : ∀ v : n → ℝ, c * (v ⬝ᵥ v) ≤ (J *ᵥ v) ⬝ᵥ (J *ᵥ v)) (z : n → ℝ) :
    ((lam • (Jᵀ * J + lam • (1 : Matrix n n ℝ))⁻¹) *ᵥ z) ⬝ᵥ
        ((lam • (Jᵀ * J + lam • (1 : Matrix n n ℝ))⁻¹) *ᵥ z)
      ≤ (lam / (c + lam)) ^ 2 * (z ⬝ᵥ z) := by
  obtain ⟨w, hw, h1, h2, h3⟩ := damped_quantities J lam hlam z
  rw [smul_mulVec, hw, dotProduct_smul, smul_dotProduct, smul_eq_mul, smul_eq_mul, h2]
  have ha : 0 ≤ (J *ᵥ w) ⬝ᵥ (J *ᵥ w) := dot_self_nonneg _
  have hb : 0 ≤ w ⬝ᵥ w := dot_self_nonneg _
  have hg : 0 ≤ (Jᵀ *ᵥ (J *ᵥ w)) ⬝ᵥ (Jᵀ *ᵥ (J *ᵥ w)) := dot_self_nonneg _
  have hcb := hJ w
  set a := (J *ᵥ w) ⬝ᵥ (J *ᵥ w)
  set b := w ⬝ᵥ w
  set g := (Jᵀ *ᵥ (J *ᵥ w)) ⬝ᵥ (Jᵀ *ᵥ (J *ᵥ w))
  have hcag : c * a ≤ g := by
    rcases ha.eq_or_lt with h0 | hpos
    · rw [← h0, mul_zero]; exact hg
    · have : c * a * a ≤ g * a := by nlinarith [mul_nonneg hc hg, mul_nonneg hc hb]
      exact le_of_mul_le_mul_right this hpos
  have hcl : 0 < c + lam := by linarith
  rw [div_pow, div_mul_eq_mul_div, le_div_iff₀ (pow_pos hcl 2)]
  have hc2b : c * (c * b) ≤ c * a := mul_le_mul_of_nonneg_left hcb hc
  nlinarith [mul_nonneg (sq_nonneg lam) (sub_nonneg.mpr hcag),
    mul_nonneg (sq_nonneg lam) (sub_nonneg.mpr hc2b),
    mul_nonneg (mul_nonneg (sq_nonneg lam) hlam.le) (mul_nonneg hc (sub_nonneg.mpr hcb)),
    mul_nonneg (sq_nonneg lam) (mul_nonneg hlam.le (sub_nonneg.mpr hcb))]

end Damped

section Euclidean
set_option linter.unusedSectionVars false
variable {m n k : Type} [Fintype m] [Fintype n] [Fintype k] [DecidableEq n] [DecidableEq m]
  [DecidableEq k]

/-- A real matrix as a continuous linear map between Euclidean spaces (`ℓ²` norms). -/
noncomputable def euclCLM (M : Matrix m n ℝ) : EuclideanSpace ℝ n →L[ℝ] EuclideanSpace ℝ m :=
  LinearMap.toContinuousLinearMap (Matrix.toEuclideanLin M)

/-- `euclCLM M v` has coordinates `M *ᵥ v`. -/
theorem euclCLM_apply (M : Matrix m n ℝ) (v : EuclideanSpace ℝ n) :
    (euclCLM M v).ofLp = M *ᵥ v.ofLp := rfl

/-- The squared Euclidean norm is the dot product of the coordinate vector with itself. -/
theorem eucl_norm_sq (v : EuclideanSpace ℝ n) : ‖v‖ ^ 2 = v.ofLp ⬝ᵥ v.ofLp := by
  rw [EuclideanSpace.real_norm_sq_eq]
  simp [dotProduct, sq]

/-- A bound `‖M z‖² ≤ K²‖z‖²` in dot-product form is a bound `‖M‖ ≤ K` on the Euclidean operator
norm. -/
theorem euclCLM_norm_le (M : Matrix m n ℝ) (K : ℝ) (hK : 0 ≤ K)
    (h : ∀ z : n → ℝ, (M *ᵥ z) ⬝ᵥ (M *ᵥ z) ≤ K ^ 2 * (z ⬝ᵥ z)) : ‖euclCLM M‖ ≤ K := by
  refine ContinuousLinearMap.opNorm_le_bound _ hK (fun v => ?_)
  have h1 : ‖euclCLM M v‖ ^ 2 ≤ (K * ‖v‖) ^ 2 := by
    rw [mul_pow, eucl_norm_sq, eucl_norm_sq, euclCLM_apply]
    exact h _
  exact (pow_le_pow_iff_left₀ (norm_nonneg _) (mul_nonneg hK (norm_nonneg _)) two_ne_zero).mp h1

/-- C02.6d — **the damped Gauss–Newton defect as an operator norm**.  With `J` the Jacobian at the
solution, `B = (JᵀJ + lam I)⁻¹Jᵀ`, `lam > 0` and `σ_min(J)² ≥ c ≥ 0` (`c‖v‖² ≤ ‖J v‖²` for all
`v`), the left-inverse defect in Euclidean operator norm is `‖1 - B J‖ ≤ lam / (c + lam)`.  This is
the `q₁` of `newton_like_contraction` / `local_newton_C02_of_continuousAt`: below `1/2` as soon
as `c > lam`, and `≈ 1e-9 / c` for the code's damping. -/
theorem damped_defect_opNorm_le (J : Matrix m n ℝ) (lam : ℝ) (hlam : 0 < lam) (c : ℝ) (hc : 0 ≤ c)
    (hJ : ∀ v : n → ℝ, c * (v ⬝ᵥ v) ≤ (J *ᵥ v) ⬝ᵥ (J *ᵥ v)) :
    ‖(1 : EuclideanSpace ℝ n →L[ℝ] EuclideanSpace ℝ n)
        - (euclCLM ((Jᵀ * J + lam • (1 : Matrix n n ℝ))⁻¹ * Jᵀ)).comp (euclCLM J)‖
      ≤ lam / (c + lam) := by
  have e : (1 : EuclideanSpace ℝ n →L[ℝ] EuclideanSpace ℝ n)
        - (euclCLM ((Jᵀ * J + lam • (1 : Matrix n n ℝ))⁻¹ * Jᵀ)).comp (euclCLM J)
      = euclCLM (lam • (Jᵀ * J + lam • (1 : Matrix n n ℝ))⁻¹) := by
    ext v : 1
    apply (WithLp.ofLp_injective 2)
    rw [euclCLM_apply, ← damped_defect' J lam hlam, sub_mulVec, one_mulVec, ← mulVec_mulVec]
    rfl
  rw [e]
  exact euclCLM_norm_le _ _ (div_nonneg hlam.le (by linarith))
    (damped_defect_norm_le J lam hlam c hc hJ)

/-- C02.6e — **C02 for damped Gauss–Newton near a non-degenerate solution**.  Let the residual map
`r : ℝⁿ → ℝᵐ` be differentiable at the solution `xs` (`r xs = 0`) with Jacobian `J`, let
`σ_min(J)² ≥ c > lam > 0` (full column rank, damping below the smallest squared singular value),
and let the iteration use at `x` the matrix `Jx x` (`Jx xs = J`) through
`B x = (JxᵀJx + lam I)⁻¹Jxᵀ`, depending continuously on `x` at `xs`.  By `step_iff_eq_inv`,
`x - B x (r x)` is exactly `x + d` for the damped step `d` of `(Jx x, r x)`.  Then there is `ρ > 0`
such that from every guess `x0` within `ρ` of `xs`: the error at least halves every round, all
iterates stay within `ρ` of `xs`, and no iterate is farther from the guess than `1.5‖x0 - xs‖`.
(The hypothesis `lam < c` fails exactly when the solution is degenerate/under-constrained at the
scale of the damping — the F15 regime, where `damped_defect_on_kernel` shows there is no
contraction.) -/
theorem gauss_newton_local_C02 (r : EuclideanSpace ℝ n → EuclideanSpace ℝ m)
    (xs : EuclideanSpace ℝ n) (J : Matrix m n ℝ) (Jx : EuclideanSpace ℝ n → Matrix m n ℝ)
    (lam c : ℝ) (hlam : 0 < lam) (hc : lam < c)
    (hJ : ∀ v : n → ℝ, c * (v ⬝ᵥ v) ≤ (J *ᵥ v) ⬝ᵥ (J *ᵥ v))
    (hD : HasFDerivAt r (euclCLM J) xs) (hxs : r xs = 0) (hJxs : Jx xs = J)
    (hcont : ContinuousAt
      (fun x => euclCLM (((Jx x)ᵀ * Jx x + lam • (1 : Matrix n n ℝ))⁻¹ * (Jx x)ᵀ)) xs) :
    ∃ ρ : ℝ, 0 < ρ ∧ ∀ x0, ‖x0 - xs‖ ≤ ρ → ∀ k : ℕ,
      ‖(fun x => x - euclCLM (((Jx x)ᵀ * Jx x + lam • (1 : Matrix n n ℝ))⁻¹ * (Jx x)ᵀ) (r x))^[k]
          x0 - xs‖ ≤ (1 / 2) ^ k * ‖x0 - xs‖ ∧
      ‖(fun x => x - euclCLM (((Jx x)ᵀ * Jx x + lam • (1 : Matrix n n ℝ))⁻¹ * (Jx x)ᵀ) (r x))^[k]
          x0 - xs‖ ≤ ρ ∧
      ‖(fun x => x - euclCLM (((Jx x)ᵀ * Jx x + lam • (1 : Matrix n n ℝ))⁻¹ * (Jx x)ᵀ) (r x))^[k]
          x0 - x0‖ ≤ 1.5 * ‖x0 - xs‖ := by
  refine local_newton_C02_of_continuousAt r xs (euclCLM J)
    (fun x => euclCLM (((Jx x)ᵀ * Jx x + lam • (1 : Matrix n n ℝ))⁻¹ * (Jx x)ᵀ)) hD hxs hcont ?_
  have hc0 : 0 ≤ c := by linarith
  have h := damped_defect_opNorm_le J lam hlam c hc0 hJ
  simp only [hJxs]
  refine lt_of_le_of_lt h ?_
  rw [div_lt_iff₀ (by linarith)]
  linarith

/-- The hypotheses of `gauss_newton_local_C02` (and of `damped_defect_quad_le`,
`damped_defect_norm_le`, `damped_defect_opNorm_le`) are satisfiable: `r = id` on `ℝ²`, `J = 1`,
`c = 1`, `lam = 1e-9`, Jacobian frozen at `1`. -/
example :
    let r : EuclideanSpace ℝ (Fin 2) → EuclideanSpace ℝ (Fin 2) := fun x => x
    let J : Matrix (Fin 2) (Fin 2) ℝ := 1
    let Jx : EuclideanSpace ℝ (Fin 2) → Matrix (Fin 2) (Fin 2) ℝ := fun _ => 1
    (0 : ℝ) < 1e-9 ∧ (1e-9 : ℝ) < 1 ∧
      (∀ v : Fin 2 → ℝ, 1 * (v ⬝ᵥ v) ≤ (J *ᵥ v) ⬝ᵥ (J *ᵥ v)) ∧
      HasFDerivAt r (euclCLM J) 0 ∧ r 0 = 0 ∧ Jx 0 = J ∧
      ContinuousAt (fun x =>
        euclCLM (((Jx x)ᵀ * Jx x + (1e-9 : ℝ) • (1 : Matrix (Fin 2) (Fin 2) ℝ))⁻¹ * (Jx x)ᵀ)) 0 := by
  intro r J Jx
  refine ⟨by norm_num, by norm_num, fun v => by simp [J], ?_, rfl, rfl, continuousAt_const⟩
  have : euclCLM J = ContinuousLinearMap.id ℝ (EuclideanSpace ℝ (Fin 2)) := by
    ext v : 1
    apply (WithLp.ofLp_injective 2)
    rw [euclCLM_apply]; simp [J]
  rw [this]
  exact hasFDerivAt_id _

end Euclidean

end Ezpz.GN
