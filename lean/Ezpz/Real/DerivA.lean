/-
C13 over ℝ, part A: `LinesEqualLength`, `ArcRadius`, `LineTangentToCircle`.
-/
import Ezpz.Real.Deriv
namespace Ezpz
open Transc Filter Topology

variable (v u : Nat → ℝ)

/-! ### Shared helper: the length of a segment along the line -/

/-- Squared length of the difference of the points `(a, c)` and `(b, d)` (given by variable ids). -/
def segSq (v : Nat → ℝ) (a b c d : Nat) : ℝ :=
  (v a - v b) * (v a - v b) + (v c - v d) * (v c - v d)

theorem segSq_nonneg (a b c d : Nat) : 0 ≤ segSq v a b c d := by
  unfold segSq; nlinarith [mul_self_nonneg (v a - v b), mul_self_nonneg (v c - v d)]

/-- `¬ √s < EPS` gives `s ≠ 0`. -/
theorem ne_zero_of_not_sqrt_lt {s : ℝ} (h : ¬ Real.sqrt s < EPS) : s ≠ 0 := by
  intro h0
  rw [h0, Real.sqrt_zero] at h
  exact h EPS_pos

/-- Derivative at 0 of `t ↦ √((a-b)² + (c-d)²)` along the line, away from length zero. -/
theorem hasDerivAt_seglen (a b c d : Nat) (h : segSq v a b c d ≠ 0) :
    HasDerivAt (fun t => Real.sqrt (segSq (lineThrough v u t) a b c d))
      (((v a - v b) * (u a - u b) + (v c - v d) * (u c - u d)) / Real.sqrt (segSq v a b c d)) 0 := by
  have hpos : 0 < Real.sqrt (segSq v a b c d) :=
    Real.sqrt_pos.mpr (lt_of_le_of_ne (segSq_nonneg v a b c d) (Ne.symm h))
  unfold segSq at *
  apply HasDerivAt.congr_deriv
  · deriv_struct
    simpa [lineThrough] using h
  · lits
    have hs := hpos.ne'
    field_simp
    ring

/-! ### Lines of equal length -/

/-- Both segments have length at least `EPS` (the Jacobian guard `len0 < EPS ∨ len1 < EPS` is
inactive). The residual has no guard. -/
def RegularLinesEqualLength (l0 l1 : Seg) (v : Nat → ℝ) : Prop :=
  ¬ Real.sqrt (segSq v l0.p0.x l0.p1.x l0.p0.y l0.p1.y) < EPS ∧
  ¬ Real.sqrt (segSq v l1.p0.x l1.p1.x l1.p0.y l1.p1.y) < EPS

theorem regularLinesEqualLength_iff (l0 l1 : Seg) :
    RegularLinesEqualLength l0 l1 v ↔
      ((Constraint.linesEqualLength l0 l1).jacobianV v).degenerate = false := by
  unfold RegularLinesEqualLength segSq
  simp only [Constraint.jacobianV, hypot_real]
  by_cases h : Real.sqrt ((v l0.p0.x - v l0.p1.x) * (v l0.p0.x - v l0.p1.x) +
      (v l0.p0.y - v l0.p1.y) * (v l0.p0.y - v l0.p1.y)) < EPS ∨
      Real.sqrt ((v l1.p0.x - v l1.p1.x) * (v l1.p0.x - v l1.p1.x) +
      (v l1.p0.y - v l1.p1.y) * (v l1.p0.y - v l1.p1.y)) < EPS
  · rw [if_pos h]; simp only [Bool.true_eq_false, iff_false]; tauto
  · rw [if_neg h]; simp only [iff_true]; tauto

theorem deriv_linesEqualLength (l0 l1 : Seg) (hreg : RegularLinesEqualLength l0 l1 v) :
    DerivRow (.linesEqualLength l0 l1) v u (·.r0) (·.r0) := by
  obtain ⟨h0, h1⟩ := hreg
  have d0 := hasDerivAt_seglen v u _ _ _ _ (ne_zero_of_not_sqrt_lt h0)
  have d1 := hasDerivAt_seglen v u _ _ _ _ (ne_zero_of_not_sqrt_lt h1)
  have hs0 := (lt_of_lt_of_le EPS_pos (not_lt.mp h0)).ne'
  have hs1 := (lt_of_lt_of_le EPS_pos (not_lt.mp h1)).ne'
  unfold segSq at *
  unfold DerivRow
  simp only [Constraint.residualV, Constraint.jacobianV, jvars4, hypot_real, Res.mk1]
  rw [if_neg (by rintro (h | h); exact h0 h; exact h1 h)]
  simp only [rowApply, List.map_cons, List.map_nil, List.sum_cons, List.sum_nil]
  refine HasDerivAt.congr_deriv (d0.sub d1) ?_
  field_simp
  ring

example : RegularLinesEqualLength ⟨⟨0, 1⟩, ⟨2, 3⟩⟩ ⟨⟨4, 5⟩, ⟨6, 7⟩⟩
    (fun i => if i = 2 ∨ i = 6 then 1 else 0) := by
  unfold RegularLinesEqualLength segSq
  norm_num [EPS_real]

/-! ### Arc radius -/

/-- `distJacRow` outside its guard. -/
theorem distJacRow_of_not_lt (p0 p1 : Pt)
    (h : ¬ Real.sqrt (segSq v p0.x p1.x p0.y p1.y) < EPS) :
    distJacRow v p0 p1 =
      some [⟨p0.x, (v p0.x - v p1.x) / Real.sqrt (segSq v p0.x p1.x p0.y p1.y)⟩,
            ⟨p0.y, (v p0.y - v p1.y) / Real.sqrt (segSq v p0.x p1.x p0.y p1.y)⟩,
            ⟨p1.x, (-v p0.x + v p1.x) / Real.sqrt (segSq v p0.x p1.x p0.y p1.y)⟩,
            ⟨p1.y, (-v p0.y + v p1.y) / Real.sqrt (segSq v p0.x p1.x p0.y p1.y)⟩] := by
  unfold segSq at *
  simp only [distJacRow, hypot_real]
  rw [if_neg h]

/-- `distJacRow` inside its guard. -/
theorem distJacRow_of_lt (p0 p1 : Pt)
    (h : Real.sqrt (segSq v p0.x p1.x p0.y p1.y) < EPS) : distJacRow v p0 p1 = none := by
  unfold segSq at *
  simp only [distJacRow, hypot_real]
  rw [if_pos h]

/-- The `Distance`-like term `distResidual` and a present `distJacRow`: the row is the derivative. -/
theorem hasDerivAt_distResidual (p0 p1 : Pt) (d : ℝ)
    (h : ¬ Real.sqrt (segSq v p0.x p1.x p0.y p1.y) < EPS) :
    HasDerivAt (fun t => distResidual (lineThrough v u t) p0 p1 d)
      (rowApply ((distJacRow v p0 p1).getD []) u) 0 := by
  rw [distJacRow_of_not_lt v p0 p1 h]
  have d0 := hasDerivAt_seglen v u _ _ _ _ (ne_zero_of_not_sqrt_lt h)
  have hs0 := (lt_of_lt_of_le EPS_pos (not_lt.mp h)).ne'
  unfold segSq at *
  simp only [distResidual, hypot_real, Option.getD_some, rowApply, List.map_cons, List.map_nil,
    List.sum_cons, List.sum_nil]
  refine HasDerivAt.congr_deriv (d0.sub_const d) ?_
  field_simp
  ring

/-- Row 0 of `ArcRadius` is present: `EPS ≤ |center − start|`. -/
def RegularArcRadius0 (a : ArcD) (v : Nat → ℝ) : Prop :=
  ¬ Real.sqrt (segSq v a.center.x a.start.x a.center.y a.start.y) < EPS

/-- Row 1 of `ArcRadius` is present: `EPS ≤ |center − stop|`. -/
def RegularArcRadius1 (a : ArcD) (v : Nat → ℝ) : Prop :=
  ¬ Real.sqrt (segSq v a.center.x a.stop.x a.center.y a.stop.y) < EPS

/-- Both rows of `ArcRadius` are present (neither `distJacRow` guard is active). The residual has
no guard. -/
def RegularArcRadius (a : ArcD) (v : Nat → ℝ) : Prop :=
  RegularArcRadius0 a v ∧ RegularArcRadius1 a v

theorem regularArcRadius_iff (a : ArcD) (r : ℝ) :
    RegularArcRadius a v ↔ ((Constraint.arcRadius a r).jacobianV v).degenerate = false := by
  unfold RegularArcRadius RegularArcRadius0 RegularArcRadius1
  simp only [Constraint.jacobianV]
  by_cases h0 : Real.sqrt (segSq v a.center.x a.start.x a.center.y a.start.y) < EPS
  · rw [distJacRow_of_lt v _ _ h0]; simp [h0]
  · rw [distJacRow_of_not_lt v _ _ h0]
    by_cases h1 : Real.sqrt (segSq v a.center.x a.stop.x a.center.y a.stop.y) < EPS
    · rw [distJacRow_of_lt v _ _ h1]; simp [h1]
    · rw [distJacRow_of_not_lt v _ _ h1]; simp [h0, h1]

/-- Row 0 needs only its own `distJacRow` to be present (even when the kind as a whole reports
`degenerate` because of row 1). -/
theorem deriv_arcRadius_row0' (a : ArcD) (r : ℝ) (hreg : RegularArcRadius0 a v) :
    DerivRow (.arcRadius a r) v u (·.r0) (·.r0) := by
  unfold DerivRow
  simp only [Constraint.residualV, Constraint.jacobianV, Res.mk2]
  exact hasDerivAt_distResidual v u _ _ r hreg

theorem deriv_arcRadius_row1' (a : ArcD) (r : ℝ) (hreg : RegularArcRadius1 a v) :
    DerivRow (.arcRadius a r) v u (·.r1) (·.r1) := by
  unfold DerivRow
  simp only [Constraint.residualV, Constraint.jacobianV, Res.mk2]
  exact hasDerivAt_distResidual v u _ _ r hreg

theorem deriv_arcRadius_row0 (a : ArcD) (r : ℝ) (hreg : RegularArcRadius a v) :
    DerivRow (.arcRadius a r) v u (·.r0) (·.r0) :=
  deriv_arcRadius_row0' v u a r hreg.1

theorem deriv_arcRadius_row1 (a : ArcD) (r : ℝ) (hreg : RegularArcRadius a v) :
    DerivRow (.arcRadius a r) v u (·.r1) (·.r1) :=
  deriv_arcRadius_row1' v u a r hreg.2

example : RegularArcRadius ⟨⟨0, 1⟩, ⟨2, 3⟩, ⟨4, 5⟩⟩
    (fun i => if i = 2 ∨ i = 5 then 1 else 0) := by
  unfold RegularArcRadius RegularArcRadius0 RegularArcRadius1 segSq
  norm_num [EPS_real]

/-! ### Line tangent to circle -/

/-- The squared length of the line's direction is at least `EPS` (the Jacobian guard
`sqr dx + sqr dy < EPS` is inactive). Because `EPS < 1`, this already puts the length strictly
above `EPS` (`√EPS = 1e-2 > 1e-4 = EPS`), so the residual's guard `magV < EPS` is strictly inactive
and stays inactive near `v`. -/
def RegularLineTangentToCircle (l : Seg) (v : Nat → ℝ) : Prop :=
  ¬ segSq v l.p0.x l.p1.x l.p0.y l.p1.y < EPS

theorem regularLineTangentToCircle_iff (l : Seg) (c : Circ) :
    RegularLineTangentToCircle l v ↔
      ((Constraint.lineTangentToCircle l c).jacobianV v).degenerate = false := by
  unfold RegularLineTangentToCircle segSq
  simp only [Constraint.jacobianV]
  by_cases h : sqr (v l.p0.x - v l.p1.x) + sqr (v l.p0.y - v l.p1.y) < EPS
  · rw [if_pos h]; simp only [Bool.true_eq_false, iff_false]; exact fun h' => h' h
  · rw [if_neg h]; simp only [iff_true]; exact h

theorem lineThrough_zero : lineThrough v u 0 = v := by
  funext i; simp [lineThrough]

theorem segSq_swap (a b c d : Nat) : segSq v b a d c = segSq v a b c d := by
  unfold segSq; ring

/-- `EPS ≤ s` implies `EPS < √s` (as `EPS² < EPS`). -/
theorem eps_lt_sqrt_of_not_lt {s : ℝ} (h : ¬ s < EPS) : EPS < Real.sqrt s := by
  rw [Real.lt_sqrt EPS_pos.le]
  have h' := not_lt.mp h
  rw [EPS_real] at *
  norm_num at *
  linarith

theorem deriv_lineTangentToCircle (l : Seg) (c : Circ) (hreg : RegularLineTangentToCircle l v) :
    DerivRow (.lineTangentToCircle l c) v u (·.r0) (·.r0) := by
  unfold RegularLineTangentToCircle at hreg
  -- residual guard strictly inactive at `v`, hence near `t = 0`
  have hlt : EPS < Real.sqrt (segSq v l.p1.x l.p0.x l.p1.y l.p0.y) := by
    rw [segSq_swap]; exact eps_lt_sqrt_of_not_lt hreg
  have hev : ∀ᶠ t in 𝓝 (0 : ℝ),
      ((Constraint.lineTangentToCircle l c).residualV (lineThrough v u t)).r0 =
      ((lineThrough v u t l.p1.x - lineThrough v u t l.p0.x) *
          (lineThrough v u t c.center.y - lineThrough v u t l.p1.y)
        - (lineThrough v u t l.p1.y - lineThrough v u t l.p0.y) *
          (lineThrough v u t c.center.x - lineThrough v u t l.p1.x))
        / Real.sqrt (segSq (lineThrough v u t) l.p1.x l.p0.x l.p1.y l.p0.y)
        - lineThrough v u t c.radius := by
    have c1 : ContinuousAt
        (fun t => Real.sqrt (segSq (lineThrough v u t) l.p1.x l.p0.x l.p1.y l.p0.y)) 0 := by
      have := continuous_line v u l.p1.x; have := continuous_line v u l.p0.x
      have := continuous_line v u l.p1.y; have := continuous_line v u l.p0.y
      unfold segSq
      fun_prop
    have e1 := eventually_not_lt c1 (by simpa [lineThrough, segSq] using hlt)
    filter_upwards [e1] with t t1
    unfold segSq at t1 ⊢
    simp only [Constraint.residualV, hypot_real]
    rw [if_neg t1]
    rfl
  have hne : segSq v l.p1.x l.p0.x l.p1.y l.p0.y ≠ 0 := by
    intro h0; rw [h0, Real.sqrt_zero] at hlt; exact absurd hlt (not_lt.mpr EPS_pos.le)
  have d0 := hasDerivAt_seglen v u _ _ _ _ hne
  have dc : HasDerivAt (fun t =>
      (lineThrough v u t l.p1.x - lineThrough v u t l.p0.x) *
          (lineThrough v u t c.center.y - lineThrough v u t l.p1.y)
        - (lineThrough v u t l.p1.y - lineThrough v u t l.p0.y) *
          (lineThrough v u t c.center.x - lineThrough v u t l.p1.x))
      ((u l.p1.x - u l.p0.x) * (v c.center.y - v l.p1.y)
        + (v l.p1.x - v l.p0.x) * (u c.center.y - u l.p1.y)
        - ((u l.p1.y - u l.p0.y) * (v c.center.x - v l.p1.x)
        + (v l.p1.y - v l.p0.y) * (u c.center.x - u l.p1.x))) 0 := by
    deriv_by_ring
  have hm0 : Real.sqrt (segSq v l.p1.x l.p0.x l.p1.y l.p0.y) ≠ 0 :=
    (lt_trans EPS_pos hlt).ne'
  have hD := (dc.fun_div d0 (by simpa [lineThrough, segSq] using hm0)).fun_sub
    (hasDerivAt_line v u c.radius)
  unfold DerivRow
  refine HasDerivAt.congr_of_eventuallyEq ?_ hev
  refine HasDerivAt.congr_deriv hD ?_
  -- the value: express everything through `m = √s` with `s = m²`
  have hsq : segSq v l.p0.x l.p1.x l.p0.y l.p1.y =
      Real.sqrt (segSq v l.p0.x l.p1.x l.p0.y l.p1.y) ^ 2 :=
    (Real.sq_sqrt (segSq_nonneg v _ _ _ _)).symm
  rw [segSq_swap] at hm0
  simp only [lineThrough_zero, segSq_swap v l.p0.x l.p1.x l.p0.y l.p1.y]
  simp only [Constraint.jacobianV, hypot_real]
  unfold segSq at hreg hsq hm0 ⊢
  rw [if_neg (show ¬ sqr (v l.p0.x - v l.p1.x) + sqr (v l.p0.y - v l.p1.y) < EPS from hreg)]
  simp only [sqr, cube, rowApply, List.map_cons, List.map_nil, List.sum_cons, List.sum_nil]
  generalize Real.sqrt ((v l.p0.x - v l.p1.x) * (v l.p0.x - v l.p1.x) +
      (v l.p0.y - v l.p1.y) * (v l.p0.y - v l.p1.y)) = m at hsq hm0 ⊢
  rw [hsq]
  lits
  field_simp
  ring

example : RegularLineTangentToCircle ⟨⟨0, 1⟩, ⟨2, 3⟩⟩ (fun i => if i = 2 then 1 else 0) := by
  unfold RegularLineTangentToCircle segSq
  norm_num [EPS_real]

end Ezpz
