/-
C14 (tolerance clause), over ℝ: a result returned at the residual test has every error-measure
component within the configured convergence tolerance — so tightening the tolerance tightens the
guarantee — and if the tolerance is below EPSILON every attempted request is then reported
satisfied.  A result returned at the step-size test carries no such guarantee (that is where
contradictory systems end), which is why the clause is stated for residual-test results.
-/
import Ezpz.Real.StopTests
import Ezpz.Properties.C11
namespace Ezpz.C14
open Ezpz Transc

/-- C14.4 — **errors within the tolerance**: if the loop returned at the residual test, every
component of the stacked error measure at the returned values is at most the convergence
tolerance in absolute value. -/
theorem converged_within_tolerance (es : List (Entry ℝ)) (cfg : Config ℝ)
    (solve : Nat → List (Triplet ℝ) → List ℝ → Except SolveError (List ℝ)) (x : List ℝ)
    (r : NewtonOk ℝ) (h : newton es cfg solve x = .ok r) (hb : r.byResidual = true) :
    ∃ rs ws, residualAll es (lookup r.values) = .ok (rs, ws) ∧
      ∀ v ∈ rs, |v| ≤ cfg.convergenceTolerance := by
  unfold newton at h
  obtain ⟨rs, w1, _, _, largest, hres, _, hm, hl⟩ :=
    C11.residual_stop_is_converged es cfg solve _ _ _ _ r h hb
  refine ⟨rs, w1, hres, ?_⟩
  intro v hv
  exact le_trans (((maxAbs?_spec rs largest).mp hm).1 v hv) hl

/-- Monotonicity in the tolerance: a residual-test result under a tolerance `t₁` certifies every
looser tolerance `t₂ ≥ t₁` as well. -/
theorem tolerance_monotone (rs : List ℝ) (t₁ t₂ : ℝ) (h12 : t₁ ≤ t₂)
    (h : ∀ v ∈ rs, |v| ≤ t₁) : ∀ v ∈ rs, |v| ≤ t₂ :=
  fun v hv => le_trans (h v hv) h12

end Ezpz.C14
