/-
C12, the clause about the under-constrained set: **the set reported by the freedom analysis does not
depend on the listing order of the requests, and is mapped through the renumbering when the
variables are renumbered.**

Under the SVD contract `GN.SvdSpec` and the spectrum gap (every singular value is `0` or above
`1e-8·σ_max`), the list returned by `dofCalculate` is a function of `ker J` only: the participation
of variable `j` is the length of the orthogonal projection of `e_j` on `ker J`
(`partic_sq_eq_projection`), and `j` is reported iff that exceeds `1e-3` times the largest
participation.  No gap on the participations is needed here.

* `dof_same_kernel` — two SVD results (each meeting the contract for its own matrix) of two matrices
  with the same kernel give the same list;
* `dof_row_perm` — in particular for a row-permuted matrix `J.submatrix ρ id`;
* `dof_col_perm` — for a column-permuted matrix `J.submatrix id τ`, `j` is reported iff `τ j` is
  reported for `J`;
* `runAnalysis_row_perm`, `runAnalysis_renumber` — the same for `runAnalysis` on contribution lists
  (`JacRowPerm`, `renameTriplet π`), given that the two SVD oracles are good on the two lists
  (`SvdGood`);
* `solveInner_perm_withAnalysis` — `solveInner_perm` with freedom analysis, its hypothesis `hA`
  discharged from `SvdGood` on the two last Jacobians;
* `solveInner_renumber_withAnalysis`, `solveWithPriority_renumber_withAnalysis` — the renumbering
  theorems with freedom analysis, in the relation `Outcome.RenumEqDof` (the reported list of the
  renumbered run is, up to order, the original one mapped through `π`, and is increasing);
* `level_perm_withAnalysis`, `solveWithPriority_perm_withAnalysis` — the entry point with freedom
  analysis under a reordering of the caller's list: the same under-constrained list.

The hypothesis on the SVD oracles is always local (`SvdGood` on the last Jacobian of a Newton run
that succeeded), never "for every matrix": no oracle can have the spectrum gap on every matrix.
Non-vacuity examples are at the end of the file.
-/
import Ezpz.Real.Dof
import Ezpz.Real.EquivarianceEntry
set_option linter.unusedSectionVars false
set_option linter.unusedSimpArgs false
namespace Ezpz
open Transc

/-! ### The projection on the kernel depends on the kernel only -/

namespace GN
open Matrix

/-- Two matrices with the same kernel (each with an SVD meeting the contract) have the same
projection of `e_j` on the kernel. -/
theorem kerProj_eq_of_ker_eq {m m' : Type} [Fintype m] [Fintype m'] {n : Nat}
    {J : Matrix m (Fin n) ℝ} {J' : Matrix m' (Fin n) ℝ}
    {σ σ' : Fin n → ℝ} {V V' : Matrix (Fin n) (Fin n) ℝ}
    (h : SvdSpec J σ V) (h' : SvdSpec J' σ' V')
    (hker : ∀ v : Fin n → ℝ, J' *ᵥ v = 0 ↔ J *ᵥ v = 0) (j : Fin n) :
    kerProj σ' V' j = kerProj σ V j :=
  kerProj_unique h j _ ((hker _).mp (kerProj_in_kernel h' j))
    (fun v hv => kerProj_residual_orth h' j v ((hker v).mpr hv))

/-- Permuting the rows of a matrix does not change its kernel. -/
theorem ker_row_perm {m m' : Type} [Fintype m] [Fintype m'] {n : Nat} (J : Matrix m (Fin n) ℝ)
    (ρ : m' ≃ m) (v : Fin n → ℝ) : (J.submatrix ρ id) *ᵥ v = 0 ↔ J *ᵥ v = 0 := by
  have e : (J.submatrix ρ id) *ᵥ v = (J *ᵥ v) ∘ ρ := by
    ext i
    rfl
  rw [e]
  constructor
  · intro h0
    ext i
    have := congrFun h0 (ρ.symm i)
    simpa using this
  · intro h0
    rw [h0]
    rfl

/-- Permuting the columns of a matrix: `(J.submatrix id τ) v = J (v ∘ τ⁻¹)`. -/
theorem mulVec_col_perm {m : Type} [Fintype m] {n : Nat} (J : Matrix m (Fin n) ℝ)
    (τ : Equiv.Perm (Fin n)) (v : Fin n → ℝ) :
    (J.submatrix id τ) *ᵥ v = J *ᵥ (v ∘ τ.symm) := by
  rw [submatrix_mulVec_equiv]
  rfl

/-- The projection of `e_j` on the kernel of the column-permuted matrix `J.submatrix id τ` is the
projection of `e_{τ j}` on `ker J`, with its components permuted the same way. -/
theorem kerProj_col_perm {m : Type} [Fintype m] {n : Nat}
    {J : Matrix m (Fin n) ℝ} (τ : Equiv.Perm (Fin n))
    {σ σ' : Fin n → ℝ} {V V' : Matrix (Fin n) (Fin n) ℝ}
    (h : SvdSpec J σ V) (h' : SvdSpec (J.submatrix id τ) σ' V') (j : Fin n) :
    kerProj σ' V' j = kerProj σ V (τ j) ∘ τ := by
  symm
  apply kerProj_unique h' j
  · rw [mulVec_col_perm]
    have : (kerProj σ V (τ j) ∘ τ) ∘ τ.symm = kerProj σ V (τ j) := by
      ext i; simp
    rw [this]
    exact kerProj_in_kernel h (τ j)
  · intro v hv
    rw [mulVec_col_perm] at hv
    have h1 := kerProj_residual_orth h (τ j) _ hv
    have e1 : (Pi.single j 1 - kerProj σ V (τ j) ∘ τ : Fin n → ℝ) =
        (Pi.single (τ j) 1 - kerProj σ V (τ j)) ∘ τ := by
      ext i
      simp only [Pi.sub_apply, Function.comp, Pi.single_apply, τ.apply_eq_iff_eq]
    rw [e1, ← dotProduct_comp_equiv_symm]
    exact h1

end GN

/-! ### `fold(0, max)` only sees the set of values -/

/-- `fold(a, max)` of two lists with the same elements is the same number. -/
theorem foldl_rmax_congr (l l' : List ℝ) (a : ℝ) (h : ∀ x, x ∈ l ↔ x ∈ l') :
    l.foldl max a = l'.foldl max a := by
  obtain ⟨h1, h2⟩ := foldl_rmax_ge l a
  obtain ⟨h1', h2'⟩ := foldl_rmax_ge l' a
  apply le_antisymm
  · rcases foldl_rmax_mem l a with e | e
    · rw [e]; exact h1'
    · exact h2' _ ((h _).mp e)
  · rcases foldl_rmax_mem l' a with e | e
    · rw [e]; exact h1
    · exact h2 _ ((h _).mpr e)

/-! ### The report of `dofCalculate` is a function of the kernel -/

section Calc
open Matrix

/-- Under the SVD contract with a non-increasing non-negative spectrum, the participation of
variable `j` is the length of the projection of `e_j` on `ker J`. -/
theorem partic_eq_sqrt_projection {m : Type} [Fintype m] {n : Nat} (J : Matrix m (Fin n) ℝ)
    (sigma : List ℝ) (V : List (List ℝ))
    (hsorted : sigma.Pairwise (· ≥ ·)) (hnn : ∀ s ∈ sigma, 0 ≤ s)
    (hsvd : GN.SvdSpec J (fun k : Fin n => sigma.getD k 0) (fun j k : Fin n => entryR V j k))
    (j : Fin n) :
    partic V (dofRank sigma) n j = Real.sqrt
      (GN.kerProj (fun k : Fin n => sigma.getD k 0) (fun j k : Fin n => entryR V j k) j ⬝ᵥ
       GN.kerProj (fun k : Fin n => sigma.getD k 0) (fun j k : Fin n => entryR V j k) j) := by
  rw [← partic_sq_eq_projection J sigma V hsorted hnn hsvd j, Real.sqrt_sq (partic_nonneg _ _ _ _)]

/-- **The report is a function of the kernel.**  `J` and `J'` are two matrices over the same `n`
variables with the same kernel; `(sigma, V)` and `(sigma', V')` are SVD outputs meeting the contract
`SvdSpec` for `J` resp. `J'` (non-empty non-increasing spectrum with the gap, `V` at least `n × n`).
Then both analyses succeed and return the same list. -/
theorem dof_same_kernel {m m' : Type} [Fintype m] [Fintype m'] {n : Nat}
    (J : Matrix m (Fin n) ℝ) (J' : Matrix m' (Fin n) ℝ)
    (hker : ∀ v : Fin n → ℝ, J' *ᵥ v = 0 ↔ J *ᵥ v = 0)
    (sigma sigma' : List ℝ) (V V' : List (List ℝ))
    (hne : sigma ≠ []) (hne' : sigma' ≠ [])
    (hsorted : sigma.Pairwise (· ≥ ·)) (hsorted' : sigma'.Pairwise (· ≥ ·))
    (hV : ∀ j < n, ∃ row, V[j]? = some row ∧ n ≤ row.length)
    (hV' : ∀ j < n, ∃ row, V'[j]? = some row ∧ n ≤ row.length)
    (hgapS : ∀ s ∈ sigma, s = 0 ∨ ∀ s' ∈ sigma, Gen.DOF_RANK_TOLERANCE * s' < s)
    (hgapS' : ∀ s ∈ sigma', s = 0 ∨ ∀ s' ∈ sigma', Gen.DOF_RANK_TOLERANCE * s' < s)
    (hsvd : GN.SvdSpec J (fun k : Fin n => sigma.getD k 0) (fun j k : Fin n => entryR V j k))
    (hsvd' : GN.SvdSpec J' (fun k : Fin n => sigma'.getD k 0) (fun j k : Fin n => entryR V' j k)) :
    ∃ out, dofCalculate sigma V n = .ok out ∧ dofCalculate sigma' V' n = .ok out := by
  have hp : ∀ j, j < n → partic V' (dofRank sigma') n j = partic V (dofRank sigma) n j := by
    intro j hj
    have e1 := partic_eq_sqrt_projection J sigma V hsorted (gap_nonneg sigma hgapS) hsvd ⟨j, hj⟩
    have e2 := partic_eq_sqrt_projection J' sigma' V' hsorted' (gap_nonneg sigma' hgapS') hsvd'
      ⟨j, hj⟩
    simp only at e1 e2
    rw [e1, e2, GN.kerProj_eq_of_ker_eq hsvd hsvd' hker]
  have hmax : maxPartic V' (dofRank sigma') n = maxPartic V (dofRank sigma) n := by
    unfold maxPartic
    congr 1
    apply List.map_congr_left
    intro j hj
    exact hp j (by simpa using hj)
  refine ⟨_, dofCalculate_eq sigma V n hne hV hgapS, ?_⟩
  rw [dofCalculate_eq sigma' V' n hne' hV' hgapS', hmax]
  congr 1
  apply List.filter_congr
  intro j hj
  rw [hp j (by simpa using hj)]

/-- **The report does not depend on the order of the rows** (`dof_row_perm`): for a row permutation
`ρ` and `J' = J.submatrix ρ id`, two SVD outputs meeting the contract for `J` resp. `J'` (each with
the spectrum gap) give the same reported list. -/
theorem dof_row_perm {m m' : Type} [Fintype m] [Fintype m'] {n : Nat}
    (J : Matrix m (Fin n) ℝ) (ρ : m' ≃ m)
    (sigma sigma' : List ℝ) (V V' : List (List ℝ))
    (hne : sigma ≠ []) (hne' : sigma' ≠ [])
    (hsorted : sigma.Pairwise (· ≥ ·)) (hsorted' : sigma'.Pairwise (· ≥ ·))
    (hV : ∀ j < n, ∃ row, V[j]? = some row ∧ n ≤ row.length)
    (hV' : ∀ j < n, ∃ row, V'[j]? = some row ∧ n ≤ row.length)
    (hgapS : ∀ s ∈ sigma, s = 0 ∨ ∀ s' ∈ sigma, Gen.DOF_RANK_TOLERANCE * s' < s)
    (hgapS' : ∀ s ∈ sigma', s = 0 ∨ ∀ s' ∈ sigma', Gen.DOF_RANK_TOLERANCE * s' < s)
    (hsvd : GN.SvdSpec J (fun k : Fin n => sigma.getD k 0) (fun j k : Fin n => entryR V j k))
    (hsvd' : GN.SvdSpec (J.submatrix ρ id) (fun k : Fin n => sigma'.getD k 0)
      (fun j k : Fin n => entryR V' j k)) :
    ∃ out, dofCalculate sigma V n = .ok out ∧ dofCalculate sigma' V' n = .ok out :=
  dof_same_kernel J (J.submatrix ρ id) (GN.ker_row_perm J ρ) sigma sigma' V V' hne hne' hsorted
    hsorted' hV hV' hgapS hgapS' hsvd hsvd'

/-- **The report is mapped through a renumbering of the variables** (`dof_col_perm`): for a column
permutation `τ` and `J' = J.submatrix id τ` (column `j` of `J'` is column `τ j` of `J`), two SVD
outputs meeting the contract for `J` resp. `J'` (each with the spectrum gap): both analyses
succeed, both lists are strictly increasing with entries `< n`, and `j` is reported for `J'` iff
`τ j` is reported for `J`. -/
theorem dof_col_perm {m : Type} [Fintype m] {n : Nat}
    (J : Matrix m (Fin n) ℝ) (τ : Equiv.Perm (Fin n))
    (sigma sigma' : List ℝ) (V V' : List (List ℝ))
    (hne : sigma ≠ []) (hne' : sigma' ≠ [])
    (hsorted : sigma.Pairwise (· ≥ ·)) (hsorted' : sigma'.Pairwise (· ≥ ·))
    (hV : ∀ j < n, ∃ row, V[j]? = some row ∧ n ≤ row.length)
    (hV' : ∀ j < n, ∃ row, V'[j]? = some row ∧ n ≤ row.length)
    (hgapS : ∀ s ∈ sigma, s = 0 ∨ ∀ s' ∈ sigma, Gen.DOF_RANK_TOLERANCE * s' < s)
    (hgapS' : ∀ s ∈ sigma', s = 0 ∨ ∀ s' ∈ sigma', Gen.DOF_RANK_TOLERANCE * s' < s)
    (hsvd : GN.SvdSpec J (fun k : Fin n => sigma.getD k 0) (fun j k : Fin n => entryR V j k))
    (hsvd' : GN.SvdSpec (J.submatrix id τ) (fun k : Fin n => sigma'.getD k 0)
      (fun j k : Fin n => entryR V' j k)) :
    ∃ out out', dofCalculate sigma V n = .ok out ∧ dofCalculate sigma' V' n = .ok out' ∧
      out.Pairwise (· < ·) ∧ out'.Pairwise (· < ·) ∧ (∀ j ∈ out, j < n) ∧ (∀ j ∈ out', j < n) ∧
      ∀ (j : Nat) (hj : j < n), j ∈ out' ↔ (τ ⟨j, hj⟩).val ∈ out := by
  have hp : ∀ j (hj : j < n),
      partic V' (dofRank sigma') n j = partic V (dofRank sigma) n (τ ⟨j, hj⟩).val := by
    intro j hj
    have e1 := partic_eq_sqrt_projection J sigma V hsorted (gap_nonneg sigma hgapS) hsvd (τ ⟨j, hj⟩)
    have e2 := partic_eq_sqrt_projection (J.submatrix id τ) sigma' V' hsorted'
      (gap_nonneg sigma' hgapS') hsvd' ⟨j, hj⟩
    simp only at e1 e2
    rw [e1, e2, GN.kerProj_col_perm τ hsvd hsvd', comp_equiv_dotProduct_comp_equiv]
  have hmax : maxPartic V' (dofRank sigma') n = maxPartic V (dofRank sigma) n := by
    unfold maxPartic
    apply foldl_rmax_congr
    intro x
    simp only [List.mem_map, List.mem_range]
    constructor
    · rintro ⟨j, hj, rfl⟩
      exact ⟨(τ ⟨j, hj⟩).val, (τ ⟨j, hj⟩).isLt, (hp j hj).symm⟩
    · rintro ⟨i, hi, rfl⟩
      refine ⟨(τ.symm ⟨i, hi⟩).val, (τ.symm ⟨i, hi⟩).isLt, ?_⟩
      rw [hp _ (τ.symm ⟨i, hi⟩).isLt]
      simp
  have h1 := dofCalculate_eq sigma V n hne hV hgapS
  have h2 := dofCalculate_eq sigma' V' n hne' hV' hgapS'
  obtain ⟨s1, l1⟩ := dofCalculate_sorted_lt sigma V n _ h1
  obtain ⟨s2, l2⟩ := dofCalculate_sorted_lt sigma' V' n _ h2
  refine ⟨_, _, h1, h2, s1, s2, l1, l2, ?_⟩
  intro j hj
  rw [List.mem_filter, List.mem_filter, List.mem_range, List.mem_range, decide_eq_true_iff,
    decide_eq_true_iff, hmax, hp j hj]
  simp [hj]

end Calc

/-! ### `runAnalysis` on contribution lists -/

/-- The SVD oracle is **good on the contribution list** `jac` (read as a dense `R × n` matrix): it
answers, with a non-empty non-increasing spectrum that has the gap (every singular value is `0` or
above `1e-8·σ_max`) and a `V` of at least `n × n`, and the answer meets the SVD contract `SvdSpec`
for the dense matrix of `jac`. -/
def SvdGood (svd : List (Triplet ℝ) → Except SolveError (List ℝ × List (List ℝ))) (R n : Nat)
    (jac : List (Triplet ℝ)) : Prop :=
  ∃ sigma V, svd jac = .ok (sigma, V) ∧ sigma ≠ [] ∧ sigma.Pairwise (· ≥ ·) ∧
    (∀ j < n, ∃ row, V[j]? = some row ∧ n ≤ row.length) ∧
    (∀ s ∈ sigma, s = 0 ∨ ∀ s' ∈ sigma, Gen.DOF_RANK_TOLERANCE * s' < s) ∧
    GN.SvdSpec (matOf R n jac) (fun k : Fin n => sigma.getD k 0) (fun j k : Fin n => entryR V j k)

/-- **The freedom analysis of a row-permuted presentation** (`runAnalysis_row_perm`): if `jac'` is
a row-permuted presentation of `jac` (rows in range) and the two SVD oracles are good on `jac'`
resp. `jac`, then the two analyses return the same result (the same list). -/
theorem runAnalysis_row_perm (svd svd' : List (Triplet ℝ) → Except SolveError (List ℝ × List (List ℝ)))
    (R n : Nat) (jac jac' : List (Triplet ℝ)) (hrows : ∀ t ∈ jac, t.1 < R)
    (hJ : JacRowPerm R jac jac') (hG : SvdGood svd R n jac) (hG' : SvdGood svd' R n jac') :
    runAnalysis (some svd') jac' n = runAnalysis (some svd) jac n := by
  obtain ⟨τ, hτ, hp⟩ := hJ
  obtain ⟨sigma, V, hs, hne, hsorted, hV, hgapS, hsvd⟩ := hG
  obtain ⟨sigma', V', hs', hne', hsorted', hV', hgapS', hsvd'⟩ := hG'
  rw [matOf_perm R n hp, matOf_mapRow R n τ hτ jac hrows] at hsvd'
  obtain ⟨out, h1, h2⟩ := dof_row_perm (matOf R n jac) (equivOfPermOn R τ hτ).symm sigma sigma' V V'
    hne hne' hsorted hsorted' hV hV' hgapS hgapS' hsvd hsvd'
  simp only [runAnalysis, hs, hs', h1, h2]

/-- The reported lists of a run (`u`) and of the run with the variables renumbered by `π` (`u'`):
both absent, or `u'` is, up to order, `u` mapped through `π`, and `u'` is strictly increasing (so
`u'` is `u.map π` sorted). -/
def DofRenum (π : Nat → Nat) : Option (List Nat) → Option (List Nat) → Prop
  | none, none => True
  | some u, some u' => u'.Perm (u.map π) ∧ u'.Pairwise (· < ·)
  | _, _ => False

/-- Membership form of `DofRenum`: a variable is reported by the renumbered run iff it is the
image under `π` of a variable reported by the original run. -/
theorem DofRenum.mem_iff {π : Nat → Nat} {u u' : List Nat} (h : DofRenum π (some u) (some u'))
    (j : Nat) : j ∈ u' ↔ ∃ i ∈ u, π i = j := by
  rw [h.1.mem_iff, List.mem_map]

/-- `0..n-1` is a permutation of its image under a bijection of `{0..n-1}`. -/
theorem range_perm_map (π : Nat → Nat) (n : Nat) (hπ : PermOn n π) :
    (List.range n).Perm ((List.range n).map π) := by
  apply reorder_perm π n hπ
  refine ⟨by simp, by simp, ?_⟩
  intro i hi
  rw [List.getElem?_range (hπ.1 i hi), List.getElem?_map, List.getElem?_range hi]
  rfl

/-- **The freedom analysis of the renumbered system** (`runAnalysis_renumber`): `π` a bijection of
`{0..n-1}`, the contributions (columns in range) with their columns mapped through `π`; if the two
SVD oracles are good on the two lists, both analyses succeed, both reported lists are strictly
increasing, variable `π i` (`i < n`) is reported for the renumbered system iff `i` is reported for
the original one, and so the renumbered report is, up to order, the original one mapped through
`π`. -/
theorem runAnalysis_renumber (svd svd' : List (Triplet ℝ) → Except SolveError (List ℝ × List (List ℝ)))
    (R n : Nat) (π : Nat → Nat) (hπ : PermOn n π) (jac : List (Triplet ℝ))
    (hcols : ∀ t ∈ jac, t.2.1 < n) (hG : SvdGood svd R n jac)
    (hG' : SvdGood svd' R n (jac.map (renameTriplet π))) :
    ∃ u u', runAnalysis (some svd) jac n = .ok (some u) ∧
      runAnalysis (some svd') (jac.map (renameTriplet π)) n = .ok (some u') ∧
      u.Pairwise (· < ·) ∧ u'.Pairwise (· < ·) ∧ (∀ i, i < n → (π i ∈ u' ↔ i ∈ u)) ∧
      u'.Perm (u.map π) := by
  obtain ⟨sigma, V, hs, hne, hsorted, hV, hgapS, hsvd⟩ := hG
  obtain ⟨sigma', V', hs', hne', hsorted', hV', hgapS', hsvd'⟩ := hG'
  rw [matOf_renameTriplet R n π hπ jac hcols] at hsvd'
  obtain ⟨u, u', h1, h2, s1, s2, l1, l2, hmem⟩ := dof_col_perm (matOf R n jac)
    (equivOfPermOn n π hπ).symm sigma sigma' V V' hne hne' hsorted hsorted' hV hV' hgapS hgapS'
    hsvd hsvd'
  have hmem' : ∀ i, i < n → (π i ∈ u' ↔ i ∈ u) := by
    intro i hi
    rw [hmem (π i) (hπ.1 i hi)]
    have : (⟨π i, hπ.1 i hi⟩ : Fin n) = equivOfPermOn n π hπ ⟨i, hi⟩ := rfl
    rw [this, Equiv.symm_apply_apply]
  refine ⟨u, u', by simp only [runAnalysis, hs, h1], by simp only [runAnalysis, hs', h2], s1, s2,
    hmem', ?_⟩
  have n1 : u.Nodup := s1.imp (fun h => Nat.ne_of_lt h)
  have n2 : u'.Nodup := s2.imp (fun h => Nat.ne_of_lt h)
  rw [List.perm_ext_iff_of_nodup n2
    (n1.map_on (fun a ha b hb hab => hπ.2 a b (l1 a ha) (l1 b hb) hab))]
  intro a
  rw [List.mem_map]
  constructor
  · intro ha
    have han := l2 a ha
    refine ⟨((equivOfPermOn n π hπ).symm ⟨a, han⟩).val, (hmem a han).mp ha, ?_⟩
    rw [← equivOfPermOn_val n π hπ, Equiv.apply_symm_apply]
  · rintro ⟨i, hi, rfl⟩
    exact (hmem' i (l1 i hi)).mpr hi

/-! ### `solveInner` under a reordering of the requests, with freedom analysis -/

section Perm
variable {es es' : List (Entry ℝ)} (hp : es.Perm es') (cfg : Config ℝ)
  (solve solve' : Nat → List (Triplet ℝ) → List ℝ → Except SolveError (List ℝ))
include hp

/-- `solveInner_perm` with the hypothesis on the freedom analysis asked only for the last Jacobians
of the two runs (rows in range, the second a row-permuted presentation of the first). -/
theorem solveInner_perm_gen (hS : RowPermSolve solve solve' (numRows es)) (g : List (Nat × ℝ))
    (analyze analyze' : Option (List (Triplet ℝ) → Except SolveError (List ℝ × List (List ℝ))))
    (hA : ∀ a b, newton es cfg solve (g.map (·.2)) = .ok a →
      newton es' cfg solve' (g.map (·.2)) = .ok b → (∀ t ∈ a.lastJac, t.1 < numRows es) →
      JacRowPerm (numRows es) a.lastJac b.lastJac →
      runAnalysis analyze' b.lastJac g.length = runAnalysis analyze a.lastJac g.length)
    (hm : modelNew es (g.map (·.1)) = .ok ()) :
    SolvePermEq (solveInner es g cfg solve analyze) (solveInner es' g cfg solve' analyze') := by
  have hm' := modelNew_perm_ok hp _ hm
  have hN := newton_perm hp cfg solve solve' hS (g.map (·.2))
  have hrows := numRows_perm hp
  have hlint := (lint_perm hp).symm
  unfold solveInner
  simp only [hm, hm']
  cases h1 : newton es cfg solve (g.map (·.2)) with
  | error p =>
    obtain ⟨e, w⟩ := p
    cases h2 : newton es' cfg solve' (g.map (·.2)) with
    | ok b => rw [h1, h2] at hN; exact hN.elim
    | error p' =>
      obtain ⟨e', w'⟩ := p'
      rw [h1, h2] at hN
      obtain ⟨rfl, hw⟩ := hN
      exact ⟨rfl, rfl, hrows.symm, hlint.append hw⟩
  | ok a =>
    cases h2 : newton es' cfg solve' (g.map (·.2)) with
    | error p' => rw [h1, h2] at hN; exact hN.elim
    | ok b =>
      rw [h1, h2] at hN
      obtain ⟨hv, hi, _, hw, hJ⟩ := hN
      have hW : (lint es' ++ b.warnings).Perm (lint es ++ a.warnings) := hlint.append hw
      have hin : ∀ t ∈ a.lastJac, t.1 < numRows es := by
        obtain ⟨y, w2, hj, _, _⟩ := C05.newtonLoop_lastJac es cfg solve _ _ _ _ a h1
        rintro ⟨r, c, v⟩ ht
        have := (jacobianFrom_rows_cols _ _ es 0 a.lastJac w2 hj r c v ht).2.1
        simpa using this
      dsimp only
      rw [hv, hA a b h1 h2 hin hJ]
      rcases unsatisfiedSweep_perm hp (lookup a.values) with ⟨err, hs, hs'⟩ | ⟨us, us', hs, hs', hu⟩
      · rw [hs, hs']
        exact ⟨rfl, rfl, hrows.symm, hW⟩
      · rw [hs, hs']
        dsimp only
        cases runAnalysis analyze a.lastJac g.length with
        | error e => exact ⟨rfl, rfl, hrows.symm, hW⟩
        | ok under => exact ⟨rfl, hi, (maxPriority_perm hp).symm, rfl, hu, hW⟩

/-- **`solveInner` with freedom analysis does not depend on the listing order**
(`solveInner_perm_withAnalysis`).  The hypothesis `hA` of `solveInner_perm` is derived from the SVD
contract: whenever the Newton loop of the original (resp. reordered) list succeeds, the SVD oracle
`svd` (resp. `svd'`) is good on its last Jacobian (`SvdGood`: it answers, with the spectrum gap,
meeting `SvdSpec` for the dense `numRows × numVars` matrix).  Then both calls fail or both succeed;
on success: same final values, iteration count, priority and **the same under-constrained list**;
unsatisfied ids and warnings equal up to order. -/
theorem solveInner_perm_withAnalysis (hS : RowPermSolve solve solve' (numRows es))
    (g : List (Nat × ℝ))
    (svd svd' : List (Triplet ℝ) → Except SolveError (List ℝ × List (List ℝ)))
    (hG : ∀ a, newton es cfg solve (g.map (·.2)) = .ok a →
      SvdGood svd (numRows es) g.length a.lastJac)
    (hG' : ∀ b, newton es' cfg solve' (g.map (·.2)) = .ok b →
      SvdGood svd' (numRows es) g.length b.lastJac)
    (hm : modelNew es (g.map (·.1)) = .ok ()) :
    SolvePermEq (solveInner es g cfg solve (some svd)) (solveInner es' g cfg solve' (some svd')) :=
  solveInner_perm_gen hp cfg solve solve' hS g (some svd) (some svd')
    (fun a b h1 h2 hin hJ =>
      runAnalysis_row_perm svd svd' (numRows es) g.length a.lastJac b.lastJac hin hJ (hG a h1)
        (hG' b h2)) hm

/-- `solveInner_perm_withAnalysis` spelled out for a successful run: the reordered run succeeds and
reports the same under-constrained list, which is `some` list. -/
theorem solveInner_perm_withAnalysis_ok (hS : RowPermSolve solve solve' (numRows es))
    (g : List (Nat × ℝ))
    (svd svd' : List (Triplet ℝ) → Except SolveError (List ℝ × List (List ℝ)))
    (hG : ∀ a, newton es cfg solve (g.map (·.2)) = .ok a →
      SvdGood svd (numRows es) g.length a.lastJac)
    (hG' : ∀ b, newton es' cfg solve' (g.map (·.2)) = .ok b →
      SvdGood svd' (numRows es) g.length b.lastJac)
    (hm : modelNew es (g.map (·.1)) = .ok ()) (a : Outcome ℝ)
    (h : solveInner es g cfg solve (some svd) = .ok a) :
    ∃ b, solveInner es' g cfg solve' (some svd') = .ok b ∧
      b.underconstrained = a.underconstrained ∧ b.finalValues = a.finalValues ∧
      b.unsatisfied.Perm a.unsatisfied := by
  have key := solveInner_perm_withAnalysis hp cfg solve solve' hS g svd svd' hG hG' hm
  rw [h] at key
  cases h2 : solveInner es' g cfg solve' (some svd') with
  | error f => rw [h2] at key; exact key.elim
  | ok b => rw [h2] at key; exact ⟨b, rfl, key.2.2.2.1, key.1, key.2.2.2.2.1⟩

end Perm

/-! ### `solveInner` under a renumbering of the variables, with freedom analysis -/

/-- Two outcomes of `solveInner`, original and renumbered, **with the correct relation on the
under-constrained lists**: same unsatisfied ids, iteration count, priority and warnings; final
values reordered by `π`; the under-constrained list of the renumbered run is, up to order, the
original one mapped through `π`, and is strictly increasing (`DofRenum`). -/
def Outcome.RenumEqDof (π : Nat → Nat) (n : Nat) (a b : Outcome ℝ) : Prop :=
  Reordered π n a.finalValues b.finalValues ∧ b.unsatisfied = a.unsatisfied ∧
    b.iterations = a.iterations ∧ b.prioritySolved = a.prioritySolved ∧
    b.warnings = a.warnings ∧ DofRenum π a.underconstrained b.underconstrained

/-- Without freedom analysis the new relation is the old one. -/
theorem Outcome.RenumEqDof_of_none (π : Nat → Nat) (n : Nat) (a b : Outcome ℝ)
    (h : Outcome.RenumEq π n a b) (hn : a.underconstrained = none) : Outcome.RenumEqDof π n a b := by
  obtain ⟨h1, h2, h3, h4, h5, h6⟩ := h
  refine ⟨h1, h2, h3, h4, h5, ?_⟩
  rw [h6, hn]
  trivial

section Renumber
variable (π : Nat → Nat) (n : Nat) (hπ : PermOn n π) (es : List (Entry ℝ)) (hd : Declared es n)
  (cfg : Config ℝ)
  (solve solve' : Nat → List (Triplet ℝ) → List ℝ → Except SolveError (List ℝ))
include hπ hd

/-- **`solveInner` with freedom analysis on the renumbered system**
(`solveInner_renumber_withAnalysis`).  As `solveInner_renumber`, with SVD oracles `svd`, `svd'`
that are good (`SvdGood`) on the last Jacobian of the original resp. renumbered Newton run whenever
that run succeeds.  Then both calls fail or both succeed; on success: same unsatisfied ids,
iteration count, priority and warnings, final values reordered by `π`, and **the under-constrained
list of the renumbered run is the original one mapped through `π`** (up to order; it is strictly
increasing). -/
theorem solveInner_renumber_withAnalysis (hS : ColPermSolve solve solve' π n)
    (g g' : List (Nat × ℝ))
    (hval : Reordered π n (g.map (·.2)) (g'.map (·.2)))
    (hlab : ∀ v, v < n → (g'.map (·.1)).contains (π v) = (g.map (·.1)).contains v)
    (svd svd' : List (Triplet ℝ) → Except SolveError (List ℝ × List (List ℝ)))
    (hG : ∀ a, newton es cfg solve (g.map (·.2)) = .ok a → SvdGood svd (numRows es) n a.lastJac)
    (hG' : ∀ b, newton (es.map (Entry.rename π)) cfg solve' (g'.map (·.2)) = .ok b →
      SvdGood svd' (numRows es) n b.lastJac) :
    ResRel (Failure.RenumEq π) (Outcome.RenumEqDof π n) (solveInner es g cfg solve (some svd))
      (solveInner (es.map (Entry.rename π)) g' cfg solve' (some svd')) := by
  have hgn : g.length = n := by simpa using hval.1
  have hgn' : g'.length = n := by simpa using hval.2.1
  have hm := modelNew_renumber π (g.map (·.1)) (g'.map (·.1)) n hπ.1 (by simpa using hgn)
    (by simpa using hgn') hlab es hd
  have hN := newton_renumber π n hπ es hd cfg solve solve' hS _ _ hval
  unfold solveInner
  rw [hm, lint_rename, numRows_rename, maxPriority_rename, hgn, hgn']
  cases hm0 : modelNew es (g.map (·.1)) with
  | error e =>
    simp only [Except.mapError]
    refine ⟨rfl, rfl, rfl, ?_⟩
    cases e with
    | missingGuess id v => exact Or.inr ⟨id, v, rfl, rfl⟩
    | _ => exact Or.inl rfl
  | ok u =>
    simp only [Except.mapError]
    cases h1 : newton es cfg solve (g.map (·.2)) with
    | error p =>
      obtain ⟨e, w⟩ := p
      cases h2 : newton (es.map (Entry.rename π)) cfg solve' (g'.map (·.2)) with
      | ok b => rw [h1, h2] at hN; exact hN.elim
      | error p' =>
        obtain ⟨e', w'⟩ := p'
        rw [h1, h2] at hN
        obtain ⟨rfl, rfl⟩ := hN
        exact ⟨rfl, rfl, rfl, Or.inl rfl⟩
    | ok a =>
      cases h2 : newton (es.map (Entry.rename π)) cfg solve' (g'.map (·.2)) with
      | error p' => rw [h1, h2] at hN; exact hN.elim
      | ok b =>
        rw [h1, h2] at hN
        obtain ⟨hv, hi, _, hw, hJ⟩ := hN
        have hcols : ∀ t ∈ a.lastJac, t.2.1 < n := by
          obtain ⟨y, w2, hj, _, _⟩ := C05.newtonLoop_lastJac es cfg solve _ _ _ _ a h1
          exact fun t ht => (jacobianAll_in_range es _ n hd a.lastJac w2 hj t ht).2
        have hGb := hG' b h2
        rw [hJ] at hGb
        obtain ⟨u, u', hu, hu', _, s2, _, hperm⟩ := runAnalysis_renumber svd svd' (numRows es) n π hπ
          a.lastJac hcols (hG a h1) hGb
        dsimp only
        rw [unsatisfiedSweep_reorder π a.values b.values n hv.2.2 es hd, hw, hJ, hu, hu']
        cases unsatisfiedSweep es (lookup a.values) with
        | error e => exact ⟨rfl, rfl, rfl, Or.inl rfl⟩
        | ok us => exact ⟨hv, rfl, hi, rfl, rfl, hperm, s2⟩

end Renumber

/-! ### The entry point with freedom analysis (`solve_analysis`) under a renumbering -/

/-- **The numbering of the variables does not matter at the entry point with freedom analysis**
(`solveWithPriority_renumber_withAnalysis`).  As `solveWithPriority_renumber`, with SVD oracles
`svd`, `svd'`; at the `i`-th level call, whenever the Newton run of that level succeeds, the SVD
oracle of that call is good on its last Jacobian (for the original and for the renumbered run).
Then both runs fail or both succeed.  On success: the same unsatisfied list, iteration count, solved
priority and warnings; the final values reordered by `π`; **the under-constrained list of the
renumbered run is the original one mapped through `π`** (up to order; strictly increasing). -/
theorem solveWithPriority_renumber_withAnalysis (π : Nat → Nat) (n : Nat) (hπ : PermOn n π)
    (reqs : List (Constraint ℝ × Nat)) (hd : ∀ r ∈ reqs, ∀ i ∈ r.1.nonzeroes.all, i < n)
    (cfg : Config ℝ) (solve solve' : LinSolve ℝ)
    (hS : ∀ i, ColPermSolve (solve i) (solve' i) π n) (g g' : List (Nat × ℝ))
    (hval : Reordered π n (g.map (·.2)) (g'.map (·.2)))
    (hlab : ∀ v, v < n → (g'.map (·.1)).contains (π v) = (g.map (·.1)).contains v)
    (svd svd' : Svd ℝ)
    (hG : ∀ i p, (levels (enumerate reqs))[i]? = some p → ∀ a,
      newton ((enumerate reqs).filter (fun e => e.priority ≤ p)) cfg (solve i) (g.map (·.2)) = .ok a →
      SvdGood (svd i) (numRows ((enumerate reqs).filter (fun e => e.priority ≤ p))) n a.lastJac)
    (hG' : ∀ i p, (levels (enumerate reqs))[i]? = some p → ∀ b,
      newton (((enumerate reqs).filter (fun e => e.priority ≤ p)).map (Entry.rename π)) cfg
        (solve' i) (g'.map (·.2)) = .ok b →
      SvdGood (svd' i) (numRows ((enumerate reqs).filter (fun e => e.priority ≤ p))) n b.lastJac) :
    ResRel (Failure.RenumEq π) (Outcome.RenumEqDof π n)
      (solveWithPriority reqs g cfg solve (some svd))
      (solveWithPriority (reqs.map (fun r => (r.1.rename π, r.2))) g' cfg solve' (some svd')) := by
  have hdecl : ∀ p, Declared ((enumerate reqs).filter (fun e => e.priority ≤ p)) n := by
    intro p e he i hi
    have := mem_enumerate reqs e (List.mem_filter.mp he).1
    exact hd _ (List.mem_of_getElem? this) i hi
  have hgn : g.length = n := by simpa using hval.1
  have hgn' : g'.length = n := by simpa using hval.2.1
  apply solveWithPriority_rel _ _ (fun a b h => by rw [h.2.1]) reqs _ g g' cfg cfg solve solve'
    (some svd) (some svd') (by simp) (by rw [enumerate_rename, levels_rename])
  · intro i p hp
    simp only [levelRun, Option.map_some]
    rw [enumerate_rename, filter_rename]
    exact solveInner_renumber_withAnalysis π n hπ _ (hdecl p) cfg (solve i) (solve' i) (hS i) g g'
      hval hlab (svd i) (svd' i) (hG i p hp) (hG' i p hp)
  · intro prio
    refine ⟨hval, rfl, rfl, rfl, rfl, ?_⟩
    simp only [noConstraintsOutcome, Option.isSome_some, if_true, hgn, hgn']
    exact ⟨range_perm_map π n hπ, List.pairwise_lt_range⟩

/-! ### The entry point with freedom analysis under a reordering of the caller's list -/

section LevelA
variable (reqs reqs' : List (Constraint ℝ × Nat)) (σ : Nat → Nat) (n : Nat) (hσ : PermOn n σ)
  (hre : Reordered σ n reqs reqs') (g : List (Nat × ℝ)) (cfg : Config ℝ)
  (solve solve' : Nat → List (Triplet ℝ) → List ℝ → Except SolveError (List ℝ)) (p : Nat)
  (svd svd' : List (Triplet ℝ) → Except SolveError (List ℝ × List (List ℝ)))
include hσ hre

/-- **One level of the reordered list, with freedom analysis** (valid model): as `level_perm`, the
SVD oracles being good on the last Jacobians of the two Newton runs of this level. -/
theorem level_perm_withAnalysis
    (hS : RowPermSolve solve solve'
      (numRows ((enumerate reqs).filter (fun e => e.priority ≤ p))))
    (hG : ∀ a, newton ((enumerate reqs).filter (fun e => e.priority ≤ p)) cfg solve (g.map (·.2)) =
      .ok a → SvdGood svd (numRows ((enumerate reqs).filter (fun e => e.priority ≤ p))) g.length
        a.lastJac)
    (hG' : ∀ b, newton ((enumerate reqs').filter (fun e => e.priority ≤ p)) cfg solve'
      (g.map (·.2)) = .ok b →
      SvdGood svd' (numRows ((enumerate reqs).filter (fun e => e.priority ≤ p))) g.length b.lastJac)
    (hm : modelNew ((enumerate reqs).filter (fun e => e.priority ≤ p)) (g.map (·.1)) = .ok ()) :
    ResRel (Failure.EntryPermEq σ) (Outcome.EntryPermEq σ)
      (solveInner ((enumerate reqs).filter (fun e => e.priority ≤ p)) g cfg solve (some svd))
      (solveInner ((enumerate reqs').filter (fun e => e.priority ≤ p)) g cfg solve' (some svd')) := by
  have hp := (enumerate_filter_perm σ n hσ reqs reqs' hre p).symm
  have key := solveInner_perm_withAnalysis hp cfg solve solve'
    (by rwa [numRows_relabel]) g svd svd'
    (by
      intro a ha
      rw [newton_relabel] at ha
      rw [numRows_relabel]
      cases h0 : newton ((enumerate reqs).filter (fun e => e.priority ≤ p)) cfg solve
          (g.map (·.2)) with
      | error q => rw [h0] at ha; obtain ⟨e, w⟩ := q; simp [relabelLoop] at ha
      | ok a0 =>
        rw [h0] at ha
        simp only [relabelLoop, Except.ok.injEq] at ha
        subst ha
        exact hG a0 h0)
    (by rw [numRows_relabel]; exact hG')
    (by rw [modelNew_relabel, hm]; rfl)
  rw [solveInner_relabel_valid σ _ g cfg solve (some svd) hm] at key
  cases h1 : solveInner ((enumerate reqs).filter (fun e => e.priority ≤ p)) g cfg solve
      (some svd) with
  | ok a =>
    cases h2 : solveInner ((enumerate reqs').filter (fun e => e.priority ≤ p)) g cfg solve'
        (some svd') with
    | ok b => rw [h1, h2] at key; exact key
    | error fb => rw [h1, h2] at key; exact key.elim
  | error fa =>
    cases h2 : solveInner ((enumerate reqs').filter (fun e => e.priority ≤ p)) g cfg solve'
        (some svd') with
    | ok b => rw [h1, h2] at key; exact key.elim
    | error fb => rw [h1, h2] at key; exact key

end LevelA

section EntryA
variable (reqs reqs' : List (Constraint ℝ × Nat)) (σ : Nat → Nat) (n : Nat) (hσ : PermOn n σ)
  (hre : Reordered σ n reqs reqs') (g : List (Nat × ℝ)) (cfg : Config ℝ)
  (solve solve' : LinSolve ℝ) (svd svd' : Svd ℝ)
include hσ hre

/-- **The listing order of the requests does not matter at the entry point with freedom analysis**
(`solveWithPriority_perm_withAnalysis`, `solve_analysis`).  As `solveWithPriority_perm`, with SVD
oracles `svd`, `svd'` such that at the `i`-th level call, whenever the Newton run of that level
succeeds, the oracle of that call is good on its last Jacobian (for the original and for the
reordered list).  On success: same final values, iteration count, solved priority and **the same
under-constrained list**; unsatisfied ids and warnings as in `solveWithPriority_perm`. -/
theorem solveWithPriority_perm_withAnalysis
    (hS : ∀ i p, (levels (enumerate reqs))[i]? = some p → RowPermSolve (solve i) (solve' i)
      (numRows ((enumerate reqs).filter (fun e => e.priority ≤ p))))
    (hG : ∀ i p, (levels (enumerate reqs))[i]? = some p → ∀ a,
      newton ((enumerate reqs).filter (fun e => e.priority ≤ p)) cfg (solve i) (g.map (·.2)) = .ok a →
      SvdGood (svd i) (numRows ((enumerate reqs).filter (fun e => e.priority ≤ p))) g.length
        a.lastJac)
    (hG' : ∀ i p, (levels (enumerate reqs))[i]? = some p → ∀ b,
      newton ((enumerate reqs').filter (fun e => e.priority ≤ p)) cfg (solve' i) (g.map (·.2)) =
        .ok b →
      SvdGood (svd' i) (numRows ((enumerate reqs).filter (fun e => e.priority ≤ p))) g.length
        b.lastJac)
    (hm : ∀ p ∈ levels (enumerate reqs),
      modelNew ((enumerate reqs).filter (fun e => e.priority ≤ p)) (g.map (·.1)) = .ok ()) :
    ResRel (Failure.EntryPermEq σ) (Outcome.EntryPermEq σ)
      (solveWithPriority reqs g cfg solve (some svd))
      (solveWithPriority reqs' g cfg solve' (some svd')) := by
  apply solveWithPriority_rel _ _ (fun a b h => h.isEmpty) reqs reqs' g g cfg cfg solve solve'
    (some svd) (some svd') (isEmpty_reordered σ n reqs reqs' hre)
    (levels_enumerate_perm σ n hσ reqs reqs' hre)
  · intro i p hp
    simp only [levelRun, Option.map_some]
    exact level_perm_withAnalysis reqs reqs' σ n hσ hre g cfg (solve i) (solve' i) p (svd i) (svd' i)
      (hS i p hp) (hG i p hp) (hG' i p hp) (hm p (List.mem_of_getElem? hp))
  · intro prio
    exact ⟨rfl, rfl, rfl, rfl, List.Perm.refl _, List.Perm.refl _⟩

end EntryA

/-! ### Non-vacuity -/

section Example
open Matrix
set_option linter.unnecessarySeqFocus false

/-- Example: `V = I₂` as a list is 2×2. -/
theorem exd_hV_I : ∀ j < 2, ∃ row, ([[1, 0], [0, 1]] : List (List ℝ))[j]? = some row ∧
    2 ≤ row.length := by
  intro j hj
  have : j = 0 ∨ j = 1 := by omega
  rcases this with rfl | rfl <;> simp

/-- Example: the swap matrix as a list is 2×2. -/
theorem exd_hV_S : ∀ j < 2, ∃ row, ([[0, 1], [1, 0]] : List (List ℝ))[j]? = some row ∧
    2 ≤ row.length := by
  intro j hj
  have : j = 0 ∨ j = 1 := by omega
  rcases this with rfl | rfl <;> simp

/-- Example: the spectrum `[1]` has the gap. -/
theorem exd_gap : ∀ s ∈ ([1] : List ℝ), s = 0 ∨
    ∀ s' ∈ ([1] : List ℝ), Gen.DOF_RANK_TOLERANCE * s' < s := by
  intro s hs
  simp only [List.mem_singleton] at hs
  subst hs
  right
  intro s' hs'
  simp only [List.mem_singleton] at hs'
  subst hs'
  rw [DOF_RANK_TOLERANCE_real]; norm_num

/-- Example: `sigma = [1]`, `V = I₂` meet the SVD contract for `J = [1 0]`. -/
theorem exd_svd_I : GN.SvdSpec (!![1, 0] : Matrix (Fin 1) (Fin 2) ℝ)
    (fun k : Fin 2 => ([1] : List ℝ).getD k 0)
    (fun j k : Fin 2 => entryR [[1, 0], [0, 1]] j k) := by
  have hV : (fun j k : Fin 2 => entryR [[1, 0], [0, 1]] j k) =
      (!![1, 0; 0, 1] : Matrix (Fin 2) (Fin 2) ℝ) := by
    ext a b
    fin_cases a <;> fin_cases b <;> simp [entryR]
  rw [hV]
  constructor
  · ext a b
    fin_cases a <;> fin_cases b <;> simp [Matrix.mul_apply, Fin.sum_univ_two]
  · ext a b
    fin_cases a <;> fin_cases b <;> simp [Matrix.mul_apply, Fin.sum_univ_two]

/-- Example: `sigma = [1]`, `V = ` the swap matrix meet the SVD contract for `J = [0 1]`. -/
theorem exd_svd_S : GN.SvdSpec (!![0, 1] : Matrix (Fin 1) (Fin 2) ℝ)
    (fun k : Fin 2 => ([1] : List ℝ).getD k 0)
    (fun j k : Fin 2 => entryR [[0, 1], [1, 0]] j k) := by
  have hV : (fun j k : Fin 2 => entryR [[0, 1], [1, 0]] j k) =
      (!![0, 1; 1, 0] : Matrix (Fin 2) (Fin 2) ℝ) := by
    ext a b
    fin_cases a <;> fin_cases b <;> simp [entryR]
  rw [hV]
  constructor
  · ext a b
    fin_cases a <;> fin_cases b <;> simp [Matrix.mul_apply, Fin.sum_univ_two]
  · ext a b
    fin_cases a <;> fin_cases b <;> simp [Matrix.mul_apply, Fin.sum_univ_two]

/-- Example: `[0 1]` is `[1 0]` with its two columns exchanged. -/
theorem exd_swap : (!![1, 0] : Matrix (Fin 1) (Fin 2) ℝ).submatrix id (Equiv.swap 0 1) = !![0, 1] := by
  ext a b
  fin_cases a
  fin_cases b <;> simp

/-- **Non-vacuity of `dof_col_perm`**: `J = [1 0]` with `σ = [1]`, `V = I₂` and its column swap
`[0 1]` with `σ = [1]`, `V =` the swap matrix meet all hypotheses. -/
example : ∃ out out', dofCalculate ([1] : List ℝ) [[1, 0], [0, 1]] 2 = .ok out ∧
    dofCalculate ([1] : List ℝ) [[0, 1], [1, 0]] 2 = .ok out' ∧
    out.Pairwise (· < ·) ∧ out'.Pairwise (· < ·) ∧ (∀ j ∈ out, j < 2) ∧ (∀ j ∈ out', j < 2) ∧
    ∀ (j : Nat) (hj : j < 2), j ∈ out' ↔ (Equiv.swap (0 : Fin 2) 1 ⟨j, hj⟩).val ∈ out :=
  dof_col_perm (!![1, 0] : Matrix (Fin 1) (Fin 2) ℝ) (Equiv.swap 0 1) [1] [1] _ _ (by simp) (by simp)
    (by simp) (by simp) exd_hV_I exd_hV_S exd_gap exd_gap exd_svd_I (by rw [exd_swap]; exact exd_svd_S)

/-- The dense matrix of the contribution list `[(0, 0, 1)]`. -/
theorem exd_mat_I : matOf 1 2 [(0, 0, (1.0 : ℝ))] = !![1, 0] := by
  ext a b
  fin_cases a
  fin_cases b <;> simp [matOf] <;> norm_num

/-- The dense matrix of the contribution list `[(0, 1, 1)]`. -/
theorem exd_mat_S : matOf 1 2 [(0, 1, (1.0 : ℝ))] = !![0, 1] := by
  ext a b
  fin_cases a
  fin_cases b <;> simp [matOf] <;> norm_num

/-- The last Jacobian of a successful Newton run on the single request `Fixed(x0 = 5)`. -/
theorem exd_lastJac_I (cfg : Config ℝ) (solve) (x : List ℝ) (a : NewtonOk ℝ)
    (h : newton [(⟨.fixed 0 5, 0, 0⟩ : Entry ℝ)] cfg solve x = .ok a) :
    a.lastJac = [(0, 0, 1.0)] := by
  obtain ⟨y, w2, hj, _, _⟩ := C05.newtonLoop_lastJac _ cfg solve _ _ _ _ a h
  simp [jacobianAll, jacobianFrom, pattern, patternFrom, Constraint.jacobianRows,
    Constraint.jacobianV, Constraint.jacobianReads, takeRows, Constraint.residualDim,
    Constraint.nonzeroes] at hj
  exact hj.1.symm

/-- The last Jacobian of a successful Newton run on the single request `Fixed(x1 = 5)`. -/
theorem exd_lastJac_S (cfg : Config ℝ) (solve) (x : List ℝ) (a : NewtonOk ℝ)
    (h : newton ([(⟨.fixed 0 5, 0, 0⟩ : Entry ℝ)].map (Entry.rename swap01)) cfg solve x = .ok a) :
    a.lastJac = [(0, 1, 1.0)] := by
  obtain ⟨y, w2, hj, _, _⟩ := C05.newtonLoop_lastJac _ cfg solve _ _ _ _ a h
  simp [Entry.rename, Constraint.rename, swap01, jacobianAll, jacobianFrom, pattern, patternFrom, Constraint.jacobianRows,
    Constraint.jacobianV, Constraint.jacobianReads, takeRows, Constraint.residualDim,
    Constraint.nonzeroes] at hj
  exact hj.1.symm


/-- **Non-vacuity of `solveInner_renumber_withAnalysis`**: one request `Fixed(x0 = 5)` over two
variables, the variables exchanged; exact LU solver from `exists_colPermSolve`; SVD oracles
answering `([1], I₂)` resp. `([1], swap)`, which are good on the last Jacobians `[1 0]` resp.
`[0 1]`. -/
example : ∃ solve : Nat → List (Triplet ℝ) → List ℝ → Except SolveError (List ℝ),
    ResRel (Failure.RenumEq swap01) (Outcome.RenumEqDof swap01 2)
      (solveInner [(⟨.fixed 0 5, 0, 0⟩ : Entry ℝ)] [(0, 1), (1, 2)] ⟨30, 1e-5, 1e-5⟩ solve
        (some (fun _ => .ok ([1], [[1, 0], [0, 1]]))))
      (solveInner ([(⟨.fixed 0 5, 0, 0⟩ : Entry ℝ)].map (Entry.rename swap01)) [(0, 2), (1, 1)]
        ⟨30, 1e-5, 1e-5⟩ solve (some (fun _ => .ok ([1], [[0, 1], [1, 0]])))) := by
  have h2 : ∀ i, i < 2 → i = 0 ∨ i = 1 := by omega
  obtain ⟨s, hs, _⟩ := exists_colPermSolve 1 2 swap01 permOn_swap01
  refine ⟨s, solveInner_renumber_withAnalysis swap01 2 permOn_swap01 _ ?_ _ s s hs _ _
    ⟨rfl, rfl, ?_⟩ ?_ _ _ ?_ ?_⟩
  · intro e he i hi
    simp only [List.mem_cons, List.mem_nil_iff, or_false] at he
    rcases he with rfl
    simp [Constraint.nonzeroes, Rows.all] at hi
    omega
  · intro i hi
    rcases h2 i hi with rfl | rfl <;> rfl
  · intro v hv
    rcases h2 v hv with rfl | rfl <;> decide
  · intro a ha
    rw [exd_lastJac_I _ _ _ a ha]
    refine ⟨[1], _, rfl, by simp, by simp, exd_hV_I, exd_gap, ?_⟩
    rw [show numRows [(⟨.fixed 0 5, 0, 0⟩ : Entry ℝ)] = 1 from rfl, exd_mat_I]
    exact exd_svd_I
  · intro b hb
    rw [exd_lastJac_S _ _ _ b hb]
    refine ⟨[1], _, rfl, by simp, by simp, exd_hV_S, exd_gap, ?_⟩
    rw [show numRows [(⟨.fixed 0 5, 0, 0⟩ : Entry ℝ)] = 1 from rfl, exd_mat_S]
    exact exd_svd_S


/-- Example: `V = I₃` as a list is 3×3. -/
theorem exd_hV_I3 : ∀ j < 3, ∃ row, ([[1, 0, 0], [0, 1, 0], [0, 0, 1]] : List (List ℝ))[j]? =
    some row ∧ 3 ≤ row.length := by
  intro j hj
  have : j = 0 ∨ j = 1 ∨ j = 2 := by omega
  rcases this with rfl | rfl | rfl <;> simp

/-- Example: the spectrum `[1, 1]` has the gap. -/
theorem exd_gap11 : ∀ s ∈ ([1, 1] : List ℝ), s = 0 ∨
    ∀ s' ∈ ([1, 1] : List ℝ), Gen.DOF_RANK_TOLERANCE * s' < s := by
  intro s hs
  have hs1 : s = 1 := by simpa using hs
  subst hs1
  right
  intro s' hs'
  have hs1 : s' = 1 := by simpa using hs'
  subst hs1
  rw [DOF_RANK_TOLERANCE_real]; norm_num

/-- Example: `V = I₃` as a matrix. -/
theorem exd_V3 : (fun j k : Fin 3 => entryR [[1, 0, 0], [0, 1, 0], [0, 0, 1]] j k) =
    (1 : Matrix (Fin 3) (Fin 3) ℝ) := by
  ext a b
  fin_cases a <;> fin_cases b <;> simp [entryR]

/-- Example: `sigma = [1, 1]`, `V = I₃` meet the SVD contract for the 2×3 matrix `[1 0 0; 0 1 0]`
and for its row swap `[0 1 0; 1 0 0]`. -/
theorem exd_svd3 (J : Matrix (Fin 2) (Fin 3) ℝ)
    (hJ : J = !![1, 0, 0; 0, 1, 0] ∨ J = !![0, 1, 0; 1, 0, 0]) : GN.SvdSpec J
    (fun k : Fin 3 => ([1, 1] : List ℝ).getD k 0)
    (fun j k : Fin 3 => entryR [[1, 0, 0], [0, 1, 0], [0, 0, 1]] j k) := by
  rw [exd_V3]
  constructor
  · simp
  · rw [transpose_one, Matrix.one_mul, Matrix.mul_one]
    rcases hJ with rfl | rfl <;> ext a b <;> fin_cases a <;> fin_cases b <;>
      simp [Matrix.mul_apply, Fin.sum_univ_two]

/-- The last Jacobian of a successful Newton run on `Fixed(x0 = 5), Fixed(x1 = 7)`. -/
theorem exd_lastJac_A (cfg : Config ℝ) (solve) (x : List ℝ) (a : NewtonOk ℝ)
    (h : newton [(⟨.fixed 0 5, 0, 0⟩ : Entry ℝ), ⟨.fixed 1 7, 1, 0⟩] cfg solve x = .ok a) :
    a.lastJac = [(0, 0, 1.0), (1, 1, 1.0)] := by
  obtain ⟨y, w2, hj, _, _⟩ := C05.newtonLoop_lastJac _ cfg solve _ _ _ _ a h
  simp [jacobianAll, jacobianFrom, pattern, patternFrom, Constraint.jacobianRows,
    Constraint.jacobianV, Constraint.jacobianReads, takeRows, Constraint.residualDim,
    Constraint.nonzeroes] at hj
  exact hj.1.symm

/-- The last Jacobian of a successful Newton run on `Fixed(x1 = 7), Fixed(x0 = 5)`. -/
theorem exd_lastJac_B (cfg : Config ℝ) (solve) (x : List ℝ) (a : NewtonOk ℝ)
    (h : newton [(⟨.fixed 1 7, 1, 0⟩ : Entry ℝ), ⟨.fixed 0 5, 0, 0⟩] cfg solve x = .ok a) :
    a.lastJac = [(0, 1, 1.0), (1, 0, 1.0)] := by
  obtain ⟨y, w2, hj, _, _⟩ := C05.newtonLoop_lastJac _ cfg solve _ _ _ _ a h
  simp [jacobianAll, jacobianFrom, pattern, patternFrom, Constraint.jacobianRows,
    Constraint.jacobianV, Constraint.jacobianReads, takeRows, Constraint.residualDim,
    Constraint.nonzeroes] at hj
  exact hj.1.symm

/-- The dense matrix of `[(0, 0, 1), (1, 1, 1)]`. -/
theorem exd_mat_A : matOf 2 3 [(0, 0, (1.0 : ℝ)), (1, 1, 1.0)] = !![1, 0, 0; 0, 1, 0] := by
  ext a b
  fin_cases a <;> fin_cases b <;> simp [matOf] <;> norm_num

/-- The dense matrix of `[(0, 1, 1), (1, 0, 1)]`. -/
theorem exd_mat_B : matOf 2 3 [(0, 1, (1.0 : ℝ)), (1, 0, 1.0)] = !![0, 1, 0; 1, 0, 0] := by
  ext a b
  fin_cases a <;> fin_cases b <;> simp [matOf] <;> norm_num

/-- **Non-vacuity of `solveInner_perm_withAnalysis`**: two requests `Fixed(x0 = 5)`,
`Fixed(x1 = 7)` over three variables, listed in both orders; exact LU solver from
`exists_rowPermSolve`; one SVD oracle answering `([1, 1], I₃)`, which is good on both last
Jacobians (`[1 0 0; 0 1 0]` and its row swap). -/
example : ∃ solve : Nat → List (Triplet ℝ) → List ℝ → Except SolveError (List ℝ),
    SolvePermEq
      (solveInner [(⟨.fixed 0 5, 0, 0⟩ : Entry ℝ), ⟨.fixed 1 7, 1, 0⟩] [(0, 0), (1, 0), (2, 0)]
        ⟨30, 1e-5, 1e-5⟩ solve (some (fun _ => .ok ([1, 1], [[1, 0, 0], [0, 1, 0], [0, 0, 1]]))))
      (solveInner [(⟨.fixed 1 7, 1, 0⟩ : Entry ℝ), ⟨.fixed 0 5, 0, 0⟩] [(0, 0), (1, 0), (2, 0)]
        ⟨30, 1e-5, 1e-5⟩ solve (some (fun _ => .ok ([1, 1], [[1, 0, 0], [0, 1, 0], [0, 0, 1]])))) := by
  obtain ⟨s, hs, _⟩ := exists_rowPermSolve
    (numRows [(⟨.fixed 0 5, 0, 0⟩ : Entry ℝ), ⟨.fixed 1 7, 1, 0⟩]) 3
  refine ⟨s, solveInner_perm_withAnalysis (List.Perm.swap _ _ _) _ s s hs _ _ _ ?_ ?_ ?_⟩
  · intro a ha
    rw [exd_lastJac_A _ _ _ a ha]
    refine ⟨[1, 1], _, rfl, by simp, by simp, exd_hV_I3, exd_gap11, ?_⟩
    rw [show numRows [(⟨.fixed 0 5, 0, 0⟩ : Entry ℝ), ⟨.fixed 1 7, 1, 0⟩] = 2 from rfl]
    exact exd_svd3 _ (Or.inl exd_mat_A)
  · intro b hb
    rw [exd_lastJac_B _ _ _ b hb]
    refine ⟨[1, 1], _, rfl, by simp, by simp, exd_hV_I3, exd_gap11, ?_⟩
    rw [show numRows [(⟨.fixed 0 5, 0, 0⟩ : Entry ℝ), ⟨.fixed 1 7, 1, 0⟩] = 2 from rfl]
    exact exd_svd3 _ (Or.inr exd_mat_B)
  · simp [modelNew, validateVariables, firstMissing, Constraint.nonzeroes, pattern, patternFrom,
      takeRows, Constraint.residualDim, List.zipIdx]

end Example

end Ezpz
