/-
C13 over ℝ, `ArcLength`: both Jacobian rows of the model are the derivative of the two-component
error measure `(dot/n − cos(d/√n), cross/n − sin(d/√n))`, `n = |start − center|²`.
-/
import Ezpz.Real.Deriv
namespace Ezpz
open Transc Filter Topology

/-! ### Half-integer powers as `n^k * √n` -/

theorem rpow_five_halves {n : ℝ} (hn : 0 < n) : n ^ ((5.0 : ℝ) / 2.0) = n ^ 2 * √n := by
  rw [lit_5, lit_2, show (5 : ℝ) / 2 = (2 : ℕ) + 1 / 2 by norm_num, Real.rpow_add hn,
    Real.rpow_natCast, Real.sqrt_eq_rpow]

theorem rpow_seven_halves {n : ℝ} (hn : 0 < n) : n ^ ((7.0 : ℝ) / 2.0) = n ^ 3 * √n := by
  rw [lit_7, lit_2, show (7 : ℝ) / 2 = (3 : ℕ) + 1 / 2 by norm_num, Real.rpow_add hn,
    Real.rpow_natCast, Real.sqrt_eq_rpow]

theorem rpow_nine_halves {n : ℝ} (hn : 0 < n) : n ^ ((9.0 : ℝ) / 2.0) = n ^ 4 * √n := by
  rw [lit_9, lit_2, show (9 : ℝ) / 2 = (4 : ℕ) + 1 / 2 by norm_num, Real.rpow_add hn,
    Real.rpow_natCast, Real.sqrt_eq_rpow]

/-- Structural derivative including `sqrt`, division, `sin`, `cos`. -/
macro "deriv_struct_trig" : tactic => `(tactic| (
  repeat' (first
    | exact hasDerivAt_line _ _ _
    | exact hasDerivAt_const _ _
    | apply HasDerivAt.cos
    | apply HasDerivAt.sin
    | apply HasDerivAt.sqrt
    | apply HasDerivAt.fun_div
    | apply HasDerivAt.fun_add
    | apply HasDerivAt.fun_sub
    | apply HasDerivAt.fun_mul
    | apply HasDerivAt.fun_neg)))

/-- The guard of `ArcLength` (`|start − center|² < EPS`) is strictly inactive at `v`. -/
def RegularArcLength (arc : ArcD) (v : Nat → ℝ) : Prop :=
  EPS < (v arc.start.x - v arc.center.x) * (v arc.start.x - v arc.center.x)
    + (v arc.start.y - v arc.center.y) * (v arc.start.y - v arc.center.y)

variable (v u : Nat → ℝ)

theorem arcLength_guard_eventually (arc : ArcD) (hreg : RegularArcLength arc v) :
    ∀ᶠ t in 𝓝 (0 : ℝ), ¬
      (lineThrough v u t arc.start.x - lineThrough v u t arc.center.x)
        * (lineThrough v u t arc.start.x - lineThrough v u t arc.center.x)
      + (lineThrough v u t arc.start.y - lineThrough v u t arc.center.y)
        * (lineThrough v u t arc.start.y - lineThrough v u t arc.center.y) < EPS := by
  have c : ContinuousAt (fun t =>
      (lineThrough v u t arc.start.x - lineThrough v u t arc.center.x)
        * (lineThrough v u t arc.start.x - lineThrough v u t arc.center.x)
      + (lineThrough v u t arc.start.y - lineThrough v u t arc.center.y)
        * (lineThrough v u t arc.start.y - lineThrough v u t arc.center.y)) 0 := by
    have := continuous_line v u arc.start.x; have := continuous_line v u arc.center.x
    have := continuous_line v u arc.start.y; have := continuous_line v u arc.center.y
    fun_prop
  exact eventually_not_lt c (by simpa [lineThrough, RegularArcLength] using hreg)

theorem deriv_arcLength_row0 (arc : ArcD) (d : ℝ) (hreg : RegularArcLength arc v) :
    DerivRow (.arcLength arc d) v u (·.r0) (·.r0) := by
  have hj : ¬ (v arc.start.x - v arc.center.x) * (v arc.start.x - v arc.center.x)
      + (v arc.start.y - v arc.center.y) * (v arc.start.y - v arc.center.y) < EPS :=
    not_lt.mpr (le_of_lt hreg)
  have hpos : 0 < (v arc.start.x - v arc.center.x) * (v arc.start.x - v arc.center.x)
      + (v arc.start.y - v arc.center.y) * (v arc.start.y - v arc.center.y) :=
    lt_trans EPS_pos hreg
  have hev : ∀ᶠ t in 𝓝 (0 : ℝ),
      ((Constraint.arcLength arc d).residualV (lineThrough v u t)).r0 =
      ((lineThrough v u t arc.start.x - lineThrough v u t arc.center.x)
          * (lineThrough v u t arc.stop.x - lineThrough v u t arc.center.x)
        + (lineThrough v u t arc.start.y - lineThrough v u t arc.center.y)
          * (lineThrough v u t arc.stop.y - lineThrough v u t arc.center.y))
        * (1 / ((lineThrough v u t arc.start.x - lineThrough v u t arc.center.x)
            * (lineThrough v u t arc.start.x - lineThrough v u t arc.center.x)
          + (lineThrough v u t arc.start.y - lineThrough v u t arc.center.y)
            * (lineThrough v u t arc.start.y - lineThrough v u t arc.center.y)))
      - Real.cos (d * (1 / √((lineThrough v u t arc.start.x - lineThrough v u t arc.center.x)
            * (lineThrough v u t arc.start.x - lineThrough v u t arc.center.x)
          + (lineThrough v u t arc.start.y - lineThrough v u t arc.center.y)
            * (lineThrough v u t arc.start.y - lineThrough v u t arc.center.y)))) := by
    filter_upwards [arcLength_guard_eventually v u arc hreg] with t ht
    simp only [Constraint.residualV]
    rw [if_neg ht]
    simp only [Res.mk2, sqr, recip, cos_real, sqrt_real, lit_1]
  unfold DerivRow
  refine HasDerivAt.congr_of_eventuallyEq ?_ hev
  simp only [Constraint.jacobianV]
  rw [if_neg hj]
  simp only [rowApply, List.map_cons, List.map_nil, List.sum_cons, List.sum_nil, sqr, cube, recip,
    powf_real, sin_real, sqrt_real, rpow_five_halves hpos, rpow_seven_halves hpos,
    rpow_nine_halves hpos]
  apply HasDerivAt.congr_deriv
  · deriv_struct_trig
    · simpa [lineThrough] using hpos.ne'
    · simpa [lineThrough] using hpos.ne'
    · simpa [lineThrough] using (Real.sqrt_pos.mpr hpos).ne'
  · lits
    have hs : (v arc.start.x - v arc.center.x) * (v arc.start.x - v arc.center.x)
        + (v arc.start.y - v arc.center.y) * (v arc.start.y - v arc.center.y)
        = √((v arc.start.x - v arc.center.x) * (v arc.start.x - v arc.center.x)
        + (v arc.start.y - v arc.center.y) * (v arc.start.y - v arc.center.y))
        * √((v arc.start.x - v arc.center.x) * (v arc.start.x - v arc.center.x)
        + (v arc.start.y - v arc.center.y) * (v arc.start.y - v arc.center.y)) :=
      (Real.mul_self_sqrt hpos.le).symm
    have hs0 := (Real.sqrt_pos.mpr hpos).ne'
    generalize √((v arc.start.x - v arc.center.x) * (v arc.start.x - v arc.center.x)
        + (v arc.start.y - v arc.center.y) * (v arc.start.y - v arc.center.y)) = s at hs hs0 ⊢
    rw [hs]
    field_simp
    ring

theorem deriv_arcLength_row1 (arc : ArcD) (d : ℝ) (hreg : RegularArcLength arc v) :
    DerivRow (.arcLength arc d) v u (·.r1) (·.r1) := by
  have hj : ¬ (v arc.start.x - v arc.center.x) * (v arc.start.x - v arc.center.x)
      + (v arc.start.y - v arc.center.y) * (v arc.start.y - v arc.center.y) < EPS :=
    not_lt.mpr (le_of_lt hreg)
  have hpos : 0 < (v arc.start.x - v arc.center.x) * (v arc.start.x - v arc.center.x)
      + (v arc.start.y - v arc.center.y) * (v arc.start.y - v arc.center.y) :=
    lt_trans EPS_pos hreg
  have hev : ∀ᶠ t in 𝓝 (0 : ℝ),
      ((Constraint.arcLength arc d).residualV (lineThrough v u t)).r1 =
      ((lineThrough v u t arc.start.x - lineThrough v u t arc.center.x)
          * (lineThrough v u t arc.stop.y - lineThrough v u t arc.center.y)
        - (lineThrough v u t arc.start.y - lineThrough v u t arc.center.y)
          * (lineThrough v u t arc.stop.x - lineThrough v u t arc.center.x))
        * (1 / ((lineThrough v u t arc.start.x - lineThrough v u t arc.center.x)
            * (lineThrough v u t arc.start.x - lineThrough v u t arc.center.x)
          + (lineThrough v u t arc.start.y - lineThrough v u t arc.center.y)
            * (lineThrough v u t arc.start.y - lineThrough v u t arc.center.y)))
      - Real.sin (d * (1 / √((lineThrough v u t arc.start.x - lineThrough v u t arc.center.x)
            * (lineThrough v u t arc.start.x - lineThrough v u t arc.center.x)
          + (lineThrough v u t arc.start.y - lineThrough v u t arc.center.y)
            * (lineThrough v u t arc.start.y - lineThrough v u t arc.center.y)))) := by
    filter_upwards [arcLength_guard_eventually v u arc hreg] with t ht
    simp only [Constraint.residualV]
    rw [if_neg ht]
    simp only [Res.mk2, sqr, recip, sin_real, sqrt_real, lit_1]
  unfold DerivRow
  refine HasDerivAt.congr_of_eventuallyEq ?_ hev
  simp only [Constraint.jacobianV]
  rw [if_neg hj]
  simp only [rowApply, List.map_cons, List.map_nil, List.sum_cons, List.sum_nil, sqr, cube, recip,
    powf_real, cos_real, sqrt_real, rpow_five_halves hpos, rpow_seven_halves hpos,
    rpow_nine_halves hpos]
  apply HasDerivAt.congr_deriv
  · deriv_struct_trig
    · simpa [lineThrough] using hpos.ne'
    · simpa [lineThrough] using hpos.ne'
    · simpa [lineThrough] using (Real.sqrt_pos.mpr hpos).ne'
  · lits
    have hs : (v arc.start.x - v arc.center.x) * (v arc.start.x - v arc.center.x)
        + (v arc.start.y - v arc.center.y) * (v arc.start.y - v arc.center.y)
        = √((v arc.start.x - v arc.center.x) * (v arc.start.x - v arc.center.x)
        + (v arc.start.y - v arc.center.y) * (v arc.start.y - v arc.center.y))
        * √((v arc.start.x - v arc.center.x) * (v arc.start.x - v arc.center.x)
        + (v arc.start.y - v arc.center.y) * (v arc.start.y - v arc.center.y)) :=
      (Real.mul_self_sqrt hpos.le).symm
    have hs0 := (Real.sqrt_pos.mpr hpos).ne'
    generalize √((v arc.start.x - v arc.center.x) * (v arc.start.x - v arc.center.x)
        + (v arc.start.y - v arc.center.y) * (v arc.start.y - v arc.center.y)) = s at hs hs0 ⊢
    rw [hs]
    field_simp
    ring

/-- Non-vacuity: centre `(0,0)`, start `(1,0)` is regular. -/
example : RegularArcLength ⟨⟨0, 1⟩, ⟨2, 3⟩, ⟨4, 5⟩⟩ (fun i => if i = 2 then 1 else 0) := by
  simp only [RegularArcLength, EPS_real]; norm_num

end Ezpz
