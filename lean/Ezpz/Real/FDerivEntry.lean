/-
C02 — the local-convergence theorem instantiated with the MODEL's residual map.

`gauss_newton_local_C02_of_continuous_jacobian` (Real/ContinuityGN.lean) is about an abstract
residual map `r` and Jacobian `Jx`.  Here `r := rOf es n` and `Jx := JOf es n` are the model's
`residualAll` / `jacobianAll` at the coordinates of the point (Real/FDerivKinds.lean).

* `resRow_hasFDerivAt`, `jacRow_continuousAt`: rows of the assembled maps, from per-kind `KindC1`.
* `hasFDerivAt_rOf_of_kindC1`, `continuousAt_JOf_of_kindC1`: general form (any kinds that are `C¹`
  at `xs`); `hasFDerivAt_rOf` (first family, every point); `hasFDerivAt_rOf_regular` (first family
  + `Distance`, `LinesEqualLength`, `ArcRadius` away from coincident points).
* `gnMap`, `model_local_C02_of_kindC1`, `model_local_C02`, `model_local_C02_regular`: C02's
  conclusion for the exact damped Gauss–Newton iteration built from the model's own maps.
* `newtonStep_isStep_model`, `newtonStep_eq_gnMap`, `newtonRun_eq_iterate`: a continuing round of
  the model's `newtonStep` with an exact solver is one application of `gnMap` (all kinds).
* `model_newtonRun_C02`: C02's conclusion for the rounds the model's loop executes.
* "Thales" (perpendicular; non-linear) and "Circle" (distance): concrete instances of all hypotheses.
-/
import Ezpz.Real.FDerivKinds
namespace Ezpz
open Transc Matrix Topology

/-! ### 1. Rows of the assembled maps are differentiable / continuous -/

/-- Reading one of the first `d` of three rows. -/
theorem takeRows_getD_lt {β : Type} (d i : Nat) (a b c z : β) (h : i < d) :
    (takeRows d a b c).getD i z = [a, b, c].getD i z := by
  simp [takeRows, List.getD_eq_getElem?_getD, h]

/-- **Each row of the assembled residual is Fréchet differentiable, with the assembled Jacobian row
as derivative**: if every request of `es` is `C¹` at `xs` (`KindC1`), then for every row `i` the
function `x ↦ resRow es i (asg n x)` has a Fréchet derivative `D` at `xs` with
`D u = jacRow es i (asg n xs) (asg n u)` for every direction `u`. -/
theorem resRow_hasFDerivAt (n : Nat) (xs : EuclideanSpace ℝ (Fin n)) :
    ∀ es : List (Entry ℝ), (∀ e ∈ es, KindC1 e.c n xs) → ∀ i : Nat,
      ∃ D : EuclideanSpace ℝ (Fin n) →L[ℝ] ℝ,
        HasFDerivAt (fun x => resRow es i (asg n x)) D xs ∧
        ∀ u, D u = jacRow es i (asg n xs) (asg n u) := by
  intro es
  induction es with
  | nil =>
    intro _ i
    exact ⟨0, by simpa [resRow] using hasFDerivAt_const (0 : ℝ) xs, fun u => by simp [jacRow]⟩
  | cons e rest ih =>
    intro h i
    have he := h e List.mem_cons_self
    by_cases hi : i < e.c.residualDim
    · have hi3 : i < 3 := by rcases residualDim_range e.c with h | h | h <;> omega
      simp only [resRow_cons, jacRow_cons, if_pos hi, ← takeRows_map, takeRows_getD_lt _ _ _ _ _ _ hi]
      match i, hi3 with
      | 0, _ => exact ⟨_, he.d0, fun u => by simp [rowCLM_apply]⟩
      | 1, _ => exact ⟨_, he.d1, fun u => by simp [rowCLM_apply]⟩
      | 2, _ => exact ⟨_, he.d2, fun u => by simp [rowCLM_apply]⟩
    · simp only [resRow_cons, jacRow_cons, if_neg hi]
      exact ih (fun e' he' => h e' (List.mem_cons_of_mem _ he')) _

/-- **Each row of the assembled Jacobian, applied to a fixed direction, is continuous at `xs`** when
every request of `es` is `C¹` at `xs`. -/
theorem jacRow_continuousAt (n : Nat) (xs : EuclideanSpace ℝ (Fin n)) (U : Nat → ℝ) :
    ∀ es : List (Entry ℝ), (∀ e ∈ es, KindC1 e.c n xs) → ∀ i : Nat,
      ContinuousAt (fun x => jacRow es i (asg n x) U) xs := by
  intro es
  induction es with
  | nil => intro _ i; simpa [jacRow] using continuousAt_const
  | cons e rest ih =>
    intro h i
    have he := h e List.mem_cons_self
    by_cases hi : i < e.c.residualDim
    · have hi3 : i < 3 := by rcases residualDim_range e.c with h | h | h <;> omega
      simp only [jacRow_cons, if_pos hi, ← takeRows_map, takeRows_getD_lt _ _ _ _ _ _ hi]
      match i, hi3 with
      | 0, _ => simpa using he.c0 U
      | 1, _ => simpa using he.c1 U
      | 2, _ => simpa using he.c2 U
    · simp only [jacRow_cons, if_neg hi]
      exact ih (fun e' he' => h e' (List.mem_cons_of_mem _ he')) _

/-! ### 2. The assembled residual map is Fréchet differentiable with the assembled Jacobian -/

/-- **`hasFDerivAt_rOf` (general form)**: for requests with ids `< n` that are all `C¹` at `xs`
(`KindC1`), the model's assembled residual map `rOf es n : ℝⁿ → ℝᵐ` has at `xs` the Fréchet derivative
given by the model's assembled Jacobian matrix `JOf es n xs`. -/
theorem hasFDerivAt_rOf_of_kindC1 (es : List (Entry ℝ)) (n : Nat) (hd : Declared es n)
    (xs : EuclideanSpace ℝ (Fin n)) (h : ∀ e ∈ es, KindC1 e.c n xs) :
    HasFDerivAt (rOf es n) (GN.euclCLM (JOf es n xs)) xs := by
  rw [← hasFDerivWithinAt_univ, hasFDerivWithinAt_euclidean]
  intro i
  rw [hasFDerivWithinAt_univ]
  obtain ⟨D, hD, hDu⟩ := resRow_hasFDerivAt n xs es h i.val
  have hf : (fun x => (rOf es n x) i) = fun x => resRow es i.val (asg n x) :=
    funext fun x => rOf_apply es n hd x i
  rw [hf]
  refine hD.congr_fderiv ?_
  ext u
  rw [hDu u, ← JOf_mulVec_apply es n hd xs u i]
  rfl

/-- **`ContinuousAt (JOf es n) xs` (general form)**: for requests with ids `< n` that are all `C¹`
at `xs`, the model's assembled Jacobian is continuous at `xs` (entrywise). -/
theorem continuousAt_JOf_of_kindC1 (es : List (Entry ℝ)) (n : Nat) (hd : Declared es n)
    (xs : EuclideanSpace ℝ (Fin n)) (h : ∀ e ∈ es, KindC1 e.c n xs) :
    ContinuousAt (JOf es n) xs := by
  refine continuousAt_pi.2 fun i => continuousAt_pi.2 fun j => ?_
  have hf : (fun x => JOf es n x i j) =
      fun x => jacRow es i.val (asg n x) (asg n (EuclideanSpace.single j (1 : ℝ))) := by
    funext x
    rw [← JOf_mulVec_apply es n hd x (EuclideanSpace.single j (1 : ℝ)) i]
    simp
  rw [hf]
  exact jacRow_continuousAt n xs _ es h i.val

/-- **`hasFDerivAt_rOf`** (first family): for a list `es` of requests of the first family
(`SmoothKind`: the nine linear kinds, parallel, perpendicular, `Arc`) with ids `< n`, at *every* point
`xs` of `ℝⁿ` the model's assembled residual map has the Fréchet derivative given by the model's
assembled Jacobian matrix at `xs`, and the assembled Jacobian is continuous at `xs`. -/
theorem hasFDerivAt_rOf (es : List (Entry ℝ)) (n : Nat) (hd : Declared es n)
    (hk : ∀ e ∈ es, SmoothKind e.c) (xs : EuclideanSpace ℝ (Fin n)) :
    HasFDerivAt (rOf es n) (GN.euclCLM (JOf es n xs)) xs ∧ ContinuousAt (JOf es n) xs :=
  ⟨hasFDerivAt_rOf_of_kindC1 es n hd xs (fun e he => kindC1_of_smooth e.c (hk e he) n xs),
    continuousAt_JOf_of_kindC1 es n hd xs (fun e he => kindC1_of_smooth e.c (hk e he) n xs)⟩

/-- **`hasFDerivAt_rOf` with regularity hypotheses** (first family plus `Distance`,
`LinesEqualLength`, `ArcRadius`): for requests with ids `< n` that are all regular at `xs`
(`RegularAt`: the points whose distance is taken are farther apart than `EPSILON` at `xs`), the
model's assembled residual map has at `xs` the Fréchet derivative given by the model's assembled
Jacobian at `xs`, and the assembled Jacobian is continuous at `xs`. -/
theorem hasFDerivAt_rOf_regular (es : List (Entry ℝ)) (n : Nat) (hd : Declared es n)
    (xs : EuclideanSpace ℝ (Fin n)) (hk : ∀ e ∈ es, RegularAt e.c (asg n xs)) :
    HasFDerivAt (rOf es n) (GN.euclCLM (JOf es n xs)) xs ∧ ContinuousAt (JOf es n) xs :=
  ⟨hasFDerivAt_rOf_of_kindC1 es n hd xs (fun e he => kindC1_of_regular e.c n xs (hk e he)),
    continuousAt_JOf_of_kindC1 es n hd xs (fun e he => kindC1_of_regular e.c n xs (hk e he))⟩

/-! ### 3. C02 for the model's residual map -/

/-- One exact damped Gauss–Newton round built from the model's residual and Jacobian:
`x ↦ x − (JₓᵀJₓ + lam I)⁻¹ Jₓᵀ r(x)` with `r = rOf es n`, `Jₓ = JOf es n x`. -/
noncomputable def gnMap (es : List (Entry ℝ)) (n : Nat) (lam : ℝ)
    (x : EuclideanSpace ℝ (Fin n)) : EuclideanSpace ℝ (Fin n) :=
  x - GN.euclCLM (((JOf es n x)ᵀ * JOf es n x + lam • (1 : Matrix (Fin n) (Fin n) ℝ))⁻¹ *
    (JOf es n x)ᵀ) (rOf es n x)

/-- **`model_local_C02` (general form)**: `es` with ids `< n`, every request `C¹` at `xs`
(`KindC1`), `xs` a zero of the model's residual map, `0 < lam < c ≤ σ_min(JOf es n xs)²`.  Then there
is `ρ > 0` such that the exact damped Gauss–Newton iteration built from the model's residual and
Jacobian (`gnMap`), started within `ρ` of `xs`, halves its error every round, stays within `ρ` of
`xs`, and never moves farther than `1.5 ‖x0 − xs‖` from the guess. -/
theorem model_local_C02_of_kindC1 (es : List (Entry ℝ)) (n : Nat) (hd : Declared es n)
    (xs : EuclideanSpace ℝ (Fin n)) (hk : ∀ e ∈ es, KindC1 e.c n xs) (hxs : rOf es n xs = 0)
    (lam c : ℝ) (hlam : 0 < lam) (hc : lam < c)
    (hJ : ∀ v : Fin n → ℝ, c * (v ⬝ᵥ v) ≤ (JOf es n xs *ᵥ v) ⬝ᵥ (JOf es n xs *ᵥ v)) :
    ∃ ρ : ℝ, 0 < ρ ∧ ∀ x0, ‖x0 - xs‖ ≤ ρ → ∀ k : ℕ,
      ‖(gnMap es n lam)^[k] x0 - xs‖ ≤ (1 / 2) ^ k * ‖x0 - xs‖ ∧
      ‖(gnMap es n lam)^[k] x0 - xs‖ ≤ ρ ∧
      ‖(gnMap es n lam)^[k] x0 - x0‖ ≤ 1.5 * ‖x0 - xs‖ :=
  GN.gauss_newton_local_C02_of_continuous_jacobian (rOf es n) xs (JOf es n xs) (JOf es n) lam c hlam hc
    hJ (hasFDerivAt_rOf_of_kindC1 es n hd xs hk) hxs rfl (continuousAt_JOf_of_kindC1 es n hd xs hk)

/-- **`model_local_C02`** (first family): for a list `es` of requests of the first family
(`SmoothKind`) with ids `< n`, a point `xs` where the model's residual vanishes, and
`0 < lam < c ≤ σ_min(J)²` for the model's Jacobian `J = JOf es n xs` at `xs` (`lam = 1e-9` in the
code), there is `ρ > 0` such that the exact damped Gauss–Newton iteration built from the model's
residual and Jacobian, started within `ρ` of `xs`, halves its error every round, stays within `ρ`
of `xs`, and never moves farther than `1.5 ‖x0 − xs‖` from the guess. -/
theorem model_local_C02 (es : List (Entry ℝ)) (n : Nat) (hd : Declared es n)
    (hk : ∀ e ∈ es, SmoothKind e.c) (xs : EuclideanSpace ℝ (Fin n)) (hxs : rOf es n xs = 0)
    (lam c : ℝ) (hlam : 0 < lam) (hc : lam < c)
    (hJ : ∀ v : Fin n → ℝ, c * (v ⬝ᵥ v) ≤ (JOf es n xs *ᵥ v) ⬝ᵥ (JOf es n xs *ᵥ v)) :
    ∃ ρ : ℝ, 0 < ρ ∧ ∀ x0, ‖x0 - xs‖ ≤ ρ → ∀ k : ℕ,
      ‖(gnMap es n lam)^[k] x0 - xs‖ ≤ (1 / 2) ^ k * ‖x0 - xs‖ ∧
      ‖(gnMap es n lam)^[k] x0 - xs‖ ≤ ρ ∧
      ‖(gnMap es n lam)^[k] x0 - x0‖ ≤ 1.5 * ‖x0 - xs‖ :=
  model_local_C02_of_kindC1 es n hd xs (fun e he => kindC1_of_smooth e.c (hk e he) n xs) hxs lam c
    hlam hc hJ

/-- **`model_local_C02` with regularity hypotheses** (first family plus `Distance`,
`LinesEqualLength`, `ArcRadius`): as `model_local_C02`, for requests that are regular at the
solution `xs` (`RegularAt`). -/
theorem model_local_C02_regular (es : List (Entry ℝ)) (n : Nat) (hd : Declared es n)
    (xs : EuclideanSpace ℝ (Fin n)) (hk : ∀ e ∈ es, RegularAt e.c (asg n xs))
    (hxs : rOf es n xs = 0) (lam c : ℝ) (hlam : 0 < lam) (hc : lam < c)
    (hJ : ∀ v : Fin n → ℝ, c * (v ⬝ᵥ v) ≤ (JOf es n xs *ᵥ v) ⬝ᵥ (JOf es n xs *ᵥ v)) :
    ∃ ρ : ℝ, 0 < ρ ∧ ∀ x0, ‖x0 - xs‖ ≤ ρ → ∀ k : ℕ,
      ‖(gnMap es n lam)^[k] x0 - xs‖ ≤ (1 / 2) ^ k * ‖x0 - xs‖ ∧
      ‖(gnMap es n lam)^[k] x0 - xs‖ ≤ ρ ∧
      ‖(gnMap es n lam)^[k] x0 - x0‖ ≤ 1.5 * ‖x0 - xs‖ :=
  model_local_C02_of_kindC1 es n hd xs (fun e he => kindC1_of_regular e.c n xs (hk e he)) hxs lam c
    hlam hc hJ

/-! ### 4. One round of the model's `newtonStep` with an exact solver is `gnMap` -/

/-- The point of `ℝⁿ` with the coordinates of a value list. -/
noncomputable def pointOf (n : Nat) (x : List ℝ) : EuclideanSpace ℝ (Fin n) := WithLp.toLp 2 (vecOf n x)

/-- The coordinate list of the point of a list of `n` values is the list. -/
theorem coordList_pointOf (n : Nat) (x : List ℝ) (hx : x.length = n) :
    coordList n (pointOf n x) = x :=
  vecOf_inj n _ _ (coordList_length n _) hx (by rw [vecOf_coordList]; rfl)

/-- **A continuing round of the model's `newtonStep` is an exact damped step of the model's own
residual and Jacobian** (all kinds; generalises `newtonStep_isStep` from linear lists): `es` with ids
`< n`, `x` with `n` values, `solve` exact (`ExactSolve`) with damping `lam k`.  If round `k` continues
from `x` to `x'`, then `x'` has `n` values and `d = x' − x` satisfies
`IsStep (JOf es n x) (rOf es n x) (lam k) d`. -/
theorem newtonStep_isStep_model (es : List (Entry ℝ)) (n : Nat) (cfg : Config ℝ)
    (solve : Nat → List (Triplet ℝ) → List ℝ → Except SolveError (List ℝ)) (lam : Nat → ℝ)
    (hS : ExactSolve solve (numRows es) n lam)
    (k : Nat) (x : List ℝ) (ws : List (Warning ℝ)) (x' : List ℝ) (ws' : List (Warning ℝ))
    (hx : x.length = n) (h : newtonStep es cfg solve k x ws = .next x' ws') :
    x'.length = n ∧
      GN.IsStep (JOf es n (pointOf n x)) (rOf es n (pointOf n x)).ofLp (lam k)
        (vecOf n x' - vecOf n x) := by
  obtain ⟨r, wr, jac, wj, m, d, hr, hj, _, _, hs, hlen, _, _, rfl, _⟩ :=
    newtonStep_next_inv es cfg solve k x ws x' ws' h
  obtain ⟨hdn, hstep⟩ := hS k jac r d hs
  rw [rOf_eq es n (pointOf n x) r wr (by rw [coordList_pointOf n x hx]; exact hr),
    JOf_eq es n (pointOf n x) jac wj (by rw [coordList_pointOf n x hx]; exact hj),
    vecOf_applyStep n x d hx hdn, add_sub_cancel_left]
  exact ⟨by rw [applyStep_length x d hlen, hx], hstep⟩

/-- **A continuing round of the model's `newtonStep` with an exact solver is one application of
`gnMap`**: under the hypotheses of `newtonStep_isStep_model` with positive damping, the point of the
new values is `gnMap es n (lam k)` of the point of the old values (`IsStep` determines the step:
`GN.step_iff_eq_inv`). -/
theorem newtonStep_eq_gnMap (es : List (Entry ℝ)) (n : Nat) (cfg : Config ℝ)
    (solve : Nat → List (Triplet ℝ) → List ℝ → Except SolveError (List ℝ)) (lam : Nat → ℝ)
    (hS : ExactSolve solve (numRows es) n lam)
    (k : Nat) (hlam : 0 < lam k) (x : List ℝ) (ws : List (Warning ℝ)) (x' : List ℝ)
    (ws' : List (Warning ℝ)) (hx : x.length = n)
    (h : newtonStep es cfg solve k x ws = .next x' ws') :
    x'.length = n ∧ pointOf n x' = gnMap es n (lam k) (pointOf n x) := by
  obtain ⟨hlen, hstep⟩ := newtonStep_isStep_model es n cfg solve lam hS k x ws x' ws' hx h
  refine ⟨hlen, ?_⟩
  have hd := (GN.step_iff_eq_inv _ _ _ hlam _).mp hstep
  apply (WithLp.ofLp_injective 2)
  unfold gnMap
  rw [WithLp.ofLp_sub, GN.euclCLM_apply]
  show vecOf n x' = vecOf n x - _
  rw [sub_eq_add_neg, ← hd]; abel

/-- **The executed rounds of the model's loop are iterates of `gnMap`**: with an exact solver of
constant damping `lam > 0`, if `j` rounds continue from `x` (round `k`) to `y`, then `y` has `n` values
and its point is `(gnMap es n lam)^[j]` of the point of `x`. -/
theorem newtonRun_eq_iterate (es : List (Entry ℝ)) (n : Nat) (cfg : Config ℝ)
    (solve : Nat → List (Triplet ℝ) → List ℝ → Except SolveError (List ℝ)) (lam : ℝ)
    (hlam : 0 < lam) (hS : ExactSolve solve (numRows es) n (fun _ => lam)) :
    ∀ (j k : Nat) (x : List ℝ) (ws : List (Warning ℝ)) (y : List ℝ) (wy : List (Warning ℝ)),
      x.length = n → newtonRun es cfg solve j k x ws = some (y, wy) →
      y.length = n ∧ pointOf n y = (gnMap es n lam)^[j] (pointOf n x) := by
  intro j
  induction j with
  | zero =>
    intro k x ws y wy hx h
    simp only [newtonRun, Option.some.injEq, Prod.mk.injEq] at h
    obtain ⟨rfl, rfl⟩ := h
    exact ⟨hx, rfl⟩
  | succ j ih =>
    intro k x ws y wy hx h
    unfold newtonRun at h
    split at h
    · rename_i x' ws' hs
      obtain ⟨hx', hp⟩ := newtonStep_eq_gnMap es n cfg solve (fun _ => lam) hS k hlam x ws x' ws' hx hs
      obtain ⟨hy, hpy⟩ := ih (k + 1) x' ws' y wy hx' h
      exact ⟨hy, by rw [hpy, hp, Function.iterate_succ_apply]⟩
    · simp at h

/-- **C02 for the executed rounds of the model's loop** (exact solver, exact real arithmetic):
`es` with ids `< n`, every request regular at `xs` (`RegularAt`: first family, or `Distance` /
`LinesEqualLength` / `ArcRadius` away from coincident points), `xs` a zero of the model's residual,
`0 < lam < c ≤ σ_min(JOf es n xs)²`.  There is `ρ > 0` such that for every exact solver with damping
`lam`, every configuration, and every guess list `x` of `n` values within `ρ` of `xs`: whenever `j`
rounds of the model's `newtonStep` continue from `x` to `y`, `‖y − xs‖ ≤ 2^-j ‖x − xs‖` and
`‖y − x‖ ≤ 1.5 ‖x − xs‖`.  A statement about the rounds the loop executed; nothing is claimed about
when the loop's stopping tests fire, and nothing about `f64`. -/
theorem model_newtonRun_C02 (es : List (Entry ℝ)) (n : Nat) (hd : Declared es n)
    (xs : EuclideanSpace ℝ (Fin n)) (hk : ∀ e ∈ es, RegularAt e.c (asg n xs))
    (hxs : rOf es n xs = 0) (lam c : ℝ) (hlam : 0 < lam) (hc : lam < c)
    (hJ : ∀ v : Fin n → ℝ, c * (v ⬝ᵥ v) ≤ (JOf es n xs *ᵥ v) ⬝ᵥ (JOf es n xs *ᵥ v)) :
    ∃ ρ : ℝ, 0 < ρ ∧
      ∀ (cfg : Config ℝ) (solve : Nat → List (Triplet ℝ) → List ℝ → Except SolveError (List ℝ)),
        ExactSolve solve (numRows es) n (fun _ => lam) →
        ∀ (x : List ℝ), x.length = n → ‖pointOf n x - xs‖ ≤ ρ →
        ∀ (j k : Nat) (ws : List (Warning ℝ)) (y : List ℝ) (wy : List (Warning ℝ)),
          newtonRun es cfg solve j k x ws = some (y, wy) →
          ‖pointOf n y - xs‖ ≤ (1 / 2) ^ j * ‖pointOf n x - xs‖ ∧
          ‖pointOf n y - pointOf n x‖ ≤ 1.5 * ‖pointOf n x - xs‖ := by
  obtain ⟨ρ, hρ, hball⟩ := model_local_C02_regular es n hd xs hk hxs lam c hlam hc hJ
  refine ⟨ρ, hρ, ?_⟩
  intro cfg solve hS x hx hx0 j k ws y wy hrun
  obtain ⟨_, hy⟩ := newtonRun_eq_iterate es n cfg solve lam hlam hS j k x ws y wy hx hrun
  rw [hy]
  exact ⟨(hball _ hx0 j).1, (hball _ hx0 j).2.2⟩

/-- The zero hypothesis `rOf es n xs = 0` in the model's own terms: if the model's `residualAll` at
the coordinates of `xs` evaluates to a list of zeros, then `rOf es n xs = 0`. -/
theorem rOf_eq_zero_of (es : List (Entry ℝ)) (n : Nat) (xs : EuclideanSpace ℝ (Fin n)) (r : List ℝ)
    (w : List (Warning ℝ)) (h : residualAll es (lookup (coordList n xs)) = .ok (r, w))
    (h0 : ∀ y ∈ r, y = 0) : rOf es n xs = 0 := by
  apply (WithLp.ofLp_injective 2)
  rw [rOf_eq es n xs r w h]
  funext i
  show r.getD i.val 0 = 0
  rw [List.getD_eq_getElem?_getD]
  cases hi : r[i.val]? with
  | none => rfl
  | some y => exact h0 y (List.mem_of_getElem? hi)

/-! ### 5. Non-vacuity: a concrete non-linear system -/

/-- The assignment of the point of a list of `n` values reads the list (default 0). -/
theorem asg_pointOf (n : Nat) (l : List ℝ) (hl : l.length = n) (i : Nat) :
    asg n (pointOf n l) i = l.getD i 0 := by
  by_cases h : i < n
  · rw [asg_lt n _ i h]; rfl
  · rw [asg_ge n _ i h, List.getD_eq_getElem?_getD, List.getElem?_eq_none (by omega)]; rfl

/-- The squared length of `J v`, as a sum over row numbers. -/
theorem JOf_dot (es : List (Entry ℝ)) (n : Nat) (hd : Declared es n)
    (x u : EuclideanSpace ℝ (Fin n)) :
    (JOf es n x *ᵥ u.ofLp) ⬝ᵥ (JOf es n x *ᵥ u.ofLp) =
      ∑ i ∈ Finset.range (numRows es), jacRow es i (asg n x) (asg n u) ^ 2 := by
  rw [← Fin.sum_univ_eq_sum_range (fun i => jacRow es i (asg n x) (asg n u) ^ 2)]
  unfold dotProduct
  refine Finset.sum_congr rfl fun i _ => ?_
  rw [JOf_mulVec_apply es n hd x u i, sq]

/-- "Thales": `A = (v0, v1)` fixed at `(0, 0)`, `B = (v2, v3)` fixed at `(2, 0)`, `P = (v4, v5)` with
`AP ⟂ BP` (a quadratic equation) and `v4 = 1`. -/
def thales : List (Entry ℝ) :=
  [⟨.fixed 0 0, 0, 0⟩, ⟨.fixed 1 0, 1, 0⟩, ⟨.fixed 2 2, 2, 0⟩, ⟨.fixed 3 0, 3, 0⟩,
   ⟨.linesAtAngle ⟨⟨0, 1⟩, ⟨4, 5⟩⟩ ⟨⟨2, 3⟩, ⟨4, 5⟩⟩ .perpendicular, 4, 0⟩, ⟨.fixed 4 1, 5, 0⟩]

/-- All ids of "Thales" are `< 6`. -/
theorem thales_declared : Declared thales 6 := by
  intro e he i hi
  simp only [thales, List.mem_cons, List.not_mem_nil, or_false] at he
  rcases he with rfl | rfl | rfl | rfl | rfl | rfl <;>
    simp [Constraint.nonzeroes, Rows.all, Seg.vars] at hi <;> omega

/-- All requests of "Thales" are of the first family. -/
theorem thales_smooth : ∀ e ∈ thales, SmoothKind e.c := by
  intro e he
  simp only [thales, List.mem_cons, List.not_mem_nil, or_false] at he
  rcases he with rfl | rfl | rfl | rfl | rfl | rfl <;> simp [SmoothKind]

/-- `(0, 0, 2, 0, 1, 1)` solves "Thales": the model's residual map vanishes there. -/
theorem thales_zero : rOf thales 6 (pointOf 6 [0, 0, 2, 0, 1, 1]) = 0 := by
  apply (WithLp.ofLp_injective 2)
  funext i
  rw [rOf_apply thales 6 thales_declared]
  show resRow thales i.val _ = (0 : ℝ)
  obtain ⟨i, hi⟩ := i
  have hi6 : i < 6 := hi
  interval_cases i <;>
    simp [thales, resRow, Constraint.residualDim, Constraint.residualV, linesAtAngleResidual, Res.mk1,
      takeRows, asg_pointOf]
  norm_num

/-- The conditioning hypothesis of `model_local_C02` for "Thales" at its solution, with `c = 1/4`. -/
theorem thales_conditioned (v : Fin 6 → ℝ) :
    (1 / 4 : ℝ) * (v ⬝ᵥ v) ≤ (JOf thales 6 (pointOf 6 [0, 0, 2, 0, 1, 1]) *ᵥ v) ⬝ᵥ
      (JOf thales 6 (pointOf 6 [0, 0, 2, 0, 1, 1]) *ᵥ v) := by
  have h := JOf_dot thales 6 thales_declared (pointOf 6 [0, 0, 2, 0, 1, 1]) (WithLp.toLp 2 v)
  rw [show (WithLp.toLp 2 v).ofLp = v from rfl] at h
  rw [h]
  have hn : numRows thales = 6 := rfl
  have hv : ∀ k (hk : k < 6), asg 6 (WithLp.toLp 2 v) k = v ⟨k, hk⟩ := fun k hk => asg_lt 6 _ k hk
  rw [hn]
  simp [Finset.sum_range_succ, thales, jacRow, Constraint.residualDim, Constraint.jacobianV,
    linesAtAngleJac, jvars4, rowApply, takeRows, asg_pointOf, hv, dotProduct, Fin.sum_univ_succ]
  rw [lit_1]
  nlinarith [sq_nonneg (v 0 + v 1), sq_nonneg (v 0 + v 2), sq_nonneg (v 0 + v 3),
    sq_nonneg (v 1 - v 2), sq_nonneg (v 1 - v 3), sq_nonneg (v 2 - v 3),
    sq_nonneg (v 5 + 8 / 15 * (v 0 - v 1 - v 2 - v 3)), sq_nonneg (v 4)]


/-- **Non-vacuity of `model_local_C02`**: a concrete non-linear system of the first family (four
`Fixed`, one `Perpendicular`, one more `Fixed`; 6 variables, 6 rows), its solution
`(0, 0, 2, 0, 1, 1)`, the code's damping `lam = 1e-9` and `c = 1/4` meet every hypothesis, so the
conclusion holds for it. -/
example : ∃ ρ : ℝ, 0 < ρ ∧ ∀ x0, ‖x0 - pointOf 6 [0, 0, 2, 0, 1, 1]‖ ≤ ρ → ∀ k : ℕ,
    ‖(gnMap thales 6 1e-9)^[k] x0 - pointOf 6 [0, 0, 2, 0, 1, 1]‖ ≤
      (1 / 2) ^ k * ‖x0 - pointOf 6 [0, 0, 2, 0, 1, 1]‖ ∧
    ‖(gnMap thales 6 1e-9)^[k] x0 - pointOf 6 [0, 0, 2, 0, 1, 1]‖ ≤ ρ ∧
    ‖(gnMap thales 6 1e-9)^[k] x0 - x0‖ ≤ 1.5 * ‖x0 - pointOf 6 [0, 0, 2, 0, 1, 1]‖ :=
  model_local_C02 thales 6 thales_declared thales_smooth _ thales_zero 1e-9 (1 / 4) (by norm_num)
    (by norm_num) thales_conditioned

/-- The residual map of "Thales" is genuinely non-linear: its Jacobian at `(0,0,2,0,1,1)` and at
`(0,0,2,0,1,2)` differ (row 4, the `Perpendicular` row, applied to the direction `e₅`). -/
example : jacRow thales 4 (asg 6 (pointOf 6 [0, 0, 2, 0, 1, 1])) (fun i => if i = 5 then 1 else 0) ≠
    jacRow thales 4 (asg 6 (pointOf 6 [0, 0, 2, 0, 1, 2])) (fun i => if i = 5 then 1 else 0) := by
  simp [thales, jacRow, Constraint.residualDim, Constraint.jacobianV, linesAtAngleJac, jvars4,
    rowApply, takeRows, asg_pointOf]
  norm_num

/-- "Circle": `A = (v0, v1)` fixed at `(0, 0)`, `P = (v2, v3)` at distance 5 from `A` with `v3 = 0`. -/
def circ5 : List (Entry ℝ) :=
  [⟨.fixed 0 0, 0, 0⟩, ⟨.fixed 1 0, 1, 0⟩, ⟨.distance ⟨0, 1⟩ ⟨2, 3⟩ 5, 2, 0⟩, ⟨.fixed 3 0, 3, 0⟩]

/-- `√25 = 5`. -/
theorem sqrt25 : Real.sqrt 25 = 5 := by
  rw [show (25 : ℝ) = 5 ^ 2 by norm_num]; exact Real.sqrt_sq (by norm_num)

/-- All ids of "Circle" are `< 4`. -/
theorem circ5_declared : Declared circ5 4 := by
  intro e he i hi
  simp only [circ5, List.mem_cons, List.not_mem_nil, or_false] at he
  rcases he with rfl | rfl | rfl | rfl <;>
    simp [Constraint.nonzeroes, Rows.all, Pt.vars] at hi <;> omega

/-- Every request of "Circle" is regular at `(0, 0, 5, 0)`: `A` and `P` are 5 apart. -/
theorem circ5_regular : ∀ e ∈ circ5, RegularAt e.c (asg 4 (pointOf 4 [0, 0, 5, 0])) := by
  intro e he
  simp only [circ5, List.mem_cons, List.not_mem_nil, or_false] at he
  rcases he with rfl | rfl | rfl | rfl
  · exact trivial
  · exact trivial
  · show EPS < Real.sqrt _
    simp only [asg_pointOf 4 [0, 0, 5, 0] rfl]
    norm_num [sqrt25, EPS_real]
  · exact trivial

/-- `(0, 0, 5, 0)` solves "Circle". -/
theorem circ5_zero : rOf circ5 4 (pointOf 4 [0, 0, 5, 0]) = 0 := by
  apply (WithLp.ofLp_injective 2)
  funext i
  rw [rOf_apply circ5 4 circ5_declared]
  show resRow circ5 i.val _ = (0 : ℝ)
  obtain ⟨i, hi⟩ := i
  have hi4 : i < 4 := hi
  interval_cases i <;>
    simp [circ5, resRow, Constraint.residualDim, Constraint.residualV, distResidual, Res.mk1,
      takeRows, asg_pointOf]

/-- The conditioning hypothesis for "Circle" at its solution, with `c = 1/4`. -/
theorem circ5_conditioned (v : Fin 4 → ℝ) :
    (1 / 4 : ℝ) * (v ⬝ᵥ v) ≤ (JOf circ5 4 (pointOf 4 [0, 0, 5, 0]) *ᵥ v) ⬝ᵥ
      (JOf circ5 4 (pointOf 4 [0, 0, 5, 0]) *ᵥ v) := by
  have h := JOf_dot circ5 4 circ5_declared (pointOf 4 [0, 0, 5, 0]) (WithLp.toLp 2 v)
  rw [show (WithLp.toLp 2 v).ofLp = v from rfl] at h
  rw [h]
  have hn : numRows circ5 = 4 := rfl
  have hv : ∀ k (hk : k < 4), asg 4 (WithLp.toLp 2 v) k = v ⟨k, hk⟩ := fun k hk => asg_lt 4 _ k hk
  have hE : ¬ (5 : ℝ) < EPS := by rw [EPS_real]; norm_num
  rw [hn]
  simp [Finset.sum_range_succ, circ5, jacRow, Constraint.residualDim, Constraint.jacobianV,
    distJacRow, rowApply, takeRows, asg_pointOf, hv, dotProduct, Fin.sum_univ_succ, hE]
  rw [lit_1]
  nlinarith [sq_nonneg (v 2 - 2 * v 0), sq_nonneg (v 1), sq_nonneg (v 3)]

/-- **Non-vacuity of `model_local_C02_regular` and of the regularity hypothesis**: a system with a
`Distance` request (two `Fixed`, `Distance(A, P, 5)`, one `Fixed`; 4 variables, 4 rows), its solution
`(0, 0, 5, 0)` — where `A` and `P` are 5 apart, far more than `EPSILON` —, `lam = 1e-9`, `c = 1/4`. -/
example : ∃ ρ : ℝ, 0 < ρ ∧ ∀ x0, ‖x0 - pointOf 4 [0, 0, 5, 0]‖ ≤ ρ → ∀ k : ℕ,
    ‖(gnMap circ5 4 1e-9)^[k] x0 - pointOf 4 [0, 0, 5, 0]‖ ≤
      (1 / 2) ^ k * ‖x0 - pointOf 4 [0, 0, 5, 0]‖ ∧
    ‖(gnMap circ5 4 1e-9)^[k] x0 - pointOf 4 [0, 0, 5, 0]‖ ≤ ρ ∧
    ‖(gnMap circ5 4 1e-9)^[k] x0 - x0‖ ≤ 1.5 * ‖x0 - pointOf 4 [0, 0, 5, 0]‖ :=
  model_local_C02_regular circ5 4 circ5_declared _ circ5_regular circ5_zero 1e-9 (1 / 4)
    (by norm_num) (by norm_num) circ5_conditioned

/-- The kinds not covered are excluded by `RegularAt` (it is `False` for them): e.g. a general
angle, `Symmetric`, `PointArcCoincident`. -/
example (l0 l1 : Seg) (a : Angle ℝ) (p q : Pt) (arc : ArcD) (v : Nat → ℝ) :
    ¬ RegularAt (.linesAtAngle l0 l1 (.other a)) v ∧ ¬ RegularAt (.symmetric l0 p q) v ∧
      ¬ RegularAt (.pointArcCoincident arc p) v :=
  ⟨id, id, id⟩

/-- There is an exact solver with the code's damping (hypothesis `ExactSolve` of
`newtonStep_eq_gnMap`, `newtonRun_eq_iterate`, `model_newtonRun_C02`). -/
example : ∃ solve, ExactSolve solve (numRows thales) 6 (fun _ => (1e-9 : ℝ)) :=
  (exists_exactSolve _ _ _ (fun _ => by norm_num)).imp fun _ h => h.1


end Ezpz
