/-
Independent specification of the variable layout of the text front-end: entities get their
variables by sequential allocation in the order points (declaration order) → circles `[cx, cy, r]`
→ arcs `[ax, ay, bx, by, cx, cy]`, so the id of every role is closed-form arithmetic on
`(P, C, index, role)`.  Written from the documented layout, not from the executor's lookups.
-/
import Ezpz.Model.Datum
namespace Ezpz.Text.Spec
open Ezpz

/-- The `i`-th declared point. -/
def pointIds (i : Nat) : Pt := ⟨2 * i, 2 * i + 1⟩

/-- The `j`-th declared circle, after `P` points. -/
def circleIds (P j : Nat) : Circ := ⟨⟨2 * P + 3 * j, 2 * P + 3 * j + 1⟩, 2 * P + 3 * j + 2⟩

/-- The `k`-th declared arc, after `P` points and `C` circles: `[ax, ay, bx, by, cx, cy]`. -/
def arcIds (P C k : Nat) : ArcD :=
  let b := 2 * P + 3 * C + 6 * k
  ⟨⟨b + 4, b + 5⟩, ⟨b, b + 1⟩, ⟨b + 2, b + 3⟩⟩

/-- Total number of solver variables. -/
def numVars (P C A : Nat) : Nat := 2 * P + 3 * C + 6 * A

end Ezpz.Text.Spec
