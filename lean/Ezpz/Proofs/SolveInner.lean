/-
Structural facts about `solveInner`, `unsatisfiedSweep`, `levels`, `enumerate`, `maxPriority`.
All statements hold for every scalar type.
-/
import Ezpz.Proofs.Newton
set_option linter.unusedSectionVars false
namespace Ezpz
open Transc

variable {α : Type} [Add α] [Sub α] [Mul α] [Div α] [Neg α] [OfScientific α]
  [LT α] [DecidableLT α] [LE α] [DecidableLE α] [Transc α]

/-! ### The satisfaction sweep -/

/-- The verdict the sweep computes for one entry at the assignment `x`. -/
def satisfiedAt (e : Entry α) (x : Nat → Option α) : Bool :=
  match e.c.residual x with
  | some r => (isSatisfied e.c.residualDim r).getD false
  | none => false

/-- The sweep lists exactly the caller positions of the entries whose verdict is "not satisfied",
in request order. -/
theorem unsatisfiedSweep_eq (x : Nat → Option α) :
    ∀ (es : List (Entry α)) (us : List Nat), unsatisfiedSweep es x = .ok us →
      us = (es.filter (fun e => !satisfiedAt e x)).map (·.id) := by
  intro es
  induction es with
  | nil => intro us h; simp [unsatisfiedSweep] at h; simp [h]
  | cons e rest ih =>
    intro us h
    unfold unsatisfiedSweep at h
    split at h
    · simp at h
    · rename_i r hr
      split at h
      · simp at h
      · rename_i sat hs
        split at h
        · simp at h
        · rename_i us' hrest
          have := ih us' hrest
          injection h with h
          subst h
          have hsat : satisfiedAt e x = sat := by simp [satisfiedAt, hr, hs]
          cases sat <;> simp [hsat, this]

/-! ### Values keep their length -/

theorem applyStep_length (x d : List α) (h : d.length = x.length) :
    (applyStep x d).length = x.length := by
  simp [applyStep, h]

theorem newtonStep_done_length (es : List (Entry α)) (cfg : Config α)
    (solve : Nat → List (Triplet α) → List α → Except SolveError (List α))
    (k : Nat) (x : List α) (ws : List (Warning α)) (r : NewtonOk α)
    (h : newtonStep es cfg solve k x ws = .done r) : r.values.length = x.length := by
  fun_cases newtonStep es cfg solve k x ws <;> simp_all [newtonStep]
  all_goals (subst h; simp [applyStep_length, *])

theorem newtonStep_next_length (es : List (Entry α)) (cfg : Config α)
    (solve : Nat → List (Triplet α) → List α → Except SolveError (List α))
    (k : Nat) (x x' : List α) (ws ws' : List (Warning α))
    (h : newtonStep es cfg solve k x ws = .next x' ws') : x'.length = x.length := by
  fun_cases newtonStep es cfg solve k x ws <;> simp_all [newtonStep]
  all_goals (obtain ⟨h1, _⟩ := h; subst h1; simp [applyStep_length, *])

theorem newtonLoop_length (es : List (Entry α)) (cfg : Config α)
    (solve : Nat → List (Triplet α) → List α → Except SolveError (List α)) :
    ∀ (fuel k : Nat) (x : List α) (ws : List (Warning α)) (r : NewtonOk α),
      newtonLoop es cfg solve fuel k x ws = .ok r → r.values.length = x.length := by
  intro fuel
  induction fuel with
  | zero => intro k x ws r h; simp [newtonLoop] at h
  | succ fuel ih =>
    intro k x ws r h
    unfold newtonLoop at h
    split at h
    · rename_i r' hs
      injection h with h; subst h
      exact newtonStep_done_length es cfg solve k x ws _ hs
    · simp at h
    · rename_i x' ws' hs
      rw [ih (k + 1) x' ws' r h]
      exact newtonStep_next_length es cfg solve k x x' ws ws' hs

/-! ### What a successful `solveInner` reports -/

/-- Everything a successful `solve_inner` reports, in terms of the Newton result it is built on. -/
theorem solveInner_ok (es : List (Entry α)) (guesses : List (Nat × α)) (cfg : Config α)
    (solve : Nat → List (Triplet α) → List α → Except SolveError (List α))
    (analyze : Option (List (Triplet α) → Except SolveError (List α × List (List α))))
    (o : Outcome α) (h : solveInner es guesses cfg solve analyze = .ok o) :
    ∃ nr : NewtonOk α, newton es cfg solve (guesses.map (·.2)) = .ok nr ∧
      modelNew es (guesses.map (·.1)) = .ok () ∧
      o.finalValues = nr.values ∧ o.iterations = nr.iterations ∧
      o.warnings = lint es ++ nr.warnings ∧ o.prioritySolved = maxPriority es ∧
      unsatisfiedSweep es (lookup nr.values) = .ok o.unsatisfied ∧
      runAnalysis analyze nr.lastJac guesses.length = .ok o.underconstrained := by
  unfold solveInner at h
  split at h
  · simp at h
  · rename_i hm
    split at h
    · simp at h
    · rename_i nr hn
      split at h
      · simp at h
      · rename_i unsat hu
        split at h
        · simp at h
        · rename_i under ha
          injection h with h
          subst h
          exact ⟨nr, hn, hm, rfl, rfl, rfl, rfl, hu, ha⟩

/-- One final value per guess. -/
theorem solveInner_final_length (es : List (Entry α)) (guesses : List (Nat × α)) (cfg : Config α)
    (solve : Nat → List (Triplet α) → List α → Except SolveError (List α))
    (analyze : Option (List (Triplet α) → Except SolveError (List α × List (List α))))
    (o : Outcome α) (h : solveInner es guesses cfg solve analyze = .ok o) :
    o.finalValues.length = guesses.length := by
  obtain ⟨nr, hn, _, hf, _⟩ := solveInner_ok es guesses cfg solve analyze o h
  rw [hf]
  have := newtonLoop_length es cfg solve cfg.maxIterations 0 _ [] nr hn
  simpa using this

/-- A successful `solve_inner` never reports `max_iterations` or more rounds. -/
theorem solveInner_iterations_lt (es : List (Entry α)) (guesses : List (Nat × α)) (cfg : Config α)
    (solve : Nat → List (Triplet α) → List α → Except SolveError (List α))
    (analyze : Option (List (Triplet α) → Except SolveError (List α × List (List α))))
    (o : Outcome α) (h : solveInner es guesses cfg solve analyze = .ok o) :
    o.iterations < cfg.maxIterations := by
  obtain ⟨nr, hn, _, _, hi, _⟩ := solveInner_ok es guesses cfg solve analyze o h
  rw [hi]
  have := newtonLoop_iterations es cfg solve cfg.maxIterations 0 _ [] nr hn
  omega

/-! ### Priority levels -/

theorem mem_insertLevel (p q : Nat) : ∀ l : List Nat, q ∈ insertLevel p l ↔ q = p ∨ q ∈ l := by
  intro l
  induction l with
  | nil => simp [insertLevel]
  | cons a rest ih =>
    unfold insertLevel
    split
    · simp
    · split
      · rename_i h1 h2; subst h2; simp
      · simp [ih]; constructor
        · rintro (h | h | h) <;> simp [h]
        · rintro (h | h | h) <;> simp [h]

theorem insertLevel_sorted (p : Nat) : ∀ l : List Nat, l.Pairwise (· < ·) →
    (insertLevel p l).Pairwise (· < ·) := by
  intro l
  induction l with
  | nil => intro _; simp [insertLevel]
  | cons a rest ih =>
    intro h
    unfold insertLevel
    have ha := List.pairwise_cons.mp h
    split
    · rename_i hlt
      refine List.pairwise_cons.mpr ⟨?_, h⟩
      intro b hb
      rcases List.mem_cons.mp hb with hb | hb
      · omega
      · have := ha.1 b hb; omega
    · split
      · exact h
      · rename_i h1 h2
        refine List.pairwise_cons.mpr ⟨?_, ih ha.2⟩
        intro b hb
        rcases (mem_insertLevel p b rest).mp hb with hb | hb
        · omega
        · exact ha.1 b hb

theorem foldl_insertLevel_sorted (es : List (Entry α)) : ∀ acc : List Nat, acc.Pairwise (· < ·) →
    (es.foldl (fun acc e => insertLevel e.priority acc) acc).Pairwise (· < ·) := by
  induction es with
  | nil => intro acc h; simpa
  | cons e rest ih => intro acc h; exact ih _ (insertLevel_sorted _ _ h)

theorem mem_foldl_insertLevel (es : List (Entry α)) (q : Nat) : ∀ acc : List Nat,
    q ∈ es.foldl (fun acc e => insertLevel e.priority acc) acc ↔
      q ∈ acc ∨ ∃ e ∈ es, e.priority = q := by
  induction es with
  | nil => intro acc; simp
  | cons e rest ih =>
    intro acc
    simp only [List.foldl_cons, ih, mem_insertLevel, List.mem_cons, exists_eq_or_imp]
    constructor
    · rintro ((h | h) | h)
      · exact Or.inr (Or.inl h.symm)
      · exact Or.inl h
      · exact Or.inr (Or.inr h)
    · rintro (h | h | h)
      · exact Or.inl (Or.inr h)
      · exact Or.inl (Or.inl h.symm)
      · exact Or.inr h

/-- The levels visited are the distinct requested priorities, in strictly increasing order. -/
theorem levels_sorted (es : List (Entry α)) : (levels es).Pairwise (· < ·) :=
  foldl_insertLevel_sorted es [] List.Pairwise.nil

theorem mem_levels (es : List (Entry α)) (q : Nat) :
    q ∈ levels es ↔ ∃ e ∈ es, e.priority = q := by
  simp [levels, mem_foldl_insertLevel]

/-- Two strictly increasing lists with the same members are equal. -/
theorem sorted_ext : ∀ (l1 l2 : List Nat), l1.Pairwise (· < ·) → l2.Pairwise (· < ·) →
    (∀ q, q ∈ l1 ↔ q ∈ l2) → l1 = l2 := by
  intro l1
  induction l1 with
  | nil =>
    intro l2 _ _ h
    cases l2 with
    | nil => rfl
    | cons b _ => exact absurd ((h b).mpr (by simp)) (by simp)
  | cons a r1 ih =>
    intro l2 h1 h2 h
    cases l2 with
    | nil => exact absurd ((h a).mp (by simp)) (by simp)
    | cons b r2 =>
      have h1' := List.pairwise_cons.mp h1
      have h2' := List.pairwise_cons.mp h2
      have hab : a = b := by
        have ha : a ∈ b :: r2 := (h a).mp (by simp)
        have hb : b ∈ a :: r1 := (h b).mpr (by simp)
        rcases List.mem_cons.mp ha with ha | ha
        · exact ha
        · rcases List.mem_cons.mp hb with hb | hb
          · exact hb.symm
          · have := h1'.1 b hb; have := h2'.1 a ha; omega
      subst hab
      congr 1
      apply ih r2 h1'.2 h2'.2
      intro q
      constructor
      · intro hq
        have : q ∈ a :: r2 := (h q).mp (by simp [hq])
        rcases List.mem_cons.mp this with hqa | hq2
        · have := h1'.1 q hq; omega
        · exact hq2
      · intro hq
        have : q ∈ a :: r1 := (h q).mpr (by simp [hq])
        rcases List.mem_cons.mp this with hqa | hq1
        · have := h2'.1 q hq; omega
        · exact hq1

/-- The level list depends only on the *set* of requested priorities: any order in which the
priorities are collected (e.g. the iteration order of a hash set) gives the same list. -/
theorem levels_perm_invariant (es es' : List (Entry α))
    (h : ∀ q, (∃ e ∈ es, e.priority = q) ↔ (∃ e ∈ es', e.priority = q)) :
    levels es = levels es' :=
  sorted_ext _ _ (levels_sorted es) (levels_sorted es') (by
    intro q; rw [mem_levels, mem_levels]; exact h q)

/-! ### `maxPriority` -/

theorem foldl_max_ge (es : List (Entry α)) : ∀ acc : Nat,
    acc ≤ es.foldl (fun acc e => max acc e.priority) acc := by
  induction es with
  | nil => intro acc; simp
  | cons e rest ih => intro acc; simp only [List.foldl_cons]; have := ih (max acc e.priority); omega

theorem foldl_max_le (es : List (Entry α)) (b : Nat) : ∀ acc : Nat, acc ≤ b →
    (∀ e ∈ es, e.priority ≤ b) → es.foldl (fun acc e => max acc e.priority) acc ≤ b := by
  induction es with
  | nil => intro acc h _; simpa
  | cons e rest ih =>
    intro acc h hall
    simp only [List.foldl_cons]
    apply ih
    · have := hall e (by simp); omega
    · intro e' he'; exact hall e' (by simp [he'])

theorem foldl_max_mem (es : List (Entry α)) : ∀ acc : Nat, ∀ e ∈ es,
    e.priority ≤ es.foldl (fun acc e => max acc e.priority) acc := by
  induction es with
  | nil => intro acc e he; simp at he
  | cons e0 rest ih =>
    intro acc e he
    simp only [List.foldl_cons]
    rcases List.mem_cons.mp he with h | h
    · subst h; have := foldl_max_ge rest (max acc e.priority); omega
    · exact ih _ e h

/-- The solved priority of the subset `priority ≤ p` is `p` itself whenever some request has
priority exactly `p`. -/
theorem maxPriority_filter (es : List (Entry α)) (p : Nat) (h : ∃ e ∈ es, e.priority = p) :
    maxPriority (es.filter (fun e => e.priority ≤ p)) = p := by
  obtain ⟨e, he, hp⟩ := h
  apply Nat.le_antisymm
  · apply foldl_max_le _ p 0 (Nat.zero_le _)
    intro e' he'
    simpa using (List.mem_filter.mp he').2
  · have hmem : e ∈ es.filter (fun e => e.priority ≤ p) := by
      simp [List.mem_filter, he, hp]
    have := foldl_max_mem _ 0 e hmem
    simpa [maxPriority, hp] using this

end Ezpz
