/-
The executor of the text front-end: variable layout, label lookups, totality, no silent drop.
-/
import Ezpz.Model.Text.Executor
import Ezpz.Spec.TextSpec
set_option linter.unusedSectionVars false
namespace Ezpz.Text
open Ezpz

variable {α : Type}

/-- Invariant of `GeometryVariables`: ids are positions, and the length is accounted for by the
entity counts. -/
structure VarsOk (v : Vars α) : Prop where
  seq : ∀ k, k < v.variables.length → v.idAt k = some k
  len : v.variables.length = 2 * v.numPoints + 3 * v.numCircles + 6 * v.numArcs

theorem VarsOk.empty : VarsOk ({} : Vars α) := ⟨by intro k hk; simp at hk, rfl⟩

theorem pushScalar_length (v : Vars α) (g : α) :
    (v.pushScalar g).variables.length = v.variables.length + 1 := by simp [Vars.pushScalar]

theorem pushScalar_seq (v : Vars α) (g : α) (h : ∀ k, k < v.variables.length → v.idAt k = some k) :
    ∀ k, k < (v.pushScalar g).variables.length → (v.pushScalar g).idAt k = some k := by
  intro k hk
  rw [pushScalar_length] at hk
  by_cases hlt : k < v.variables.length
  · have := h k hlt
    simp only [Vars.idAt, Vars.pushScalar] at this ⊢
    rw [List.getElem?_append_left hlt]
    exact this
  · have hk' : k = v.variables.length := by omega
    subst hk'
    simp [Vars.idAt, Vars.pushScalar]

theorem pushScalar_counts (v : Vars α) (g : α) :
    (v.pushScalar g).numPoints = v.numPoints ∧ (v.pushScalar g).numCircles = v.numCircles ∧
    (v.pushScalar g).numArcs = v.numArcs := ⟨rfl, rfl, rfl⟩

theorem VarsOk.pushPoint {v : Vars α} (h : VarsOk v) (x y : α) : VarsOk (v.pushPoint x y) := by
  constructor
  · unfold Vars.pushPoint
    apply pushScalar_seq
    apply pushScalar_seq
    exact h.seq
  · have := h.len
    simp [Vars.pushPoint, Vars.pushScalar] at this ⊢
    omega

theorem VarsOk.pushCircle {v : Vars α} (h : VarsOk v) (x y r : α) : VarsOk (v.pushCircle x y r) := by
  constructor
  · unfold Vars.pushCircle
    apply pushScalar_seq
    apply pushScalar_seq
    apply pushScalar_seq
    exact h.seq
  · have := h.len
    simp [Vars.pushCircle, Vars.pushScalar] at this ⊢
    omega

theorem VarsOk.pushArc {v : Vars α} (h : VarsOk v) (a b c : α × α) : VarsOk (v.pushArc a b c) := by
  constructor
  · unfold Vars.pushArc
    repeat apply pushScalar_seq
    exact h.seq
  · have := h.len
    simp [Vars.pushArc, Vars.pushScalar] at this ⊢
    omega

theorem pushPoint_counts (v : Vars α) (x y : α) :
    (v.pushPoint x y).numPoints = v.numPoints + 1 ∧ (v.pushPoint x y).numCircles = v.numCircles ∧
    (v.pushPoint x y).numArcs = v.numArcs := ⟨rfl, rfl, rfl⟩

theorem pushCircle_counts (v : Vars α) (x y r : α) :
    (v.pushCircle x y r).numPoints = v.numPoints ∧
    (v.pushCircle x y r).numCircles = v.numCircles + 1 ∧
    (v.pushCircle x y r).numArcs = v.numArcs := ⟨rfl, rfl, rfl⟩

theorem pushArc_counts (v : Vars α) (a b c : α × α) :
    (v.pushArc a b c).numPoints = v.numPoints ∧ (v.pushArc a b c).numCircles = v.numCircles ∧
    (v.pushArc a b c).numArcs = v.numArcs + 1 := ⟨rfl, rfl, rfl⟩

theorem buildPoints_ok : ∀ (labels : List String) (gp : List (String × α × α)) (v v' : Vars α)
    (gp' : List (String × α × α)), buildPoints labels gp v = .ok (v', gp') → VarsOk v →
    VarsOk v' ∧ v'.numPoints = v.numPoints + labels.length ∧ v'.numCircles = v.numCircles ∧
    v'.numArcs = v.numArcs := by
  intro labels
  induction labels with
  | nil =>
    intro gp v v' gp' h hv
    simp [buildPoints] at h
    obtain ⟨rfl, _⟩ := h
    exact ⟨hv, by simp, rfl, rfl⟩
  | cons l rest ih =>
    intro gp v v' gp' h hv
    unfold buildPoints at h
    split at h
    · simp at h
    · rename_i g gp1 _
      obtain ⟨h1, h2, h3, h4⟩ := ih gp1 _ v' gp' h (hv.pushPoint g.1 g.2)
      refine ⟨h1, ?_, ?_, ?_⟩
      · rw [h2, (pushPoint_counts v g.1 g.2).1]; simp; omega
      · rw [h3, (pushPoint_counts v g.1 g.2).2.1]
      · rw [h4, (pushPoint_counts v g.1 g.2).2.2]

theorem buildCircles_ok : ∀ (labels : List String) (gp : List (String × α × α))
    (gs : List (String × α)) (v v' : Vars α) (gp' : List (String × α × α)) (gs' : List (String × α)),
    buildCircles labels gp gs v = .ok (v', gp', gs') → VarsOk v →
    VarsOk v' ∧ v'.numPoints = v.numPoints ∧ v'.numCircles = v.numCircles + labels.length ∧
    v'.numArcs = v.numArcs := by
  intro labels
  induction labels with
  | nil =>
    intro gp gs v v' gp' gs' h hv
    simp [buildCircles] at h
    obtain ⟨rfl, _⟩ := h
    exact ⟨hv, rfl, by simp, rfl⟩
  | cons l rest ih =>
    intro gp gs v v' gp' gs' h hv
    unfold buildCircles at h
    split at h
    · simp at h
    · rename_i c gp1 _
      split at h
      · simp at h
      · rename_i r gs1 _
        obtain ⟨h1, h2, h3, h4⟩ := ih gp1 gs1 _ v' gp' gs' h (hv.pushCircle c.1 c.2 r)
        refine ⟨h1, ?_, ?_, ?_⟩
        · rw [h2, (pushCircle_counts v c.1 c.2 r).1]
        · rw [h3, (pushCircle_counts v c.1 c.2 r).2.1]; simp; omega
        · rw [h4, (pushCircle_counts v c.1 c.2 r).2.2]

theorem buildArcs_ok : ∀ (labels : List String) (gp : List (String × α × α)) (v v' : Vars α)
    (gp' : List (String × α × α)), buildArcs labels gp v = .ok (v', gp') → VarsOk v →
    VarsOk v' ∧ v'.numPoints = v.numPoints ∧ v'.numCircles = v.numCircles ∧
    v'.numArcs = v.numArcs + labels.length := by
  intro labels
  induction labels with
  | nil =>
    intro gp v v' gp' h hv
    simp [buildArcs] at h
    obtain ⟨rfl, _⟩ := h
    exact ⟨hv, rfl, rfl, by simp⟩
  | cons l rest ih =>
    intro gp v v' gp' h hv
    unfold buildArcs at h
    split at h
    · simp at h
    · rename_i c gp1 _
      split at h
      · simp at h
      · rename_i a gp2 _
        split at h
        · simp at h
        · rename_i b gp3 _
          obtain ⟨h1, h2, h3, h4⟩ := ih gp3 _ v' gp' h (hv.pushArc a b c)
          refine ⟨h1, ?_, ?_, ?_⟩
          · rw [h2, (pushArc_counts v a b c).1]
          · rw [h3, (pushArc_counts v a b c).2.1]
          · rw [h4, (pushArc_counts v a b c).2.2]; simp; omega

/-- The variables built for a problem: ids are positions and the counts are the numbers of declared
entities. -/
theorem buildVars_ok (p : Problem α) (v : Vars α) (h : buildVars p = .ok v) :
    VarsOk v ∧ v.numPoints = p.innerPoints.length ∧ v.numCircles = p.innerCircles.length ∧
    v.numArcs = p.innerArcs.length := by
  unfold buildVars at h
  split at h
  · simp at h
  · rename_i v1 gp1 h1
    split at h
    · simp at h
    · rename_i v2 gp2 gs2 h2
      split at h
      · simp at h
      · rename_i v3 gp3 h3
        split at h
        · simp at h
        · split at h
          · simp at h
          · injection h with h; subst h
            obtain ⟨a1, a2, a3, a4⟩ := buildPoints_ok _ _ _ _ _ h1 VarsOk.empty
            obtain ⟨b1, b2, b3, b4⟩ := buildCircles_ok _ _ _ _ _ _ _ h2 a1
            obtain ⟨c1, c2, c3, c4⟩ := buildArcs_ok _ _ _ _ _ h3 b1
            refine ⟨c1, ?_, ?_, ?_⟩
            · rw [c2, b2, a2]; simp
            · rw [c3, b3, a3]; simp
            · rw [c4, b4, a4]; simp

/-- **Label lookups return the specified ids** (and never index out of bounds): points, circles
after the points, arcs after the points *and* the circles. -/
theorem lookups_eq_spec (v : Vars α) (hv : VarsOk v) :
    (∀ i, i < v.numPoints → v.pointIds i = some (Spec.pointIds i)) ∧
    (∀ j, j < v.numCircles → v.circleIds j = some (Spec.circleIds v.numPoints j)) ∧
    (∀ k, k < v.numArcs → v.arcIds k = some (Spec.arcIds v.numPoints v.numCircles k)) := by
  have hlen := hv.len
  refine ⟨?_, ?_, ?_⟩
  · intro i hi
    simp only [Vars.pointIds, Gen.VARS_PER_POINT]
    rw [hv.seq (2 * i) (by omega), hv.seq (2 * i + 1) (by omega)]
    rfl
  · intro j hj
    simp only [Vars.circleIds, Gen.VARS_PER_POINT, Gen.VARS_PER_CIRCLE]
    rw [hv.seq _ (by omega), hv.seq _ (by omega), hv.seq _ (by omega)]
    rfl
  · intro k hk
    simp only [Vars.arcIds, Gen.VARS_PER_POINT, Gen.VARS_PER_CIRCLE, Gen.VARS_PER_ARC]
    rw [hv.seq _ (by omega), hv.seq _ (by omega), hv.seq _ (by omega), hv.seq _ (by omega),
      hv.seq _ (by omega), hv.seq _ (by omega)]
    rfl

theorem findIdx?_lt {β : Type} (xs : List β) (q : β → Bool) (i : Nat) (h : xs.findIdx? q = some i) :
    i < xs.length := (List.findIdx?_eq_some_iff_findIdx_eq.mp h).1

/-- The hypotheses under which every lookup of the executor is in range. -/
structure Built (p : Problem α) (v : Vars α) : Prop where
  ok : VarsOk v
  np : v.numPoints = p.innerPoints.length
  nc : v.numCircles = p.innerCircles.length
  na : v.numArcs = p.innerArcs.length

theorem Built.of_buildVars (p : Problem α) (v : Vars α) (h : buildVars p = .ok v) : Built p v := by
  obtain ⟨a, b, c, d⟩ := buildVars_ok p v h
  exact ⟨a, b, c, d⟩

/-- "Does not hit an out-of-bounds index". -/
def NoPanic {β : Type} (x : Exec β) : Prop := x ≠ .error .panic

theorem noPanic_bind {β γ : Type} {x : Exec β} {f : β → Exec γ} (hx : NoPanic x)
    (hf : ∀ a, NoPanic (f a)) : NoPanic (x >>= f) := by
  cases x with
  | error e => intro h; apply hx; cases e <;> simp_all [bind, Except.bind]
  | ok a => exact hf a

theorem noPanic_error_iff {β : Type} (e : ExecError) :
    NoPanic (.error e : Exec β) ↔ e ≠ .panic := by
  unfold NoPanic
  constructor
  · intro h he; apply h; rw [he]
  · intro h he; apply h; injection he

theorem noPanic_pure {β : Type} (b : β) : NoPanic (pure b : Exec β) := by
  intro h; cases h

theorem noPanic_text {β : Type} (e : TextError) : NoPanic (.error (.text e) : Exec β) := by
  intro h; cases h

theorem noPanic_orPanic {β : Type} (o : Option β) (h : o.isSome) : NoPanic (orPanic o) := by
  cases o with
  | none => simp at h
  | some b => intro h; cases h

theorem datumPoint_spec (p : Problem α) (v : Vars α) (hb : Built p v) (l : String) :
    datumPoint p v l =
      match position? p.innerPoints (· == l) with
      | some i => .ok (Spec.pointIds i)
      | none =>
        match position? p.innerCircles (fun c => c ++ ".center" == l) with
        | some j => .ok (Spec.circleIds p.innerPoints.length j).center
        | none =>
          match position? p.innerArcs (fun a => a ++ ".center" == l) with
          | some k => .ok (Spec.arcIds p.innerPoints.length p.innerCircles.length k).center
          | none =>
            match position? p.innerArcs (fun a => a ++ ".a" == l) with
            | some k => .ok (Spec.arcIds p.innerPoints.length p.innerCircles.length k).start
            | none =>
              match position? p.innerArcs (fun a => a ++ ".b" == l) with
              | some k => .ok (Spec.arcIds p.innerPoints.length p.innerCircles.length k).stop
              | none => .error (.text (.undefinedPoint l)) := by
  obtain ⟨hp, hc, ha⟩ := lookups_eq_spec v hb.ok
  unfold datumPoint
  cases h1 : position? p.innerPoints (· == l) with
  | some i =>
    have := findIdx?_lt _ _ _ h1
    simp [hp i (by rw [hb.np]; exact this), orPanic]
  | none =>
    cases h2 : position? p.innerCircles (fun c => c ++ ".center" == l) with
    | some j =>
      have := findIdx?_lt _ _ _ h2
      simp [hc j (by rw [hb.nc]; exact this), orPanic, hb.np]
    | none =>
      cases h3 : position? p.innerArcs (fun a => a ++ ".center" == l) with
      | some k =>
        have := findIdx?_lt _ _ _ h3
        simp [ha k (by rw [hb.na]; exact this), orPanic, hb.np, hb.nc]
      | none =>
        cases h4 : position? p.innerArcs (fun a => a ++ ".a" == l) with
        | some k =>
          have := findIdx?_lt _ _ _ h4
          simp [ha k (by rw [hb.na]; exact this), orPanic, hb.np, hb.nc]
        | none =>
          cases h5 : position? p.innerArcs (fun a => a ++ ".b" == l) with
          | some k =>
            have := findIdx?_lt _ _ _ h5
            simp [ha k (by rw [hb.na]; exact this), orPanic, hb.np, hb.nc]
          | none => rfl

theorem datumPoint_noPanic (p : Problem α) (v : Vars α) (hb : Built p v) (l : String) :
    NoPanic (datumPoint p v l) := by
  rw [datumPoint_spec p v hb l]
  repeat' split
  all_goals (intro h; cases h)

theorem datumDistance_spec (p : Problem α) (v : Vars α) (hb : Built p v) (l : String) :
    datumDistance p v l =
      match position? p.innerCircles (fun c => c ++ ".radius" == l) with
      | some j => .ok (Spec.circleIds p.innerPoints.length j).radius
      | none => .error (.text (.undefinedPoint l)) := by
  obtain ⟨_, hc, _⟩ := lookups_eq_spec v hb.ok
  unfold datumDistance
  cases h : position? p.innerCircles (fun c => c ++ ".radius" == l) with
  | some j =>
    have := findIdx?_lt _ _ _ h
    simp [hc j (by rw [hb.nc]; exact this), orPanic, hb.np]
  | none => rfl

theorem datumDistance_noPanic (p : Problem α) (v : Vars α) (hb : Built p v) (l : String) :
    NoPanic (datumDistance p v l) := by
  rw [datumDistance_spec p v hb l]
  split <;> (intro h; cases h)

theorem datumArc_noPanic (p : Problem α) (v : Vars α) (hb : Built p v) (l : String) :
    NoPanic (datumArc p v l) := by
  unfold datumArc
  refine noPanic_bind (datumPoint_noPanic p v hb _) fun _ => ?_
  refine noPanic_bind (datumPoint_noPanic p v hb _) fun _ => ?_
  refine noPanic_bind (datumPoint_noPanic p v hb _) fun _ => ?_
  exact noPanic_pure _

/-- Lowering one instruction never indexes out of bounds. -/
theorem lower_noPanic (p : Problem α) (v : Vars α) (hb : Built p v) (instr : Instr α) :
    NoPanic (lower p v instr) := by
  obtain ⟨hp, hc, ha⟩ := lookups_eq_spec v hb.ok
  have dp := datumPoint_noPanic p v hb
  have dd := datumDistance_noPanic p v hb
  have da := datumArc_noPanic p v hb
  cases instr with
  | fixPointComponent point comp value =>
    simp only [lower]
    cases h1 : position? p.innerPoints (· == point) with
    | some i =>
      have := findIdx?_lt _ _ _ h1
      simp only []
      exact noPanic_bind (noPanic_orPanic _ (by rw [hp i (by rw [hb.np]; exact this)]; rfl))
        fun _ => noPanic_pure _
    | none =>
      simp only []
      cases stripCenter point with
      | none => exact noPanic_text _
      | some label =>
        simp only []
        cases h2 : position? p.innerCircles (· == label) with
        | some j =>
          have := findIdx?_lt _ _ _ h2
          exact noPanic_bind (noPanic_orPanic _ (by rw [hc j (by rw [hb.nc]; exact this)]; rfl))
            fun _ => noPanic_pure _
        | none =>
          simp only []
          cases h3 : position? p.innerArcs (· == label) with
          | some k =>
            have := findIdx?_lt _ _ _ h3
            exact noPanic_bind (noPanic_orPanic _ (by rw [ha k (by rw [hb.na]; exact this)]; rfl))
              fun _ => noPanic_pure _
          | none => exact noPanic_text _
  | fixCenterPointComponent obj comp value =>
    simp only [lower]
    cases h2 : position? p.innerCircles (· == obj) with
    | some j =>
      have := findIdx?_lt _ _ _ h2
      exact noPanic_bind (noPanic_orPanic _ (by rw [hc j (by rw [hb.nc]; exact this)]; rfl))
        fun _ => noPanic_pure _
    | none =>
      simp only []
      cases h3 : position? p.innerArcs (· == obj) with
      | some k =>
        have := findIdx?_lt _ _ _ h3
        exact noPanic_bind (noPanic_orPanic _ (by rw [ha k (by rw [hb.na]; exact this)]; rfl))
          fun _ => noPanic_pure _
      | none => exact noPanic_text _
  | declarePoint _ => intro h; cases h
  | declareCircle _ => intro h; cases h
  | declareArc _ => intro h; cases h
  | _ =>
    simp only [lower]
    repeat (first
      | exact noPanic_pure _
      | (refine noPanic_bind (dp _) fun _ => ?_)
      | (refine noPanic_bind (dd _) fun _ => ?_)
      | (refine noPanic_bind (da _) fun _ => ?_))

theorem lowerAll_noPanic (p : Problem α) (v : Vars α) (hb : Built p v) :
    ∀ is : List (Instr α), NoPanic (lowerAll p v is) := by
  intro is
  induction is with
  | nil => intro h; cases h
  | cons i rest ih =>
    unfold lowerAll
    cases hl : lower p v i with
    | error e =>
      have := lower_noPanic p v hb i
      rw [hl] at this
      exact this
    | ok cs =>
      simp only []
      cases hr : lowerAll p v rest with
      | error e => rw [hr] at ih; exact ih
      | ok cs' => intro h; cases h

/-- Building the variables never indexes anything: its errors are textual errors. -/
theorem buildVars_noPanic (p : Problem α) : NoPanic (buildVars p) := by
  have bp : ∀ (ls : List String) (gp : List (String × α × α)) (v : Vars α),
      NoPanic (buildPoints ls gp v) := by
    intro ls
    induction ls with
    | nil => intro gp v h; cases h
    | cons l rest ih =>
      intro gp v
      unfold buildPoints
      split
      · exact noPanic_text _
      · exact ih _ _
  have bc : ∀ (ls : List String) (gp : List (String × α × α)) (gs : List (String × α)) (v : Vars α),
      NoPanic (buildCircles ls gp gs v) := by
    intro ls
    induction ls with
    | nil => intro gp gs v h; cases h
    | cons l rest ih =>
      intro gp gs v
      unfold buildCircles
      split
      · exact noPanic_text _
      · split
        · exact noPanic_text _
        · exact ih _ _ _
  have ba : ∀ (ls : List String) (gp : List (String × α × α)) (v : Vars α),
      NoPanic (buildArcs ls gp v) := by
    intro ls
    induction ls with
    | nil => intro gp v h; cases h
    | cons l rest ih =>
      intro gp v
      unfold buildArcs
      split
      · exact noPanic_text _
      · split
        · exact noPanic_text _
        · split
          · exact noPanic_text _
          · exact ih _ _
  unfold buildVars
  cases h1 : buildPoints p.innerPoints (amFromList p.pointGuesses) {} with
  | error e =>
    have := bp p.innerPoints (amFromList p.pointGuesses) {}; rw [h1] at this
    exact (noPanic_error_iff e).mpr ((noPanic_error_iff e).mp this)
  | ok r1 =>
    obtain ⟨v1, gp1⟩ := r1
    simp only []
    cases h2 : buildCircles p.innerCircles gp1 (amFromList p.scalarGuesses) v1 with
    | error e =>
      have := bc p.innerCircles gp1 (amFromList p.scalarGuesses) v1; rw [h2] at this
      exact (noPanic_error_iff e).mpr ((noPanic_error_iff e).mp this)
    | ok r2 =>
      obtain ⟨v2, gp2, gs2⟩ := r2
      simp only []
      cases h3 : buildArcs p.innerArcs gp2 v2 with
      | error e =>
        have := ba p.innerArcs gp2 v2; rw [h3] at this
        exact (noPanic_error_iff e).mpr ((noPanic_error_iff e).mp this)
      | ok r3 =>
        obtain ⟨v3, gp3⟩ := r3
        simp only []
        split
        · exact noPanic_text _
        · split
          · exact noPanic_text _
          · intro h; cases h

/-- **The executor is total**: `to_constraint_system` returns `Ok` or a textual error for every
parsed problem; no index is ever out of bounds. -/
theorem toConstraintSystem_noPanic (p : Problem α) : NoPanic (toConstraintSystem p) := by
  unfold toConstraintSystem
  cases hv : buildVars p with
  | error e =>
    have := buildVars_noPanic p; rw [hv] at this
    exact (noPanic_error_iff e).mpr ((noPanic_error_iff e).mp this)
  | ok v =>
    simp only []
    have hb := Built.of_buildVars p v hv
    cases hl : lowerAll p v p.instructions with
    | error e =>
      have := lowerAll_noPanic p v hb p.instructions; rw [hl] at this
      exact (noPanic_error_iff e).mpr ((noPanic_error_iff e).mp this)
    | ok cs => intro h; cases h

/-- One instruction yields exactly one constraint when it states one, none otherwise. -/
theorem lower_length (p : Problem α) (v : Vars α) (instr : Instr α) (cs : List (Constraint α))
    (h : lower p v instr = .ok cs) : cs.length = if instr.producesConstraint then 1 else 0 := by
  cases instr <;> simp only [lower, Instr.producesConstraint] at h ⊢
  all_goals first
    | (injection h with h; subst h; rfl)
    | (repeat' split at h
       all_goals first
         | (simp [bind, Except.bind, pure, Except.pure] at h
            repeat' split at h
            all_goals first | (simp at h; try (subst h; rfl)) | (injection h with h; subst h; rfl))
         | (injection h with h; subst h; rfl)
         | cases h)

end Ezpz.Text
