/-
C14 — corollaries about the iteration cap at the public entry point `solveWithPriority`, and the
scalar-generic half of "the returned level stopped on the residual test".

* `solve_cap_monotone_single_level`: with one priority level a success under cap `c` is the same
  success under every cap `c' ≥ c`.
* `solveInner_cap_monotone_err'`, `solve_cap_monotone_err`: "did not converge" under a cap means
  "did not converge" (with the same problem sizes) under every smaller cap — for `solveInner` with
  no hypothesis on the analysis, and for `solveWithPriority` with any request list.
* `StepTestSilent`, `newton_byResidual_of_silent`: an observable condition on the configuration and
  the LU oracle under which the step-size test never fires, so that every successful Newton run
  returned at the residual test.

Everything holds for every scalar type; no Mathlib.
-/
import Ezpz.Properties.C14
import Ezpz.Proofs.Lint
set_option linter.unusedSectionVars false
set_option linter.unusedSimpArgs false
namespace Ezpz.C14
open Ezpz Transc

variable {α : Type} [Add α] [Sub α] [Mul α] [Div α] [Neg α] [OfScientific α]
  [LT α] [DecidableLT α] [LE α] [DecidableLE α] [Transc α]

/-! ### One priority level -/

/-- When all requests have priority `P`, `P` is the only level (core-only copy of
`Ezpz.levels_single`, which lives in a file that imports Mathlib). -/
theorem levels_one_priority (reqs : List (Constraint α × Nat)) (P : Nat) (hne : reqs ≠ [])
    (hall : ∀ r ∈ reqs, r.2 = P) : levels (enumerate reqs) = [P] := by
  apply sorted_ext _ _ (levels_sorted _) (by simp)
  intro q
  rw [mem_levels, enumerate_priorities]
  constructor
  · rintro ⟨r, hr, rfl⟩
    simp [hall r hr]
  · intro hq
    simp only [List.mem_singleton] at hq
    subst hq
    cases reqs with
    | nil => exact absurd rfl hne
    | cons r rest => exact ⟨r, by simp, hall r (by simp)⟩

/-- When all requests have the same priority, the prioritised solve is one call of `solveInner` on
the whole enumerated list, with the LU (and SVD) oracle of call 0 (core-only copy of
`Ezpz.solveWithPriority_single_level`). -/
theorem solveWithPriority_one_level (reqs : List (Constraint α × Nat)) (g : List (Nat × α))
    (cfg : Config α) (solve : LinSolve α) (svd : Option (Svd α)) (P : Nat) (hne : reqs ≠ [])
    (hall : ∀ r ∈ reqs, r.2 = P) :
    solveWithPriority reqs g cfg solve svd =
      solveInner (enumerate reqs) g cfg (solve 0) (svd.map (fun s => s 0)) := by
  have hne' : reqs.isEmpty = false := by cases reqs <;> simp_all
  have hP : ∃ r ∈ reqs, r.2 = P := by
    cases reqs with
    | nil => exact absurd rfl hne
    | cons r rest => exact ⟨r, by simp, hall r (by simp)⟩
  unfold solveWithPriority
  rw [hne', levels_one_priority reqs P hne hall]
  simp only [Bool.false_eq_true, if_false, priorityLoop, filter_single_level reqs P P hall hP]
  cases solveInner (enumerate reqs) g cfg (solve 0) (svd.map (fun s => s 0)) with
  | error f => rfl
  | ok o =>
    dsimp only
    cases hu : o.unsatisfied.isEmpty <;> simp [hu]

/-- C14.4 — **single priority level: the public entry point inherits cap-monotonicity.**  If all
requests have the same priority and the prioritised solve succeeds with outcome `o` under the
iteration cap `c`, it succeeds with the very same outcome under every cap `c' ≥ c`. -/
theorem solve_cap_monotone_single_level (reqs : List (Constraint α × Nat)) (g : List (Nat × α))
    (cfg : Config α) (solve : LinSolve α) (svd : Option (Svd α)) (P c c' : Nat)
    (hall : ∀ r ∈ reqs, r.2 = P) (hc : c ≤ c') (o : Outcome α)
    (h : solveWithPriority reqs g (withCap cfg c) solve svd = .ok o) :
    solveWithPriority reqs g (withCap cfg c') solve svd = .ok o := by
  cases hr : reqs with
  | nil =>
    subst hr
    simpa [solveWithPriority] using h
  | cons r rest =>
    have hne : reqs ≠ [] := by rw [hr]; simp
    rw [← hr]
    rw [solveWithPriority_one_level reqs g _ solve svd P hne hall] at h ⊢
    rw [solveInner_cap_monotone _ g cfg _ _ c c' hc (by intro f hf; rw [h] at hf; cases hf)]
    exact h

/-! ### The error direction -/

/-- Every failure of `solveInner` reports the number of guesses and the number of residual rows. -/
theorem solveInner_error_sizes (es : List (Entry α)) (g : List (Nat × α)) (cfg : Config α)
    (solve : Nat → List (Triplet α) → List α → Except SolveError (List α))
    (analyze : Option (List (Triplet α) → Except SolveError (List α × List (List α))))
    (f : Failure α) (h : solveInner es g cfg solve analyze = .error f) :
    f.numVars = g.length ∧ f.numEqs = numRows es := by
  unfold solveInner at h
  split at h
  · injection h with h; subst h; exact ⟨rfl, rfl⟩
  · split at h
    · injection h with h; subst h; exact ⟨rfl, rfl⟩
    · split at h
      · injection h with h; subst h; exact ⟨rfl, rfl⟩
      · split at h
        · injection h with h; subst h; exact ⟨rfl, rfl⟩
        · cases h

/-- C14.3b, strengthened — one level: failing for lack of iterations under a cap means failing the
same way, with the same reported sizes, under every smaller cap.  Unlike
`solveInner_cap_monotone_err` there is no hypothesis on the analysis: if the failure under the
larger cap came after the Newton loop, the smaller cap either reproduces it exactly or runs out of
iterations first. -/
theorem solveInner_cap_monotone_err' (es : List (Entry α)) (g : List (Nat × α)) (cfg : Config α)
    (solve : Nat → List (Triplet α) → List α → Except SolveError (List α))
    (analyze : Option (List (Triplet α) → Except SolveError (List α × List (List α))))
    (c c' : Nat) (hc : c ≤ c') (f : Failure α)
    (h : solveInner es g (withCap cfg c') solve analyze = .error f)
    (hf : f.error = .didNotConverge) :
    ∃ f', solveInner es g (withCap cfg c) solve analyze = .error f' ∧
      f'.error = .didNotConverge ∧ f'.numVars = f.numVars ∧ f'.numEqs = f.numEqs := by
  cases hres : solveInner es g (withCap cfg c) solve analyze with
  | ok o =>
    have := solveInner_cap_monotone es g cfg solve analyze c c' hc
      (by intro f' hf'; rw [hres] at hf'; cases hf')
    rw [this, hres] at h
    cases h
  | error f' =>
    have hs := solveInner_error_sizes es g _ solve analyze f h
    have hs' := solveInner_error_sizes es g _ solve analyze f' hres
    cases hd : decide (f'.error = .didNotConverge) with
    | true =>
      have hd' : f'.error = .didNotConverge := of_decide_eq_true hd
      exact ⟨f', rfl, hd', by rw [hs.1, hs'.1], by rw [hs.2, hs'.2]⟩
    | false =>
      have hd' : f'.error ≠ .didNotConverge := of_decide_eq_false hd
      have := solveInner_cap_monotone es g cfg solve analyze c c' hc
        (by intro f'' hf''; rw [hres] at hf''; injection hf'' with hf''; subst hf''; exact hd')
      rw [this, hres] at h
      injection h with h
      subst h
      exact absurd hf hd'

/-- C14.5 — **the error direction at the public entry point**, for every request list (any number of
priority levels): if the prioritised solve fails for lack of iterations under the cap `c'`, then
under every smaller cap `c ≤ c'` it also fails for lack of iterations, reporting the same number
of variables and equations.  (The returned error is always the first level's; that level is
oracle call 0 in both runs.) -/
theorem solve_cap_monotone_err (reqs : List (Constraint α × Nat)) (g : List (Nat × α))
    (cfg : Config α) (solve : LinSolve α) (svd : Option (Svd α)) (c c' : Nat) (hc : c ≤ c')
    (f : Failure α) (h : solveWithPriority reqs g (withCap cfg c') solve svd = .error f)
    (hf : f.error = .didNotConverge) :
    ∃ f', solveWithPriority reqs g (withCap cfg c) solve svd = .error f' ∧
      f'.error = .didNotConverge ∧ f'.numVars = f.numVars ∧ f'.numEqs = f.numEqs := by
  obtain ⟨p, rest, hl, hrun⟩ := C03.highest_level_error reqs g _ solve svd f h
  have hne : reqs.isEmpty = false := by
    cases reqs with
    | nil => simp [solveWithPriority] at h
    | cons r rest => rfl
  unfold levelRun at hrun
  obtain ⟨f', hf', he, hv, hq⟩ := solveInner_cap_monotone_err' _ g cfg _ _ c c' hc f hrun hf
  refine ⟨f', ?_, he, hv, hq⟩
  unfold solveWithPriority
  rw [hne, hl]
  simp only [Bool.false_eq_true, if_false, priorityLoop, hf']

/-! ### An observable condition for "returned at the residual test" -/

/-- **The step-size test is silent** for a configuration and an LU oracle: whenever the oracle is
asked for a step (that is, for a residual vector that fails the residual test) the step it returns
is larger than the step threshold at every point.  Under this condition the only way the Newton
loop can succeed is the residual test. -/
def StepTestSilent (cfg : Config α)
    (solve : Nat → List (Triplet α) → List α → Except SolveError (List α)) : Prop :=
  ∀ (k : Nat) (jac : List (Triplet α)) (r d x : List α) (largest : α),
    solve k jac r = .ok d → maxAbs? r = some largest → ¬ largest ≤ cfg.convergenceTolerance →
    ¬ stepInfNorm d ≤ stepThreshold cfg x

/-- If the step-size test is silent, a round that returns does so at the residual test. -/
theorem newtonStep_byResidual_of_silent (es : List (Entry α)) (cfg : Config α)
    (solve : Nat → List (Triplet α) → List α → Except SolveError (List α))
    (hs : StepTestSilent cfg solve) (k : Nat) (x : List α) (ws : List (Warning α))
    (r : NewtonOk α) (h : newtonStep es cfg solve k x ws = .done r) : r.byResidual = true := by
  unfold newtonStep at h
  split at h
  · cases h
  · split at h
    · cases h
    · split at h
      · cases h
      · rename_i largest hm
        split at h
        · injection h with h; subst h; rfl
        · rename_i hl
          split at h
          · cases h
          · rename_i d hd
            split at h
            · cases h
            · split at h
              · cases h
              · split at h
                · rename_i hstep
                  exact absurd hstep (hs k _ _ d x largest hd hm hl)
                · cases h

/-- If the step-size test is silent, every successful Newton loop returned at the residual test. -/
theorem newtonLoop_byResidual_of_silent (es : List (Entry α)) (cfg : Config α)
    (solve : Nat → List (Triplet α) → List α → Except SolveError (List α))
    (hs : StepTestSilent cfg solve) :
    ∀ (fuel k : Nat) (x : List α) (ws : List (Warning α)) (r : NewtonOk α),
      newtonLoop es cfg solve fuel k x ws = .ok r → r.byResidual = true := by
  intro fuel
  induction fuel with
  | zero => intro k x ws r h; simp [newtonLoop] at h
  | succ fuel ih =>
    intro k x ws r h
    unfold newtonLoop at h
    split at h
    · rename_i r' hst
      injection h with h; subst h
      exact newtonStep_byResidual_of_silent es cfg solve hs k x ws _ hst
    · cases h
    · exact ih _ _ _ r h

/-- If the step-size test is silent, every successful `newton` run returned at the residual test. -/
theorem newton_byResidual_of_silent (es : List (Entry α)) (cfg : Config α)
    (solve : Nat → List (Triplet α) → List α → Except SolveError (List α))
    (hs : StepTestSilent cfg solve) (x : List α) (r : NewtonOk α)
    (h : newton es cfg solve x = .ok r) : r.byResidual = true :=
  newtonLoop_byResidual_of_silent es cfg solve hs _ _ _ _ r h

/-! ### From the global residual vector to the requests -/

/-- Every residual component of every entry is a component of the stacked residual vector. -/
theorem residualAll_mem (x : Nat → Option α) :
    ∀ (es : List (Entry α)) (rs : List α) (ws : List (Warning α)),
      residualAll es x = .ok (rs, ws) →
      ∀ e ∈ es, ∃ r, e.c.residual x = some r ∧
        ∀ v ∈ takeRows e.c.residualDim r.r0 r.r1 r.r2, v ∈ rs := by
  intro es
  induction es with
  | nil => intro rs ws _ e he; cases he
  | cons e0 rest ih =>
    intro rs ws h e he
    unfold residualAll at h
    split at h
    · cases h
    · rename_i r0 hr0
      split at h
      · cases h
      · rename_i rs' ws' hrest
        injection h with h
        injection h with h1 h2
        subst h1
        rcases List.mem_cons.mp he with rfl | he'
        · exact ⟨r0, hr0, fun v hv => List.mem_append_left _ hv⟩
        · obtain ⟨r, hr, hv⟩ := ih rs' ws' hrest e he'
          exact ⟨r, hr, fun v hvm => List.mem_append_right _ (hv v hvm)⟩

/-! ### Non-vacuity and the multi-level counterexample over `Float` (evaluated by the kernel) -/

/-- The exact Newton step `d = -r` for identity Jacobians, as the LU oracle of every level. -/
def exactStepF : LinSolve Float := fun _ _ _ r => .ok (r.map (fun v => -v))

/-- Non-vacuity of `solve_cap_monotone_single_level`: two requests of the same priority 3 that
succeed under cap 2 (one exact step, then the residual test). -/
example : (∀ r ∈ [(Constraint.fixed 0 (5.0 : Float), 3), (Constraint.fixed 1 7.0, 3)], r.2 = 3) ∧
    ∃ o, solveWithPriority [(Constraint.fixed 0 (5.0 : Float), 3), (Constraint.fixed 1 7.0, 3)]
      [(0, 0.0), (1, 0.0)] (withCap Config.default 2) exactStepF none = .ok o ∧
      o.iterations = 1 ∧ o.prioritySolved = 3 := ⟨by simp, _, rfl, rfl, rfl⟩

/-- Non-vacuity of `solve_cap_monotone_err`: two requests on two priority levels; the first level
("variable 0 is 5" from the guess 0) needs two rounds, so under cap 1 it runs out of iterations and
that is the entry point's error (and, by the theorem, also under cap 0). -/
example : ∃ f, solveWithPriority [(Constraint.fixed 0 (5.0 : Float), 0), (Constraint.fixed 0 6.0, 1)]
      [(0, 0.0)] (withCap Config.default 1) exactStepF none = .error f ∧
    f.error = .didNotConverge ∧ f.numVars = 1 ∧ f.numEqs = 1 := ⟨_, rfl, rfl, rfl, rfl⟩

/-- **F11 over `Float`: with several priority levels a success under a cap is not reproduced under a
larger cap.**  Requests "variable 0 is 5" (priority 0) and "variable 1 is 7" (priority 1), guesses
`[5, 0]`, default tolerances, exact Newton step.  Under cap 1 level 0 succeeds at once and level 1
runs out of iterations, so level 0's outcome is returned (`prioritySolved = 0`); under cap 2 level 1
converges and is returned (`prioritySolved = 1`).  Both results are `Ok` with nothing unsatisfied.
(The same witness over ℝ: `cap_not_monotone_multi_level` in `Real/ToleranceEntry.lean`.) -/
theorem cap_not_monotone_multi_level_float :
    ∃ (o o' : Outcome Float),
      solveWithPriority [(Constraint.fixed 0 (5.0 : Float), 0), (Constraint.fixed 1 7.0, 1)]
        [(0, 5.0), (1, 0.0)] (withCap Config.default 1) exactStepF none = .ok o ∧
      solveWithPriority [(Constraint.fixed 0 (5.0 : Float), 0), (Constraint.fixed 1 7.0, 1)]
        [(0, 5.0), (1, 0.0)] (withCap Config.default 2) exactStepF none = .ok o' ∧
      o.unsatisfied = [] ∧ o'.unsatisfied = [] ∧ o.prioritySolved = 0 ∧ o'.prioritySolved = 1 ∧
      o.iterations = 0 ∧ o'.iterations = 1 ∧ o ≠ o' := by
  refine ⟨_, _, rfl, rfl, rfl, rfl, rfl, rfl, rfl, rfl, ?_⟩
  intro h
  have := congrArg Outcome.prioritySolved h
  exact absurd this (by decide)

end Ezpz.C14
