/-
C10 — the text front-end's four solve methods agree (model: `Ezpz/Model/TextMethods.lean`).

`to_constraint_system` gives every constraint priority 0 (`let priority = 0;`, regenerated as
`Gen.TEXT_PRIORITY` and pinned by `text_priority_zero`), so every call on a system AS BUILT is a
single-level solve and known finding F10 (an analysis failure at a non-first level changes the
returned level) cannot occur: the statements below carry no hypothesis about the analysis.
SCOPE: the model's `ConstraintSystem.constraints` is a list of constraints without priorities; the
Rust field `pub constraints: Vec<ConstraintRequest>` is public, so a caller can push a request of
another priority into a built system before solving — such a modified system is outside the model
(it is the library-level multi-priority solve of C03 / C10, where F10 applies).

* `requests_priority_zero`, `text_solve_one_level`: the library call of every method is one
  `solveInner` on the whole enumerated list.
* `solveDefault_eq`: `solve() = solve_with_config(Config::default())`.
* `withConfig_of_noMetadata_ok` / `_error` / `_panic`: `solve_with_config` returns exactly the fields
  of `solve_no_metadata`'s outcome plus the labelling of its final values; it fails with the same
  failure; it panics only if the library panics or the labelling indexes out of bounds —
  `withConfig_label_total`: the latter never happens for a system built from the problem.
* `text_plain_fails_then_analysis_fails`: when the plain methods fail, the analysing one fails the
  same way.
* `text_analysis_only_adds_failure`: when `solve_with_config` succeeds with `t`,
  `solve_with_config_analysis` either succeeds with the very same `t` (plus the analysis), or the
  Newton run succeeds and `runAnalysis` on its last Jacobian fails, and that error is what the method
  returns (or unwinds with, if it is a panic).
* `text_analysis_ok_then_plain_ok`: when `solve_with_config_analysis` succeeds with `(u, t)`,
  `solve_with_config` succeeds with `t` and `solve_no_metadata` with the same iteration count,
  unsatisfied list, warnings, priority and the final values `t` labels.
-/
import Ezpz.Model.TextMethods
import Ezpz.Properties.C10
import Ezpz.Properties.C16
import Ezpz.Proofs.Caps
set_option linter.unusedSectionVars false
set_option linter.unusedSimpArgs false
namespace Ezpz.Text
open Ezpz Ezpz.Cli

variable {α : Type} [Add α] [Sub α] [Mul α] [Div α] [Neg α] [OfScientific α]
  [LT α] [DecidableLT α] [LE α] [DecidableLE α] [Transc α]

/-- Every request the front-end hands to the solver has priority 0. -/
theorem requests_priority_zero (cs : ConstraintSystem α) : ∀ r ∈ requests cs, r.2 = 0 := by
  intro r hr
  simp only [requests, List.mem_map] at hr
  obtain ⟨c, _, rfl⟩ := hr
  rfl

/-- With at least one constraint, the library call of every text method is ONE `solveInner` on the
whole enumerated list (call index 0). -/
theorem text_solve_one_level (cs : ConstraintSystem α) (cfg : Config α) (solve : LinSolve α)
    (svd : Option (Svd α)) (hne : cs.constraints ≠ []) :
    solveWithPriority (requests cs) cs.vars.variables cfg solve svd =
      solveInner (enumerate (requests cs)) cs.vars.variables cfg (solve 0)
        (svd.map (fun s => s 0)) := by
  apply C14.solveWithPriority_one_level _ _ _ _ _ 0 _ (requests_priority_zero cs)
  intro h
  apply hne
  simpa [requests] using h

/-- `solve()` is `solve_with_config(Config::default())`. -/
theorem solveDefault_eq (p : Problem α) (cs : ConstraintSystem α) (solve : LinSolve α) :
    solveDefault p cs solve = solveWithConfig p cs Config.default solve := rfl

/-- `solve_no_metadata` is `solve_no_metadata_inner::<NoAnalysis>` without the (empty) analysis. -/
theorem solveNoMetadata_eq (cs : ConstraintSystem α) (cfg : Config α) (solve : LinSolve α) :
    solveNoMetadata cs cfg solve = solveNoMetadataInner cs cfg solve none := rfl

/-- **`solve_with_config` reports what `solve_no_metadata` computed**: on success of the latter with
`o`, the former is the labelling of `o.finalValues` (a panic if that indexes out of bounds) with
`o`'s unsatisfied list, iteration count, warnings and solved priority, the problem's lines and the
system's sizes. -/
theorem withConfig_of_noMetadata_ok (p : Problem α) (cs : ConstraintSystem α) (cfg : Config α)
    (solve : LinSolve α) (o : Outcome α) (h : solveNoMetadata cs cfg solve = some (.ok o)) :
    solveWithConfig p cs cfg solve =
      (labelOutcome p o.finalValues).map (fun l => .ok (textOutcome p cs o l)) := by
  rw [solveNoMetadata_eq] at h
  simp only [solveWithConfig, solveWithConfigInner, h]
  cases labelOutcome p o.finalValues <;> rfl

/-- When `solve_no_metadata` fails, `solve_with_config` fails with the same failure. -/
theorem withConfig_of_noMetadata_error (p : Problem α) (cs : ConstraintSystem α) (cfg : Config α)
    (solve : LinSolve α) (f : Failure α) (h : solveNoMetadata cs cfg solve = some (.error f)) :
    solveWithConfig p cs cfg solve = some (.error f) := by
  rw [solveNoMetadata_eq] at h
  simp only [solveWithConfig, solveWithConfigInner, h]
  rfl

/-- When `solve_no_metadata` panics, so does `solve_with_config`. -/
theorem withConfig_of_noMetadata_panic (p : Problem α) (cs : ConstraintSystem α) (cfg : Config α)
    (solve : LinSolve α) (h : solveNoMetadata cs cfg solve = none) :
    solveWithConfig p cs cfg solve = none := by
  rw [solveNoMetadata_eq] at h
  simp only [solveWithConfig, solveWithConfigInner, h]
  rfl

/-- For a system built from the problem, labelling a successful result never panics: a success of
`solve_no_metadata` is a success of `solve_with_config`. -/
theorem withConfig_label_total (p : Problem α) (cs : ConstraintSystem α) (cfg : Config α)
    (solve : LinSolve α) (hb : toConstraintSystem p = .ok cs) (o : Outcome α)
    (h : solveNoMetadata cs cfg solve = some (.ok o)) :
    ∃ l, labelOutcome p o.finalValues = some l ∧
      solveWithConfig p cs cfg solve = some (.ok (textOutcome p cs o l)) := by
  have hlib : librarySolve cs cfg solve = .ok o := by
    unfold solveNoMetadata liftLib at h
    unfold librarySolve
    split at h
    · split at h <;> simp at h
    · next o' ho' => simp at h; subst h; exact ho'
  obtain ⟨l, hl⟩ := library_label_total p cs cfg solve hb o hlib
  exact ⟨l, hl, by rw [withConfig_of_noMetadata_ok p cs cfg solve o h, hl]; rfl⟩

/-! ### With and without analysis -/

/-- Library level, all requests at priority 0: a plain failure is the failure with analysis. -/
theorem lib_plain_error (cs : ConstraintSystem α) (cfg : Config α) (solve : LinSolve α)
    (svd : Svd α) (f : Failure α)
    (h : solveWithPriority (requests cs) cs.vars.variables cfg solve none = .error f) :
    solveWithPriority (requests cs) cs.vars.variables cfg solve (some svd) = .error f :=
  C10.plain_fails_then_analysis_fails _ _ _ _ _ _ h

/-- Library level, all requests at priority 0: a plain success with `o` becomes, with analysis, the
same outcome with an under-constrained list attached, or a failure — and that failure is the failure
of the analysis step itself: with at least one constraint, the Newton run of the single level
succeeds (`nr`) and `runAnalysis` on its last Jacobian returns the reported error. -/
theorem lib_plain_ok (cs : ConstraintSystem α) (cfg : Config α) (solve : LinSolve α)
    (svd : Svd α) (o : Outcome α)
    (h : solveWithPriority (requests cs) cs.vars.variables cfg solve none = .ok o) :
    (∃ us, solveWithPriority (requests cs) cs.vars.variables cfg solve (some svd) =
        .ok { o with underconstrained := some us }) ∨
    (∃ f nr, solveWithPriority (requests cs) cs.vars.variables cfg solve (some svd) = .error f ∧
      newton (enumerate (requests cs)) cfg (solve 0) (cs.vars.variables.map (·.2)) = .ok nr ∧
      runAnalysis (some (svd 0)) nr.lastJac cs.vars.variables.length = .error f.error) := by
  by_cases hne : cs.constraints = []
  · left
    have hr : requests cs = [] := by simp [requests, hne]
    rw [hr] at h ⊢
    simp only [solveWithPriority, List.isEmpty_nil, if_true, noConstraintsOutcome,
      Option.isSome_none, Option.isSome_some, Bool.false_eq_true, if_false] at h ⊢
    injection h with h
    subst h
    exact ⟨_, rfl⟩
  · rw [text_solve_one_level cs cfg solve _ hne] at h ⊢
    rcases C10.level_plain_ok _ _ _ _ (svd 0) o h with ⟨us, hus⟩ | ⟨f, nr, hf, hn, hra⟩
    · exact Or.inl ⟨us, hus⟩
    · exact Or.inr ⟨f, nr, hf, hn, hra⟩

/-- Library level, all requests at priority 0: a success with analysis is a plain success with the
same outcome (analysis removed). -/
theorem lib_analysis_ok (cs : ConstraintSystem α) (cfg : Config α) (solve : LinSolve α)
    (svd : Svd α) (o : Outcome α)
    (h : solveWithPriority (requests cs) cs.vars.variables cfg solve (some svd) = .ok o) :
    solveWithPriority (requests cs) cs.vars.variables cfg solve none = .ok (C10.strip o) := by
  by_cases hne : cs.constraints = []
  · have hr : requests cs = [] := by simp [requests, hne]
    rw [hr] at h ⊢
    simp only [solveWithPriority, List.isEmpty_nil, if_true, noConstraintsOutcome,
      Option.isSome_none, Option.isSome_some, Bool.false_eq_true, if_false] at h ⊢
    injection h with h
    subst h
    rfl
  · rw [text_solve_one_level cs cfg solve _ hne] at h ⊢
    exact C10.level_analysis_ok _ _ _ _ (svd 0) o h

/-- **When the plain text methods fail, the analysing one fails the same way.** -/
theorem text_plain_fails_then_analysis_fails (p : Problem α) (cs : ConstraintSystem α)
    (cfg : Config α) (solve : LinSolve α) (svd : Svd α) (f : Failure α)
    (h : solveWithConfig p cs cfg solve = some (.error f)) :
    solveWithConfigAnalysis p cs cfg solve svd = some (.error f) := by
  unfold solveWithConfig solveWithConfigInner solveNoMetadataInner liftLib at h
  unfold solveWithConfigAnalysis solveWithConfigInner solveNoMetadataInner liftLib
  cases hl : solveWithPriority (requests cs) cs.vars.variables cfg solve none with
  | error f' =>
    rw [hl] at h
    rw [lib_plain_error cs cfg solve svd f' hl]
    cases hp : f'.error.isPanic <;> simp [hp, Except.map] at h ⊢
    exact h
  | ok o =>
    rw [hl] at h
    simp only at h
    cases hlab : labelOutcome p o.finalValues <;> simp [hlab, Except.map] at h

/-- **Requesting the analysis can only add a failure of the analysis step itself (text front-end).**
When `solve_with_config` succeeds with `t`, `solve_with_config_analysis` either succeeds with the same
`t` and an under-constrained list, or fails / panics **in the analysis step**: the Newton run of the
single level succeeds (`nr`), `runAnalysis` on its last Jacobian returns an error `e`, and the method
returns `Err` with that error (or unwinds, if `e` is a panic).  It never returns a different labelled
outcome, and never a failure of the solve itself. -/
theorem text_analysis_only_adds_failure (p : Problem α) (cs : ConstraintSystem α)
    (cfg : Config α) (solve : LinSolve α) (svd : Svd α) (t : TextOutcome α)
    (h : solveWithConfig p cs cfg solve = some (.ok t)) :
    (∃ us, solveWithConfigAnalysis p cs cfg solve svd = some (.ok (some us, t))) ∨
    (∃ f nr, newton (enumerate (requests cs)) cfg (solve 0) (cs.vars.variables.map (·.2)) = .ok nr ∧
      runAnalysis (some (svd 0)) nr.lastJac cs.vars.variables.length = .error f.error ∧
      solveWithConfigAnalysis p cs cfg solve svd =
        if f.error.isPanic then none else some (.error f)) := by
  unfold solveWithConfig solveWithConfigInner solveNoMetadataInner liftLib at h
  unfold solveWithConfigAnalysis solveWithConfigInner solveNoMetadataInner liftLib
  cases hl : solveWithPriority (requests cs) cs.vars.variables cfg solve none with
  | error f' =>
    rw [hl] at h
    cases hp : f'.error.isPanic <;> simp [hp, Except.map] at h
  | ok o =>
    rw [hl] at h
    simp only at h
    cases hlab : labelOutcome p o.finalValues with
    | none => simp [hlab] at h
    | some l =>
      simp only [hlab, Option.map_some, Except.map, Option.some.injEq, Except.ok.injEq] at h
      rcases lib_plain_ok cs cfg solve svd o hl with ⟨us, hus⟩ | ⟨f, nr, hf, hn, hra⟩
      · left
        refine ⟨us, ?_⟩
        rw [hus]
        simp only [hlab]
        rw [← h]
        rfl
      · right
        refine ⟨f, nr, hn, hra, ?_⟩
        rw [hf]
        cases hp : f.error.isPanic <;> simp [hp]

/-- **A success with analysis is the plain success.**  When `solve_with_config_analysis` succeeds
with `(u, t)`, `solve_with_config` succeeds with the very same `t`, and `solve_no_metadata` succeeds
with an outcome whose unsatisfied list, iteration count, warnings and solved priority are `t`'s and
whose final values are the ones `t` labels. -/
theorem text_analysis_ok_then_plain_ok (p : Problem α) (cs : ConstraintSystem α)
    (cfg : Config α) (solve : LinSolve α) (svd : Svd α) (u : Option (List Nat)) (t : TextOutcome α)
    (h : solveWithConfigAnalysis p cs cfg solve svd = some (.ok (u, t))) :
    solveWithConfig p cs cfg solve = some (.ok t) ∧
    ∃ o, solveNoMetadata cs cfg solve = some (.ok o) ∧ o.unsatisfied = t.unsatisfied ∧
      o.iterations = t.iterations ∧ o.warnings = t.warnings ∧
      o.prioritySolved = t.prioritySolved ∧ labelOutcome p o.finalValues = some t.labelled := by
  unfold solveWithConfigAnalysis solveWithConfigInner solveNoMetadataInner liftLib at h
  cases hl : solveWithPriority (requests cs) cs.vars.variables cfg solve (some svd) with
  | error f' =>
    rw [hl] at h
    cases hp : f'.error.isPanic <;> simp [hp] at h
  | ok o =>
    rw [hl] at h
    simp only at h
    cases hlab : labelOutcome p o.finalValues with
    | none => simp [hlab] at h
    | some l =>
      simp only [hlab, Option.some.injEq, Except.ok.injEq, Prod.mk.injEq] at h
      obtain ⟨_, ht⟩ := h
      have hplain := lib_analysis_ok cs cfg solve svd o hl
      have hfv : (C10.strip o).finalValues = o.finalValues := rfl
      constructor
      · unfold solveWithConfig solveWithConfigInner solveNoMetadataInner liftLib
        rw [hplain]
        simp only [hfv, hlab, Option.map_some, Except.map]
        rw [← ht]
        rfl
      · refine ⟨C10.strip o, ?_, ?_, ?_, ?_, ?_, ?_⟩
        · unfold solveNoMetadata liftLib; rw [hplain]
        all_goals (rw [← ht]; first | rfl | exact hlab)

/-- Non-vacuity: the empty problem builds, and all four methods succeed on it with the same (empty)
labelled outcome; the analysing one reports no variables. -/
example (solve : LinSolve Float) (svd : Svd Float) :
    let p : Problem Float := ⟨[], [], [], [], [], [], []⟩
    ∃ cs t, toConstraintSystem p = .ok cs ∧
      solveWithConfig p cs Config.default solve = some (.ok t) ∧
      solveDefault p cs solve = some (.ok t) ∧
      solveWithConfigAnalysis p cs Config.default solve svd = some (.ok (some [], t)) := by
  refine ⟨⟨[], {}⟩, _, ?_, rfl, rfl, rfl⟩
  rfl

end Ezpz.Text

namespace Ezpz.Text

/-- **The tie of `Model/TextMethods.lean` to the source, part 1**: the call structure of the six
functions, as regenerated from `kcl-ezpz/src/textual/executor.rs` on every run by `tools/extract.py`
(`Gen.TEXT_METHODS`: method, the one solve function it calls, its type argument).  This part only
sees callee names and type arguments; arguments and anything done around the call are pinned by
`text_method_bodies` below. -/
theorem text_methods_shape : Gen.TEXT_METHODS =
    [("solve_no_metadata", "crate::solve", ""),
     ("solve_no_metadata_inner", "crate::solve_with_priority_inner", ""),
     ("solve", "self.solve_with_config", "Default::default()"),
     ("solve_with_config_analysis", "self.solve_with_config_inner", "FreedomAnalysis"),
     ("solve_with_config", "self.solve_with_config_inner", "NoAnalysis"),
     ("solve_with_config_inner", "self.solve_no_metadata_inner", "A")] := by decide

/-- **Part 2: the bodies themselves.**  `Gen.TEXT_METHOD_BODIES` is the source text of each method
body with whitespace and comments removed (the long `solve_with_config_inner` as a SHA-256 of that
text), regenerated on every run.  Any edit of these functions — another argument, a modified
configuration, a result post-processed, an early return, a swapped coordinate in the labelling —
changes the constant and breaks this theorem; a harmless respelling does too, and is then decided by
the search on the real code (`oracle_c10`, the CLI comparison, corr-text's labelled results). -/
theorem text_method_bodies : Gen.TEXT_METHOD_BODIES =
    [("solve_no_metadata", "{crate::solve(&self.constraints,self.initial_guesses.variables(),config)"),
     ("solve_no_metadata_inner", "{crate::solve_with_priority_inner(&self.constraints,self.initial_guesses.variables(),config,)"),
     ("solve", "{self.solve_with_config(Default::default())"),
     ("solve_with_config_analysis", "{let(analysis,outcome)=self.solve_with_config_inner::<FreedomAnalysis>(config)?;Ok(OutcomeAnalysis{analysis,outcome})"),
     ("solve_with_config", "{let(NoAnalysis,outcome)=self.solve_with_config_inner::<NoAnalysis>(config)?;Ok(outcome)"),
     ("solve_with_config_inner", "sha256:70399b0034c0d53614af81a686e40a64fc9ba984b22747e3687bb0a0df76bea3")] := by
  decide


end Ezpz.Text

namespace Ezpz.Text
open Ezpz Ezpz.Cli

variable {α : Type} [Add α] [Sub α] [Mul α] [Div α] [Neg α] [OfScientific α]
  [LT α] [DecidableLT α] [LE α] [DecidableLE α] [Transc α]

/-- Library level, all requests at priority 0: a failure is not a panic when the LU oracle of call 0
(and the SVD oracle of call 0, if the analysis is requested) is total. -/
theorem lib_failure_noPanic (cs : ConstraintSystem α) (cfg : Config α) (solve : LinSolve α)
    (svd : Option (Svd α)) (hs : LinSolveTotal (solve 0) cs.vars.variables.length)
    (ha : ∀ s, svd = some s → SvdTotal (s 0) cs.vars.variables.length) (f : Failure α)
    (h : solveWithPriority (requests cs) cs.vars.variables cfg solve svd = .error f) :
    f.error.isPanic = false := by
  by_cases hne : cs.constraints = []
  · have hr : requests cs = [] := by simp [requests, hne]
    rw [hr] at h
    simp [solveWithPriority] at h
  · rw [text_solve_one_level cs cfg solve svd hne] at h
    refine solveInner_noPanic _ _ _ _ _ hs ?_ f h
    intro s' hs'
    cases svd with
    | none => simp at hs'
    | some s =>
      simp only [Option.map_some, Option.some.injEq] at hs'
      subst hs'
      exact ha s rfl

/-- **None of the four text solve methods panics** (C06 / C09 for the text front-end's solve
methods): for a system built from the problem (`toConstraintSystem p = .ok cs`) and total LU / SVD
oracles at call 0, `solve_no_metadata`, `solve_with_config`, `solve` and `solve_with_config_analysis`
all return `Ok` or `Err` — never `none`. -/
theorem text_methods_never_panic (p : Problem α) (cs : ConstraintSystem α) (cfg : Config α)
    (solve : LinSolve α) (svd : Svd α) (hb : toConstraintSystem p = .ok cs)
    (hs : LinSolveTotal (solve 0) cs.vars.variables.length)
    (ha : SvdTotal (svd 0) cs.vars.variables.length) :
    solveNoMetadata cs cfg solve ≠ none ∧ solveWithConfig p cs cfg solve ≠ none ∧
    solveDefault p cs solve ≠ none ∧ solveWithConfigAnalysis p cs cfg solve svd ≠ none := by
  have key : ∀ (cfg : Config α) (sv : Option (Svd α)),
      (∀ s, sv = some s → SvdTotal (s 0) cs.vars.variables.length) →
      solveWithConfigInner p cs cfg solve sv ≠ none := by
    intro cfg sv hsv
    unfold solveWithConfigInner solveNoMetadataInner liftLib
    cases hl : solveWithPriority (requests cs) cs.vars.variables cfg solve sv with
    | error f =>
      have := lib_failure_noPanic cs cfg solve sv hs hsv f hl
      simp [this]
    | ok o =>
      simp only
      have hlen : o.finalValues.length = cs.vars.variables.length :=
        C07.final_length (requests cs) cs.vars.variables cfg solve sv o hl
      obtain ⟨l, hl'⟩ := labelOutcome_total p o.finalValues
        (by rw [hlen, built_vars_length p cs hb]; exact Nat.le_refl _)
      simp [hl']
  have hnone : ∀ s : Svd α, (none : Option (Svd α)) = some s →
      SvdTotal (s 0) cs.vars.variables.length := by intro s h; cases h
  have hsome : ∀ s : Svd α, some svd = some s → SvdTotal (s 0) cs.vars.variables.length := by
    intro s h; cases h; exact ha
  refine ⟨?_, ?_, ?_, key cfg (some svd) hsome⟩
  · unfold solveNoMetadata liftLib
    cases hl : solveWithPriority (requests cs) cs.vars.variables cfg solve none with
    | error f =>
      have := lib_failure_noPanic cs cfg solve none hs hnone f hl
      simp [this]
    | ok o => simp
  · have := key cfg none hnone
    unfold solveWithConfig
    cases h : solveWithConfigInner p cs cfg solve none with
    | none => exact absurd h this
    | some r => simp
  · have := key Config.default none hnone
    unfold solveDefault solveWithConfig
    cases h : solveWithConfigInner p cs Config.default solve none with
    | none => exact absurd h this
    | some r => simp

/-- **Part 3: every request of a built system has priority 0** in the source too:
`to_constraint_system` has `let priority = 0;`, uses it in its only `ConstraintRequest::new(c,
priority)`, and constructs requests nowhere else (checked by the translator); the model's
`requests cs = cs.constraints.map (·, 0)` uses the same number. -/
theorem text_priority_zero : Gen.TEXT_PRIORITY = 0 ∧
    ∀ (cs : ConstraintSystem α), ∀ r ∈ requests cs, r.2 = Gen.TEXT_PRIORITY :=
  ⟨rfl, fun cs => requests_priority_zero cs⟩

end Ezpz.Text
