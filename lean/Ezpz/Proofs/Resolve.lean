/-
Helper facts for C11 (a satisfied configuration is left untouched; re-solving a result):

* when the global residual / Jacobian / satisfaction sweep of a request list evaluate, in terms of
  the single requests (so that evaluation passes to sub-lists and concatenations);
* `Model::new` of a sub-list;
* the priority loop when every level is good, and when the first level returns an outcome;
* the residual test (`maxAbs? r ≤ tol`) as "every component is within `tol`", under explicit order
  laws for `≤`/`fmax` (`MaxLaws`; they hold over ℝ, they fail for `Float` because of NaN).

All statements hold for every scalar type (laws are explicit hypotheses).  Core Lean only.
-/
import Ezpz.Proofs.Assembly
import Ezpz.Proofs.Report
set_option linter.unusedSectionVars false
namespace Ezpz
open Transc

variable {α : Type} [Add α] [Sub α] [Mul α] [Div α] [Neg α] [OfScientific α]
  [LT α] [DecidableLT α] [LE α] [DecidableLE α] [Transc α]

/-! ### Evaluation of the global residual, request by request -/

/-- The residual rows one request contributes at `x` (empty when its evaluation fails). -/
def entryRows (e : Entry α) (x : Nat → Option α) : List α :=
  match e.c.residual x with
  | some r => takeRows e.c.residualDim r.r0 r.r1 r.r2
  | none => []

/-- A request whose residual evaluates contributes at least one row. -/
theorem entryRows_ne_nil (e : Entry α) (x : Nat → Option α) (r : Res α)
    (h : e.c.residual x = some r) : entryRows e x ≠ [] := by
  unfold entryRows
  rw [h]
  intro hnil
  have := takeRows_length_dim e.c r.r0 r.r1 r.r2
  simp only at hnil
  rw [hnil] at this
  rcases residualDim_range e.c with hd | hd | hd <;> simp [hd] at this

/-- If the global residual evaluates, every request's residual evaluates, and the global vector is
the concatenation of the requests' rows. -/
theorem residualAll_ok_inv (x : Nat → Option α) :
    ∀ (es : List (Entry α)) (rs : List α) (ws : List (Warning α)),
      residualAll es x = .ok (rs, ws) →
      (∀ e ∈ es, ∃ r, e.c.residual x = some r) ∧ rs = es.flatMap (fun e => entryRows e x) := by
  intro es
  induction es with
  | nil => intro rs ws h; simp [residualAll] at h; simp [h.1]
  | cons e rest ih =>
    intro rs ws h
    unfold residualAll at h
    split at h
    · simp at h
    · rename_i r hr
      split at h
      · simp at h
      · rename_i rs' ws' hrest
        obtain ⟨h1, h2⟩ := ih rs' ws' hrest
        injection h with h
        injection h with h3 h4
        subst h3
        refine ⟨?_, ?_⟩
        · intro e' he'
          rcases List.mem_cons.mp he' with rfl | he'
          · exact ⟨r, hr⟩
          · exact h1 e' he'
        · simp [List.flatMap_cons, entryRows, hr, h2]

/-- If every request's residual evaluates, the global residual evaluates (to the concatenation of
the requests' rows). -/
theorem residualAll_of_some (x : Nat → Option α) :
    ∀ (es : List (Entry α)), (∀ e ∈ es, ∃ r, e.c.residual x = some r) →
      ∃ ws, residualAll es x = .ok (es.flatMap (fun e => entryRows e x), ws) := by
  intro es
  induction es with
  | nil => intro _; exact ⟨[], rfl⟩
  | cons e rest ih =>
    intro h
    obtain ⟨r, hr⟩ := h e (by simp)
    obtain ⟨ws, hrest⟩ := ih (fun e' he' => h e' (by simp [he']))
    unfold residualAll
    rw [hr]
    simp only [hrest]
    refine ⟨(if r.degenerate then [degenerateWarning e] else []) ++ ws, ?_⟩
    simp [List.flatMap_cons, entryRows, hr]

/-! ### Evaluation of the Jacobian, request by request -/

/-- If the scatter succeeds, every request's derivative rows evaluate. -/
theorem jacobianFrom_ok_inv (pat : List (Nat × Nat)) (x : Nat → Option α) :
    ∀ (es : List (Entry α)) (row0 : Nat) (ts : List (Triplet α)) (ws : List (Warning α)),
      jacobianFrom pat es x row0 = .ok (ts, ws) →
      ∀ e ∈ es, ∃ j, e.c.jacobianRows x = some j := by
  intro es
  induction es with
  | nil => intro row0 ts ws _ e he; simp at he
  | cons e0 rest ih =>
    intro row0 ts ws h e he
    obtain ⟨j, ts', ws', hj, _, hrest, _, _⟩ := jacobianFrom_cons_ok pat e0 rest x row0 ts ws h
    rcases List.mem_cons.mp he with rfl | he
    · exact ⟨j, hj⟩
    · exact ih _ ts' ws' hrest e he

/-- If every request's derivative rows evaluate and the pattern covers the list's own cells, the
scatter succeeds: it never misses the sparsity pattern. -/
theorem jacobianFrom_of_some (pat : List (Nat × Nat)) (x : Nat → Option α) :
    ∀ (es : List (Entry α)) (row0 : Nat),
      (∀ e ∈ es, ∃ j, e.c.jacobianRows x = some j) →
      (∀ cell ∈ patternFrom es row0, cell ∈ pat) →
      ∃ ts ws, jacobianFrom pat es x row0 = .ok (ts, ws) := by
  intro es
  induction es with
  | nil => intro row0 _ _; exact ⟨[], [], rfl⟩
  | cons e rest ih =>
    intro row0 h hpat
    obtain ⟨j, hj⟩ := h e (by simp)
    obtain ⟨ts, ws, hrest⟩ := ih (row0 + e.c.residualDim) (fun e' he' => h e' (by simp [he']))
      (fun cell hc => hpat cell (patternFrom_tail_subset e rest row0 cell hc))
    rw [jacobianFrom_cons, hj]
    dsimp only
    rw [if_pos]
    · simp only [hrest]; exact ⟨_, _, rfl⟩
    · apply List.all_eq_true.mpr
      rintro ⟨r, c, pd⟩ hmem
      have hcell := entryTrips_sub_entryCells e x j hj row0 r c pd hmem
      have : (r, c) ∈ pat := hpat _ (by rw [patternFrom_cons]; exact List.mem_append_left _ hcell)
      simp [this]

/-- With the list's own pattern, the Jacobian evaluates as soon as every request's rows do. -/
theorem jacobianAll_of_some (x : Nat → Option α) (es : List (Entry α))
    (h : ∀ e ∈ es, ∃ j, e.c.jacobianRows x = some j) :
    ∃ ts ws, jacobianAll es x = .ok (ts, ws) :=
  jacobianFrom_of_some (pattern es) x es 0 h (fun _ hc => hc)

/-! ### The satisfaction sweep, request by request -/

/-- If the sweep succeeds, every request's residual evaluates. -/
theorem unsatisfiedSweep_ok_inv (x : Nat → Option α) :
    ∀ (es : List (Entry α)) (us : List Nat), unsatisfiedSweep es x = .ok us →
      ∀ e ∈ es, ∃ r, e.c.residual x = some r := by
  intro es
  induction es with
  | nil => intro us _ e he; simp at he
  | cons e0 rest ih =>
    intro us h e he
    unfold unsatisfiedSweep at h
    split at h
    · simp at h
    · rename_i r hr
      split at h
      · simp at h
      · split at h
        · simp at h
        · rename_i us' hrest
          rcases List.mem_cons.mp he with rfl | he
          · exact ⟨r, hr⟩
          · exact ih us' hrest e he

/-- If every request's residual evaluates, the sweep succeeds. -/
theorem unsatisfiedSweep_of_some (x : Nat → Option α) :
    ∀ (es : List (Entry α)), (∀ e ∈ es, ∃ r, e.c.residual x = some r) →
      ∃ us, unsatisfiedSweep es x = .ok us := by
  intro es
  induction es with
  | nil => intro _; exact ⟨[], rfl⟩
  | cons e rest ih =>
    intro h
    obtain ⟨r, hr⟩ := h e (by simp)
    obtain ⟨us, hrest⟩ := ih (fun e' he' => h e' (by simp [he']))
    unfold unsatisfiedSweep
    rw [hr]
    dsimp only
    have hsat : ∃ b, isSatisfied e.c.residualDim r = some b := by
      rcases residualDim_range e.c with hd | hd | hd <;> rw [hd] <;> simp [isSatisfied]
    obtain ⟨b, hb⟩ := hsat
    rw [hb]
    simp only [hrest]
    exact ⟨_, rfl⟩

/-- A request the sweep's verdict calls satisfied has a residual that evaluates. -/
theorem satisfiedAt_residual_some (e : Entry α) (x : Nat → Option α)
    (h : satisfiedAt e x = true) : ∃ r, e.c.residual x = some r := by
  unfold satisfiedAt at h
  split at h
  · rename_i r hr; exact ⟨r, hr⟩
  · simp at h

/-! ### `Model::new` of a sub-list -/

theorem validateVariables_ok_iff (vars : List Nat) :
    ∀ (es : List (Entry α)), validateVariables es vars = .ok () ↔
      ∀ e ∈ es, firstMissing vars e.c.nonzeroes = none := by
  intro es
  induction es with
  | nil => simp [validateVariables]
  | cons e rest ih =>
    unfold validateVariables
    cases hf : firstMissing vars e.c.nonzeroes with
    | some v => simp [hf]
    | none => simp [hf, ih]

/-- Model creation succeeds for every list drawn from a list for which it succeeds (sub-lists,
filters, reorderings): validation is per request and the pattern check is per column. -/
theorem modelNew_subset (es es' : List (Entry α)) (vars : List Nat)
    (h : modelNew es vars = .ok ()) (hsub : ∀ e ∈ es', e ∈ es) : modelNew es' vars = .ok () := by
  have hdecl := modelNew_ok_declared_lt es vars h
  unfold modelNew at h ⊢
  split at h
  · simp at h
  · rename_i hv
    have hv' : validateVariables es' vars = .ok () :=
      (validateVariables_ok_iff vars es').mpr
        (fun e he => (validateVariables_ok_iff vars es).mp hv e (hsub e he))
    rw [hv']
    dsimp only
    rw [if_pos]
    apply List.all_eq_true.mpr
    rintro ⟨r, c⟩ hc
    obtain ⟨_, _, e, he, hce⟩ := mem_patternFrom_rows es' 0 r c hc
    simpa using hdecl e (hsub e he) c hce

/-! ### The priority loop -/

/-- Once an outcome is held, the loop returns an outcome. -/
theorem priorityLoop_some_ok (es : List (Entry α)) (g : List (Nat × α)) (cfg : Config α)
    (solve : LinSolve α) (svd : Option (Svd α)) :
    ∀ (lvls : List Nat) (call : Nat) (o : Outcome α),
      ∃ o', priorityLoop es g cfg solve svd lvls call (some o) = .ok (some o') := by
  intro lvls
  induction lvls with
  | nil => intro call o; exact ⟨o, rfl⟩
  | cons p rest ih =>
    intro call o
    unfold priorityLoop
    split
    · rename_i o2 _
      split
      · exact ⟨_, rfl⟩
      · exact ih (call + 1) o2
    · exact ⟨o, rfl⟩

/-- If the first level returns an outcome, the loop returns an outcome. -/
theorem priorityLoop_first_ok (es : List (Entry α)) (g : List (Nat × α)) (cfg : Config α)
    (solve : LinSolve α) (svd : Option (Svd α)) (p : Nat) (rest : List Nat) (call : Nat)
    (o : Outcome α) (h : levelRun es g cfg solve svd call p = .ok o) :
    ∃ o', priorityLoop es g cfg solve svd (p :: rest) call none = .ok (some o') := by
  unfold levelRun at h
  unfold priorityLoop
  rw [h]
  dsimp only
  split
  · exact ⟨_, rfl⟩
  · exact priorityLoop_some_ok es g cfg solve svd rest (call + 1) o

/-- If every level (at whatever call number) is good — solves without error and leaves nothing
unsatisfied — the loop returns the outcome of the last level. -/
theorem priorityLoop_all_good (es : List (Entry α)) (g : List (Nat × α)) (cfg : Config α)
    (solve : LinSolve α) (svd : Option (Svd α)) :
    ∀ (lvls : List Nat) (call : Nat) (res : Option (Outcome α)) (P : Nat),
      (∀ p ∈ lvls, ∀ i, goodB (levelRun es g cfg solve svd i p) = true) →
      lvls.getLast? = some P →
      ∃ i o, priorityLoop es g cfg solve svd lvls call res = .ok (some o) ∧
        levelRun es g cfg solve svd i P = .ok o := by
  intro lvls
  induction lvls with
  | nil => intro call res P _ hl; simp at hl
  | cons p rest ih =>
    intro call res P hgood hl
    have hp := hgood p (by simp) call
    cases hr : levelRun es g cfg solve svd call p with
    | error f => rw [hr] at hp; simp [goodB] at hp
    | ok o =>
      rw [hr] at hp
      simp only [goodB] at hp
      have hr' := hr
      unfold levelRun at hr'
      unfold priorityLoop
      rw [hr']
      dsimp only
      rw [if_neg (by simp [hp])]
      cases rest with
      | nil =>
        simp at hl
        subst hl
        exact ⟨call, o, rfl, hr⟩
      | cons q rest' =>
        rw [List.getLast?_cons_cons] at hl
        exact ih (call + 1) (some o) P (fun p' hp' => hgood p' (by simp [hp'])) hl

/-- The last element of a strictly increasing list bounds every element. -/
theorem sorted_getLast_max : ∀ (l : List Nat) (P : Nat), l.Pairwise (· < ·) →
    l.getLast? = some P → ∀ q ∈ l, q ≤ P := by
  intro l
  induction l with
  | nil => intro P _ h; simp at h
  | cons a rest ih =>
    intro P hs hl q hq
    cases rest with
    | nil => simp at hl hq; omega
    | cons b rest' =>
      rw [List.getLast?_cons_cons] at hl
      have hs' := List.pairwise_cons.mp hs
      rcases List.mem_cons.mp hq with rfl | hq
      · have hb : b ≤ P := ih P hs'.2 hl b (by simp)
        have := hs'.1 b (by simp)
        omega
      · exact ih P hs'.2 hl q hq

/-- The last level visited is the largest requested priority, which is what `solve_inner` on the
full list reports as solved priority. -/
theorem levels_getLast_eq_maxPriority (es : List (Entry α)) (P : Nat)
    (h : (levels es).getLast? = some P) : P = maxPriority es := by
  have hmem : P ∈ levels es := List.mem_of_getLast? h
  obtain ⟨e, he, hp⟩ := (mem_levels es P).mp hmem
  apply Nat.le_antisymm
  · rw [← hp]; exact foldl_max_mem es 0 e he
  · apply foldl_max_le es P 0 (Nat.zero_le _)
    intro e' he'
    exact sorted_getLast_max _ P (levels_sorted es) h _ ((mem_levels es _).mpr ⟨e', he', rfl⟩)

/-- What `maxPriority` is for a non-empty list: a requested priority that bounds all of them. -/
theorem maxPriority_spec (es : List (Entry α)) (hne : es ≠ []) :
    (∃ e ∈ es, e.priority = maxPriority es) ∧ ∀ e ∈ es, e.priority ≤ maxPriority es := by
  refine ⟨?_, fun e he => foldl_max_mem es 0 e he⟩
  have hl : levels es ≠ [] := by
    cases es with
    | nil => exact absurd rfl hne
    | cons e rest =>
      intro hnil
      have : e.priority ∈ levels (e :: rest) := (mem_levels _ _).mpr ⟨e, by simp, rfl⟩
      rw [hnil] at this; simp at this
  obtain ⟨P, hP⟩ : ∃ P, (levels es).getLast? = some P := by
    cases h : (levels es).getLast? with
    | none => exact absurd (List.getLast?_eq_none_iff.mp h) hl
    | some P => exact ⟨P, rfl⟩
  have := levels_getLast_eq_maxPriority es P hP
  rw [← this]
  exact (mem_levels es P).mp (List.mem_of_getLast? hP)

/-- Keeping the requests up to the largest requested priority keeps everything. -/
theorem filter_le_maxPriority (es : List (Entry α)) :
    es.filter (fun e => e.priority ≤ maxPriority es) = es := by
  apply List.filter_eq_self.mpr
  intro e he
  exact decide_eq_true (foldl_max_mem es 0 e he)

/-- The subset attempted at a visited level is not empty. -/
theorem filter_level_ne_nil (es : List (Entry α)) (P : Nat) (h : P ∈ levels es) :
    es.filter (fun e => e.priority ≤ P) ≠ [] := by
  obtain ⟨e, he, hp⟩ := (mem_levels es P).mp h
  intro hnil
  have : e ∈ es.filter (fun e => e.priority ≤ P) := by simp [List.mem_filter, he, hp]
  rw [hnil] at this; simp at this

/-! ### `enumerate` -/

theorem enumerate_constraints (reqs : List (Constraint α × Nat)) :
    (enumerate reqs).map (·.c) = reqs.map (·.1) := by
  unfold enumerate
  rw [List.map_map]
  have : ((fun e : Entry α => e.c) ∘ fun x : (Constraint α × Nat) × Nat =>
      (⟨x.1.1, x.2, x.1.2⟩ : Entry α)) = (fun r => r.1) ∘ Prod.fst := by
    funext x; rfl
  rw [this, ← List.map_map, List.zipIdx_map_fst]

/-! ### The residual test under order laws -/

/-- The order laws of `≤` and `fmax` that make "the largest absolute component is within `t`" mean
"every component is within `t`".  They hold over ℝ.  They fail for `Float`: `fmax` ignores a NaN
argument, so `a ≤ fmax a b` fails for `a = NaN`. -/
structure MaxLaws (α : Type) [LE α] [Transc α] : Prop where
  le_trans : ∀ a b c : α, a ≤ b → b ≤ c → a ≤ c
  le_fmax_left : ∀ a b : α, a ≤ fmax a b
  le_fmax_right : ∀ a b : α, b ≤ fmax a b
  fmax_le : ∀ a b c : α, a ≤ c → b ≤ c → fmax a b ≤ c

theorem foldl_fmax_le_iff (L : MaxLaws α) : ∀ (ys : List α) (a t : α),
    ys.foldl (fun acc y => fmax acc (abs y)) a ≤ t ↔ a ≤ t ∧ ∀ y ∈ ys, abs y ≤ t := by
  intro ys
  induction ys with
  | nil => intro a t; simp
  | cons y rest ih =>
    intro a t
    simp only [List.foldl_cons, ih, List.mem_cons, forall_eq_or_imp]
    constructor
    · rintro ⟨h1, h2⟩
      exact ⟨L.le_trans _ _ _ (L.le_fmax_left a (abs y)) h1,
        L.le_trans _ _ _ (L.le_fmax_right a (abs y)) h1, h2⟩
    · rintro ⟨h1, h2, h3⟩
      exact ⟨L.fmax_le _ _ _ h1 h2, h3⟩

/-- Under the order laws, the residual test `largest ≤ t` says every component is within `t`. -/
theorem maxAbs?_le_iff (L : MaxLaws α) (rs : List α) (m t : α) (h : maxAbs? rs = some m) :
    m ≤ t ↔ ∀ y ∈ rs, abs y ≤ t := by
  cases rs with
  | nil => simp [maxAbs?] at h
  | cons x rest =>
    simp only [maxAbs?, Option.some.injEq] at h
    subst h
    rw [foldl_fmax_le_iff L]
    simp

theorem maxAbs?_some_of_ne_nil (rs : List α) (h : rs ≠ []) : ∃ m, maxAbs? rs = some m := by
  cases rs with
  | nil => exact absurd rfl h
  | cons x rest => exact ⟨_, rfl⟩

end Ezpz
