/-
Assembly under reordering of the request list (C12): the global residual, the warnings and the
Jacobian contributions are the same up to order; an adjacent swap moves each request's rows by the
other's dimension and leaves everything else unchanged.  Holds for every scalar type.
-/
import Ezpz.Proofs.Assembly
set_option linter.unusedSectionVars false
namespace Ezpz
open Transc

variable {α : Type} [Add α] [Sub α] [Mul α] [Div α] [Neg α] [OfScientific α]
  [LT α] [DecidableLT α] [LE α] [DecidableLE α] [Transc α]

/-! ### Residual -/

/-- Inversion of one successful residual step. -/
theorem residualAll_cons_ok (e : Entry α) (rest : List (Entry α)) (x : Nat → Option α)
    (rs : List α) (ws : List (Warning α)) (h : residualAll (e :: rest) x = .ok (rs, ws)) :
    ∃ r rs' ws', e.c.residual x = some r ∧ residualAll rest x = .ok (rs', ws') ∧
      rs = takeRows e.c.residualDim r.r0 r.r1 r.r2 ++ rs' ∧
      ws = (if r.degenerate then [degenerateWarning e] else []) ++ ws' := by
  rw [residualAll_cons] at h
  cases hr : e.c.residual x with
  | none => simp [hr] at h
  | some r =>
    simp only [hr] at h
    cases h1 : residualAll rest x with
    | error err => simp [h1] at h
    | ok p =>
      obtain ⟨a, b⟩ := p
      simp [h1] at h
      exact ⟨r, a, b, rfl, rfl, h.1.symm, h.2.symm⟩

/-- The only error the residual evaluation can report. -/
theorem residualAll_error_eq (x : Nat → Option α) :
    ∀ (es : List (Entry α)) (err : SolveError), residualAll es x = .error err →
      err = .panic "residual: index out of bounds" := by
  intro es
  induction es with
  | nil => intro err h; simp [residualAll] at h
  | cons e rest ih =>
    intro err h
    rw [residualAll_cons] at h
    cases hr : e.c.residual x with
    | none => simp [hr] at h; exact h.symm
    | some r =>
      simp only [hr] at h
      cases h1 : residualAll rest x with
      | error err' => simp [h1] at h; subst h; exact ih _ h1
      | ok p => obtain ⟨a, b⟩ := p; simp [h1] at h

/-- The residual evaluation succeeds exactly when every request can read its slots. -/
theorem residualAll_ok_iff (x : Nat → Option α) (es : List (Entry α)) :
    (∃ rs ws, residualAll es x = .ok (rs, ws)) ↔ ∀ e ∈ es, (e.c.residual x).isSome = true := by
  induction es with
  | nil => simp [residualAll]
  | cons e rest ih =>
    constructor
    · rintro ⟨rs, ws, h⟩
      obtain ⟨r, rs', ws', hr, hrest, _, _⟩ := residualAll_cons_ok e rest x rs ws h
      intro e' he'
      rcases List.mem_cons.mp he' with rfl | he'
      · simp [hr]
      · exact ih.mp ⟨rs', ws', hrest⟩ e' he'
    · intro h
      obtain ⟨rs', ws', hrest⟩ := ih.mpr (fun e' he' => h e' (by simp [he']))
      have := h e (by simp)
      cases hr : e.c.residual x with
      | none => simp [hr] at this
      | some r =>
        rw [residualAll_cons, hr]
        simp only [hrest]
        exact ⟨_, _, rfl⟩

/-- **Reordering the requests permutes the residual**: the components and the degeneracy warnings
of the reordered list are a rearrangement of the original ones. -/
theorem residualAll_perm {es es' : List (Entry α)} (hp : es.Perm es') (x : Nat → Option α) :
    ∀ (rs : List α) (ws : List (Warning α)), residualAll es x = .ok (rs, ws) →
      ∃ rs' ws', residualAll es' x = .ok (rs', ws') ∧ rs'.Perm rs ∧ ws'.Perm ws := by
  induction hp with
  | nil => intro rs ws h; exact ⟨rs, ws, h, List.Perm.refl _, List.Perm.refl _⟩
  | cons e _ ih =>
    intro rs ws h
    obtain ⟨r, rs0, ws0, hr, hrest, rfl, rfl⟩ := residualAll_cons_ok e _ x rs ws h
    obtain ⟨rs1, ws1, h1, hp1, hp2⟩ := ih rs0 ws0 hrest
    refine ⟨_, _, ?_, List.Perm.append_left _ hp1, List.Perm.append_left _ hp2⟩
    rw [residualAll_cons, hr]
    simp only [h1]
  | swap a b l =>
    intro rs ws h
    obtain ⟨rb, rs0, ws0, hrb, hrest, rfl, rfl⟩ := residualAll_cons_ok b _ x rs ws h
    obtain ⟨ra, rs1, ws1, hra, hrest1, rfl, rfl⟩ := residualAll_cons_ok a _ x rs0 ws0 hrest
    refine ⟨takeRows a.c.residualDim ra.r0 ra.r1 ra.r2 ++
        (takeRows b.c.residualDim rb.r0 rb.r1 rb.r2 ++ rs1),
      (if ra.degenerate then [degenerateWarning a] else []) ++
        ((if rb.degenerate then [degenerateWarning b] else []) ++ ws1), ?_, ?_, ?_⟩
    · rw [residualAll_cons, hra]
      simp only [residualAll_cons, hrb, hrest1]
    · simp only [← List.append_assoc]
      exact List.Perm.append_right _ List.perm_append_comm
    · simp only [← List.append_assoc]
      exact List.Perm.append_right _ List.perm_append_comm
  | trans _ _ ih1 ih2 =>
    intro rs ws h
    obtain ⟨rs1, ws1, h1, p1, q1⟩ := ih1 rs ws h
    obtain ⟨rs2, ws2, h2, p2, q2⟩ := ih2 rs1 ws1 h1
    exact ⟨rs2, ws2, h2, p2.trans p1, q2.trans q1⟩

/-- Reordering the requests does not change whether (and with which error) the residual evaluation
fails. -/
theorem residualAll_perm_error {es es' : List (Entry α)} (hp : es.Perm es') (x : Nat → Option α)
    (err : SolveError) (h : residualAll es x = .error err) : residualAll es' x = .error err := by
  cases h' : residualAll es' x with
  | error err' =>
    rw [residualAll_error_eq x es err h, residualAll_error_eq x es' err' h']
  | ok p =>
    obtain ⟨rs', ws'⟩ := p
    obtain ⟨rs, ws, h2, _, _⟩ := residualAll_perm hp.symm x rs' ws' h'
    rw [h] at h2; simp at h2

/-! ### Jacobian -/

/-- The `(column, value)` part of a contribution. -/
def colVal (t : Triplet α) : Nat × α := (t.2.1, t.2.2)

/-- The `(column, value)` pairs one request contributes; they do not depend on its first row. -/
def entryColVals (e : Entry α) (j : Jac α) : List (Nat × α) :=
  (takeRows e.c.residualDim j.r0 j.r1 j.r2).flatMap (fun row => row.map (fun jv => (jv.id, jv.pd)))

/-- Forgetting the rows of the contributions of one request gives its `(column, value)` pairs. -/
theorem entryTrips_colVals (e : Entry α) (j : Jac α) (row0 : Nat) :
    (entryTrips e j row0).map colVal = entryColVals e j := by
  rcases residualDim_range e.c with h | h | h <;>
    simp [entryTrips, entryColVals, takeRows, h, List.zipIdx_cons, colVal, Function.comp_def]

/-- Moving a request's first row down by `d` adds `d` to the row of each of its contributions. -/
theorem entryTrips_shift (e : Entry α) (j : Jac α) (row0 d : Nat) :
    entryTrips e j (row0 + d) = (entryTrips e j row0).map (fun t => (t.1 + d, t.2)) := by
  rcases residualDim_range e.c with h | h | h <;>
    simp [entryTrips, takeRows, h, List.zipIdx_cons, Function.comp_def, Nat.add_right_comm]

/-- All `(column, value)` pairs of a list of requests, in listing order. -/
def colValsOf (es : List (Entry α)) (x : Nat → Option α) : List (Nat × α) :=
  es.flatMap (fun e => match e.c.jacobianRows x with
    | some j => entryColVals e j
    | none => [])

/-- All degeneracy warnings of the derivative evaluation, in listing order. -/
def jacWarningsOf (es : List (Entry α)) (x : Nat → Option α) : List (Warning α) :=
  es.flatMap (fun e => match e.c.jacobianRows x with
    | some j => if j.degenerate then [degenerateWarning e] else []
    | none => [])

/-- A successful scatter reports exactly the per-request `(column, value)` pairs and warnings,
whatever the pattern and the first row. -/
theorem jacobianFrom_colVals (pat : List (Nat × Nat)) (x : Nat → Option α) :
    ∀ (es : List (Entry α)) (row0 : Nat) (ts : List (Triplet α)) (ws : List (Warning α)),
      jacobianFrom pat es x row0 = .ok (ts, ws) →
      ts.map colVal = colValsOf es x ∧ ws = jacWarningsOf es x := by
  intro es
  induction es with
  | nil => intro row0 ts ws h; simp [jacobianFrom] at h; simp [h.1, h.2, colValsOf, jacWarningsOf]
  | cons e rest ih =>
    intro row0 ts ws h
    obtain ⟨j, ts', ws', hj, _, hrest, rfl, rfl⟩ := jacobianFrom_cons_ok pat e rest x row0 ts ws h
    obtain ⟨h1, h2⟩ := ih _ ts' ws' hrest
    constructor
    · rw [List.map_append, entryTrips_colVals, h1]
      simp [colValsOf, hj]
    · rw [h2]
      simp [jacWarningsOf, hj]

/-- **Reordering the requests permutes the Jacobian contributions**: if both scatters succeed
(patterns and first rows may differ), the `(column, value)` pairs are the same up to order, there
are equally many contributions, and the warnings are the same up to order. -/
theorem jacobianFrom_perm_cells {es es' : List (Entry α)} (hp : es.Perm es')
    (pat pat' : List (Nat × Nat)) (x : Nat → Option α) (row0 row0' : Nat)
    (ts ts' : List (Triplet α)) (ws ws' : List (Warning α))
    (h : jacobianFrom pat es x row0 = .ok (ts, ws))
    (h' : jacobianFrom pat' es' x row0' = .ok (ts', ws')) :
    (ts.map (fun t => (t.2.1, t.2.2))).Perm (ts'.map (fun t => (t.2.1, t.2.2))) ∧
      ts.length = ts'.length ∧ ws.Perm ws' := by
  obtain ⟨h1, h2⟩ := jacobianFrom_colVals pat x es row0 ts ws h
  obtain ⟨h1', h2'⟩ := jacobianFrom_colVals pat' x es' row0' ts' ws' h'
  have hcv : (ts.map colVal).Perm (ts'.map colVal) := by
    rw [h1, h1']; exact List.Perm.flatMap_right _ hp
  refine ⟨hcv, ?_, ?_⟩
  · have := hcv.length_eq
    simpa using this
  · rw [h2, h2']; exact List.Perm.flatMap_right _ hp

/-- The result of a successful scatter does not depend on the pattern it was checked against. -/
theorem jacobianFrom_pat_irrel (pat pat' : List (Nat × Nat)) (x : Nat → Option α) :
    ∀ (es : List (Entry α)) (row0 : Nat) (ts ts' : List (Triplet α)) (ws ws' : List (Warning α)),
      jacobianFrom pat es x row0 = .ok (ts, ws) → jacobianFrom pat' es x row0 = .ok (ts', ws') →
      ts = ts' ∧ ws = ws' := by
  intro es
  induction es with
  | nil =>
    intro row0 ts ts' ws ws' h h'
    simp [jacobianFrom] at h h'
    simp [h.1, h.2, h'.1, h'.2]
  | cons e rest ih =>
    intro row0 ts ts' ws ws' h h'
    obtain ⟨j, t1, w1, hj, _, hrest, rfl, rfl⟩ := jacobianFrom_cons_ok pat e rest x row0 ts ws h
    obtain ⟨j', t1', w1', hj', _, hrest', rfl, rfl⟩ :=
      jacobianFrom_cons_ok pat' e rest x row0 ts' ws' h'
    rw [hj] at hj'; injection hj' with hj'; subst hj'
    obtain ⟨rfl, rfl⟩ := ih _ t1 t1' w1 w1' hrest hrest'
    exact ⟨rfl, rfl⟩

/-- Against a pattern containing the list's own cells, the scatter succeeds exactly when every
request can read its slots (the "cell not in sparsity pattern" panic is unreachable). -/
theorem jacobianFrom_ok_iff (pat : List (Nat × Nat)) (x : Nat → Option α) :
    ∀ (es : List (Entry α)) (row0 : Nat), (∀ cell ∈ patternFrom es row0, cell ∈ pat) →
      ((∃ ts ws, jacobianFrom pat es x row0 = .ok (ts, ws)) ↔
        ∀ e ∈ es, (e.c.jacobianRows x).isSome = true) := by
  intro es
  induction es with
  | nil => intro row0 _; simp [jacobianFrom]
  | cons e rest ih =>
    intro row0 hpat
    have hpat' : ∀ cell ∈ patternFrom rest (row0 + e.c.residualDim), cell ∈ pat :=
      fun cell hc => hpat cell (patternFrom_tail_subset e rest row0 cell hc)
    constructor
    · rintro ⟨ts, ws, h⟩
      obtain ⟨j, ts', ws', hj, _, hrest, _, _⟩ := jacobianFrom_cons_ok pat e rest x row0 ts ws h
      intro e' he'
      rcases List.mem_cons.mp he' with rfl | he'
      · simp [hj]
      · exact (ih _ hpat').mp ⟨ts', ws', hrest⟩ e' he'
    · intro h
      obtain ⟨ts', ws', hrest⟩ := (ih _ hpat').mpr (fun e' he' => h e' (by simp [he']))
      have := h e (by simp)
      cases hj : e.c.jacobianRows x with
      | none => simp [hj] at this
      | some j =>
        rw [jacobianFrom_cons, hj]
        dsimp only
        rw [if_pos]
        · simp only [hrest]; exact ⟨_, _, rfl⟩
        · apply List.all_eq_true.mpr
          rintro ⟨r, c, v⟩ hm
          have hc := entryTrips_sub_entryCells e x j hj row0 r c v hm
          have : (r, c) ∈ pat := hpat _ (by rw [patternFrom_cons]; exact List.mem_append_left _ hc)
          simp [this]

/-- The only error `jacobianAll` can report (the pattern is the list's own). -/
theorem jacobianAll_error_eq (x : Nat → Option α) (es : List (Entry α)) (err : SolveError)
    (h : jacobianAll es x = .error err) : err = .panic "jacobian_rows: index out of bounds" := by
  unfold jacobianAll pattern at h
  have key : ∀ (pat : List (Nat × Nat)) (es : List (Entry α)) (row0 : Nat),
      (∀ cell ∈ patternFrom es row0, cell ∈ pat) → ∀ err, jacobianFrom pat es x row0 = .error err →
      err = .panic "jacobian_rows: index out of bounds" := by
    intro pat es
    induction es with
    | nil => intro row0 _ err h; simp [jacobianFrom] at h
    | cons e rest ih =>
      intro row0 hpat err h
      have hpat' : ∀ cell ∈ patternFrom rest (row0 + e.c.residualDim), cell ∈ pat :=
        fun cell hc => hpat cell (patternFrom_tail_subset e rest row0 cell hc)
      rw [jacobianFrom_cons] at h
      cases hj : e.c.jacobianRows x with
      | none => simp [hj] at h; exact h.symm
      | some j =>
        simp only [hj] at h
        split at h
        · cases h1 : jacobianFrom pat rest x (row0 + e.c.residualDim) with
          | error err' => simp [h1] at h; subst h; exact ih _ hpat' _ h1
          | ok p => obtain ⟨a, b⟩ := p; simp [h1] at h
        · rename_i hall
          exfalso
          apply hall
          apply List.all_eq_true.mpr
          rintro ⟨r, c, v⟩ hm
          have hc := entryTrips_sub_entryCells e x j hj row0 r c v hm
          have : (r, c) ∈ pat := hpat _ (by rw [patternFrom_cons]; exact List.mem_append_left _ hc)
          simp [this]
  exact key _ es 0 (fun _ hc => hc) err h

/-- **Reordering the requests permutes the Jacobian** (each list scattered into its own pattern):
success is preserved, and the `(column, value)` pairs and the warnings are the same up to order. -/
theorem jacobianAll_perm {es es' : List (Entry α)} (hp : es.Perm es') (x : Nat → Option α)
    (ts : List (Triplet α)) (ws : List (Warning α)) (h : jacobianAll es x = .ok (ts, ws)) :
    ∃ ts' ws', jacobianAll es' x = .ok (ts', ws') ∧
      (ts'.map (fun t => (t.2.1, t.2.2))).Perm (ts.map (fun t => (t.2.1, t.2.2))) ∧
      ts'.length = ts.length ∧ ws'.Perm ws := by
  unfold jacobianAll pattern at *
  have hall := (jacobianFrom_ok_iff (patternFrom es 0) x es 0 (fun _ hc => hc)).mp ⟨ts, ws, h⟩
  obtain ⟨ts', ws', h'⟩ := (jacobianFrom_ok_iff (patternFrom es' 0) x es' 0 (fun _ hc => hc)).mpr
    (fun e he => hall e (hp.mem_iff.mpr he))
  obtain ⟨p1, p2, p3⟩ := jacobianFrom_perm_cells hp _ _ x 0 0 ts ts' ws ws' h h'
  exact ⟨ts', ws', h', p1.symm, p2.symm, p3.symm⟩

/-- Reordering the requests does not change whether (and with which error) the Jacobian
evaluation fails. -/
theorem jacobianAll_perm_error {es es' : List (Entry α)} (hp : es.Perm es') (x : Nat → Option α)
    (err : SolveError) (h : jacobianAll es x = .error err) : jacobianAll es' x = .error err := by
  cases h' : jacobianAll es' x with
  | error err' => rw [jacobianAll_error_eq x es err h, jacobianAll_error_eq x es' err' h']
  | ok p =>
    obtain ⟨ts', ws'⟩ := p
    obtain ⟨ts, ws, h2, _⟩ := jacobianAll_perm hp.symm x ts' ws' h'
    rw [h] at h2; simp at h2

/-! ### The adjacent swap (generator of all reorderings), with the explicit row map -/

/-- Swapping two adjacent requests `a, b`: the pattern cells of `a` move down by `b`'s dimension,
those of `b` move up by `a`'s dimension, all other cells are unchanged. -/
theorem patternFrom_swap (A B : List (Entry α)) (a b : Entry α) (row0 : Nat) :
    patternFrom (A ++ [a, b] ++ B) row0 =
      patternFrom A row0 ++ (entryCells a (row0 + numRows A) ++
        (entryCells b (row0 + numRows A + a.c.residualDim) ++
          patternFrom B (row0 + numRows A + a.c.residualDim + b.c.residualDim))) ∧
    patternFrom (A ++ [b, a] ++ B) row0 =
      patternFrom A row0 ++ (entryCells b (row0 + numRows A) ++
        (entryCells a (row0 + numRows A + b.c.residualDim) ++
          patternFrom B (row0 + numRows A + a.c.residualDim + b.c.residualDim))) := by
  simp only [List.append_assoc, List.cons_append, List.nil_append, patternFrom_append,
    patternFrom_cons]
  refine ⟨trivial, ?_⟩
  rw [Nat.add_right_comm (row0 + numRows A) b.c.residualDim a.c.residualDim]

/-- Swapping two adjacent requests `a, b` in the residual: the block of `a` (of length `a`'s
dimension, at row `numRows A`) and the block of `b` trade places; everything else is unchanged. -/
theorem residualAll_swap (A B : List (Entry α)) (a b : Entry α) (x : Nat → Option α)
    (rs : List α) (ws : List (Warning α)) (h : residualAll (A ++ [a, b] ++ B) x = .ok (rs, ws)) :
    ∃ rA ra rb rB wA wa wb wB,
      rs = rA ++ (ra ++ (rb ++ rB)) ∧ ws = wA ++ (wa ++ (wb ++ wB)) ∧
      residualAll (A ++ [b, a] ++ B) x = .ok (rA ++ (rb ++ (ra ++ rB)), wA ++ (wb ++ (wa ++ wB))) ∧
      rA.length = numRows A ∧ ra.length = a.c.residualDim ∧ rb.length = b.c.residualDim ∧
      rB.length = numRows B := by
  simp only [List.append_assoc, List.cons_append, List.nil_append] at h ⊢
  obtain ⟨rA, wA, r1, w1, hA, h1, rfl, rfl⟩ := residualAll_append_ok A _ x rs ws h
  obtain ⟨ra, r2, w2, hra, h2, rfl, rfl⟩ := residualAll_cons_ok a _ x r1 w1 h1
  obtain ⟨rb, rB, wB, hrb, hB, rfl, rfl⟩ := residualAll_cons_ok b _ x r2 w2 h2
  refine ⟨rA, _, _, rB, wA, _, _, wB, rfl, rfl, ?_, residualAll_length x A rA wA hA,
    takeRows_length_dim a.c _ _ _, takeRows_length_dim b.c _ _ _, residualAll_length x B rB wB hB⟩
  rw [residualAll_append, hA]
  simp only [residualAll_cons, hra, hrb, hB]

/-- Swapping two adjacent requests `a, b` in the Jacobian scatter (both scatters successful, each
against any pattern): the contributions of `a` move down by `b`'s dimension, those of `b` move up
by `a`'s dimension, and the contributions of all other requests are unchanged. -/
theorem jacobianFrom_swap (pat pat' : List (Nat × Nat)) (A B : List (Entry α)) (a b : Entry α)
    (x : Nat → Option α) (row0 : Nat) (ts ts' : List (Triplet α)) (ws ws' : List (Warning α))
    (h : jacobianFrom pat (A ++ [a, b] ++ B) x row0 = .ok (ts, ws))
    (h' : jacobianFrom pat' (A ++ [b, a] ++ B) x row0 = .ok (ts', ws')) :
    ∃ tA ta tb tB,
      ts = tA ++ (ta ++ (tb ++ tB)) ∧
      ts' = tA ++ (tb.map (fun t => (t.1 - a.c.residualDim, t.2)) ++
        (ta.map (fun t => (t.1 + b.c.residualDim, t.2)) ++ tB)) ∧
      (∀ t ∈ tA, row0 ≤ t.1 ∧ t.1 < row0 + numRows A) ∧
      (∀ t ∈ ta, row0 + numRows A ≤ t.1 ∧ t.1 < row0 + numRows A + a.c.residualDim) ∧
      (∀ t ∈ tb, row0 + numRows A + a.c.residualDim ≤ t.1 ∧
        t.1 < row0 + numRows A + a.c.residualDim + b.c.residualDim) ∧
      (∀ t ∈ tB, row0 + numRows A + a.c.residualDim + b.c.residualDim ≤ t.1) := by
  simp only [List.append_assoc, List.cons_append, List.nil_append] at h h'
  obtain ⟨tA, wA, t1, w1, hA, h1, rfl, rfl⟩ := jacobianFrom_append_ok pat A _ x row0 ts ws h
  obtain ⟨ja, t2, w2, hja, _, h2, rfl, rfl⟩ := jacobianFrom_cons_ok pat a _ x _ t1 w1 h1
  obtain ⟨jb, tB, wB, hjb, _, hB, rfl, rfl⟩ := jacobianFrom_cons_ok pat b _ x _ t2 w2 h2
  obtain ⟨tA', wA', t1', w1', hA', h1', rfl, rfl⟩ :=
    jacobianFrom_append_ok pat' A _ x row0 ts' ws' h'
  obtain ⟨jb', t2', w2', hjb', _, h2', rfl, rfl⟩ := jacobianFrom_cons_ok pat' b _ x _ t1' w1' h1'
  obtain ⟨ja', tB', wB', hja', _, hB', rfl, rfl⟩ := jacobianFrom_cons_ok pat' a _ x _ t2' w2' h2'
  rw [hja] at hja'; injection hja' with hja'; subst hja'
  rw [hjb] at hjb'; injection hjb' with hjb'; subst hjb'
  obtain ⟨rfl, _⟩ := jacobianFrom_pat_irrel pat pat' x A row0 tA tA' wA wA' hA hA'
  rw [Nat.add_right_comm (row0 + numRows A) b.c.residualDim a.c.residualDim] at hB'
  obtain ⟨rfl, _⟩ := jacobianFrom_pat_irrel pat pat' x B _ tB tB' wB wB' hB hB'
  refine ⟨tA, entryTrips a ja (row0 + numRows A),
    entryTrips b jb (row0 + numRows A + a.c.residualDim), tB, rfl, ?_, ?_, ?_, ?_, ?_⟩
  · rw [entryTrips_shift b jb (row0 + numRows A) a.c.residualDim,
      entryTrips_shift a ja (row0 + numRows A) b.c.residualDim, List.map_map]
    simp [Function.comp_def]
  · rintro ⟨r, c, v⟩ hm
    have := jacobianFrom_rows_cols pat x A row0 tA wA hA r c v hm
    exact ⟨this.1, this.2.1⟩
  · rintro ⟨r, c, v⟩ hm
    obtain ⟨k, jv, hk, _, heq⟩ := (mem_entryTrips a ja _ _).mp hm
    injection heq with h1 _; subst h1
    simp only; omega
  · rintro ⟨r, c, v⟩ hm
    obtain ⟨k, jv, hk, _, heq⟩ := (mem_entryTrips b jb _ _).mp hm
    injection heq with h1 _; subst h1
    simp only; omega
  · rintro ⟨r, c, v⟩ hm
    exact (jacobianFrom_rows_cols pat x B _ tB wB hB r c v hm).1

/-! ### Pattern under reordering -/

/-- The declared columns of one request's rows, in pattern order. -/
def entryCols (e : Entry α) : List Nat :=
  (takeRows e.c.residualDim e.c.nonzeroes.r0 e.c.nonzeroes.r1 e.c.nonzeroes.r2).flatten

/-- Forgetting the rows of the pattern cells of one request gives its declared columns. -/
theorem entryCells_cols (e : Entry α) (row0 : Nat) :
    (entryCells e row0).map Prod.snd = entryCols e := by
  rcases residualDim_range e.c with h | h | h <;>
    simp [entryCells, entryCols, takeRows, h, List.zipIdx_cons, Function.comp_def]

/-- Forgetting the rows of the pattern gives the per-request declared columns in listing order. -/
theorem patternFrom_cols :
    ∀ (es : List (Entry α)) (row0 : Nat), (patternFrom es row0).map Prod.snd = es.flatMap entryCols := by
  intro es
  induction es with
  | nil => intro _; rfl
  | cons e rest ih =>
    intro row0
    rw [patternFrom_cons, List.map_append, entryCells_cols, ih, List.flatMap_cons]

/-- Reordering the requests permutes the columns of the pattern cells (same number of cells, same
columns with the same multiplicities). -/
theorem patternFrom_perm_cols {es es' : List (Entry α)} (hp : es.Perm es') (row0 row0' : Nat) :
    ((patternFrom es row0).map Prod.snd).Perm ((patternFrom es' row0').map Prod.snd) ∧
      (patternFrom es row0).length = (patternFrom es' row0').length := by
  have h : ((patternFrom es row0).map Prod.snd).Perm ((patternFrom es' row0').map Prod.snd) := by
    rw [patternFrom_cols, patternFrom_cols]; exact List.Perm.flatMap_right _ hp
  exact ⟨h, by simpa using h.length_eq⟩

/-- Non-vacuity of the swap theorems: a two-row request followed by a one-row request sharing
variable 1; both orders scatter successfully into their own pattern. -/
example :
    let a : Entry Float := ⟨.pointsCoincident ⟨0, 1⟩ ⟨2, 3⟩, 0, 0⟩
    let b : Entry Float := ⟨.scalarEqual 1 5, 1, 0⟩
    (∃ ts ws, jacobianFrom (pattern ([] ++ [a, b] ++ [])) ([] ++ [a, b] ++ []) (fun _ => some 0.0) 0
      = .ok (ts, ws)) ∧
    (∃ ts ws, jacobianFrom (pattern ([] ++ [b, a] ++ [])) ([] ++ [b, a] ++ []) (fun _ => some 0.0) 0
      = .ok (ts, ws)) ∧
    (∃ rs ws, residualAll ([] ++ [a, b] ++ []) (fun _ => some 0.0) = .ok (rs, ws)) :=
  ⟨⟨_, _, rfl⟩, ⟨_, _, rfl⟩, ⟨_, _, rfl⟩⟩

end Ezpz
