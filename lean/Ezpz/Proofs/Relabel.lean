/-
C12 at the entry point, scalar-independent part.

* **Request ids are pure labels.**  `Entry.relabel f` replaces the caller id `i` of a request by
  `f i`.  Nothing on the solve path reads an id except to report it: `solveInner` on the relabelled
  requests is `solveInner` on the original ones with every *reported* id mapped through `f`
  (`solveInner_relabel_cases`, `solveInner_relabel_valid`, `solveInner_relabel`) — the unsatisfied
  list, the `about` field of each warning, the request named by a `MissingGuess` error of
  validation.  Values, iteration count, priority, analysis result, error kind, `numVars`, `numEqs`
  are identical.  No assumption on `f` (it need not be injective).  The one-equation form
  `solveInner_relabel` needs the LU/SVD oracles never to answer `MissingGuess` themselves.
* **The priority loop respects any relation between the per-level results** that keeps "nothing
  unsatisfied" invariant (`loopOver_rel`, `levelResults_rel`, `solveWithPriority_rel`): if two runs
  visit the same levels and their per-level results are related level by level, the two runs take
  the same decisions and return related results.

All statements hold for every scalar type.
-/
import Ezpz.Proofs.Report
import Ezpz.Proofs.AssemblyPerm
set_option linter.unusedSectionVars false
set_option linter.unusedSimpArgs false
namespace Ezpz
open Transc

variable {α : Type} [Add α] [Sub α] [Mul α] [Div α] [Neg α] [OfScientific α]
  [LT α] [DecidableLT α] [LE α] [DecidableLE α] [Transc α]

/-! ### Relabelling -/

/-- Replace the caller id of a request by its image under `f`; constraint and priority unchanged. -/
def Entry.relabel (f : Nat → Nat) (e : Entry α) : Entry α := { e with id := f e.id }

/-- Map the request a warning is about through `f`. -/
def Warning.relabel (f : Nat → Nat) (w : Warning α) : Warning α := ⟨w.about.map f, w.content⟩

/-- Map the request named by a `MissingGuess` error through `f`; other errors unchanged. -/
def SolveError.relabelId (f : Nat → Nat) : SolveError → SolveError
  | .missingGuess c v => .missingGuess (f c) v
  | e => e

/-- Map every reported request id of a successful outcome through `f`. -/
def Outcome.relabel (f : Nat → Nat) (o : Outcome α) : Outcome α :=
  { o with unsatisfied := o.unsatisfied.map f, warnings := o.warnings.map (Warning.relabel f) }

/-- Map every reported request id of a failure through `f` (warnings and the request named by a
`MissingGuess`). -/
def Failure.relabel (f : Nat → Nat) (fl : Failure α) : Failure α :=
  { fl with error := fl.error.relabelId f, warnings := fl.warnings.map (Warning.relabel f) }

/-- Map the request ids in the warnings of a failure through `f`; the error is kept as it is. -/
def Failure.relabelW (f : Nat → Nat) (fl : Failure α) : Failure α :=
  { fl with warnings := fl.warnings.map (Warning.relabel f) }

/-- Map every reported request id of a result of `solveInner` / `solveWithPriority` through `f`. -/
def relabelResult (f : Nat → Nat) : Except (Failure α) (Outcome α) → Except (Failure α) (Outcome α)
  | .ok o => .ok (o.relabel f)
  | .error fl => .error (fl.relabel f)

/-- Like `relabelResult`, but the error of a failure is kept as it is (used after validation, when
no error names a request any more). -/
def relabelResultW (f : Nat → Nat) : Except (Failure α) (Outcome α) → Except (Failure α) (Outcome α)
  | .ok o => .ok (o.relabel f)
  | .error fl => .error (fl.relabelW f)

/-- The error names a request (only `MissingGuess` does). -/
def SolveError.namesRequest : SolveError → Bool
  | .missingGuess _ _ => true
  | _ => false

/-- An error that names no request is not changed by relabelling. -/
theorem SolveError.relabelId_of_not_names (f : Nat → Nat) (e : SolveError)
    (h : e.namesRequest = false) : e.relabelId f = e := by
  cases e <;> simp_all [SolveError.namesRequest, SolveError.relabelId]

/-- Relabelling the warnings of a Newton result. -/
def NewtonOk.relabel (f : Nat → Nat) (r : NewtonOk α) : NewtonOk α :=
  { r with warnings := r.warnings.map (Warning.relabel f) }

/-- Relabelling the warnings of one round. -/
def StepResult.relabel (f : Nat → Nat) : StepResult α → StepResult α
  | .done r => .done (r.relabel f)
  | .fail e ws => .fail e (ws.map (Warning.relabel f))
  | .next x ws => .next x (ws.map (Warning.relabel f))

/-- Relabelling the warnings of a run of the loop. -/
def relabelLoop (f : Nat → Nat) :
    Except (SolveError × List (Warning α)) (NewtonOk α) →
    Except (SolveError × List (Warning α)) (NewtonOk α)
  | .ok r => .ok (r.relabel f)
  | .error (e, ws) => .error (e, ws.map (Warning.relabel f))

/-- Relabelling keeps the constraint. -/
@[simp] theorem Entry.relabel_c (f : Nat → Nat) (e : Entry α) : (e.relabel f).c = e.c := rfl
/-- Relabelling keeps the priority. -/
@[simp] theorem Entry.relabel_priority (f : Nat → Nat) (e : Entry α) :
    (e.relabel f).priority = e.priority := rfl
/-- Relabelling maps the id. -/
@[simp] theorem Entry.relabel_id (f : Nat → Nat) (e : Entry α) : (e.relabel f).id = f e.id := rfl

/-- The degeneracy notice of a relabelled request is the relabelled notice. -/
theorem degenerateWarning_relabel (f : Nat → Nat) (e : Entry α) :
    degenerateWarning (e.relabel f) = (degenerateWarning e).relabel f := rfl

/-! ### Lint, validation, pattern -/

/-- The lint of a relabelled request is the relabelled lint. -/
theorem lintOne_relabel (f : Nat → Nat) (e : Entry α) :
    lintOne (e.relabel f) = (lintOne e).map (Warning.relabel f) := by
  obtain ⟨c, id, pr⟩ := e
  cases c with
  | linesAtAngle l0 l1 k =>
    cases k with
    | other θ =>
      simp only [lintOne, Entry.relabel]
      split
      · rfl
      · split <;> rfl
    | _ => rfl
  | _ => rfl

/-- The lint warnings of the relabelled requests are the relabelled lint warnings, in the same
order. -/
theorem lint_relabel (f : Nat → Nat) (es : List (Entry α)) :
    lint (es.map (Entry.relabel f)) = (lint es).map (Warning.relabel f) := by
  simp only [lint, List.filterMap_map, List.map_filterMap]
  congr 1
  funext e
  exact lintOne_relabel f e

/-- Validation of the relabelled requests gives the original verdict, with the request named in a
`MissingGuess` error mapped through `f`. -/
theorem validateVariables_relabel (f : Nat → Nat) (vars : List Nat) (es : List (Entry α)) :
    validateVariables (es.map (Entry.relabel f)) vars =
      (validateVariables es vars).mapError (SolveError.relabelId f) := by
  induction es with
  | nil => rfl
  | cons e rest ih =>
    simp only [List.map_cons, validateVariables, ih, Entry.relabel_c]
    cases firstMissing vars e.c.nonzeroes <;> rfl

/-- The sparsity pattern does not see the ids. -/
theorem patternFrom_relabel (f : Nat → Nat) (es : List (Entry α)) (row0 : Nat) :
    patternFrom (es.map (Entry.relabel f)) row0 = patternFrom es row0 := by
  induction es generalizing row0 with
  | nil => rfl
  | cons e rest ih => simp only [List.map_cons, patternFrom, ih, Entry.relabel_c]

/-- The sparsity pattern does not see the ids. -/
theorem pattern_relabel (f : Nat → Nat) (es : List (Entry α)) :
    pattern (es.map (Entry.relabel f)) = pattern es := patternFrom_relabel f es 0

/-- The number of rows does not see the ids. -/
theorem numRows_relabel (f : Nat → Nat) (es : List (Entry α)) :
    numRows (es.map (Entry.relabel f)) = numRows es := by
  simp only [numRows, List.map_map]
  rfl

/-- The highest priority does not see the ids. -/
theorem maxPriority_relabel (f : Nat → Nat) (es : List (Entry α)) :
    maxPriority (es.map (Entry.relabel f)) = maxPriority es := by
  simp only [maxPriority, List.foldl_map]
  rfl

/-- `Model::new` on the relabelled requests gives the original verdict, with the request named in
a `MissingGuess` error mapped through `f`. -/
theorem modelNew_relabel (f : Nat → Nat) (vars : List Nat) (es : List (Entry α)) :
    modelNew (es.map (Entry.relabel f)) vars =
      (modelNew es vars).mapError (SolveError.relabelId f) := by
  unfold modelNew
  rw [validateVariables_relabel, pattern_relabel]
  cases validateVariables es vars with
  | error e => rfl
  | ok u =>
    simp only [Except.mapError]
    split <;> rfl

/-! ### Assembly -/

/-- The global residual of the relabelled requests: same components, degeneracy notices relabelled,
same error. -/
theorem residualAll_relabel (f : Nat → Nat) (x : Nat → Option α) (es : List (Entry α)) :
    residualAll (es.map (Entry.relabel f)) x =
      (residualAll es x).map (fun p => (p.1, p.2.map (Warning.relabel f))) := by
  induction es with
  | nil => rfl
  | cons e rest ih =>
    simp only [List.map_cons, residualAll, ih, Entry.relabel_c]
    cases e.c.residual x with
    | none => rfl
    | some r =>
      cases residualAll rest x with
      | error err => rfl
      | ok p =>
        obtain ⟨rs, ws⟩ := p
        simp only [Except.map, List.map_append, degenerateWarning_relabel]
        split <;> rfl

/-- The Jacobian scatter of the relabelled requests: same contributions, degeneracy notices
relabelled, same error. -/
theorem jacobianFrom_relabel (f : Nat → Nat) (pat : List (Nat × Nat)) (x : Nat → Option α)
    (es : List (Entry α)) (row0 : Nat) :
    jacobianFrom pat (es.map (Entry.relabel f)) x row0 =
      (jacobianFrom pat es x row0).map (fun p => (p.1, p.2.map (Warning.relabel f))) := by
  induction es generalizing row0 with
  | nil => rfl
  | cons e rest ih =>
    simp only [List.map_cons, jacobianFrom, ih, Entry.relabel_c]
    cases e.c.jacobianRows x with
    | none => rfl
    | some j =>
      dsimp only
      split
      · cases jacobianFrom pat rest x (row0 + e.c.residualDim) with
        | error err => rfl
        | ok p =>
          obtain ⟨ts, ws⟩ := p
          simp only [Except.map, List.map_append, degenerateWarning_relabel]
          split <;> rfl
      · rfl

/-- `jacobianFrom_relabel` for the system's own pattern. -/
theorem jacobianAll_relabel (f : Nat → Nat) (x : Nat → Option α) (es : List (Entry α)) :
    jacobianAll (es.map (Entry.relabel f)) x =
      (jacobianAll es x).map (fun p => (p.1, p.2.map (Warning.relabel f))) := by
  simp only [jacobianAll, pattern_relabel]
  exact jacobianFrom_relabel f _ x es 0

/-! ### The Newton loop -/

/-- One round on the relabelled requests is the original round with the warnings relabelled. -/
theorem newtonStep_relabel (f : Nat → Nat) (es : List (Entry α)) (cfg : Config α)
    (solve : Nat → List (Triplet α) → List α → Except SolveError (List α)) (k : Nat) (x : List α)
    (ws : List (Warning α)) :
    newtonStep (es.map (Entry.relabel f)) cfg solve k x (ws.map (Warning.relabel f)) =
      (newtonStep es cfg solve k x ws).relabel f := by
  unfold newtonStep
  rw [residualAll_relabel, jacobianAll_relabel]
  cases residualAll es (lookup x) with
  | error e => rfl
  | ok p =>
    obtain ⟨r, w1⟩ := p
    cases jacobianAll es (lookup x) with
    | error e => simp only [Except.map, StepResult.relabel, List.map_append]
    | ok q =>
      obtain ⟨jac, w2⟩ := q
      simp only [Except.map]
      cases maxAbs? r with
      | none => simp only [StepResult.relabel, List.map_append]
      | some m =>
        dsimp only
        split
        · simp only [StepResult.relabel, NewtonOk.relabel, List.map_append]
        · cases solve k jac r with
          | error e => simp only [StepResult.relabel, List.map_append]
          | ok d =>
            dsimp only
            split
            · simp only [StepResult.relabel, List.map_append]
            · split
              · simp only [StepResult.relabel, List.map_append]
              · split <;> simp only [StepResult.relabel, NewtonOk.relabel, List.map_append]

/-- The loop on the relabelled requests is the original loop with the warnings relabelled. -/
theorem newtonLoop_relabel (f : Nat → Nat) (es : List (Entry α)) (cfg : Config α)
    (solve : Nat → List (Triplet α) → List α → Except SolveError (List α)) :
    ∀ (fuel k : Nat) (x : List α) (ws : List (Warning α)),
      newtonLoop (es.map (Entry.relabel f)) cfg solve fuel k x (ws.map (Warning.relabel f)) =
        relabelLoop f (newtonLoop es cfg solve fuel k x ws) := by
  intro fuel
  induction fuel with
  | zero => intro k x ws; rfl
  | succ fuel ih =>
    intro k x ws
    rw [newtonLoop, newtonLoop, newtonStep_relabel]
    cases newtonStep es cfg solve k x ws with
    | done r => rfl
    | fail e w => rfl
    | next y w => exact ih (k + 1) y w

/-- `newton` on the relabelled requests is the original run with the warnings relabelled. -/
theorem newton_relabel (f : Nat → Nat) (es : List (Entry α)) (cfg : Config α)
    (solve : Nat → List (Triplet α) → List α → Except SolveError (List α)) (x : List α) :
    newton (es.map (Entry.relabel f)) cfg solve x = relabelLoop f (newton es cfg solve x) :=
  newtonLoop_relabel f es cfg solve cfg.maxIterations 0 x []

/-! ### The sweep and `solveInner` -/

/-- The post-solve sweep on the relabelled requests reports the images of the original ids, in the
same order; same error. -/
theorem unsatisfiedSweep_relabel (f : Nat → Nat) (x : Nat → Option α) (es : List (Entry α)) :
    unsatisfiedSweep (es.map (Entry.relabel f)) x = (unsatisfiedSweep es x).map (List.map f) := by
  induction es with
  | nil => rfl
  | cons e rest ih =>
    simp only [List.map_cons, unsatisfiedSweep, ih, Entry.relabel_c]
    cases e.c.residual x with
    | none => rfl
    | some r =>
      dsimp only
      cases isSatisfied e.c.residualDim r with
      | none => rfl
      | some sat =>
        dsimp only
        cases unsatisfiedSweep rest x with
        | error err => rfl
        | ok us => cases sat <;> rfl

/-- **Request ids are pure labels** (`solveInner_relabel_cases`): for every map `f` on ids,
`solveInner` on the relabelled requests is: when `Model::new` rejects the original requests with
error `e`, the failure with `e`'s named request mapped through `f` and the relabelled lint warnings;
otherwise `solveInner` on the original requests with the unsatisfied ids and the `about` of every
warning mapped through `f` — final values, iteration count, priority, analysis result, error,
`numVars`, `numEqs` identical.  Every scalar type, every solver and analysis, no assumption on
`f`. -/
theorem solveInner_relabel_cases (f : Nat → Nat) (es : List (Entry α)) (g : List (Nat × α))
    (cfg : Config α) (solve : Nat → List (Triplet α) → List α → Except SolveError (List α))
    (analyze : Option (List (Triplet α) → Except SolveError (List α × List (List α)))) :
    solveInner (es.map (Entry.relabel f)) g cfg solve analyze =
      match modelNew es (g.map (·.1)) with
      | .error e =>
        .error ⟨e.relabelId f, (lint es).map (Warning.relabel f), g.length, numRows es⟩
      | .ok _ => relabelResultW f (solveInner es g cfg solve analyze) := by
  unfold solveInner
  rw [modelNew_relabel, newton_relabel, lint_relabel, numRows_relabel, maxPriority_relabel]
  cases modelNew es (g.map (·.1)) with
  | error e => rfl
  | ok u =>
    simp only [Except.mapError]
    cases newton es cfg solve (g.map (·.2)) with
    | error p =>
      obtain ⟨e, w⟩ := p
      simp only [relabelLoop, relabelResultW, Failure.relabelW, List.map_append]
    | ok a =>
      simp only [relabelLoop, NewtonOk.relabel]
      rw [unsatisfiedSweep_relabel]
      cases unsatisfiedSweep es (lookup a.values) with
      | error e => simp only [Except.map, relabelResultW, Failure.relabelW, List.map_append]
      | ok us =>
        simp only [Except.map]
        cases runAnalysis analyze a.lastJac g.length with
        | error e => simp only [relabelResultW, Failure.relabelW, List.map_append]
        | ok under => simp only [relabelResultW, Outcome.relabel, List.map_append]

/-- `solveInner_relabel_cases` when `Model::new` accepts the requests: only the unsatisfied ids and
the warnings change (mapped through `f`); a failure keeps its error. -/
theorem solveInner_relabel_valid (f : Nat → Nat) (es : List (Entry α)) (g : List (Nat × α))
    (cfg : Config α) (solve : Nat → List (Triplet α) → List α → Except SolveError (List α))
    (analyze : Option (List (Triplet α) → Except SolveError (List α × List (List α))))
    (hm : modelNew es (g.map (·.1)) = .ok ()) :
    solveInner (es.map (Entry.relabel f)) g cfg solve analyze =
      relabelResultW f (solveInner es g cfg solve analyze) := by
  rw [solveInner_relabel_cases, hm]

/-- `solveInner_relabel_cases` when `Model::new` rejects the requests with error `e`: both calls
fail at once; the relabelled call reports `e` with its named request mapped through `f`. -/
theorem solveInner_relabel_invalid (f : Nat → Nat) (es : List (Entry α)) (g : List (Nat × α))
    (cfg : Config α) (solve : Nat → List (Triplet α) → List α → Except SolveError (List α))
    (analyze : Option (List (Triplet α) → Except SolveError (List α × List (List α))))
    (e : SolveError) (hm : modelNew es (g.map (·.1)) = .error e) :
    solveInner es g cfg solve analyze = .error ⟨e, lint es, g.length, numRows es⟩ ∧
    solveInner (es.map (Entry.relabel f)) g cfg solve analyze =
      .error ⟨e.relabelId f, (lint es).map (Warning.relabel f), g.length, numRows es⟩ := by
  refine ⟨?_, by rw [solveInner_relabel_cases, hm]⟩
  simp only [solveInner, hm]

/-! ### After validation no error names a request (for oracles that never answer `MissingGuess`) -/

/-- A failed round reports an error naming no request, provided the LU oracle never answers
`MissingGuess`. -/
theorem newtonStep_fail_not_names (es : List (Entry α)) (cfg : Config α)
    (solve : Nat → List (Triplet α) → List α → Except SolveError (List α))
    (hsolve : ∀ k jac r e, solve k jac r = .error e → e.namesRequest = false)
    (k : Nat) (x : List α) (ws ws' : List (Warning α)) (e : SolveError)
    (h : newtonStep es cfg solve k x ws = .fail e ws') : e.namesRequest = false := by
  unfold newtonStep at h
  cases hr : residualAll es (lookup x) with
  | error e1 =>
    simp only [hr] at h
    injection h with h1 _
    rw [← h1, residualAll_error_eq _ es e1 hr]; rfl
  | ok p =>
    obtain ⟨r, w1⟩ := p
    cases hj : jacobianAll es (lookup x) with
    | error e1 =>
      simp only [hr, hj] at h
      injection h with h1 _
      rw [← h1, jacobianAll_error_eq _ es e1 hj]; rfl
    | ok q =>
      obtain ⟨jac, w2⟩ := q
      simp only [hr, hj] at h
      cases hmax : maxAbs? r with
      | none =>
        simp only [hmax] at h
        injection h with h1 _
        rw [← h1]; rfl
      | some m =>
        simp only [hmax] at h
        split at h
        · cases h
        · cases hs : solve k jac r with
          | error e1 =>
            simp only [hs] at h
            injection h with h1 _
            rw [← h1]; exact hsolve k jac r e1 hs
          | ok d =>
            simp only [hs] at h
            split at h
            · injection h with h1 _; rw [← h1]; rfl
            · split at h
              · injection h with h1 _; rw [← h1]; rfl
              · split at h <;> cases h

/-- A failed run of the loop reports an error naming no request, provided the LU oracle never
answers `MissingGuess`. -/
theorem newtonLoop_error_not_names (es : List (Entry α)) (cfg : Config α)
    (solve : Nat → List (Triplet α) → List α → Except SolveError (List α))
    (hsolve : ∀ k jac r e, solve k jac r = .error e → e.namesRequest = false) :
    ∀ (fuel k : Nat) (x : List α) (ws ws' : List (Warning α)) (e : SolveError),
      newtonLoop es cfg solve fuel k x ws = .error (e, ws') → e.namesRequest = false := by
  intro fuel
  induction fuel with
  | zero =>
    intro k x ws ws' e h
    simp only [newtonLoop] at h
    injection h with h
    rw [← (Prod.mk.inj h).1]; rfl
  | succ fuel ih =>
    intro k x ws ws' e h
    rw [newtonLoop] at h
    cases hs : newtonStep es cfg solve k x ws with
    | done r => simp only [hs] at h; cases h
    | fail e1 w1 =>
      simp only [hs] at h
      injection h with h
      rw [← (Prod.mk.inj h).1]
      exact newtonStep_fail_not_names es cfg solve hsolve k x ws w1 e1 hs
    | next y w1 =>
      simp only [hs] at h
      exact ih (k + 1) y w1 ws' e h

/-- The post-solve sweep never reports an error naming a request. -/
theorem unsatisfiedSweep_error_not_names (x : Nat → Option α) : ∀ (es : List (Entry α))
    (e : SolveError), unsatisfiedSweep es x = .error e → e.namesRequest = false := by
  intro es
  induction es with
  | nil => intro e h; simp [unsatisfiedSweep] at h
  | cons e0 rest ih =>
    intro e h
    unfold unsatisfiedSweep at h
    split at h
    · injection h with h; rw [← h]; rfl
    · split at h
      · injection h with h; rw [← h]; rfl
      · split at h
        · rename_i err hrest
          injection h with h
          rw [← h]; exact ih err hrest
        · cases h

/-- The freedom analysis never reports an error naming a request, provided the SVD oracle never
answers `MissingGuess`. -/
theorem runAnalysis_error_not_names
    (analyze : Option (List (Triplet α) → Except SolveError (List α × List (List α))))
    (hA : ∀ svd, analyze = some svd → ∀ jac e, svd jac = .error e → e.namesRequest = false)
    (jac : List (Triplet α)) (n : Nat) (e : SolveError)
    (h : runAnalysis analyze jac n = .error e) : e.namesRequest = false := by
  unfold runAnalysis at h
  cases analyze with
  | none => cases h
  | some svd =>
    dsimp only at h
    cases hs : svd jac with
    | error e1 =>
      simp only [hs] at h
      injection h with h
      rw [← h]; exact hA svd rfl jac e1 hs
    | ok p =>
      obtain ⟨sigma, V⟩ := p
      simp only [hs] at h
      cases hd : dofCalculate sigma V n with
      | ok us => simp only [hd] at h; cases h
      | error e1 =>
        simp only [hd] at h
        injection h with h
        rw [← h]
        unfold dofCalculate at hd
        split at hd
        · injection hd with hd; rw [← hd]; rfl
        · dsimp only at hd
          split at hd
          · cases hd
          · injection hd with hd; rw [← hd]; rfl

/-- **Request ids are pure labels, in one equation** (`solveInner_relabel`): when the LU and SVD
oracles never answer `MissingGuess` (the real ones cannot), `solveInner` on the relabelled requests
is `solveInner` on the original requests with every reported id mapped through `f`: the unsatisfied
list, the `about` of every warning, and the request named by a `MissingGuess` error; everything else
identical.  (Without the hypothesis on the oracles the equation fails: an oracle error
`MissingGuess 0 0` is passed on unchanged by both calls; see `solveInner_relabel_cases` for the
unconditional form.) -/
theorem solveInner_relabel (f : Nat → Nat) (es : List (Entry α)) (g : List (Nat × α))
    (cfg : Config α) (solve : Nat → List (Triplet α) → List α → Except SolveError (List α))
    (analyze : Option (List (Triplet α) → Except SolveError (List α × List (List α))))
    (hsolve : ∀ k jac r e, solve k jac r = .error e → e.namesRequest = false)
    (hA : ∀ svd, analyze = some svd → ∀ jac e, svd jac = .error e → e.namesRequest = false) :
    solveInner (es.map (Entry.relabel f)) g cfg solve analyze =
      relabelResult f (solveInner es g cfg solve analyze) := by
  rw [solveInner_relabel_cases]
  cases hm : modelNew es (g.map (·.1)) with
  | error e => simp only [solveInner, hm, relabelResult, Failure.relabel]
  | ok u =>
    dsimp only
    cases hs : solveInner es g cfg solve analyze with
    | ok o => rfl
    | error fl =>
      have hn : fl.error.namesRequest = false := by
        unfold solveInner at hs
        simp only [hm] at hs
        cases h1 : newton es cfg solve (g.map (·.2)) with
        | error p =>
          obtain ⟨e, w⟩ := p
          simp only [h1] at hs
          injection hs with hs
          rw [← hs]
          exact newtonLoop_error_not_names es cfg solve hsolve _ _ _ _ w e h1
        | ok a =>
          simp only [h1] at hs
          cases h2 : unsatisfiedSweep es (lookup a.values) with
          | error e =>
            simp only [h2] at hs
            injection hs with hs
            rw [← hs]
            exact unsatisfiedSweep_error_not_names _ es e h2
          | ok us =>
            simp only [h2] at hs
            cases h3 : runAnalysis analyze a.lastJac g.length with
            | error e =>
              simp only [h3] at hs
              injection hs with hs
              rw [← hs]
              exact runAnalysis_error_not_names analyze hA _ _ e h3
            | ok under => simp only [h3] at hs; cases hs
      simp only [relabelResultW, relabelResult, Failure.relabelW, Failure.relabel,
        SolveError.relabelId_of_not_names f fl.error hn]

/-- The oracle hypothesis of `solveInner_relabel` holds for every oracle that always answers. -/
example (solve : Nat → List (Triplet α) → List α → Except SolveError (List α))
    (h : ∀ k jac r, ∃ d, solve k jac r = .ok d) :
    ∀ k jac r e, solve k jac r = .error e → e.namesRequest = false := by
  intro k jac r e he
  obtain ⟨d, hd⟩ := h k jac r
  rw [hd] at he
  cases he

/-- Relabelling by the identity changes nothing. -/
theorem relabelResult_id (r : Except (Failure α) (Outcome α)) : relabelResult (fun i => i) r = r := by
  have hw : ∀ ws : List (Warning α), ws.map (Warning.relabel fun i => i) = ws := by
    intro ws
    rw [show (Warning.relabel (fun i => i) : Warning α → Warning α) = id from by
      funext w; obtain ⟨a, c⟩ := w; cases a <;> rfl, List.map_id]
  cases r with
  | ok o => simp only [relabelResult, Outcome.relabel, hw, List.map_id']
  | error fl =>
    obtain ⟨e, ws, a, b⟩ := fl
    simp only [relabelResult, Failure.relabel, hw]
    cases e <;> rfl

/-! ### The priority loop respects relations between per-level results -/

/-- Two lists are related entry by entry (same length, `R` at every position). -/
inductive ListRel {β γ : Type} (R : β → γ → Prop) : List β → List γ → Prop
  | nil : ListRel R [] []
  | cons {a : β} {b : γ} {l : List β} {l' : List γ} : R a b → ListRel R l l' →
      ListRel R (a :: l) (b :: l')

/-- Two results (of a level, or of the whole solve) are related: both succeed with `RO`-related
outcomes or both fail with `RF`-related failures. -/
def ResRel (RF : Failure α → Failure α → Prop) (RO : Outcome α → Outcome α → Prop) :
    Except (Failure α) (Outcome α) → Except (Failure α) (Outcome α) → Prop
  | .ok a, .ok b => RO a b
  | .error a, .error b => RF a b
  | _, _ => False

/-- Two held outcomes are related: both absent, or both present and `RO`-related. -/
def OptRel (RO : Outcome α → Outcome α → Prop) : Option (Outcome α) → Option (Outcome α) → Prop
  | some a, some b => RO a b
  | none, none => True
  | _, _ => False

/-- Two results of the priority loop are related. -/
def LoopRel (RF : Failure α → Failure α → Prop) (RO : Outcome α → Outcome α → Prop) :
    Except (Failure α) (Option (Outcome α)) → Except (Failure α) (Option (Outcome α)) → Prop
  | .ok a, .ok b => OptRel RO a b
  | .error a, .error b => RF a b
  | _, _ => False

/-- **The loop respects relations**: if related outcomes agree on whether anything is unsatisfied,
the per-level results are related level by level and the held outcomes are related, then the loop
takes the same decisions on both and returns related results. -/
theorem loopOver_rel (RF : Failure α → Failure α → Prop) (RO : Outcome α → Outcome α → Prop)
    (hRO : ∀ a b, RO a b → b.unsatisfied.isEmpty = a.unsatisfied.isEmpty) :
    ∀ (rs rs' : List (Except (Failure α) (Outcome α))) (res res' : Option (Outcome α)),
      ListRel (ResRel RF RO) rs rs' → OptRel RO res res' →
      LoopRel RF RO (loopOver rs res) (loopOver rs' res') := by
  intro rs rs' res res' hrs
  induction hrs generalizing res res' with
  | nil => intro h; exact h
  | @cons r r' rest rest' hr _ ih =>
    intro h
    cases r with
    | error fl =>
      cases r' with
      | ok o' => exact hr.elim
      | error fl' =>
        cases res with
        | none =>
          cases res' with
          | none => exact hr
          | some b => exact h.elim
        | some a =>
          cases res' with
          | none => exact h.elim
          | some b => exact h
    | ok o =>
      cases r' with
      | error fl' => exact hr.elim
      | ok o' =>
        have hu := hRO o o' hr
        simp only [loopOver, hu]
        split
        · cases res with
          | none =>
            cases res' with
            | none => exact hr
            | some b => exact h.elim
          | some a =>
            cases res' with
            | none => exact h.elim
            | some b => exact h
        · exact ih (some o) (some o') hr

/-- If the two runs' levels are related call by call, so are the lists of per-level results. -/
theorem levelResults_rel (R : Except (Failure α) (Outcome α) → Except (Failure α) (Outcome α) → Prop)
    (es es' : List (Entry α)) (g g' : List (Nat × α)) (cfg cfg' : Config α)
    (solve solve' : LinSolve α) (svd svd' : Option (Svd α)) :
    ∀ (lvls : List Nat) (call : Nat),
      (∀ i p, lvls[i]? = some p → R (levelRun es g cfg solve svd (call + i) p)
        (levelRun es' g' cfg' solve' svd' (call + i) p)) →
      ListRel R (levelResults es g cfg solve svd lvls call)
        (levelResults es' g' cfg' solve' svd' lvls call) := by
  intro lvls
  induction lvls with
  | nil => intro call _; exact ListRel.nil
  | cons p rest ih =>
    intro call h
    refine ListRel.cons (h 0 p rfl) (ih (call + 1) ?_)
    intro i q hq
    have := h (i + 1) q (by simpa using hq)
    rwa [show call + (i + 1) = call + 1 + i from by omega] at this

/-- **The entry point respects relations between per-level results.**  Two prioritised solves (of
request lists that are both empty or both non-empty, visiting the same levels) whose `i`-th level
calls give related results, return related results — provided related outcomes agree on whether
anything is unsatisfied and the "nothing to solve" outcomes are related. -/
theorem solveWithPriority_rel (RF : Failure α → Failure α → Prop)
    (RO : Outcome α → Outcome α → Prop)
    (hRO : ∀ a b, RO a b → b.unsatisfied.isEmpty = a.unsatisfied.isEmpty)
    (reqs reqs' : List (Constraint α × Nat)) (g g' : List (Nat × α)) (cfg cfg' : Config α)
    (solve solve' : LinSolve α) (svd svd' : Option (Svd α))
    (hemp : reqs'.isEmpty = reqs.isEmpty)
    (hlv : levels (enumerate reqs') = levels (enumerate reqs))
    (hlevel : ∀ i p, (levels (enumerate reqs))[i]? = some p →
      ResRel RF RO (levelRun (enumerate reqs) g cfg solve svd i p)
        (levelRun (enumerate reqs') g' cfg' solve' svd' i p))
    (hnone : ∀ prio, RO (noConstraintsOutcome g svd.isSome prio)
      (noConstraintsOutcome g' svd'.isSome prio)) :
    ResRel RF RO (solveWithPriority reqs g cfg solve svd)
      (solveWithPriority reqs' g' cfg' solve' svd') := by
  unfold solveWithPriority
  rw [hemp]
  split
  · exact hnone 0
  · rw [priorityLoop_eq_loopOver, priorityLoop_eq_loopOver, hlv]
    have hrs := levelResults_rel (ResRel RF RO) (enumerate reqs) (enumerate reqs') g g' cfg cfg'
      solve solve' svd svd' (levels (enumerate reqs)) 0
      (by intro i p hp; rw [Nat.zero_add]; exact hlevel i p hp)
    have hloop := loopOver_rel RF RO hRO _ _ none none hrs trivial
    cases h1 : loopOver (levelResults (enumerate reqs) g cfg solve svd
        (levels (enumerate reqs)) 0) none with
    | error fl =>
      cases h2 : loopOver (levelResults (enumerate reqs') g' cfg' solve' svd'
          (levels (enumerate reqs)) 0) none with
      | error fl' => rw [h1, h2] at hloop; exact hloop
      | ok v' => rw [h1, h2] at hloop; exact hloop.elim
    | ok v =>
      cases h2 : loopOver (levelResults (enumerate reqs') g' cfg' solve' svd'
          (levels (enumerate reqs)) 0) none with
      | error fl' => rw [h1, h2] at hloop; exact hloop.elim
      | ok v' =>
        rw [h1, h2] at hloop
        cases v with
        | none =>
          cases v' with
          | none => exact hnone _
          | some b => exact hloop.elim
        | some a =>
          cases v' with
          | none => exact hloop.elim
          | some b => exact hloop

end Ezpz
