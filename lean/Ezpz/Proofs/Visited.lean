/-
Degeneracy notices are raised at VISITED configurations.

`Ezpz/Proofs/Warnings.lean` shows that every notice names a request of the attempted subset whose
kernel raises the flag at *some* assignment.  This file ties the assignment to the run:

* `iterates es cfg solve x0` is the list of value vectors at which the Newton loop evaluates the
  residual / Jacobian (the guess, then every updated vector that starts another round);
* `stepNew es x` is the exact list of notices one evaluation round at `x` appends;
* the warnings of a Newton run (successful or not) are *exactly* the incoming warnings followed by
  `stepNew es x` for every visited `x`, in order (`newtonLoop_warnings_eq`) — in particular there is no
  de-duplication: one notice per flagged evaluation;
* soundness (`newtonLoop_warnings_visited`) and completeness (`newtonLoop_warnings_complete`,
  `newtonLoop_ok_complete`) in terms of `DegenerateAtVisited`;
* the same for `solveInner` (Ok and Failure) and for one priority level (`levelRun`).

Everything holds for every scalar type, every LU oracle.
-/
import Ezpz.Proofs.Warnings
set_option linter.unusedSectionVars false
namespace Ezpz
open Transc

variable {α : Type} [Add α] [Sub α] [Mul α] [Div α] [Neg α] [OfScientific α]
  [LT α] [DecidableLT α] [LE α] [DecidableLE α] [Transc α]

/-! ### The visited configurations -/

/-- The value vector with which the next round starts, if the round at `x` (round number `k`) asks for
one.  (The incoming warnings do not influence this, see `newtonStep_prepend`.) -/
def stepNext (es : List (Entry α)) (cfg : Config α)
    (solve : Nat → List (Triplet α) → List α → Except SolveError (List α)) (k : Nat) (x : List α) :
    Option (List α) :=
  match newtonStep es cfg solve k x [] with
  | .next x' _ => some x'
  | _ => none

/-- The value vectors at which `newtonLoop es cfg solve fuel k x _` evaluates the residual and the
Jacobian, in order: `x`, then each updated vector that starts another round.  With no fuel left
nothing is evaluated. -/
def iteratesFrom (es : List (Entry α)) (cfg : Config α)
    (solve : Nat → List (Triplet α) → List α → Except SolveError (List α)) :
    Nat → Nat → List α → List (List α)
  | 0, _, _ => []
  | fuel + 1, k, x =>
    x :: (match stepNext es cfg solve k x with
          | some x' => iteratesFrom es cfg solve fuel (k + 1) x'
          | none => [])

/-- The value vectors visited by `newton es cfg solve x0`. -/
def iterates (es : List (Entry α)) (cfg : Config α)
    (solve : Nat → List (Triplet α) → List α → Except SolveError (List α)) (x0 : List α) :
    List (List α) :=
  iteratesFrom es cfg solve cfg.maxIterations 0 x0

/-- With at least one round allowed, the guess is the first visited configuration. -/
theorem guess_mem_iterates (es : List (Entry α)) (cfg : Config α)
    (solve : Nat → List (Triplet α) → List α → Except SolveError (List α)) (x0 : List α)
    (h : 0 < cfg.maxIterations) : x0 ∈ iterates es cfg solve x0 := by
  unfold iterates
  obtain ⟨n, hn⟩ : ∃ n, cfg.maxIterations = n + 1 := ⟨cfg.maxIterations - 1, by omega⟩
  rw [hn]
  simp [iteratesFrom]

/-- No more configurations are visited than rounds are allowed. -/
theorem iteratesFrom_length_le (es : List (Entry α)) (cfg : Config α)
    (solve : Nat → List (Triplet α) → List α → Except SolveError (List α)) :
    ∀ (fuel k : Nat) (x : List α), (iteratesFrom es cfg solve fuel k x).length ≤ fuel := by
  intro fuel
  induction fuel with
  | zero => intro k x; simp [iteratesFrom]
  | succ fuel ih =>
    intro k x
    simp only [iteratesFrom, List.length_cons]
    split
    · have := ih (k + 1) ‹_›; omega
    · simp

/-! ### The flag, and the notices of one evaluation -/

/-- The residual or the Jacobian evaluation of the request `e` at the value vector `x` raises the
degenerate flag (same formulation as in `DegenerateFrom`). -/
def FlagAt (e : Entry α) (x : List α) : Prop :=
  (∃ r, e.c.residual (lookup x) = some r ∧ r.degenerate = true) ∨
  (∃ j, e.c.jacobianRows (lookup x) = some j ∧ j.degenerate = true)

/-- `w` is a degeneracy notice (content `Degenerate`) naming a request of `es` whose residual or
Jacobian evaluation raises the flag at one of the value vectors `xs`. -/
def DegenerateAtVisited (es : List (Entry α)) (xs : List (List α)) (w : Warning α) : Prop :=
  w.content = .degenerate ∧ ∃ e ∈ es, w.about = some e.id ∧ ∃ x ∈ xs, FlagAt e x

/-- The strengthened predicate implies the old one (`DegenerateFrom`) when all `xs` have length `n`. -/
theorem DegenerateAtVisited.toFrom (es : List (Entry α)) (xs : List (List α)) (n : Nat)
    (w : Warning α) (hlen : ∀ x ∈ xs, x.length = n) (h : DegenerateAtVisited es xs w) :
    DegenerateFrom es n w := by
  obtain ⟨_, e, he, ha, x, hx, hf⟩ := h
  exact ⟨e, he, ha, x, hlen x hx, hf⟩

theorem DegenerateAtVisited.mono (es : List (Entry α)) (xs ys : List (List α)) (w : Warning α)
    (hsub : ∀ x ∈ xs, x ∈ ys) (h : DegenerateAtVisited es xs w) : DegenerateAtVisited es ys w := by
  obtain ⟨hc, e, he, ha, x, hx, hf⟩ := h
  exact ⟨hc, e, he, ha, x, hsub x hx, hf⟩

/-- Does the residual evaluation of `e` at `x` raise the flag? -/
def resFlag (x : Nat → Option α) (e : Entry α) : Bool :=
  match e.c.residual x with
  | some r => r.degenerate
  | none => false

/-- Does the Jacobian evaluation of `e` at `x` raise the flag? -/
def jacFlag (x : Nat → Option α) (e : Entry α) : Bool :=
  match e.c.jacobianRows x with
  | some j => j.degenerate
  | none => false

/-- A successful global residual evaluation pushes exactly one notice per flagged request, in
request order. -/
theorem residualAll_warnings_eq (x : Nat → Option α) :
    ∀ (es : List (Entry α)) (rs : List α) (ws : List (Warning α)),
      residualAll es x = .ok (rs, ws) → ws = (es.filter (resFlag x)).map degenerateWarning := by
  intro es
  induction es with
  | nil => intro rs ws h; simp [residualAll] at h; simp [h.2]
  | cons e rest ih =>
    intro rs ws h
    unfold residualAll at h
    split at h
    · simp at h
    · rename_i r hr
      split at h
      · simp at h
      · rename_i rs' ws' hrest
        injection h with h
        injection h with h1 h2
        subst h2
        have := ih rs' ws' hrest
        cases hd : r.degenerate <;> simp [resFlag, hr, hd, this]

/-- A successful Jacobian refresh pushes exactly one notice per flagged request, in request order. -/
theorem jacobianFrom_warnings_eq (pat : List (Nat × Nat)) (x : Nat → Option α) :
    ∀ (es : List (Entry α)) (row0 : Nat) (ts : List (Triplet α)) (ws : List (Warning α)),
      jacobianFrom pat es x row0 = .ok (ts, ws) →
      ws = (es.filter (jacFlag x)).map degenerateWarning := by
  intro es
  induction es with
  | nil => intro row0 ts ws h; simp [jacobianFrom] at h; simp [h.2]
  | cons e rest ih =>
    intro row0 ts ws h
    unfold jacobianFrom at h
    split at h
    · simp at h
    · rename_i j hj
      dsimp only at h
      split at h
      · split at h
        · simp at h
        · rename_i ts' ws' hrest
          injection h with h
          injection h with h1 h2
          subst h2
          have := ih _ ts' ws' hrest
          cases hd : j.degenerate <;> simp [jacFlag, hj, hd, this]
      · simp at h

/-- The notices one round at `x` appends: those of the residual evaluation, then (when the residual
evaluation did not panic) those of the Jacobian refresh. -/
def stepNew (es : List (Entry α)) (x : List α) : List (Warning α) :=
  match residualAll es (lookup x) with
  | .error _ => []
  | .ok (_, w1) =>
    match jacobianAll es (lookup x) with
    | .error _ => w1
    | .ok (_, w2) => w1 ++ w2

/-- Soundness of one round: every appended notice is a `Degenerate` notice of a request of `es`
whose evaluation raises the flag at `x` itself. -/
theorem stepNew_sound (es : List (Entry α)) (x : List α) (w : Warning α) (h : w ∈ stepNew es x) :
    DegenerateAtVisited es [x] w := by
  have hres : ∀ rs w1, residualAll es (lookup x) = .ok (rs, w1) → w ∈ w1 →
      DegenerateAtVisited es [x] w := by
    intro rs w1 h1 hw
    rw [residualAll_warnings_eq _ es rs w1 h1] at hw
    simp only [List.mem_map, List.mem_filter] at hw
    obtain ⟨e, ⟨he, hf⟩, rfl⟩ := hw
    refine ⟨rfl, e, he, rfl, x, by simp, Or.inl ?_⟩
    unfold resFlag at hf
    split at hf
    · rename_i r hr; exact ⟨r, hr, hf⟩
    · simp at hf
  have hjac : ∀ ts w2, jacobianAll es (lookup x) = .ok (ts, w2) → w ∈ w2 →
      DegenerateAtVisited es [x] w := by
    intro ts w2 h2 hw
    rw [jacobianFrom_warnings_eq _ _ es 0 ts w2 h2] at hw
    simp only [List.mem_map, List.mem_filter] at hw
    obtain ⟨e, ⟨he, hf⟩, rfl⟩ := hw
    refine ⟨rfl, e, he, rfl, x, by simp, Or.inr ?_⟩
    unfold jacFlag at hf
    split at hf
    · rename_i j hj; exact ⟨j, hj, hf⟩
    · simp at hf
  unfold stepNew at h
  cases hr : residualAll es (lookup x) with
  | error e => rw [hr] at h; simp at h
  | ok p =>
    obtain ⟨rs, w1⟩ := p
    rw [hr] at h
    cases hj : jacobianAll es (lookup x) with
    | error e => rw [hj] at h; exact hres rs w1 hr h
    | ok q =>
      obtain ⟨ts, w2⟩ := q
      rw [hj] at h
      rcases List.mem_append.mp h with h | h
      · exact hres rs w1 hr h
      · exact hjac ts w2 hj h

/-- Completeness of one round, residual part: if the global residual evaluation at `x` does not panic,
every request whose residual raises the flag at `x` gets its notice. -/
theorem stepNew_complete_residual (es : List (Entry α)) (x : List α) (rs : List α)
    (w1 : List (Warning α)) (hr : residualAll es (lookup x) = .ok (rs, w1))
    (e : Entry α) (he : e ∈ es) (r : Res α) (hres : e.c.residual (lookup x) = some r)
    (hd : r.degenerate = true) : degenerateWarning e ∈ stepNew es x := by
  have hw : degenerateWarning e ∈ w1 := by
    rw [residualAll_warnings_eq _ es rs w1 hr]
    exact List.mem_map.mpr ⟨e, List.mem_filter.mpr ⟨he, by simp [resFlag, hres, hd]⟩, rfl⟩
  unfold stepNew
  rw [hr]
  cases hj : jacobianAll es (lookup x) with
  | error _ => exact hw
  | ok q => exact List.mem_append.mpr (Or.inl hw)

/-- Completeness of one round, Jacobian part: if neither evaluation at `x` panics, every request whose
Jacobian raises the flag at `x` gets its notice. -/
theorem stepNew_complete_jacobian (es : List (Entry α)) (x : List α) (rs : List α)
    (w1 : List (Warning α)) (hr : residualAll es (lookup x) = .ok (rs, w1))
    (ts : List (Triplet α)) (w2 : List (Warning α)) (hj : jacobianAll es (lookup x) = .ok (ts, w2))
    (e : Entry α) (he : e ∈ es) (j : Jac α) (hjac : e.c.jacobianRows (lookup x) = some j)
    (hd : j.degenerate = true) : degenerateWarning e ∈ stepNew es x := by
  have hw : degenerateWarning e ∈ w2 := by
    rw [jacobianFrom_warnings_eq _ _ es 0 ts w2 hj]
    exact List.mem_map.mpr ⟨e, List.mem_filter.mpr ⟨he, by simp [jacFlag, hjac, hd]⟩, rfl⟩
  unfold stepNew
  rw [hr, hj]
  exact List.mem_append.mpr (Or.inr hw)

/-- Completeness of one round when both evaluations succeed. -/
theorem stepNew_complete (es : List (Entry α)) (x : List α)
    (hr : ∃ rs w1, residualAll es (lookup x) = .ok (rs, w1))
    (hj : ∃ ts w2, jacobianAll es (lookup x) = .ok (ts, w2))
    (e : Entry α) (he : e ∈ es) (hf : FlagAt e x) : degenerateWarning e ∈ stepNew es x := by
  obtain ⟨rs, w1, hr⟩ := hr
  obtain ⟨ts, w2, hj⟩ := hj
  rcases hf with ⟨r, h1, h2⟩ | ⟨j, h1, h2⟩
  · exact stepNew_complete_residual es x rs w1 hr e he r h1 h2
  · exact stepNew_complete_jacobian es x rs w1 hr ts w2 hj e he j h1 h2

/-! ### One round -/

/-- Put `ws` in front of the warnings carried by a round's result. -/
def StepResult.prepend (ws : List (Warning α)) : StepResult α → StepResult α
  | .done r => .done { r with warnings := ws ++ r.warnings }
  | .fail e w => .fail e (ws ++ w)
  | .next x w => .next x (ws ++ w)

/-- The incoming warnings are only carried along: a round started with `ws` does what the round
started with no warnings does, with `ws` in front of the warnings. -/
theorem newtonStep_prepend (es : List (Entry α)) (cfg : Config α)
    (solve : Nat → List (Triplet α) → List α → Except SolveError (List α))
    (k : Nat) (x : List α) (ws : List (Warning α)) :
    newtonStep es cfg solve k x ws = (newtonStep es cfg solve k x []).prepend ws := by
  unfold newtonStep
  cases residualAll es (lookup x) with
  | error e => simp [StepResult.prepend]
  | ok p =>
    obtain ⟨rs, w1⟩ := p
    cases jacobianAll es (lookup x) with
    | error e => simp [StepResult.prepend]
    | ok q =>
      obtain ⟨jac, w2⟩ := q
      dsimp only
      repeat' split
      all_goals simp [StepResult.prepend]

/-- A round started with no warnings ends with exactly `stepNew es x`. -/
theorem newtonStep_nil_warnings (es : List (Entry α)) (cfg : Config α)
    (solve : Nat → List (Triplet α) → List α → Except SolveError (List α))
    (k : Nat) (x : List α) :
    stepWarnings (newtonStep es cfg solve k x []) = stepNew es x := by
  unfold newtonStep stepNew
  cases residualAll es (lookup x) with
  | error e => simp [stepWarnings]
  | ok p =>
    obtain ⟨rs, w1⟩ := p
    cases jacobianAll es (lookup x) with
    | error e => simp [stepWarnings]
    | ok q =>
      obtain ⟨jac, w2⟩ := q
      dsimp only
      repeat' split
      all_goals simp [stepWarnings]

/-- A round that returns or asks for another round evaluated both the residual and the Jacobian at
`x` without panic. -/
theorem newtonStep_evaluated (es : List (Entry α)) (cfg : Config α)
    (solve : Nat → List (Triplet α) → List α → Except SolveError (List α))
    (k : Nat) (x : List α) (ws : List (Warning α))
    (h : (∃ r, newtonStep es cfg solve k x ws = .done r) ∨
         (∃ x' ws', newtonStep es cfg solve k x ws = .next x' ws')) :
    (∃ rs w1, residualAll es (lookup x) = .ok (rs, w1)) ∧
    (∃ ts w2, jacobianAll es (lookup x) = .ok (ts, w2)) := by
  unfold newtonStep at h
  cases hr : residualAll es (lookup x) with
  | error e => rw [hr] at h; simp at h
  | ok p =>
    obtain ⟨rs, w1⟩ := p
    cases hj : jacobianAll es (lookup x) with
    | error e => rw [hr, hj] at h; simp at h
    | ok q =>
      obtain ⟨jac, w2⟩ := q
      exact ⟨⟨rs, w1, rfl⟩, ⟨jac, w2, rfl⟩⟩

/-! ### The loop -/

/-- **Exact warnings of a Newton run.**  Whether the run succeeds or fails, its warnings are the
incoming ones followed, for each visited value vector in order, by the notices of the evaluations at
that vector.  Nothing is dropped or de-duplicated. -/
theorem newtonLoop_warnings_eq (es : List (Entry α)) (cfg : Config α)
    (solve : Nat → List (Triplet α) → List α → Except SolveError (List α)) :
    ∀ (fuel k : Nat) (x : List α) (ws : List (Warning α)),
      (∀ r, newtonLoop es cfg solve fuel k x ws = .ok r →
        r.warnings = ws ++ (iteratesFrom es cfg solve fuel k x).flatMap (stepNew es)) ∧
      (∀ e ws', newtonLoop es cfg solve fuel k x ws = .error (e, ws') →
        ws' = ws ++ (iteratesFrom es cfg solve fuel k x).flatMap (stepNew es)) := by
  intro fuel
  induction fuel with
  | zero =>
    intro k x ws
    constructor
    · intro r h; simp [newtonLoop] at h
    · intro e ws' h; simp [newtonLoop] at h; simp [iteratesFrom, h.2]
  | succ fuel ih =>
    intro k x ws
    have hnew := newtonStep_nil_warnings es cfg solve k x
    unfold newtonLoop
    rw [newtonStep_prepend]
    simp only [iteratesFrom, stepNext]
    cases hs : newtonStep es cfg solve k x [] with
    | done r =>
      rw [hs] at hnew
      simp only [stepWarnings] at hnew
      constructor
      · intro r' h
        simp only [StepResult.prepend] at h
        injection h with h; subst h
        simp [hnew]
      · intro e ws' h; simp [StepResult.prepend] at h
    | fail e ws2 =>
      rw [hs] at hnew
      simp only [stepWarnings] at hnew
      constructor
      · intro r' h; simp [StepResult.prepend] at h
      · intro e' ws' h
        simp only [StepResult.prepend] at h
        injection h with h
        injection h with h1 h2
        subst h2
        simp [hnew]
    | next x' ws2 =>
      rw [hs] at hnew
      simp only [stepWarnings] at hnew
      simp only [StepResult.prepend]
      obtain ⟨ih1, ih2⟩ := ih (k + 1) x' (ws ++ ws2)
      constructor
      · intro r h
        rw [ih1 r h, hnew]
        simp
      · intro e ws' h
        rw [ih2 e ws' h, hnew]
        simp

/-- **Soundness at visited configurations.**  Every warning a Newton run ADDS to the incoming `ws` —
for the successful and for the failed result — is a `Degenerate` notice of a request of `es` whose
residual or Jacobian evaluation raises the flag at a value vector the run visited. -/
theorem newtonLoop_warnings_visited (es : List (Entry α)) (cfg : Config α)
    (solve : Nat → List (Triplet α) → List α → Except SolveError (List α))
    (fuel k : Nat) (x : List α) (ws : List (Warning α)) :
    (∀ r, newtonLoop es cfg solve fuel k x ws = .ok r →
      ∃ new, r.warnings = ws ++ new ∧
        ∀ w ∈ new, DegenerateAtVisited es (iteratesFrom es cfg solve fuel k x) w) ∧
    (∀ e ws', newtonLoop es cfg solve fuel k x ws = .error (e, ws') →
      ∃ new, ws' = ws ++ new ∧
        ∀ w ∈ new, DegenerateAtVisited es (iteratesFrom es cfg solve fuel k x) w) := by
  have key : ∀ w ∈ (iteratesFrom es cfg solve fuel k x).flatMap (stepNew es),
      DegenerateAtVisited es (iteratesFrom es cfg solve fuel k x) w := by
    intro w hw
    obtain ⟨y, hy, hwy⟩ := List.mem_flatMap.mp hw
    exact DegenerateAtVisited.mono es [y] _ w (by simpa using hy) (stepNew_sound es y w hwy)
  obtain ⟨h1, h2⟩ := newtonLoop_warnings_eq es cfg solve fuel k x ws
  exact ⟨fun r h => ⟨_, h1 r h, key⟩, fun e ws' h => ⟨_, h2 e ws' h, key⟩⟩

/-- In a successful run every visited value vector was evaluated (residual and Jacobian) without
panic. -/
theorem newtonLoop_ok_evaluated (es : List (Entry α)) (cfg : Config α)
    (solve : Nat → List (Triplet α) → List α → Except SolveError (List α)) :
    ∀ (fuel k : Nat) (x : List α) (ws : List (Warning α)) (r : NewtonOk α),
      newtonLoop es cfg solve fuel k x ws = .ok r →
      ∀ y ∈ iteratesFrom es cfg solve fuel k x,
        (∃ rs w1, residualAll es (lookup y) = .ok (rs, w1)) ∧
        (∃ ts w2, jacobianAll es (lookup y) = .ok (ts, w2)) := by
  intro fuel
  induction fuel with
  | zero => intro k x ws r h; simp [newtonLoop] at h
  | succ fuel ih =>
    intro k x ws r h y hy
    unfold newtonLoop at h
    simp only [iteratesFrom, stepNext, List.mem_cons] at hy
    cases hs : newtonStep es cfg solve k x ws with
    | done r' =>
      have hev := newtonStep_evaluated es cfg solve k x ws (Or.inl ⟨r', hs⟩)
      have hs0 := hs
      rw [newtonStep_prepend] at hs0
      cases hs1 : newtonStep es cfg solve k x [] with
      | done r1 =>
        rw [hs1] at hy
        simp only [List.not_mem_nil, or_false] at hy
        subst hy; exact hev
      | fail e1 w1 => rw [hs1] at hs0; simp [StepResult.prepend] at hs0
      | next x1 w1 => rw [hs1] at hs0; simp [StepResult.prepend] at hs0
    | fail e ws2 => rw [hs] at h; simp at h
    | next x' ws2 =>
      have hev := newtonStep_evaluated es cfg solve k x ws (Or.inr ⟨x', ws2, hs⟩)
      rw [hs] at h
      have hs0 := hs
      rw [newtonStep_prepend] at hs0
      cases hs1 : newtonStep es cfg solve k x [] with
      | done r1 => rw [hs1] at hs0; simp [StepResult.prepend] at hs0
      | fail e1 w1 => rw [hs1] at hs0; simp [StepResult.prepend] at hs0
      | next x1 w1 =>
        rw [hs1] at hs0 hy
        simp only [StepResult.prepend] at hs0
        injection hs0 with hx1 _
        subst hx1
        rcases hy with hy | hy
        · subst hy; exact hev
        · exact ih (k + 1) _ ws2 r h y hy

/-- **Completeness (general form).**  If the flag is raised for a request `e` of `es` at a visited
value vector `y` at which the evaluations did not panic, the notice of `e` is among the warnings of
the run's result, successful or failed.  (Residual flags need the residual evaluation at `y` to
succeed; Jacobian flags need both.) -/
theorem newtonLoop_warnings_complete (es : List (Entry α)) (cfg : Config α)
    (solve : Nat → List (Triplet α) → List α → Except SolveError (List α))
    (fuel k : Nat) (x : List α) (ws : List (Warning α))
    (y : List α) (hy : y ∈ iteratesFrom es cfg solve fuel k x)
    (e : Entry α) (he : e ∈ es)
    (hflag :
      (∃ r, e.c.residual (lookup y) = some r ∧ r.degenerate = true ∧
        ∃ rs w1, residualAll es (lookup y) = .ok (rs, w1)) ∨
      (∃ j, e.c.jacobianRows (lookup y) = some j ∧ j.degenerate = true ∧
        (∃ rs w1, residualAll es (lookup y) = .ok (rs, w1)) ∧
        (∃ ts w2, jacobianAll es (lookup y) = .ok (ts, w2)))) :
    (∀ r, newtonLoop es cfg solve fuel k x ws = .ok r → degenerateWarning e ∈ r.warnings) ∧
    (∀ err ws', newtonLoop es cfg solve fuel k x ws = .error (err, ws') →
      degenerateWarning e ∈ ws') := by
  have hstep : degenerateWarning e ∈ stepNew es y := by
    rcases hflag with ⟨r, h1, h2, rs, w1, h3⟩ | ⟨j, h1, h2, ⟨rs, w1, h3⟩, ⟨ts, w2, h4⟩⟩
    · exact stepNew_complete_residual es y rs w1 h3 e he r h1 h2
    · exact stepNew_complete_jacobian es y rs w1 h3 ts w2 h4 e he j h1 h2
  have hmem : degenerateWarning e ∈ (iteratesFrom es cfg solve fuel k x).flatMap (stepNew es) :=
    List.mem_flatMap.mpr ⟨y, hy, hstep⟩
  obtain ⟨h1, h2⟩ := newtonLoop_warnings_eq es cfg solve fuel k x ws
  constructor
  · intro r h; rw [h1 r h]; exact List.mem_append.mpr (Or.inr hmem)
  · intro err ws' h; rw [h2 err ws' h]; exact List.mem_append.mpr (Or.inr hmem)

/-- **Completeness for a successful run.**  If the flag is raised for a request `e` of `es` at any
visited value vector, the notice of `e` is among the result's warnings. -/
theorem newtonLoop_ok_complete (es : List (Entry α)) (cfg : Config α)
    (solve : Nat → List (Triplet α) → List α → Except SolveError (List α))
    (fuel k : Nat) (x : List α) (ws : List (Warning α)) (r : NewtonOk α)
    (h : newtonLoop es cfg solve fuel k x ws = .ok r)
    (y : List α) (hy : y ∈ iteratesFrom es cfg solve fuel k x)
    (e : Entry α) (he : e ∈ es) (hf : FlagAt e y) : degenerateWarning e ∈ r.warnings := by
  obtain ⟨hr, hj⟩ := newtonLoop_ok_evaluated es cfg solve fuel k x ws r h y hy
  rw [(newtonLoop_warnings_eq es cfg solve fuel k x ws).1 r h]
  exact List.mem_append.mpr (Or.inr (List.mem_flatMap.mpr ⟨y, hy, stepNew_complete es y hr hj e he hf⟩))

/-- All visited value vectors have the length of the guess. -/
theorem iteratesFrom_length (es : List (Entry α)) (cfg : Config α)
    (solve : Nat → List (Triplet α) → List α → Except SolveError (List α)) :
    ∀ (fuel k : Nat) (x : List α), ∀ y ∈ iteratesFrom es cfg solve fuel k x, y.length = x.length := by
  intro fuel
  induction fuel with
  | zero => intro k x y hy; simp [iteratesFrom] at hy
  | succ fuel ih =>
    intro k x y hy
    simp only [iteratesFrom, stepNext, List.mem_cons] at hy
    rcases hy with hy | hy
    · rw [hy]
    · cases hs : newtonStep es cfg solve k x [] with
      | done r => rw [hs] at hy; simp at hy
      | fail e w => rw [hs] at hy; simp at hy
      | next x' w =>
        rw [hs] at hy
        rw [ih (k + 1) x' y hy]
        exact newtonStep_next_length es cfg solve k x x' [] w hs

/-! ### `solve_inner` -/

/-- **Exact warnings of `solve_inner`.**  A successful call reports the lint warnings of its requests
followed by the notices of every evaluation of its Newton run. -/
theorem solveInner_ok_warnings_eq (es : List (Entry α)) (guesses : List (Nat × α)) (cfg : Config α)
    (solve : Nat → List (Triplet α) → List α → Except SolveError (List α))
    (analyze : Option (List (Triplet α) → Except SolveError (List α × List (List α))))
    (o : Outcome α) (h : solveInner es guesses cfg solve analyze = .ok o) :
    o.warnings = lint es ++ (iterates es cfg solve (guesses.map (·.2))).flatMap (stepNew es) := by
  obtain ⟨nr, hn, _, _, _, hw, _⟩ := solveInner_ok es guesses cfg solve analyze o h
  unfold newton at hn
  rw [hw, (newtonLoop_warnings_eq es cfg solve _ 0 _ []).1 nr hn]
  simp [iterates]

/-- **Exact warnings of a failed `solve_inner`.**  If model construction fails only the lint warnings
are reported; otherwise the lint warnings followed by the notices of every evaluation of the Newton
run (whether the failure comes from the run, the satisfaction sweep or the freedom analysis). -/
theorem solveInner_error_warnings_eq (es : List (Entry α)) (guesses : List (Nat × α))
    (cfg : Config α) (solve : Nat → List (Triplet α) → List α → Except SolveError (List α))
    (analyze : Option (List (Triplet α) → Except SolveError (List α × List (List α))))
    (f : Failure α) (h : solveInner es guesses cfg solve analyze = .error f) :
    ((∃ e, modelNew es (guesses.map (·.1)) = .error e) ∧ f.warnings = lint es) ∨
    (modelNew es (guesses.map (·.1)) = .ok () ∧
      f.warnings = lint es ++ (iterates es cfg solve (guesses.map (·.2))).flatMap (stepNew es)) := by
  unfold solveInner at h
  split at h
  · rename_i e hm
    injection h with h; subst h
    exact Or.inl ⟨⟨e, hm⟩, rfl⟩
  · rename_i hm
    right
    refine ⟨hm, ?_⟩
    split at h
    · rename_i e ws hn
      injection h with h; subst h
      unfold newton at hn
      rw [(newtonLoop_warnings_eq es cfg solve _ 0 _ []).2 e ws hn]
      simp [iterates]
    · rename_i nr hn
      unfold newton at hn
      have hnr := (newtonLoop_warnings_eq es cfg solve _ 0 _ []).1 nr hn
      split at h
      · injection h with h; subst h
        rw [hnr]; simp [iterates]
      · split at h
        · injection h with h; subst h
          rw [hnr]; simp [iterates]
        · simp at h

/-- Every element of `lint es ++ (visited).flatMap (stepNew es)` is a lint warning or a degeneracy
notice raised at a visited configuration. -/
theorem mem_lint_append_visited (es : List (Entry α)) (xs : List (List α)) (w : Warning α)
    (h : w ∈ lint es ++ xs.flatMap (stepNew es)) : w ∈ lint es ∨ DegenerateAtVisited es xs w := by
  rcases List.mem_append.mp h with h | h
  · exact Or.inl h
  · obtain ⟨y, hy, hwy⟩ := List.mem_flatMap.mp h
    exact Or.inr (DegenerateAtVisited.mono es [y] _ w (by simpa using hy) (stepNew_sound es y w hwy))

/-- **`solve_inner`, success.**  Every warning of the outcome is a lint warning of the attempted
requests or a `Degenerate` notice of one of them, raised at a value vector visited by this call's
Newton run. -/
theorem solveInner_ok_warnings_visited (es : List (Entry α)) (guesses : List (Nat × α))
    (cfg : Config α) (solve : Nat → List (Triplet α) → List α → Except SolveError (List α))
    (analyze : Option (List (Triplet α) → Except SolveError (List α × List (List α))))
    (o : Outcome α) (h : solveInner es guesses cfg solve analyze = .ok o) :
    ∀ w ∈ o.warnings, w ∈ lint es ∨
      DegenerateAtVisited es (iterates es cfg solve (guesses.map (·.2))) w := by
  intro w hw
  rw [solveInner_ok_warnings_eq es guesses cfg solve analyze o h] at hw
  exact mem_lint_append_visited es _ w hw

/-- **`solve_inner`, failure.**  The same for the warnings carried by a `FailureOutcome`. -/
theorem solveInner_error_warnings_visited (es : List (Entry α)) (guesses : List (Nat × α))
    (cfg : Config α) (solve : Nat → List (Triplet α) → List α → Except SolveError (List α))
    (analyze : Option (List (Triplet α) → Except SolveError (List α × List (List α))))
    (f : Failure α) (h : solveInner es guesses cfg solve analyze = .error f) :
    ∀ w ∈ f.warnings, w ∈ lint es ∨
      DegenerateAtVisited es (iterates es cfg solve (guesses.map (·.2))) w := by
  intro w hw
  rcases solveInner_error_warnings_eq es guesses cfg solve analyze f h with ⟨_, h1⟩ | ⟨_, h1⟩
  · rw [h1] at hw; exact Or.inl hw
  · rw [h1] at hw; exact mem_lint_append_visited es _ w hw

/-- **`solve_inner`, completeness.**  In a successful call, a request whose evaluation raises the flag
at any visited value vector has its `Degenerate` notice among the outcome's warnings. -/
theorem solveInner_ok_complete (es : List (Entry α)) (guesses : List (Nat × α))
    (cfg : Config α) (solve : Nat → List (Triplet α) → List α → Except SolveError (List α))
    (analyze : Option (List (Triplet α) → Except SolveError (List α × List (List α))))
    (o : Outcome α) (h : solveInner es guesses cfg solve analyze = .ok o)
    (y : List α) (hy : y ∈ iterates es cfg solve (guesses.map (·.2)))
    (e : Entry α) (he : e ∈ es) (hf : FlagAt e y) : degenerateWarning e ∈ o.warnings := by
  obtain ⟨nr, hn, _, _, _, hw, _⟩ := solveInner_ok es guesses cfg solve analyze o h
  unfold newton at hn
  rw [hw]
  exact List.mem_append.mpr (Or.inr (newtonLoop_ok_complete es cfg solve _ 0 _ [] nr hn y hy e he hf))

/-- Every visited value vector of a `solve_inner` call has one value per guess. -/
theorem iterates_length (es : List (Entry α)) (cfg : Config α)
    (solve : Nat → List (Triplet α) → List α → Except SolveError (List α)) (x0 : List α) :
    ∀ y ∈ iterates es cfg solve x0, y.length = x0.length :=
  iteratesFrom_length es cfg solve _ 0 x0

/-! ### Which call produced a per-level result -/

/-- A member of the per-level result list is the run of the level at some position `j`, with call
number `call + j`. -/
theorem mem_levelResults_idx (es : List (Entry α)) (guesses : List (Nat × α)) (cfg : Config α)
    (solve : LinSolve α) (svd : Option (Svd α)) :
    ∀ (lvls : List Nat) (call : Nat) (r : Except (Failure α) (Outcome α)),
      r ∈ levelResults es guesses cfg solve svd lvls call →
      ∃ j p, lvls[j]? = some p ∧ r = levelRun es guesses cfg solve svd (call + j) p := by
  intro lvls
  induction lvls with
  | nil => intro call r h; simp [levelResults] at h
  | cons p rest ih =>
    intro call r h
    simp only [levelResults, List.mem_cons] at h
    rcases h with h | h
    · exact ⟨0, p, by simp, by simpa using h⟩
    · obtain ⟨j, q, hq, hr⟩ := ih (call + 1) r h
      refine ⟨j + 1, q, by simpa using hq, ?_⟩
      rw [hr]; congr 1; omega

end Ezpz
