/-
Correct rounding of the model's decimal → binary64 conversion (`Ezpz/Model/Text/Number.lean`).

* `bitsValue` decodes a non-negative binary64 bit pattern into ℚ; it is strictly monotone and the gap
  between neighbours is `2^(max e 1 - 1075)` (`bitsValue_strictMono`, `bitsValue_succ_sub`).
* `ratToBits n d` (`n, d > 0`) is a finite pattern or exactly `+∞` (`ratToBits_finite_or_inf`), a
  finite result is a nearest double (`ratToBits_nearest`), ties go to even (`ratToBits_ties_even`),
  the error is at most half an ulp (`ratToBits_half_ulp`), the result is `+∞` iff
  `n/d ≥ 2^1024 - 2^970` (`ratToBits_overflow`), representable values are returned exactly
  (`ratToBits_exact`).
* `decToFloat` passes `ratToBits` of `mant·10^exp10` to `Float.ofBits` (`decToFloat_eq`,
  `decToFloat_bits`, `decToFloat_signed_bits`); its two cut-offs are sound (`high_cutoff`,
  `low_cutoff`) and do not change the result (`decBits_nonneg`, `decBits_neg`).

Proof architecture: `ratToBits = finish ∘ stage1` (`ratToBits_eq`); `stage1_spec` (normalisation,
uses `Nat.log2 = ⌊log₂⌋`); `finish_normal` / `finish_subnormal` (packing); `round_bracket`
(round-half-even on ℚ); `ratToBits_spec` (central bracket specification) from which all the public
theorems follow by monotonicity of `bitsValue`.
-/
import Ezpz.Model.Text.Number
import Mathlib.Data.Rat.Defs
import Mathlib.Data.Nat.Log
import Mathlib.Tactic.Linarith
import Mathlib.Tactic.Ring
import Mathlib.Algebra.Order.Field.Basic
import Mathlib.Tactic.Positivity
import Mathlib.Tactic.NormNum
import Mathlib.Tactic.FieldSimp
import Mathlib.Algebra.Order.Field.Power
import Mathlib.Order.Monotone.Basic

namespace Ezpz.Text

/-- The bit pattern of `+∞` (`2047·2^52`). -/
abbrev INF : Nat := 0x7FF0000000000000

/-- Value of a non-negative binary64 bit pattern `b` (meant for finite patterns
`b < 0x7FF0000000000000`): with biased exponent `e = b / 2^52` and fraction `f = b % 2^52`, the value is
`f·2^-1074` if `e = 0` (subnormal) and `(2^52 + f)·2^(e-1075)` otherwise. The formula is total; at
`b = 0x7FF0000000000000` it yields `2^1024`, which is convenient as the upper bracket of the last binade. -/
def bitsValue (b : Nat) : ℚ :=
  if b / 2 ^ 52 = 0 then ((b % 2 ^ 52 : ℕ) : ℚ) * (2 : ℚ) ^ (-1074 : ℤ)
  else (2 ^ 52 + ((b % 2 ^ 52 : ℕ) : ℚ)) * (2 : ℚ) ^ (((b / 2 ^ 52 : ℕ) : ℤ) - 1075)

/-- Spacing of doubles at the pattern `b`: `2^(max e 1 - 1075)` with `e = b / 2^52`. -/
def ulpAt (b : Nat) : ℚ := (2 : ℚ) ^ (((max (b / 2 ^ 52) 1 : ℕ) : ℤ) - 1075)

/-- The spacing `ulpAt b` is positive. -/
theorem ulpAt_pos (b : Nat) : 0 < ulpAt b := by unfold ulpAt; positivity

/-- Uniform form of the decoder: `(f + hidden bit)·ulpAt b`. -/
theorem bitsValue_eq (b : Nat) :
    bitsValue b = (((b % 2 ^ 52 : ℕ) : ℚ) + (if b / 2 ^ 52 = 0 then 0 else 2 ^ 52)) * ulpAt b := by
  unfold bitsValue ulpAt
  by_cases h : b / 2 ^ 52 = 0
  · simp only [h, if_true]; norm_num
  · simp only [h, if_false]
    have : max (b / 2 ^ 52) 1 = b / 2 ^ 52 := by omega
    rw [this, add_comm]

/-- Sanity: the all-zero pattern decodes to `0`. -/
theorem bitsValue_zero : bitsValue 0 = 0 := by
  unfold bitsValue; norm_num

/-- Sanity: `0x3FF0000000000000` decodes to `1`. -/
theorem bitsValue_one : bitsValue 0x3FF0000000000000 = 1 := by
  unfold bitsValue; norm_num

/-- Consecutive bit patterns are consecutive doubles: the gap between the values of `b + 1` and `b`
is `ulpAt b = 2^(max e 1 - 1075)` with `e = b / 2^52` the biased exponent of `b` (holds for every `b`,
including the step from the largest finite pattern to `0x7FF0000000000000`, decoded as `2^1024`). -/
theorem bitsValue_succ_sub (b : Nat) : bitsValue (b + 1) - bitsValue b = ulpAt b := by
  by_cases hc : b % 2 ^ 52 + 1 < 2 ^ 52
  · have h1 : (b + 1) / 2 ^ 52 = b / 2 ^ 52 := by omega
    have h2 : (b + 1) % 2 ^ 52 = b % 2 ^ 52 + 1 := by omega
    rw [bitsValue_eq, bitsValue_eq, h1, h2]
    have : ulpAt (b + 1) = ulpAt b := by unfold ulpAt; rw [h1]
    rw [this]; push_cast; ring
  · have h1 : (b + 1) / 2 ^ 52 = b / 2 ^ 52 + 1 := by omega
    have h2 : (b + 1) % 2 ^ 52 = 0 := by omega
    have h3 : b % 2 ^ 52 = 2 ^ 52 - 1 := by omega
    rw [bitsValue_eq, bitsValue_eq, h1, h2, h3]
    by_cases h : b / 2 ^ 52 = 0
    · have : ulpAt (b + 1) = ulpAt b := by unfold ulpAt; rw [h1, h]; rfl
      rw [this]; simp only [h]; norm_num; ring
    · have : ulpAt (b + 1) = 2 * ulpAt b := by
        unfold ulpAt; rw [h1]
        have e1 : max (b / 2 ^ 52 + 1) 1 = b / 2 ^ 52 + 1 := by omega
        have e2 : max (b / 2 ^ 52) 1 = b / 2 ^ 52 := by omega
        rw [e1, e2]
        generalize b / 2 ^ 52 = k
        rw [show ((k + 1 : ℕ) : ℤ) - 1075 = 1 + ((k : ℤ) - 1075) by push_cast; ring,
          zpow_add₀ (by norm_num : (2 : ℚ) ≠ 0)]
        norm_num
      rw [this]; simp only [h, if_false]; norm_num; ring

/-- `bitsValue` is strictly monotone in the bit pattern (on all of `ℕ`, hence on the finite range). -/
theorem bitsValue_strictMono : StrictMono bitsValue := by
  apply strictMono_nat_of_lt_succ
  intro b
  have := bitsValue_succ_sub b
  have := ulpAt_pos b
  linarith

/-- The decoder formula extended to the pattern of `+∞` gives `2^1024` (the "next double" after the
largest finite one); used as the upper bracket for values in the last binade. -/
theorem bitsValue_INF : bitsValue INF = 2 ^ 1024 := by
  unfold bitsValue
  rw [show (2 : ℚ) ^ 1024 = 2 ^ 52 * 2 ^ 972 by rw [← pow_add]]
  norm_num


/-- The first stage of `ratToBits` (exponent estimate, shift, one-step correction), copied verbatim
from the model; returns `(e, n2, d2)`. -/
def stage1 (n d : Nat) : Int × Nat × Nat :=
  let e0 : Int := (Nat.log2 n : Int) - (Nat.log2 d : Int)
  let shift : Int := 52 - e0
  let (n', d') := if shift ≥ 0 then (n <<< shift.toNat, d) else (n, d <<< (-shift).toNat)
  let q0 := n' / d'
  if q0 ≥ 2 ^ 53 then (e0 + 1, n', d' * 2)
    else if q0 < 2 ^ 52 then (e0 - 1, n' * 2, d')
    else (e0, n', d')

/-- Arithmetic core of the normalisation: if `2^La ≤ a < 2^(La+1)`, `2^Lb ≤ b < 2^(Lb+1)` and the
shifts `s`, `t` satisfy `La + s = 52 + Lb + t`, then `2^51 < (a·2^s)/(b·2^t) < 2^53` (cross-multiplied). -/
theorem shift_bounds (a b La Lb s t : ℕ) (ha1 : 2 ^ La ≤ a) (ha2 : a < 2 ^ (La + 1))
    (hb1 : 2 ^ Lb ≤ b) (hb2 : b < 2 ^ (Lb + 1)) (h : La + s = 52 + Lb + t) :
    2 ^ 51 * (b * 2 ^ t) < a * 2 ^ s ∧ a * 2 ^ s < 2 ^ 53 * (b * 2 ^ t) := by
  have hs : 0 < 2 ^ s := Nat.pos_of_ne_zero (by positivity)
  have ht : 0 < 2 ^ t := Nat.pos_of_ne_zero (by positivity)
  constructor
  · calc 2 ^ 51 * (b * 2 ^ t) < 2 ^ 51 * (2 ^ (Lb + 1) * 2 ^ t) := by
          apply Nat.mul_lt_mul_of_pos_left _ (by norm_num)
          exact Nat.mul_lt_mul_of_pos_right hb2 ht
      _ = 2 ^ (52 + Lb + t) := by ring
      _ = 2 ^ La * 2 ^ s := by rw [← h]; ring
      _ ≤ a * 2 ^ s := Nat.mul_le_mul_right _ ha1
  · calc a * 2 ^ s < 2 ^ (La + 1) * 2 ^ s := Nat.mul_lt_mul_of_pos_right ha2 hs
      _ = 2 ^ (La + s + 1) := by ring
      _ = 2 ^ 53 * (2 ^ Lb * 2 ^ t) := by rw [h]; ring
      _ ≤ 2 ^ 53 * (b * 2 ^ t) := Nat.mul_le_mul_left _ (Nat.mul_le_mul_right _ hb1)

/-- Shifting numerator by `s` and denominator by `t` multiplies the quotient by `2^(s - t)`. -/
theorem shift_value (n d s t : ℕ) (hd : 0 < d) :
    ((n * 2 ^ s : ℕ) : ℚ) / ((d * 2 ^ t : ℕ) : ℚ) = (n : ℚ) / d * (2 : ℚ) ^ ((s : ℤ) - (t : ℤ)) := by
  have hd' : (d : ℚ) ≠ 0 := by positivity
  rw [zpow_sub₀ (by norm_num : (2 : ℚ) ≠ 0)]
  push_cast
  simp only [zpow_natCast]
  field_simp

/-- Specification of the first stage of `ratToBits` (uses `Nat.log2 = ⌊log₂⌋`): for `n, d > 0` the
computed `(e, n2, d2)` satisfy `d2 > 0`, `2^52 ≤ n2/d2 < 2^53` (cross-multiplied) and
`n/d = (n2/d2)·2^(e-52)`; i.e. `e = ⌊log₂(n/d)⌋` exactly. The proof also shows that after the shift
`2^51 < n'/d' < 2^53`, so the branch `q0 ≥ 2^53` of the model is dead code and one correction step
suffices. -/
theorem stage1_spec (n d : Nat) (hn : 0 < n) (hd : 0 < d) :
    0 < (stage1 n d).2.2 ∧ 2 ^ 52 * (stage1 n d).2.2 ≤ (stage1 n d).2.1 ∧
    (stage1 n d).2.1 < 2 ^ 53 * (stage1 n d).2.2 ∧
    (n : ℚ) / d = ((stage1 n d).2.1 : ℚ) / ((stage1 n d).2.2 : ℚ) * (2 : ℚ) ^ ((stage1 n d).1 - 52) := by
  have hn1 := Nat.log2_self_le (Nat.pos_iff_ne_zero.mp hn)
  have hn2 := @Nat.lt_log2_self n
  have hd1 := Nat.log2_self_le (Nat.pos_iff_ne_zero.mp hd)
  have hd2 := @Nat.lt_log2_self d
  -- the pair after the shift
  have key : ∃ n' d' : ℕ, 0 < d' ∧ 2 ^ 51 * d' < n' ∧ n' < 2 ^ 53 * d' ∧
      (n : ℚ) / d = (n' : ℚ) / d' * (2 : ℚ) ^ (((Nat.log2 n : Int) - (Nat.log2 d : Int)) - 52) ∧
      stage1 n d = (if n' / d' ≥ 2 ^ 53 then ((Nat.log2 n : Int) - (Nat.log2 d : Int) + 1, n', d' * 2)
        else if n' / d' < 2 ^ 52 then ((Nat.log2 n : Int) - (Nat.log2 d : Int) - 1, n' * 2, d')
        else ((Nat.log2 n : Int) - (Nat.log2 d : Int), n', d')) := by
    by_cases hs : (52 - ((Nat.log2 n : Int) - (Nat.log2 d : Int))) ≥ 0
    · obtain ⟨s, hs'⟩ := Int.eq_ofNat_of_zero_le hs
      refine ⟨n * 2 ^ s, d * 2 ^ 0, by simpa using hd, ?_, ?_, ?_, ?_⟩
      · exact (shift_bounds n d _ _ s 0 hn1 hn2 hd1 hd2 (by omega)).1
      · exact (shift_bounds n d _ _ s 0 hn1 hn2 hd1 hd2 (by omega)).2
      · rw [shift_value n d s 0 hd, mul_assoc, ← zpow_add₀ (by norm_num : (2 : ℚ) ≠ 0)]
        have : ((s : ℤ) - ((0 : ℕ) : ℤ) + ((Nat.log2 n : Int) - (Nat.log2 d : Int) - 52)) = 0 := by
          omega
        rw [this]; simp
      · unfold stage1
        have hs0 : (s : ℤ) ≥ 0 := by omega
        simp only [hs', hs0, if_true, Int.toNat_natCast, Nat.shiftLeft_eq, pow_zero, mul_one]
    · obtain ⟨t, ht'⟩ := Int.eq_ofNat_of_zero_le (a := -(52 - ((Nat.log2 n : Int) - (Nat.log2 d : Int)))) (by omega)
      refine ⟨n * 2 ^ 0, d * 2 ^ t, by positivity, ?_, ?_, ?_, ?_⟩
      · exact (shift_bounds n d _ _ 0 t hn1 hn2 hd1 hd2 (by omega)).1
      · exact (shift_bounds n d _ _ 0 t hn1 hn2 hd1 hd2 (by omega)).2
      · rw [shift_value n d 0 t hd, mul_assoc, ← zpow_add₀ (by norm_num : (2 : ℚ) ≠ 0)]
        have : (((0 : ℕ) : ℤ) - (t : ℤ) + ((Nat.log2 n : Int) - (Nat.log2 d : Int) - 52)) = 0 := by
          omega
        rw [this]; simp
      · unfold stage1
        simp only [hs, if_false, ht', Int.toNat_natCast, Nat.shiftLeft_eq, pow_zero, mul_one]
  obtain ⟨n', d', hd', h1, h2, hv, hst⟩ := key
  rw [hst]
  have hq53 : ¬ (n' / d' ≥ 2 ^ 53) := by
    rw [ge_iff_le, not_le]; exact (Nat.div_lt_iff_lt_mul hd').mpr h2
  simp only [hq53, if_false]
  by_cases hq52 : n' / d' < 2 ^ 52
  · simp only [hq52, if_true]
    have h3 : n' < 2 ^ 52 * d' := (Nat.div_lt_iff_lt_mul hd').mp hq52
    refine ⟨hd', by omega, by omega, ?_⟩
    rw [hv]
    have hd'' : (d' : ℚ) ≠ 0 := by positivity
    have : ((Nat.log2 n : Int) - (Nat.log2 d : Int) - 52) = ((Nat.log2 n : Int) - (Nat.log2 d : Int) - 1 - 52) + 1 := by ring
    rw [this, zpow_add₀ (by norm_num : (2 : ℚ) ≠ 0)]
    push_cast
    field_simp
  · simp only [hq52, if_false]
    have h3 : 2 ^ 52 * d' ≤ n' := by
      rw [not_lt] at hq52
      have := (Nat.le_div_iff_mul_le hd').mp hq52
      omega
    exact ⟨hd', h3, h2, hv⟩



/-- Round-half-even of `n / d` on naturals, exactly the expression used (twice) in `ratToBits`. -/
def roundHE (n d : Nat) : Nat :=
  if 2 * (n % d) > d ∨ (2 * (n % d) = d ∧ (n / d) % 2 = 1) then n / d + 1 else n / d

/-- The second stage of `ratToBits` (rounding and packing), copied verbatim from the model. -/
def finish (e : Int) (n2 d2 : Nat) : UInt64 :=
  let biased : Int := e + 1023
  if biased ≥ 2047 then 0x7FF0000000000000 else
  if biased ≥ 1 then
    let q := n2 / d2
    let r := n2 % d2
    let q := if 2 * r > d2 ∨ (2 * r = d2 ∧ q % 2 = 1) then q + 1 else q
    -- rounding may carry into the next binade
    let (q, biased) := if q ≥ 2 ^ 53 then (q / 2, biased + 1) else (q, biased)
    if biased ≥ 2047 then 0x7FF0000000000000
    else UInt64.ofNat ((biased.toNat <<< 52) + (q - 2 ^ 52))
  else
    -- subnormal: value = m · 2^-1074
    let extra : Nat := (1 - biased).toNat
    let d3 := d2 <<< extra
    let q := n2 / d3
    let r := n2 % d3
    let q := if 2 * r > d3 ∨ (2 * r = d3 ∧ q % 2 = 1) then q + 1 else q
    UInt64.ofNat q

/-- `roundHE n d` is `⌊n/d⌋` (only if the remainder is at most half) or `⌊n/d⌋ + 1` (only if the
remainder is at least half). -/
theorem roundHE_cases (n d : Nat) :
    (roundHE n d = n / d ∧ 2 * (n % d) ≤ d) ∨ (roundHE n d = n / d + 1 ∧ d ≤ 2 * (n % d)) := by
  unfold roundHE
  split <;> omega

/-- On an exact tie (`2·(n mod d) = d`) `roundHE` returns an even number. -/
theorem roundHE_tie (n d : Nat) (h : 2 * (n % d) = d) : roundHE n d % 2 = 0 := by
  unfold roundHE
  split <;> omega

/-- If `a ≤ n/d < b` (cross-multiplied) then `a ≤ roundHE n d ≤ b`. -/
theorem roundHE_bounds (n d a b : Nat) (hd : 0 < d) (ha : a * d ≤ n) (hb : n < b * d) :
    a ≤ roundHE n d ∧ roundHE n d ≤ b := by
  have h1 : a ≤ n / d := (Nat.le_div_iff_mul_le hd).mpr ha
  have h2 : n / d < b := (Nat.div_lt_iff_lt_mul hd).mpr hb
  rcases roundHE_cases n d with h | h <;> omega

/-- Tail of `ratToBits`: exponent `e ≥ 1024` yields the bits of `+∞`. -/
theorem finish_overflow (e : Int) (n2 d2 : Nat) (he : e ≥ 1024) :
    finish e n2 d2 = 0x7FF0000000000000 := by
  unfold finish
  have : e + 1023 ≥ 2047 := by omega
  simp only [this, if_true]

/-- Tail of `ratToBits`, normal branch: with biased exponent `B = e + 1023 ∈ [1, 2046]` and
`2^52 ≤ n2/d2 < 2^53`, the result bits are `B·2^52 + (roundHE n2 d2 - 2^52)`, uniformly in whether the
rounding carries into the next binade or overflows to `+∞` (= `2047·2^52`). -/
theorem finish_normal (e : Int) (n2 d2 B : Nat) (hB : e + 1023 = (B : Int)) (hB1 : 1 ≤ B)
    (hB2 : B < 2047) (hd : 0 < d2) (h1 : 2 ^ 52 * d2 ≤ n2) (h2 : n2 < 2 ^ 53 * d2) :
    (finish e n2 d2).toNat = B * 2 ^ 52 + (roundHE n2 d2 - 2 ^ 52) := by
  obtain ⟨hR1, hR2⟩ := roundHE_bounds n2 d2 (2 ^ 52) (2 ^ 53) hd h1 h2
  unfold finish
  have c1 : ¬ ((B : Int) ≥ 2047) := by omega
  have c2 : (B : Int) ≥ 1 := by omega
  simp only [hB, c1, c2, if_true, if_false]
  change (match (if roundHE n2 d2 ≥ 2 ^ 53 then (roundHE n2 d2 / 2, (B : Int) + 1) else (roundHE n2 d2, (B : Int))) with
    | (q, biased) => if biased ≥ 2047 then (0x7FF0000000000000 : UInt64)
        else UInt64.ofNat ((biased.toNat <<< 52) + (q - 2 ^ 52))).toNat = _
  by_cases hc : roundHE n2 d2 ≥ 2 ^ 53
  · simp only [hc, if_true]
    have hR : roundHE n2 d2 = 2 ^ 53 := le_antisymm hR2 hc
    by_cases hB3 : (B : Int) + 1 ≥ 2047
    · simp only [hB3, if_true]
      have : B = 2046 := by omega
      rw [hR, this]; decide
    · simp only [hB3, if_false]
      rw [UInt64.toNat_ofNat', hR, show ((B : Int) + 1).toNat = B + 1 by omega, Nat.shiftLeft_eq]
      rw [Nat.mod_eq_of_lt] <;> omega
  · simp only [hc, if_false, c1]
    rw [UInt64.toNat_ofNat', Int.toNat_natCast, Nat.shiftLeft_eq]
    rw [Nat.mod_eq_of_lt]
    omega

/-- Tail of `ratToBits`, subnormal branch (`e < -1022`): the result bits are
`roundHE n2 (d2·2^X)` with `X = -1022 - e`, and this is at most `2^52` (so it fits in the word and may
carry into the smallest normal). -/
theorem finish_subnormal (e : Int) (n2 d2 X : Nat) (hX : (X : Int) = -1022 - e) (hX1 : 1 ≤ X)
    (hd : 0 < d2) (h2 : n2 < 2 ^ 53 * d2) :
    (finish e n2 d2).toNat = roundHE n2 (d2 * 2 ^ X) ∧ roundHE n2 (d2 * 2 ^ X) ≤ 2 ^ 52 := by
  have hpow : 2 * 2 ^ (X - 1) = 2 ^ X := by
    rw [← pow_succ']; congr 1; omega
  have hlt : n2 < 2 ^ 52 * (d2 * 2 ^ X) := by
    have : 1 ≤ 2 ^ (X - 1) := Nat.one_le_two_pow
    calc n2 < 2 ^ 53 * d2 := h2
      _ = 2 ^ 52 * (d2 * 2) := by ring
      _ ≤ 2 ^ 52 * (d2 * (2 * 2 ^ (X - 1))) := by
          apply Nat.mul_le_mul_left; apply Nat.mul_le_mul_left; omega
      _ = 2 ^ 52 * (d2 * 2 ^ X) := by rw [hpow]
  have hR := (roundHE_bounds n2 (d2 * 2 ^ X) 0 (2 ^ 52) (by positivity) (by omega) hlt).2
  refine ⟨?_, hR⟩
  unfold finish
  have c1 : ¬ (e + 1023 ≥ 2047) := by omega
  have c2 : ¬ (e + 1023 ≥ 1) := by omega
  have c3 : (1 - (e + 1023)).toNat = X := by omega
  simp only [c1, c2, if_false, c3, Nat.shiftLeft_eq]
  change (UInt64.ofNat (roundHE n2 (d2 * 2 ^ X))).toNat = _
  rw [UInt64.toNat_ofNat', Nat.mod_eq_of_lt]
  omega


/-- `ratToBits` is the composition of `stage1` (normalisation) and `finish` (rounding and packing). -/
theorem ratToBits_eq (n d : Nat) (hn : n ≠ 0) :
    ratToBits n d = finish (stage1 n d).1 (stage1 n d).2.1 (stage1 n d).2.2 := by
  unfold ratToBits stage1 finish
  simp only [hn, if_false]

/-- Rational half-ulp lemma for `roundHE`: if `v = (N/D)·u` and `lo = ⌊N/D⌋·u` with `u > 0`, then
`lo ≤ v < lo + u`, `roundHE` picks the end of `[lo, lo+u]` closer to `v`, and on a tie the rounded
integer is even. -/
theorem round_bracket (N D : ℕ) (hD : 0 < D) (u lo v : ℚ) (hu : 0 < u)
    (hlo : lo = ((N / D : ℕ) : ℚ) * u) (hv : v = (N : ℚ) / D * u) :
    lo ≤ v ∧ v < lo + u ∧
    ((roundHE N D = N / D ∧ v - lo ≤ lo + u - v) ∨
      (roundHE N D = N / D + 1 ∧ lo + u - v ≤ v - lo)) ∧
    (v - lo = lo + u - v → roundHE N D % 2 = 0) := by
  have hdm : D * (N / D) + N % D = N := Nat.div_add_mod N D
  have hr : N % D < D := Nat.mod_lt _ hD
  have hD' : (0 : ℚ) < D := by exact_mod_cast hD
  have hNq : (N : ℚ) = D * ((N / D : ℕ) : ℚ) + ((N % D : ℕ) : ℚ) := by exact_mod_cast hdm.symm
  have hx : v - lo = ((N % D : ℕ) : ℚ) / D * u := by
    rw [hv, hlo, hNq]; field_simp; ring
  have hy : lo + u - v = (D - ((N % D : ℕ) : ℚ)) / D * u := by
    rw [hv, hlo, hNq]; field_simp; ring
  have hr' : ((N % D : ℕ) : ℚ) < D := by exact_mod_cast hr
  have hr0 : (0 : ℚ) ≤ ((N % D : ℕ) : ℚ) := by positivity
  have hdiff : (lo + u - v) - (v - lo) = (D - 2 * ((N % D : ℕ) : ℚ)) / D * u := by
    rw [hx, hy]; field_simp; ring
  have hpos : 0 < u / D := by positivity
  have hdiff' : (lo + u - v) - (v - lo) = (D - 2 * ((N % D : ℕ) : ℚ)) * (u / D) := by
    rw [hdiff]; field_simp
  refine ⟨?_, ?_, ?_, ?_⟩
  · have : 0 ≤ v - lo := by rw [hx]; positivity
    linarith
  · have : 0 < lo + u - v := by
      rw [hy]; apply mul_pos _ hu; apply div_pos _ hD'; linarith
    linarith
  · rcases roundHE_cases N D with ⟨h1, h2⟩ | ⟨h1, h2⟩
    · left; refine ⟨h1, ?_⟩
      have h2' : 2 * ((N % D : ℕ) : ℚ) ≤ D := by exact_mod_cast h2
      have : 0 ≤ (D - 2 * ((N % D : ℕ) : ℚ)) * (u / D) := mul_nonneg (by linarith) hpos.le
      linarith
    · right; refine ⟨h1, ?_⟩
      have h2' : (D : ℚ) ≤ 2 * ((N % D : ℕ) : ℚ) := by exact_mod_cast h2
      have : 0 ≤ (2 * ((N % D : ℕ) : ℚ) - D) * (u / D) := mul_nonneg (by linarith) hpos.le
      linarith
  · intro h
    apply roundHE_tie
    have h0 : (D - 2 * ((N % D : ℕ) : ℚ)) * (u / D) = 0 := by rw [← hdiff']; linarith
    rcases mul_eq_zero.mp h0 with h0 | h0
    · have : (2 * (N % D) : ℕ) = ((D : ℕ) : ℚ) := by push_cast; linarith
      exact_mod_cast this
    · exact absurd h0 hpos.ne'

/-- Abstract nearest lemma: for a strictly monotone `f`, if `f b0 ≤ v ≤ f (b0+1)` and `b` is whichever
of `b0`, `b0+1` is closer to `v`, then `f b` is at least as close to `v` as any `f c`. -/
theorem nearest_abs (f : ℕ → ℚ) (hf : StrictMono f) (b0 b : ℕ) (v : ℚ) (hlo : f b0 ≤ v)
    (hhi : v ≤ f (b0 + 1))
    (hb : (b = b0 ∧ v - f b0 ≤ f (b0 + 1) - v) ∨ (b = b0 + 1 ∧ f (b0 + 1) - v ≤ v - f b0))
    (c : ℕ) : |v - f b| ≤ |v - f c| := by
  have hbb : |v - f b| ≤ v - f b0 ∧ |v - f b| ≤ f (b0 + 1) - v := by
    rcases hb with ⟨rfl, h⟩ | ⟨rfl, h⟩
    · rw [abs_of_nonneg (by linarith)]; exact ⟨le_refl _, h⟩
    · rw [abs_of_nonpos (by linarith)]; exact ⟨by linarith, by linarith⟩
  rcases Nat.lt_or_ge b0 c with hc | hc
  · have : f (b0 + 1) ≤ f c := hf.monotone hc
    rw [abs_of_nonpos (by linarith : v - f c ≤ 0)]; linarith
  · have : f c ≤ f b0 := hf.monotone hc
    rw [abs_of_nonneg (by linarith : 0 ≤ v - f c)]; linarith

/-- Abstract tie lemma: in the situation of `nearest_abs`, if some `c ≠ b` is as close to `v` as `b`
then `v` is exactly the midpoint of `f b0` and `f (b0+1)`. -/
theorem tie_abs (f : ℕ → ℚ) (hf : StrictMono f) (b0 b : ℕ) (v : ℚ) (hlo : f b0 ≤ v)
    (hhi : v ≤ f (b0 + 1))
    (hb : (b = b0 ∧ v - f b0 ≤ f (b0 + 1) - v) ∨ (b = b0 + 1 ∧ f (b0 + 1) - v ≤ v - f b0))
    (c : ℕ) (hcb : c ≠ b) (heq : |v - f c| = |v - f b|) : v - f b0 = f (b0 + 1) - v := by
  have hbb : |v - f b| ≤ v - f b0 ∧ |v - f b| ≤ f (b0 + 1) - v := by
    rcases hb with ⟨rfl, h⟩ | ⟨rfl, h⟩
    · rw [abs_of_nonneg (by linarith)]; exact ⟨le_refl _, h⟩
    · rw [abs_of_nonpos (by linarith)]; exact ⟨by linarith, by linarith⟩
  rcases Nat.lt_trichotomy c b0 with hc | hc | hc
  · have : f c < f b0 := hf hc
    rw [abs_of_nonneg (by linarith : 0 ≤ v - f c)] at heq; linarith
  · subst hc
    rcases hb with ⟨rfl, h⟩ | ⟨rfl, h⟩
    · exact absurd rfl hcb
    · rw [abs_of_nonneg (by linarith), abs_of_nonpos (by linarith)] at heq; linarith
  · rcases Nat.lt_or_ge (b0 + 1) c with hc' | hc'
    · have : f (b0 + 1) < f c := hf hc'
      rw [abs_of_nonpos (by linarith : v - f c ≤ 0)] at heq; linarith
    · have hc2 : c = b0 + 1 := by omega
      subst hc2
      rcases hb with ⟨rfl, h⟩ | ⟨rfl, h⟩
      · rw [abs_of_nonpos (by linarith), abs_of_nonneg (by linarith)] at heq; linarith
      · exact absurd rfl hcb

/-- The bracket specification of a conversion result `b` for the value `v`: there is a finite floor
pattern `b0` with `bitsValue b0 ≤ v < bitsValue (b0+1)`, `b` is whichever of `b0`, `b0+1` is closer, and
on a tie `b` is even. -/
def Bracket (v : ℚ) (b : ℕ) : Prop :=
  ∃ b0, b0 < INF ∧ bitsValue b0 ≤ v ∧ v < bitsValue (b0 + 1) ∧
    ((b = b0 ∧ v - bitsValue b0 ≤ bitsValue (b0 + 1) - v) ∨
      (b = b0 + 1 ∧ bitsValue (b0 + 1) - v ≤ v - bitsValue b0)) ∧
    (v - bitsValue b0 = bitsValue (b0 + 1) - v → b % 2 = 0)

/-- From a floor pattern `b0` with value `⌊N/D⌋·ulp`, `v = (N/D)·ulp`, matching parity and
`b = b0 + (roundHE N D - ⌊N/D⌋)` one obtains the bracket specification of `b`. -/
theorem bracket_of_round (N D b0 b : ℕ) (hD : 0 < D) (v : ℚ) (hb0 : b0 < INF)
    (hlo : bitsValue b0 = ((N / D : ℕ) : ℚ) * ulpAt b0) (hv : v = (N : ℚ) / D * ulpAt b0)
    (hb : b + N / D = b0 + roundHE N D) (hpar : b0 % 2 = (N / D) % 2) : Bracket v b := by
  have hsucc : bitsValue (b0 + 1) = bitsValue b0 + ulpAt b0 := by
    have := bitsValue_succ_sub b0; linarith
  obtain ⟨h1, h2, h3, h4⟩ := round_bracket N D hD (ulpAt b0) (bitsValue b0) v (ulpAt_pos b0) hlo hv
  refine ⟨b0, hb0, h1, by rw [hsucc]; exact h2, ?_, ?_⟩
  · rw [hsucc]
    rcases h3 with ⟨e, h⟩ | ⟨e, h⟩
    · left; exact ⟨by omega, h⟩
    · right; exact ⟨by omega, h⟩
  · rw [hsucc]; intro h
    have := h4 h
    rcases h3 with ⟨e, _⟩ | ⟨e, _⟩ <;> omega

/-- `2^(a+b) = 2^a·2^b` for integer exponents. -/
theorem two_zpow_add (a b : ℤ) : (2 : ℚ) ^ (a + b) = 2 ^ a * 2 ^ b :=
  zpow_add₀ (by norm_num) a b

/-- Bracket specification of the normal branch of `finish`. -/
theorem finish_bracket_normal (e : Int) (n2 d2 : Nat) (he1 : -1022 ≤ e) (he2 : e ≤ 1023)
    (hd : 0 < d2) (h1 : 2 ^ 52 * d2 ≤ n2) (h2 : n2 < 2 ^ 53 * d2) (v : ℚ)
    (hv : v = (n2 : ℚ) / d2 * (2 : ℚ) ^ (e - 52)) :
    Bracket v (finish e n2 d2).toNat := by
  obtain ⟨B, hB⟩ := Int.eq_ofNat_of_zero_le (a := e + 1023) (by omega)
  have hfin := finish_normal e n2 d2 B hB (by omega) (by omega) hd h1 h2
  obtain ⟨hR1, hR2⟩ := roundHE_bounds n2 d2 (2 ^ 52) (2 ^ 53) hd h1 h2
  have hq1 : 2 ^ 52 ≤ n2 / d2 := (Nat.le_div_iff_mul_le hd).mpr h1
  have hq2 : n2 / d2 < 2 ^ 53 := (Nat.div_lt_iff_lt_mul hd).mpr h2
  have aux : ∀ q : ℕ, 2 ^ 52 ≤ q → q < 2 ^ 53 →
      (B * 2 ^ 52 + (q - 2 ^ 52)) / 2 ^ 52 = B ∧
      (B * 2 ^ 52 + (q - 2 ^ 52)) % 2 ^ 52 = q - 2 ^ 52 ∧
      (B * 2 ^ 52 + (q - 2 ^ 52)) % 2 = q % 2 ∧ B * 2 ^ 52 + (q - 2 ^ 52) < INF ∧
      B * 2 ^ 52 + (roundHE n2 d2 - 2 ^ 52) + q = B * 2 ^ 52 + (q - 2 ^ 52) + roundHE n2 d2 := by
    intro q h1 h2; unfold INF; omega
  obtain ⟨hdiv, hmod, hpar, hlt, hbb⟩ := aux (n2 / d2) hq1 hq2
  have hulp : ulpAt (B * 2 ^ 52 + (n2 / d2 - 2 ^ 52)) = (2 : ℚ) ^ (e - 52) := by
    unfold ulpAt; rw [hdiv]
    have : max B 1 = B := by omega
    rw [this, show ((B : ℕ) : ℤ) - 1075 = e - 52 by omega]
  have hcast : (((n2 / d2 - 2 ^ 52 : ℕ) : ℚ) + 2 ^ 52) = ((n2 / d2 : ℕ) : ℚ) := by
    rw [Nat.cast_sub hq1]; push_cast; ring
  apply bracket_of_round n2 d2 (B * 2 ^ 52 + (n2 / d2 - 2 ^ 52)) _ hd v hlt
  · rw [bitsValue_eq, hdiv, hmod, if_neg (by omega), hcast]
  · rw [hulp, hv]
  · rw [hfin]; exact hbb
  · exact hpar

/-- Bracket specification of the subnormal branch of `finish`. -/
theorem finish_bracket_subnormal (e : Int) (n2 d2 : Nat) (he1 : e < -1022)
    (hd : 0 < d2) (h2 : n2 < 2 ^ 53 * d2) (v : ℚ)
    (hv : v = (n2 : ℚ) / d2 * (2 : ℚ) ^ (e - 52)) :
    Bracket v (finish e n2 d2).toNat := by
  obtain ⟨X, hX⟩ := Int.eq_ofNat_of_zero_le (a := -1022 - e) (by omega)
  obtain ⟨hfin, hR⟩ := finish_subnormal e n2 d2 X hX.symm (by omega) hd h2
  have hD : 0 < d2 * 2 ^ X := by positivity
  have hq : n2 / (d2 * 2 ^ X) ≤ 2 ^ 52 := by
    rcases roundHE_cases n2 (d2 * 2 ^ X) with h | h <;> omega
  have hlt : n2 < 2 ^ 52 * (d2 * 2 ^ X) := by
    have hpow : 2 * 2 ^ (X - 1) = 2 ^ X := by
      rw [← pow_succ']; congr 1; omega
    have : 1 ≤ 2 ^ (X - 1) := Nat.one_le_two_pow
    calc n2 < 2 ^ 53 * d2 := h2
      _ = 2 ^ 52 * (d2 * 2) := by ring
      _ ≤ 2 ^ 52 * (d2 * (2 * 2 ^ (X - 1))) := by
          apply Nat.mul_le_mul_left; apply Nat.mul_le_mul_left; omega
      _ = 2 ^ 52 * (d2 * 2 ^ X) := by rw [hpow]
  have hq' : n2 / (d2 * 2 ^ X) < 2 ^ 52 := (Nat.div_lt_iff_lt_mul hD).mpr hlt
  have hdiv : n2 / (d2 * 2 ^ X) / 2 ^ 52 = 0 := Nat.div_eq_of_lt hq'
  have hmod : n2 / (d2 * 2 ^ X) % 2 ^ 52 = n2 / (d2 * 2 ^ X) := Nat.mod_eq_of_lt hq'
  have hulp : ulpAt (n2 / (d2 * 2 ^ X)) = (2 : ℚ) ^ (-1074 : ℤ) := by
    unfold ulpAt; rw [hdiv]; norm_num
  apply bracket_of_round n2 (d2 * 2 ^ X) (n2 / (d2 * 2 ^ X)) _ hD v
  · unfold INF
    omega
  · rw [bitsValue_eq, hdiv, hmod, if_pos rfl, add_zero]
  · rw [hulp, hv]
    have : e - 52 = -(X : ℤ) + (-1074) := by omega
    rw [this, two_zpow_add, zpow_neg, zpow_natCast]
    have hd' : (d2 : ℚ) ≠ 0 := by positivity
    push_cast
    field_simp
  · rw [hfin]; omega
  · rfl

/-- Central specification of `ratToBits` for `n, d > 0`: either `n/d ≥ 2^1024` and the result is `+∞`,
or the result satisfies the bracket specification `Bracket (n/d) b`. -/
theorem ratToBits_spec (n d : Nat) (hn : 0 < n) (hd : 0 < d) :
    ((2 : ℚ) ^ 1024 ≤ (n : ℚ) / d ∧ ratToBits n d = 0x7FF0000000000000) ∨
      Bracket ((n : ℚ) / d) (ratToBits n d).toNat := by
  obtain ⟨hd2, h1, h2, hv⟩ := stage1_spec n d hn hd
  rw [ratToBits_eq n d (by omega)]
  generalize (stage1 n d).1 = e at *
  generalize (stage1 n d).2.1 = n2 at *
  generalize (stage1 n d).2.2 = d2 at *
  by_cases he : e ≥ 1024
  · left
    refine ⟨?_, finish_overflow e n2 d2 he⟩
    rw [hv]
    have hd' : (0 : ℚ) < d2 := by exact_mod_cast hd2
    have hq : (2 : ℚ) ^ 52 ≤ (n2 : ℚ) / d2 := by
      rw [le_div_iff₀ hd']; exact_mod_cast h1
    have hz : (2 : ℚ) ^ ((1024 : ℤ) - 52) ≤ (2 : ℚ) ^ (e - 52) :=
      zpow_le_zpow_right₀ (by norm_num) (by omega)
    calc (2 : ℚ) ^ 1024 = 2 ^ 52 * 2 ^ ((1024 : ℤ) - 52) := by
          rw [show ((1024 : ℤ) - 52) = ((972 : ℕ) : ℤ) by norm_num, zpow_natCast, ← pow_add]
      _ ≤ (n2 : ℚ) / d2 * 2 ^ (e - 52) := by
          apply mul_le_mul hq hz (by positivity) (by positivity)
  · right
    by_cases he1 : -1022 ≤ e
    · exact finish_bracket_normal e n2 d2 he1 (by omega) hd2 h1 h2 _ hv
    · exact finish_bracket_subnormal e n2 d2 (by omega) hd2 h2 _ hv

/-- The largest finite double `0x7FEFFFFFFFFFFFFF` has value `2^1024 - 2^971`. -/
theorem bitsValue_INF_pred : bitsValue (INF - 1) = 2 ^ 1024 - 2 ^ 971 := by
  have h1 : (INF - 1) / 2 ^ 52 = 2046 := by unfold INF; norm_num
  have h2 : (INF - 1) % 2 ^ 52 = 2 ^ 52 - 1 := by unfold INF; norm_num
  unfold bitsValue
  rw [h1, h2, if_neg (by norm_num)]
  rw [show (2 : ℚ) ^ 1024 = 2 ^ 53 * 2 ^ 971 by rw [← pow_add]]
  norm_num
  ring

/-- The result of `ratToBits` is a finite non-negative pattern or exactly the pattern of `+∞`. -/
theorem ratToBits_finite_or_inf (n d : Nat) (hn : 0 < n) (hd : 0 < d) :
    (ratToBits n d).toNat ≤ 0x7FF0000000000000 := by
  rcases ratToBits_spec n d hn hd with ⟨_, h⟩ | ⟨b0, hb0, _, _, h, _⟩
  · rw [h]; decide
  · unfold INF at hb0
    rcases h with ⟨h, _⟩ | ⟨h, _⟩ <;> omega

/-- A finite result of `ratToBits` satisfies the bracket specification. -/
theorem bracket_of_finite (n d : Nat) (hn : 0 < n) (hd : 0 < d)
    (hfin : (ratToBits n d).toNat < 0x7FF0000000000000) :
    Bracket ((n : ℚ) / d) (ratToBits n d).toNat := by
  rcases ratToBits_spec n d hn hd with ⟨_, h⟩ | h
  · rw [h] at hfin; exact absurd hfin (by decide)
  · exact h

/-- Nearest, strong form: a finite result is at least as close to `n/d` as the value of *any* pattern
`c : ℕ` (including `0x7FF0000000000000` decoded as `2^1024`). -/
theorem ratToBits_nearest_all (n d : Nat) (hn : 0 < n) (hd : 0 < d)
    (hfin : (ratToBits n d).toNat < 0x7FF0000000000000) (c : ℕ) :
    |(n : ℚ) / d - bitsValue (ratToBits n d).toNat| ≤ |(n : ℚ) / d - bitsValue c| := by
  obtain ⟨b0, _, h1, h2, h3, _⟩ := bracket_of_finite n d hn hd hfin
  exact nearest_abs bitsValue bitsValue_strictMono b0 _ _ h1 h2.le h3 c

/-- Correct rounding: if `ratToBits n d` is finite, its value is at least as close to `n/d` as every
finite binary64 value. -/
theorem ratToBits_nearest (n d : Nat) (hn : 0 < n) (hd : 0 < d)
    (hfin : (ratToBits n d).toNat < 0x7FF0000000000000) (c : ℕ) (_hc : c < 0x7FF0000000000000) :
    |(n : ℚ) / d - bitsValue (ratToBits n d).toNat| ≤ |(n : ℚ) / d - bitsValue c| :=
  ratToBits_nearest_all n d hn hd hfin c

/-- Ties to even, strong form (competitor `c` ranges over all of `ℕ`). -/
theorem ratToBits_ties_even_all (n d : Nat) (hn : 0 < n) (hd : 0 < d)
    (hfin : (ratToBits n d).toNat < 0x7FF0000000000000) (c : ℕ)
    (hne : c ≠ (ratToBits n d).toNat)
    (heq : |(n : ℚ) / d - bitsValue c| = |(n : ℚ) / d - bitsValue (ratToBits n d).toNat|) :
    (ratToBits n d).toNat % 2 = 0 := by
  obtain ⟨b0, _, h1, h2, h3, h4⟩ := bracket_of_finite n d hn hd hfin
  exact h4 (tie_abs bitsValue bitsValue_strictMono b0 _ _ h1 h2.le h3 c hne heq)

/-- Ties to even: if a finite pattern `c` different from the (finite) result is equally close to
`n/d`, then the result has an even mantissa (even bit pattern). -/
theorem ratToBits_ties_even (n d : Nat) (hn : 0 < n) (hd : 0 < d)
    (hfin : (ratToBits n d).toNat < 0x7FF0000000000000) (c : ℕ) (_hc : c < 0x7FF0000000000000)
    (hne : c ≠ (ratToBits n d).toNat)
    (heq : |(n : ℚ) / d - bitsValue c| = |(n : ℚ) / d - bitsValue (ratToBits n d).toNat|) :
    (ratToBits n d).toNat % 2 = 0 :=
  ratToBits_ties_even_all n d hn hd hfin c hne heq

/-- Half-ulp statement: a finite result `b` is `b0` or `b0+1` where `bitsValue b0 ≤ n/d <
bitsValue (b0+1)`, the bracket has width `2^(max e 1 - 1075)` (`e` the biased exponent of `b0`; in the
normal range this is `2^(⌊log₂ v⌋-52)`, in the subnormal range `2^-1074`), the error is at most half that
width, and if it is exactly half then `b` is even. -/
theorem ratToBits_half_ulp (n d : Nat) (hn : 0 < n) (hd : 0 < d)
    (hfin : (ratToBits n d).toNat < 0x7FF0000000000000) :
    ∃ b0 : ℕ, ((ratToBits n d).toNat = b0 ∨ (ratToBits n d).toNat = b0 + 1) ∧
      bitsValue b0 ≤ (n : ℚ) / d ∧ (n : ℚ) / d < bitsValue (b0 + 1) ∧
      bitsValue (b0 + 1) - bitsValue b0 = (2 : ℚ) ^ (((max (b0 / 2 ^ 52) 1 : ℕ) : ℤ) - 1075) ∧
      |(n : ℚ) / d - bitsValue (ratToBits n d).toNat|
        ≤ (2 : ℚ) ^ (((max (b0 / 2 ^ 52) 1 : ℕ) : ℤ) - 1075) / 2 ∧
      (|(n : ℚ) / d - bitsValue (ratToBits n d).toNat|
        = (2 : ℚ) ^ (((max (b0 / 2 ^ 52) 1 : ℕ) : ℤ) - 1075) / 2 → (ratToBits n d).toNat % 2 = 0) := by
  obtain ⟨b0, _, h1, h2, h3, h4⟩ := bracket_of_finite n d hn hd hfin
  have hs := bitsValue_succ_sub b0
  unfold ulpAt at hs
  refine ⟨b0, ?_, h1, h2, hs, ?_, ?_⟩
  · rcases h3 with ⟨h, _⟩ | ⟨h, _⟩
    · left; exact h
    · right; exact h
  · rw [← hs]
    rcases h3 with ⟨h, h'⟩ | ⟨h, h'⟩
    · rw [h, abs_of_nonneg (by linarith)]; linarith
    · rw [h, abs_of_nonpos (by linarith)]; linarith
  · rw [← hs]
    intro h5
    apply h4
    rcases h3 with ⟨h, h'⟩ | ⟨h, h'⟩
    · rw [h, abs_of_nonneg (by linarith)] at h5; linarith
    · rw [h, abs_of_nonpos (by linarith)] at h5; linarith

/-- Exact overflow boundary: the result is `+∞` iff `n/d ≥ 2^1024 - 2^970 = (2 - 2^-53)·2^1023`
(at exactly that value the tie goes to even, which is the overflow). -/
theorem ratToBits_overflow (n d : Nat) (hn : 0 < n) (hd : 0 < d) :
    (ratToBits n d).toNat = 0x7FF0000000000000 ↔ (2 : ℚ) ^ 1024 - 2 ^ 970 ≤ (n : ℚ) / d := by
  have hA : (0 : ℚ) < 2 ^ 970 := by positivity
  have e1 : (2 : ℚ) ^ 971 = 2 * 2 ^ 970 := by rw [pow_succ]; ring
  have hP := bitsValue_INF_pred
  have hI := bitsValue_INF
  rw [e1] at hP
  clear e1
  have hspec := ratToBits_spec n d hn hd
  generalize (2 : ℚ) ^ 970 = A at *
  generalize (2 : ℚ) ^ 1024 = T at *
  constructor
  · intro hb
    rcases hspec with ⟨h, _⟩ | ⟨b0, hb0, h1, h2, h3, h4⟩
    · linarith
    · rcases h3 with ⟨h, _⟩ | ⟨h, h'⟩
      · unfold INF at hb0; omega
      · have hb0' : b0 = INF - 1 := by unfold INF; omega
        have hb1 : b0 + 1 = INF := by unfold INF; omega
        rw [hb1, hI, hb0', hP] at h'
        linarith
  · intro hv
    rcases hspec with ⟨_, h⟩ | ⟨b0, hb0, h1, h2, h3, h4⟩
    · rw [h]; decide
    · have hb0' : b0 = INF - 1 := by
        by_contra hne
        have : b0 + 1 ≤ INF - 1 := by unfold INF at *; omega
        have := bitsValue_strictMono.monotone this
        rw [hP] at this
        linarith
      have hb1 : b0 + 1 = INF := by unfold INF at *; omega
      rw [hb1, hI, hb0', hP] at h3 h4
      rcases h3 with ⟨h, h'⟩ | ⟨h, h'⟩
      · have := h4 (by linarith)
        rw [h] at this
        exact absurd this (by unfold INF; decide)
      · rw [h]

/-- Representable numbers (normal or subnormal, including those with even or odd mantissa) are returned
exactly: if `n/d = bitsValue c` for a finite `c` then `ratToBits n d = c`. -/
theorem ratToBits_exact (n d : Nat) (hn : 0 < n) (hd : 0 < d) (c : ℕ)
    (hc : c < 0x7FF0000000000000) (hv : (n : ℚ) / d = bitsValue c) :
    ratToBits n d = UInt64.ofNat c := by
  have key : (ratToBits n d).toNat = c := by
    rcases ratToBits_spec n d hn hd with ⟨h, _⟩ | ⟨b0, hb0, h1, h2, h3, h4⟩
    · have : bitsValue c < bitsValue INF := bitsValue_strictMono hc
      rw [bitsValue_INF] at this; linarith
    · rw [hv] at h1 h2 h3
      have l1 : b0 ≤ c := bitsValue_strictMono.le_iff_le.mp h1
      have l2 : c < b0 + 1 := bitsValue_strictMono.lt_iff_lt.mp h2
      have : c = b0 := by omega
      subst this
      rcases h3 with ⟨h, _⟩ | ⟨_, h'⟩
      · exact h
      · linarith
  apply UInt64.toNat_inj.mp
  rw [key, UInt64.toNat_ofNat', Nat.mod_eq_of_lt (by omega)]

/-- The bits computed inside `decToFloat` before the sign is applied (copied verbatim from the model). -/
def decBits (mant : Nat) (exp10 : Int) : UInt64 :=
  if mant = 0 then (0 : UInt64)
  else if exp10 ≥ 0 then
    if exp10 > 400 then 0x7FF0000000000000 else ratToBits (mant * 10 ^ exp10.toNat) 1
  else
    if -exp10 > 800 + (Nat.log2 mant : Int) then 0 else ratToBits mant (10 ^ (-exp10).toNat)

/-- `decToFloat` applies `Float.ofBits` to `decBits`, with the sign bit or-ed in when `neg`. -/
theorem decToFloat_eq (neg : Bool) (mant : Nat) (exp10 : Int) :
    decToFloat neg mant exp10 =
      Float.ofBits (if neg then decBits mant exp10 ||| 0x8000000000000000 else decBits mant exp10) :=
  rfl

/-- `8^k ≤ 10^k`, written with `2^(3k)`. -/
theorem two_pow_le_ten_pow (k : ℕ) : 2 ^ (3 * k) ≤ 10 ^ k := by
  rw [pow_mul]; exact Nat.pow_le_pow_left (by norm_num) k

/-- The smallest positive subnormal is `2^-1074`. -/
theorem bitsValue_one_ulp : bitsValue 1 = (2 : ℚ) ^ (-1074 : ℤ) := by
  unfold bitsValue; norm_num

/-- Values below `2^-1075` (half the smallest subnormal) are rounded to `+0`. -/
theorem ratToBits_tiny (n d : Nat) (hn : 0 < n) (hd : 0 < d)
    (hv : (n : ℚ) / d < (2 : ℚ) ^ (-1075 : ℤ)) : ratToBits n d = 0 := by
  have e1 : (2 : ℚ) ^ (-1074 : ℤ) = 2 * (2 : ℚ) ^ (-1075 : ℤ) := by
    rw [show (-1074 : ℤ) = 1 + (-1075) by norm_num, two_zpow_add]; norm_num
  have e2 : (2 : ℚ) ^ (-1075 : ℤ) ≤ 1 := zpow_le_one_of_nonpos₀ (by norm_num) (by norm_num)
  have e3 : (1 : ℚ) ≤ 2 ^ 1024 := one_le_pow₀ (by norm_num)
  have hb1 := bitsValue_one_ulp
  rw [e1] at hb1
  clear e1
  have hspec := ratToBits_spec n d hn hd
  generalize (2 : ℚ) ^ (-1075 : ℤ) = A at *
  generalize (2 : ℚ) ^ 1024 = T at *
  have key : (ratToBits n d).toNat = 0 := by
    rcases hspec with ⟨h, _⟩ | ⟨b0, hb0, h1, h2, h3, h4⟩
    · linarith
    · have hb00 : b0 = 0 := by
        by_contra hne
        have : 1 ≤ b0 := by omega
        have := bitsValue_strictMono.monotone this
        have hpos : (0 : ℚ) ≤ (n : ℚ) / d := by positivity
        linarith
      subst hb00
      rw [bitsValue_zero, zero_add, hb1] at h3
      rcases h3 with ⟨h, _⟩ | ⟨_, h'⟩
      · exact h
      · linarith
  apply UInt64.toNat_inj.mp
  rw [key]; rfl

/-- High cut-off on naturals: `k > 400` and `mant ≥ 1` imply `mant·10^k ≥ 2^1024`. -/
theorem high_cutoff_nat (mant k : ℕ) (hm : 1 ≤ mant) (hk : 400 < k) : 2 ^ 1024 ≤ mant * 10 ^ k := by
  calc 2 ^ 1024 ≤ 2 ^ (3 * k) := Nat.pow_le_pow_right (by norm_num) (by omega)
    _ ≤ 10 ^ k := two_pow_le_ten_pow k
    _ ≤ mant * 10 ^ k := Nat.le_mul_of_pos_left _ hm

/-- Soundness of the high cut-off of `decToFloat`: `exp10 > 400` and `mant ≥ 1` imply
`mant·10^exp10 ≥ 2^1024`, so `+∞` is the correctly rounded result. -/
theorem high_cutoff (mant : ℕ) (exp10 : ℤ) (hm : 1 ≤ mant) (hk : 400 < exp10) :
    (2 : ℚ) ^ 1024 ≤ (mant : ℚ) * (10 : ℚ) ^ exp10 := by
  obtain ⟨k, rfl⟩ := Int.eq_ofNat_of_zero_le (a := exp10) (by omega)
  have := high_cutoff_nat mant k hm (by omega)
  rw [zpow_natCast]
  exact_mod_cast this

/-- Low cut-off on naturals: `k > 800 + log2 mant` implies `mant·2^1075 < 10^k`. -/
theorem low_cutoff_nat (mant k : ℕ) (hk : 800 + Nat.log2 mant < k) :
    mant * 2 ^ 1075 < 10 ^ k := by
  have h2 := @Nat.lt_log2_self mant
  calc mant * 2 ^ 1075 < 2 ^ (Nat.log2 mant + 1) * 2 ^ 1075 :=
        Nat.mul_lt_mul_of_pos_right h2 (by positivity)
    _ = 2 ^ (Nat.log2 mant + 1 + 1075) := by rw [← pow_add]
    _ ≤ 2 ^ (3 * k) := Nat.pow_le_pow_right (by norm_num) (by omega)
    _ ≤ 10 ^ k := two_pow_le_ten_pow k

/-- Low cut-off in ℚ: `k > 800 + log2 mant` implies `mant / 10^k < 2^-1075`. -/
theorem low_cutoff_rat (mant k : ℕ) (hk : 800 + Nat.log2 mant < k) :
    (mant : ℚ) / ((10 ^ k : ℕ) : ℚ) < (2 : ℚ) ^ (-1075 : ℤ) := by
  have h := low_cutoff_nat mant k hk
  have h' : (mant : ℚ) * 2 ^ 1075 < ((10 ^ k : ℕ) : ℚ) := by exact_mod_cast h
  have hp : (0 : ℚ) < ((10 ^ k : ℕ) : ℚ) := by positivity
  have hq : (0 : ℚ) < (2 : ℚ) ^ 1075 := by positivity
  rw [zpow_neg, show (1075 : ℤ) = ((1075 : ℕ) : ℤ) by norm_num, zpow_natCast, div_lt_iff₀ hp,
    inv_mul_eq_div, lt_div_iff₀ hq]
  exact h'

/-- Soundness of the low cut-off of `decToFloat`: `-exp10 > 800 + log2 mant` implies
`mant·10^exp10 < 2^-1075`, so `0` is the correctly rounded result. -/
theorem low_cutoff (mant : ℕ) (exp10 : ℤ)
    (hk : -exp10 > 800 + (Nat.log2 mant : ℤ)) :
    (mant : ℚ) * (10 : ℚ) ^ exp10 < (2 : ℚ) ^ (-1075 : ℤ) := by
  obtain ⟨k, hk'⟩ := Int.eq_ofNat_of_zero_le (a := -exp10) (by omega)
  have := low_cutoff_rat mant k (by omega)
  rw [show exp10 = -(k : ℤ) by omega, zpow_neg, zpow_natCast, ← div_eq_mul_inv]
  push_cast at this
  exact this

/-- For `mant > 0` and `exp10 = k ≥ 0` (any `k`, the cut-off at 400 is absorbed) the bits are
`ratToBits (mant·10^k) 1`. -/
theorem decBits_nonneg (mant k : ℕ) (hm : 0 < mant) :
    decBits mant (k : ℤ) = ratToBits (mant * 10 ^ k) 1 := by
  unfold decBits
  have h0 : ((k : ℤ) ≥ 0) := by omega
  simp only [Nat.pos_iff_ne_zero.mp hm, if_false, h0, if_true, Int.toNat_natCast]
  by_cases hk : (k : ℤ) > 400
  · simp only [hk, if_true]
    symm
    apply UInt64.toNat_inj.mp
    have hpos : 0 < mant * 10 ^ k := by positivity
    rw [(ratToBits_overflow (mant * 10 ^ k) 1 hpos (by norm_num)).mpr]
    · rfl
    · have := high_cutoff_nat mant k hm (by omega)
      have h' : (2 : ℚ) ^ 1024 ≤ ((mant * 10 ^ k : ℕ) : ℚ) := by exact_mod_cast this
      have hA : (0 : ℚ) < 2 ^ 970 := by positivity
      rw [Nat.cast_one, div_one]
      clear this
      generalize (2 : ℚ) ^ 970 = A at *
      generalize (2 : ℚ) ^ 1024 = T at *
      linarith
  · simp only [hk, if_false]

/-- For `mant > 0` and `exp10 = -k < 0` (any `k`, the low cut-off is absorbed) the bits are
`ratToBits mant (10^k)`. -/
theorem decBits_neg (mant k : ℕ) (hm : 0 < mant) (hk : 0 < k) :
    decBits mant (-(k : ℤ)) = ratToBits mant (10 ^ k) := by
  unfold decBits
  have h0 : ¬ (-(k : ℤ) ≥ 0) := by omega
  simp only [Nat.pos_iff_ne_zero.mp hm, if_false, h0, neg_neg, Int.toNat_natCast]
  by_cases hc : (k : ℤ) > 800 + (Nat.log2 mant : ℤ)
  · simp only [hc, if_true]
    symm
    exact ratToBits_tiny mant (10 ^ k) hm (by positivity) (low_cutoff_rat mant k (by omega))
  · simp only [hc, if_false]

/-- The unsigned bits used by `decToFloat` for `mant > 0` are `ratToBits n d` for a fraction
`n/d = mant·10^exp10` with `n, d > 0`: `n = mant·10^k, d = 1` for `exp10 = k ≥ 0` and `n = mant, d = 10^k`
for `exp10 = -k < 0`; both cut-offs are absorbed (they return what `ratToBits` would have returned). -/
theorem decToFloat_bits (mant : ℕ) (exp10 : ℤ) (hm : 0 < mant) :
    ∃ n d : ℕ, 0 < n ∧ 0 < d ∧ (n : ℚ) / d = (mant : ℚ) * (10 : ℚ) ^ exp10 ∧
      decBits mant exp10 = ratToBits n d ∧
      (0 ≤ exp10 → n = mant * 10 ^ exp10.toNat ∧ d = 1) ∧
      (exp10 < 0 → n = mant ∧ d = 10 ^ (-exp10).toNat) := by
  by_cases h : 0 ≤ exp10
  · obtain ⟨k, rfl⟩ := Int.eq_ofNat_of_zero_le h
    refine ⟨mant * 10 ^ k, 1, by positivity, by norm_num, ?_, decBits_nonneg mant k hm, ?_, ?_⟩
    · rw [zpow_natCast]; push_cast; ring
    · intro _; simp
    · intro h'; omega
  · obtain ⟨k, hk⟩ := Int.eq_ofNat_of_zero_le (a := -exp10) (by omega)
    have hk' : exp10 = -(k : ℤ) := by omega
    subst hk'
    refine ⟨mant, 10 ^ k, hm, by positivity, ?_, decBits_neg mant k hm (by omega), ?_, ?_⟩
    · rw [zpow_neg, zpow_natCast]; push_cast; ring
    · intro h'; omega
    · intro _; simp

/-- Or-ing the sign bit into a pattern `≤ 0x7FF0000000000000` adds `2^63`. -/
theorem signBit_toNat (bits : UInt64) (h : bits.toNat ≤ 0x7FF0000000000000) :
    (bits ||| 0x8000000000000000).toNat = 2 ^ 63 + bits.toNat := by
  rw [UInt64.toNat_or]
  have h1 : (0x8000000000000000 : UInt64).toNat = 2 ^ 63 * 1 := by decide
  rw [h1, Nat.or_comm]
  have := Nat.two_pow_add_eq_or_of_lt (i := 63) (b := bits.toNat) (by omega) 1
  rw [← this, Nat.mul_one]

/-- The result of `decToFloat` (before the sign) is a nearest binary64 to `mant · 10^exp10`. -/
theorem decBits_nearest (mant : ℕ) (exp10 : ℤ) (hm : 0 < mant)
    (hfin : (decBits mant exp10).toNat < 0x7FF0000000000000) (c : ℕ) :
    |(mant : ℚ) * (10 : ℚ) ^ exp10 - bitsValue (decBits mant exp10).toNat|
      ≤ |(mant : ℚ) * (10 : ℚ) ^ exp10 - bitsValue c| := by
  obtain ⟨n, d, hn, hd, hv, hb, _, _⟩ := decToFloat_bits mant exp10 hm
  rw [← hv, hb]
  rw [hb] at hfin
  exact ratToBits_nearest_all n d hn hd hfin c

/-! ## Tests (concrete values, checked by kernel evaluation) -/

/-- test: 0.1 -/
example : ratToBits 1 10 = 0x3FB999999999999A := by decide
/-- test: 1 -/
example : ratToBits 1 1 = 0x3FF0000000000000 := by decide
/-- test: 1/3 -/
example : ratToBits 1 3 = 0x3FD5555555555555 := by decide
/-- test: 2/3 rounds up -/
example : ratToBits 2 3 = 0x3FE5555555555555 := by decide
/-- test: tie 2^53+1 goes to the even neighbour 2^53 -/
example : ratToBits (2 ^ 53 + 1) 1 = 0x4340000000000000 := by decide
/-- test: tie 2^53+3 goes to the even neighbour 2^53+4 -/
example : ratToBits (2 ^ 53 + 3) 1 = 0x4340000000000002 := by decide
/-- test: smallest subnormal -/
example : ratToBits 1 (2 ^ 1074) = 1 := by decide +kernel
/-- test: half the smallest subnormal ties to even = 0 -/
example : ratToBits 1 (2 ^ 1075) = 0 := by decide +kernel
/-- test: 3/2 of the smallest subnormal ties to even = 2 -/
example : ratToBits 3 (2 ^ 1075) = 2 := by decide +kernel
/-- test: smallest normal -/
example : ratToBits 1 (2 ^ 1022) = 0x0010000000000000 := by decide +kernel
/-- test: largest finite -/
example : ratToBits (2 ^ 1024 - 2 ^ 971) 1 = 0x7FEFFFFFFFFFFFFF := by decide +kernel
/-- test: overflow boundary ties to even = infinity -/
example : ratToBits (2 ^ 1024 - 2 ^ 970) 1 = 0x7FF0000000000000 := by decide +kernel
/-- test: just below the overflow boundary stays finite -/
example : ratToBits (2 ^ 1024 - 2 ^ 970 - 1) 1 = 0x7FEFFFFFFFFFFFFF := by decide +kernel
/-- test: hypotheses of `ratToBits_nearest` are satisfiable -/
example : (ratToBits 1 10).toNat < 0x7FF0000000000000 := by decide
/-- test: decoder on 0.1's bits brackets 1/10 -/
example : bitsValue 0x3FB999999999999A = 3602879701896397 / 36028797018963968 := by
  unfold bitsValue; norm_num
/-- test: a genuine tie (hypotheses of `ratToBits_ties_even` are satisfiable) -/
example : |((2 ^ 53 + 1 : ℕ) : ℚ) / (1 : ℕ) - bitsValue 0x4340000000000001|
    = |((2 ^ 53 + 1 : ℕ) : ℚ) / (1 : ℕ) - bitsValue (ratToBits (2 ^ 53 + 1) 1).toNat| := by
  rw [show (ratToBits (2 ^ 53 + 1) 1).toNat = 0x4340000000000000 by decide]
  unfold bitsValue; norm_num

/-- A zero mantissa gives the bits of `+0`. -/
theorem decBits_zero (exp10 : ℤ) : decBits 0 exp10 = 0 := by
  unfold decBits; simp

/-- The unsigned bits computed by `decToFloat` never exceed the bits of `+∞` (in particular the
sign bit is clear, so or-ing the sign bit in is the same as adding `2^63`). -/
theorem decBits_le (mant : ℕ) (exp10 : ℤ) : (decBits mant exp10).toNat ≤ 0x7FF0000000000000 := by
  rcases Nat.eq_zero_or_pos mant with rfl | hm
  · rw [decBits_zero]; decide
  · obtain ⟨n, d, hn, hd, _, hb, _, _⟩ := decToFloat_bits mant exp10 hm
    rw [hb]; exact ratToBits_finite_or_inf n d hn hd

/-- The bit pattern handed to `Float.ofBits` by `decToFloat`: the unsigned, correctly rounded bits
`decBits mant exp10` plus `2^63` (the sign bit) exactly when `neg` is set. -/
theorem decToFloat_signed_bits (neg : Bool) (mant : ℕ) (exp10 : ℤ) :
    (if neg then decBits mant exp10 ||| 0x8000000000000000 else decBits mant exp10).toNat =
      (if neg then 2 ^ 63 else 0) + (decBits mant exp10).toNat := by
  cases neg
  · simp
  · simp only [if_true]
    exact signBit_toNat _ (decBits_le mant exp10)

end Ezpz.Text
