/-
C04.1 "a variable no constraint mentions is returned exactly at its guess", for every scalar type,
with the property's real premise.

`Ezpz/Proofs/Untouched.lean` assumes `ZeroStepAt solve j z`, which asks the linear solver for a
neutral component `j` on EVERY Jacobian, including ones with a non-zero column `j`; no correct
solver does that.  Here the solver is only asked for a neutral component `j` on Jacobians that have
no contribution in column `j` (`ZeroStepOn`), and the model is shown to hand the solver only such
Jacobians when no request mentions variable `j` (`jacobianAll_no_column`).

In the model a contribution is `(row, col, value)` with `col = jv.id`, the variable id itself (no
layout map): the guess list is indexed by id, `Model::new` checks `col < number of guesses`.
-/
import Ezpz.Proofs.Untouched
import Ezpz.Proofs.Assembly
set_option linter.unusedSectionVars false
namespace Ezpz
open Transc

variable {α : Type} [Add α] [Sub α] [Mul α] [Div α] [Neg α] [OfScientific α]
  [LT α] [DecidableLT α] [LE α] [DecidableLE α] [Transc α]

/-- No entry of the list declares variable `j` in any row of its `nonzeroes`. -/
def Unmentioned (es : List (Entry α)) (j : Nat) : Prop := ∀ e ∈ es, j ∉ e.c.nonzeroes.all

/-- No request of the caller's list declares variable `j` in any row of its `nonzeroes`. -/
def UnmentionedReq (reqs : List (Constraint α × Nat)) (j : Nat) : Prop :=
  ∀ r ∈ reqs, j ∉ r.1.nonzeroes.all

/-- On every Jacobian that has no contribution in column `j`, the solver's answer has `z` in slot
`j`; and adding `z` changes nothing.  (A contribution is `(row, col, value)`; `t.2.1` is `col`.) -/
def ZeroStepOn (solve : Nat → List (Triplet α) → List α → Except SolveError (List α)) (j : Nat)
    (z : α) : Prop :=
  (∀ k jac r d, (∀ t ∈ jac, t.2.1 ≠ j) → solve k jac r = .ok d → d[j]? = some z) ∧
    ∀ a : α, a + z = a

/-- The old hypothesis implies the new one (the new one asks less of the solver). -/
theorem ZeroStepOn_of_ZeroStepAt
    (solve : Nat → List (Triplet α) → List α → Except SolveError (List α)) (j : Nat) (z : α)
    (h : ZeroStepAt solve j z) : ZeroStepOn solve j z :=
  ⟨fun k jac r d _ hd => h.1 k jac r d hd, h.2⟩

/-- A sublist of entries of a list that does not mention `j` does not mention `j`. -/
theorem Unmentioned.filter {es : List (Entry α)} {j : Nat} (h : Unmentioned es j)
    (p : Entry α → Bool) : Unmentioned (es.filter p) j :=
  fun e he => h e (List.mem_filter.mp he).1

/-- If no request mentions `j`, no entry of the enumerated list does. -/
theorem unmentioned_enumerate (reqs : List (Constraint α × Nat)) (j : Nat)
    (h : UnmentionedReq reqs j) : Unmentioned (enumerate reqs) j := by
  intro e he
  exact h (e.c, e.priority) (List.mem_of_getElem? (mem_enumerate reqs e he))

/-- **The Jacobian the model assembles has no contribution in the column of an unmentioned
variable** (any first row, any pattern): every contribution's column is a variable declared by one
of the entries. -/
theorem jacobianFrom_no_column (pat : List (Nat × Nat)) (es : List (Entry α)) (x : Nat → Option α)
    (row0 j : Nat) (hu : Unmentioned es j) (ts : List (Triplet α)) (ws : List (Warning α))
    (h : jacobianFrom pat es x row0 = .ok (ts, ws)) : ∀ t ∈ ts, t.2.1 ≠ j := by
  rintro ⟨r, c, v⟩ ht hc
  obtain ⟨_, _, e, he, hm⟩ := jacobianFrom_rows_cols pat x es row0 ts ws h r c v ht
  simp only at hc
  subst hc
  exact hu e he hm

/-- The contribution list `newtonStep` hands to the linear solver (`jacobianAll`) has no
contribution in column `j` when no entry mentions `j`. -/
theorem jacobianAll_no_column (es : List (Entry α)) (x : Nat → Option α) (j : Nat)
    (hu : Unmentioned es j) (ts : List (Triplet α)) (ws : List (Warning α))
    (h : jacobianAll es x = .ok (ts, ws)) : ∀ t ∈ ts, t.2.1 ≠ j :=
  jacobianFrom_no_column (pattern es) es x 0 j hu ts ws h

/-- One round: a variable no entry mentions keeps its value, whether the round returns or
continues. -/
theorem newtonStep_untouched' (es : List (Entry α)) (cfg : Config α)
    (solve : Nat → List (Triplet α) → List α → Except SolveError (List α)) (j : Nat) (z a : α)
    (hu : Unmentioned es j) (hz : ZeroStepOn solve j z) (k : Nat) (x : List α)
    (ws : List (Warning α)) (hx : x[j]? = some a) :
    (∀ r, newtonStep es cfg solve k x ws = .done r → r.values[j]? = some a) ∧
    (∀ x' ws', newtonStep es cfg solve k x ws = .next x' ws' → x'[j]? = some a) := by
  have happ : ∀ d jac w2 r, jacobianAll es (lookup x) = .ok (jac, w2) → solve k jac r = .ok d →
      (applyStep x d)[j]? = some a := by
    intro d jac w2 r hj hd
    have := applyStep_getElem? x d j a z hx
      (hz.1 k jac r d (jacobianAll_no_column es (lookup x) j hu jac w2 hj) hd)
    rw [hz.2 a] at this; exact this
  constructor
  · intro r h
    unfold newtonStep at h
    split at h
    · simp at h
    · split at h
      · simp at h
      · rename_i jac w2 hj
        split at h
        · simp at h
        · split at h
          · injection h with h; subst h; exact hx
          · split at h
            · simp at h
            · rename_i d hd
              split at h
              · simp at h
              · split at h
                · simp at h
                · split at h
                  · injection h with h; subst h; exact happ d _ _ _ hj hd
                  · simp at h
  · intro x' ws' h
    unfold newtonStep at h
    split at h
    · simp at h
    · split at h
      · simp at h
      · rename_i jac w2 hj
        split at h
        · simp at h
        · split at h
          · simp at h
          · split at h
            · simp at h
            · rename_i d hd
              split at h
              · simp at h
              · split at h
                · simp at h
                · split at h
                  · simp at h
                  · injection h with h1 h2; subst h1; exact happ d _ _ _ hj hd

/-- C04.1 in the loop — **a variable no entry mentions keeps its guess** through every round and in
the returned values, for any fuel, any starting round, any scalar type. -/
theorem newtonLoop_untouched' (es : List (Entry α)) (cfg : Config α)
    (solve : Nat → List (Triplet α) → List α → Except SolveError (List α)) (j : Nat) (z a : α)
    (hu : Unmentioned es j) (hz : ZeroStepOn solve j z) :
    ∀ (fuel k : Nat) (x : List α) (ws : List (Warning α)) (r : NewtonOk α), x[j]? = some a →
      newtonLoop es cfg solve fuel k x ws = .ok r → r.values[j]? = some a := by
  intro fuel
  induction fuel with
  | zero => intro k x ws r _ h; simp [newtonLoop] at h
  | succ fuel ih =>
    intro k x ws r hx h
    unfold newtonLoop at h
    have hs := newtonStep_untouched' es cfg solve j z a hu hz k x ws hx
    split at h
    · rename_i r' hr
      injection h with h; subst h
      exact hs.1 _ hr
    · simp at h
    · rename_i x' ws' hn
      exact ih _ _ _ _ (hs.2 _ _ hn) h

/-- C04.1 at one priority level: the returned value of a variable no entry mentions is its
guess. -/
theorem solveInner_untouched' (es : List (Entry α)) (g : List (Nat × α)) (cfg : Config α)
    (solve : Nat → List (Triplet α) → List α → Except SolveError (List α))
    (analyze : Option (List (Triplet α) → Except SolveError (List α × List (List α))))
    (j : Nat) (z a : α) (hu : Unmentioned es j) (hz : ZeroStepOn solve j z)
    (hg : (g.map (·.2))[j]? = some a)
    (o : Outcome α) (h : solveInner es g cfg solve analyze = .ok o) :
    o.finalValues[j]? = some a := by
  obtain ⟨nr, hn, _, hv, _⟩ := solveInner_ok _ _ _ _ _ _ h
  rw [hv]
  unfold newton at hn
  exact newtonLoop_untouched' es cfg solve j z a hu hz _ _ _ _ _ hg hn

/-- C04.1 at the public entry point — **a variable no request mentions is returned at its guess**:
if no request declares variable `j`, and at every level the solver's answer on a Jacobian without
contributions in column `j` has the neutral element `z` (`a + z = a`) in slot `j`, then any
successful result returns variable `j`'s guess exactly.  Every scalar type. -/
theorem untouched_var_fixed' (reqs : List (Constraint α × Nat)) (g : List (Nat × α))
    (cfg : Config α) (solve : LinSolve α) (svd : Option (Svd α)) (j : Nat) (z a : α)
    (hu : UnmentionedReq reqs j) (hz : ∀ i, ZeroStepOn (solve i) j z)
    (hg : (g.map (·.2))[j]? = some a) (o : Outcome α)
    (h : solveWithPriority reqs g cfg solve svd = .ok o) : o.finalValues[j]? = some a := by
  cases reqs with
  | nil =>
    obtain ⟨o', ho', hv, _⟩ := no_requests_returns_guesses g cfg solve svd
    rw [ho'] at h; injection h with h; subst h; rw [hv]; exact hg
  | cons r0 rest =>
    obtain ⟨P, i, _, hs, _⟩ :=
      C03.result_is_subset_solve (r0 :: rest) g cfg solve svd o (by simp) h
    exact solveInner_untouched' _ g cfg (solve i) _ j z a
      ((unmentioned_enumerate _ j hu).filter _) (hz i) hg o hs

/-- Non-vacuity of "no request mentions `j`": the one-request list `[Fixed 0 v]` does not mention
variable 1 (and it does mention variable 0). -/
example (v : α) : UnmentionedReq [((.fixed 0 v : Constraint α), 0)] 1 ∧
    ¬ UnmentionedReq [((.fixed 0 v : Constraint α), 0)] 0 := by
  simp [UnmentionedReq, Constraint.nonzeroes, Rows.all]

end Ezpz
