/-
C17 lifted to the Newton loop (every scalar type): two request groups that share no variables, laid
out contiguously (group 1 over ids `0 … n1-1`, group 2 over `0 … n2-1` shifted by `n1` in the
union, values `x1 ++ x2`).

* the assembled residual of the union is the concatenation of the groups' residuals, the assembled
  Jacobian is group 1's contributions followed by group 2's with rows shifted by `numRows es1` and
  columns shifted by `n1` (including all error cases);
* `applyStep` splits over the concatenation;
* under the block-solver hypothesis `BlockSolve` one round of the union's loop is given by an
  explicit formula in terms of the groups' own data (`newtonStep_union_eq`); in particular whenever
  the union produces values they are the groups' own iterates, concatenated
  (`union_values_split`).

The order-dependent facts (which stopping test fires) are in `Ezpz/Real/Union.lean`.
-/
import Ezpz.Proofs.AssemblyPerm
import Ezpz.Proofs.Rename
set_option linter.unusedSectionVars false
set_option linter.unusedSimpArgs false
namespace Ezpz
open Transc

variable {α : Type} [Add α] [Sub α] [Mul α] [Div α] [Neg α] [OfScientific α]
  [LT α] [DecidableLT α] [LE α] [DecidableLE α] [Transc α]

/-! ### 1. Reading a concatenated value list -/

/-- Below `x1.length`, the concatenated value list reads as `x1`. -/
theorem lookup_append_left (x1 x2 : List α) (i : Nat) (h : i < x1.length) :
    lookup (x1 ++ x2) i = lookup x1 i := by
  simp only [lookup]
  exact List.getElem?_append_left h

/-- Shifted by `x1.length`, the concatenated value list reads as `x2` (also out of range). -/
theorem lookup_append_right (x1 x2 : List α) (i : Nat) :
    lookup (x1 ++ x2) (i + x1.length) = lookup x2 i := by
  simp only [lookup]
  rw [List.getElem?_append_right (Nat.le_add_left _ _), Nat.add_sub_cancel]

/-- The same as a statement about the whole assignment. -/
theorem lookup_append_shift (x1 x2 : List α) :
    (fun i => lookup (x1 ++ x2) (i + x1.length)) = lookup x2 :=
  funext (lookup_append_right x1 x2)

/-! ### The union of two groups in the contiguous layout -/

/-- Group 2's requests as they appear in the union: every variable id shifted by `n1`. -/
def shiftEntries (n1 : Nat) (es : List (Entry α)) : List (Entry α) :=
  es.map (Entry.rename (· + n1))

/-- Group 2's Jacobian contributions as they appear in the union: rows shifted by `R`, columns
shifted by `n1`, values unchanged. -/
def shiftTriplets (R n1 : Nat) (ts : List (Triplet α)) : List (Triplet α) :=
  ts.map (fun t => (t.1 + R, t.2.1 + n1, t.2.2))

/-- The requests of the union. -/
def unionEntries (n1 : Nat) (es1 es2 : List (Entry α)) : List (Entry α) :=
  es1 ++ shiftEntries n1 es2

/-- The block combination of the groups' Jacobian contributions. -/
def blockJac (R1 n1 : Nat) (jac1 jac2 : List (Triplet α)) : List (Triplet α) :=
  jac1 ++ shiftTriplets R1 n1 jac2

/-- Shifting ids does not change the number of rows. -/
theorem numRows_shiftEntries (n1 : Nat) (es : List (Entry α)) :
    numRows (shiftEntries n1 es) = numRows es :=
  numRows_rename _ es

/-- The union has the rows of both groups. -/
theorem numRows_unionEntries (n1 : Nat) (es1 es2 : List (Entry α)) :
    numRows (unionEntries n1 es1 es2) = numRows es1 + numRows es2 := by
  rw [unionEntries, numRows_append, numRows_shiftEntries]

/-- If group 1 declares only ids `< n1` and group 2 only ids `< n2`, the union declares only ids
`< n1 + n2`. -/
theorem declared_unionEntries (n1 n2 : Nat) (es1 es2 : List (Entry α)) (h1 : Declared es1 n1)
    (h2 : Declared es2 n2) : Declared (unionEntries n1 es1 es2) (n1 + n2) := by
  intro e he i hi
  rcases List.mem_append.mp he with he | he
  · have := h1 e he i hi; omega
  · simp only [shiftEntries, List.mem_map] at he
    obtain ⟨e', he', rfl⟩ := he
    rw [show (Entry.rename (· + n1) e').c = e'.c.rename (· + n1) from rfl,
      nonzeroes_all_rename, List.mem_map] at hi
    obtain ⟨j, hj, rfl⟩ := hi
    have := h2 e' he' j hj; omega

/-- In the contiguous layout the two groups share no variable. -/
theorem varsOf_union_disjoint (n1 : Nat) (es1 es2 : List (Entry α)) (h1 : Declared es1 n1) :
    ∀ c, c ∈ varsOf es1 → c ∈ varsOf (shiftEntries n1 es2) → False := by
  intro c hc1 hc2
  obtain ⟨e, he, hi⟩ := (mem_varsOf _ _).mp hc1
  obtain ⟨e2, he2, hi2⟩ := (mem_varsOf _ _).mp hc2
  simp only [shiftEntries, List.mem_map] at he2
  obtain ⟨e', _, rfl⟩ := he2
  rw [show (Entry.rename (· + n1) e').c = e'.c.rename (· + n1) from rfl,
    nonzeroes_all_rename, List.mem_map] at hi2
  obtain ⟨j, _, rfl⟩ := hi2
  have := h1 e he _ hi; omega

/-! ### 2. The residual of the union -/

/-- Group 1's residual inside the union is group 1's residual alone. -/
theorem residualAll_union_left (es1 : List (Entry α)) (x1 x2 : List α)
    (h1 : Declared es1 x1.length) :
    residualAll es1 (lookup (x1 ++ x2)) = residualAll es1 (lookup x1) := by
  apply residualAll_congr_on_vars
  intro i hi
  obtain ⟨e, he, hie⟩ := (mem_varsOf _ _).mp hi
  exact lookup_append_left x1 x2 i (h1 e he i hie)

/-- Group 2's (shifted) residual inside the union is group 2's residual alone. -/
theorem residualAll_union_right (es2 : List (Entry α)) (x1 x2 : List α) :
    residualAll (shiftEntries x1.length es2) (lookup (x1 ++ x2)) = residualAll es2 (lookup x2) := by
  rw [shiftEntries, residualAll_rename, lookup_append_shift]

/-- **The residual of the union, all cases**: it fails with the first failing group's error, and
otherwise is the concatenation of the groups' residuals and of their degeneracy warnings. -/
theorem residualAll_union_eq (es1 es2 : List (Entry α)) (x1 x2 : List α)
    (h1 : Declared es1 x1.length) :
    residualAll (unionEntries x1.length es1 es2) (lookup (x1 ++ x2)) =
      match residualAll es1 (lookup x1) with
      | .error err => .error err
      | .ok (r1, w1) =>
        match residualAll es2 (lookup x2) with
        | .error err => .error err
        | .ok (r2, w2) => .ok (r1 ++ r2, w1 ++ w2) := by
  rw [unionEntries, residualAll_append, residualAll_union_left es1 x1 x2 h1,
    residualAll_union_right]
  rfl

/-- **The residual of the union** when both groups evaluate: components and warnings are
concatenated. -/
theorem residualAll_union (es1 es2 : List (Entry α)) (x1 x2 : List α)
    (h1 : Declared es1 x1.length) (r1 r2 : List α) (w1 w2 : List (Warning α))
    (hr1 : residualAll es1 (lookup x1) = .ok (r1, w1))
    (hr2 : residualAll es2 (lookup x2) = .ok (r2, w2)) :
    residualAll (unionEntries x1.length es1 es2) (lookup (x1 ++ x2)) = .ok (r1 ++ r2, w1 ++ w2) := by
  rw [residualAll_union_eq es1 es2 x1 x2 h1, hr1, hr2]

/-- Converse: if the union's residual evaluates, both groups' residuals evaluate and the union's
is their concatenation. -/
theorem residualAll_union_ok_inv (es1 es2 : List (Entry α)) (x1 x2 : List α)
    (h1 : Declared es1 x1.length) (r : List α) (w : List (Warning α))
    (h : residualAll (unionEntries x1.length es1 es2) (lookup (x1 ++ x2)) = .ok (r, w)) :
    ∃ r1 w1 r2 w2, residualAll es1 (lookup x1) = .ok (r1, w1) ∧
      residualAll es2 (lookup x2) = .ok (r2, w2) ∧ r = r1 ++ r2 ∧ w = w1 ++ w2 := by
  rw [residualAll_union_eq es1 es2 x1 x2 h1] at h
  cases hr1 : residualAll es1 (lookup x1) with
  | error e => simp [hr1] at h
  | ok p =>
    obtain ⟨r1, w1⟩ := p
    cases hr2 : residualAll es2 (lookup x2) with
    | error e => simp [hr1, hr2] at h
    | ok q =>
      obtain ⟨r2, w2⟩ := q
      simp [hr1, hr2] at h
      exact ⟨r1, w1, r2, w2, rfl, rfl, h.1.symm, h.2.symm⟩

/-! ### 3. The Jacobian of the union -/

/-- Against a pattern that contains a request's own cells the "cell not in pattern" test passes. -/
theorem entryTrips_all_contains (pat : List (Nat × Nat)) (e : Entry α) (x : Nat → Option α)
    (j : Jac α) (hj : e.c.jacobianRows x = some j) (row0 : Nat)
    (hpat : ∀ cell ∈ entryCells e row0, cell ∈ pat) :
    (entryTrips e j row0).all (fun (r, c, _) => pat.contains (r, c)) = true := by
  apply List.all_eq_true.mpr
  rintro ⟨r, c, v⟩ hm
  have hc := entryTrips_sub_entryCells e x j hj row0 r c v hm
  have : (r, c) ∈ pat := hpat _ hc
  simp [this]

/-- The scatter (result or error) is the same against any two patterns that both contain the
list's own cells. -/
theorem jacobianFrom_pat_congr (pat pat' : List (Nat × Nat)) (x : Nat → Option α) :
    ∀ (es : List (Entry α)) (row0 : Nat), (∀ cell ∈ patternFrom es row0, cell ∈ pat) →
      (∀ cell ∈ patternFrom es row0, cell ∈ pat') →
      jacobianFrom pat es x row0 = jacobianFrom pat' es x row0 := by
  intro es
  induction es with
  | nil => intro _ _ _; rfl
  | cons e rest ih =>
    intro row0 hp hp'
    rw [patternFrom_cons] at hp hp'
    rw [jacobianFrom_cons, jacobianFrom_cons]
    cases hj : e.c.jacobianRows x with
    | none => rfl
    | some j =>
      dsimp only
      rw [if_pos (entryTrips_all_contains pat e x j hj row0
            (fun cell hc => hp cell (List.mem_append_left _ hc))),
        if_pos (entryTrips_all_contains pat' e x j hj row0
            (fun cell hc => hp' cell (List.mem_append_left _ hc))),
        ih _ (fun cell hc => hp cell (List.mem_append_right _ hc))
          (fun cell hc => hp' cell (List.mem_append_right _ hc))]

/-- Starting the scatter `d` rows lower adds `d` to the row of every contribution and changes
nothing else (each scatter against a pattern containing the list's cells at its own offset). -/
theorem jacobianFrom_shift_rows (pat pat' : List (Nat × Nat)) (x : Nat → Option α) (d : Nat) :
    ∀ (es : List (Entry α)) (row0 : Nat), (∀ cell ∈ patternFrom es (row0 + d), cell ∈ pat) →
      (∀ cell ∈ patternFrom es row0, cell ∈ pat') →
      jacobianFrom pat es x (row0 + d) =
        (jacobianFrom pat' es x row0).map (fun p => (p.1.map (fun t => (t.1 + d, t.2)), p.2)) := by
  intro es
  induction es with
  | nil => intro _ _ _; rfl
  | cons e rest ih =>
    intro row0 hp hp'
    rw [patternFrom_cons] at hp hp'
    rw [jacobianFrom_cons, jacobianFrom_cons]
    cases hj : e.c.jacobianRows x with
    | none => rfl
    | some j =>
      dsimp only
      rw [Nat.add_right_comm row0 d e.c.residualDim] at hp ⊢
      rw [if_pos (entryTrips_all_contains pat e x j hj (row0 + d)
            (fun cell hc => hp cell (List.mem_append_left _ hc))),
        if_pos (entryTrips_all_contains pat' e x j hj row0
            (fun cell hc => hp' cell (List.mem_append_left _ hc))),
        ih _ (fun cell hc => hp cell (List.mem_append_right _ hc))
          (fun cell hc => hp' cell (List.mem_append_right _ hc))]
      cases jacobianFrom pat' rest x (row0 + e.c.residualDim) with
      | error err => rfl
      | ok p =>
        obtain ⟨ts, ws⟩ := p
        simp [Except.map, entryTrips_shift]

/-- Group 1's scatter inside the union (against the union's pattern, reading the union's values)
is group 1's own `jacobianAll`. -/
theorem jacobianFrom_union_left (es1 es2 : List (Entry α)) (x1 x2 : List α)
    (h1 : Declared es1 x1.length) :
    jacobianFrom (pattern (unionEntries x1.length es1 es2)) es1 (lookup (x1 ++ x2)) 0 =
      jacobianAll es1 (lookup x1) := by
  rw [jacobianFrom_congr_on_vars _ (lookup (x1 ++ x2)) (lookup x1) es1 0 (fun i hi => by
    obtain ⟨e, he, hie⟩ := (mem_varsOf _ _).mp hi
    exact lookup_append_left x1 x2 i (h1 e he i hie))]
  apply jacobianFrom_pat_congr
  · intro cell hc
    rw [pattern, unionEntries, patternFrom_append]
    exact List.mem_append_left _ hc
  · intro cell hc; exact hc

/-- Group 2's scatter inside the union (shifted ids, starting after group 1's rows, against the
union's pattern, reading the union's values) is group 2's own `jacobianAll` with rows shifted by
`numRows es1` and columns shifted by `x1.length`; warnings and errors are identical. -/
theorem jacobianFrom_union_right (es1 es2 : List (Entry α)) (x1 x2 : List α) :
    jacobianFrom (pattern (unionEntries x1.length es1 es2)) (shiftEntries x1.length es2)
        (lookup (x1 ++ x2)) (0 + numRows es1) =
      (jacobianAll es2 (lookup x2)).map
        (fun p => (shiftTriplets (numRows es1) x1.length p.1, p.2)) := by
  have hπ : ∀ a b : Nat, (fun i => i + x1.length) a = (fun i => i + x1.length) b → a = b := by
    intro a b h; simp only at h; omega
  rw [jacobianFrom_pat_congr _
    ((patternFrom es2 (0 + numRows es1)).map (renameCell (fun i => i + x1.length))) _
    (shiftEntries x1.length es2) (0 + numRows es1)
    (fun cell hc => by
      rw [pattern, unionEntries, patternFrom_append]
      exact List.mem_append_right _ hc)
    (fun cell hc => by
      rw [shiftEntries, patternFrom_rename] at hc; exact hc)]
  rw [shiftEntries, jacobianFrom_rename _ hπ, lookup_append_shift,
    jacobianFrom_shift_rows (patternFrom es2 (0 + numRows es1)) (patternFrom es2 0) (lookup x2)
      (numRows es1) es2 0 (fun _ hc => hc) (fun _ hc => hc)]
  unfold jacobianAll pattern
  cases jacobianFrom (patternFrom es2 0) es2 (lookup x2) 0 with
  | error err => rfl
  | ok p =>
    obtain ⟨ts, ws⟩ := p
    simp [Except.map, shiftTriplets, renameTriplet]

/-- **The Jacobian of the union, all cases**: it fails with the first failing group's error, and
otherwise consists of group 1's contributions followed by group 2's with rows shifted by
`numRows es1` and columns shifted by `n1 = x1.length`; the warnings are concatenated. -/
theorem jacobianAll_union_eq (es1 es2 : List (Entry α)) (x1 x2 : List α)
    (h1 : Declared es1 x1.length) :
    jacobianAll (unionEntries x1.length es1 es2) (lookup (x1 ++ x2)) =
      match jacobianAll es1 (lookup x1) with
      | .error err => .error err
      | .ok (t1, w1) =>
        match jacobianAll es2 (lookup x2) with
        | .error err => .error err
        | .ok (t2, w2) => .ok (blockJac (numRows es1) x1.length t1 t2, w1 ++ w2) := by
  have hl := jacobianFrom_union_left es1 es2 x1 x2 h1
  have hr := jacobianFrom_union_right es1 es2 x1 x2
  rw [jacobianAll]
  conv => lhs; arg 2; rw [unionEntries]
  rw [jacobianFrom_append, hl, hr]
  cases jacobianAll es1 (lookup x1) with
  | error err => rfl
  | ok p =>
    obtain ⟨t1, w1⟩ := p
    cases jacobianAll es2 (lookup x2) with
    | error err => rfl
    | ok q => obtain ⟨t2, w2⟩ := q; rfl

/-- **The Jacobian of the union** when both groups evaluate. -/
theorem jacobianAll_union (es1 es2 : List (Entry α)) (x1 x2 : List α)
    (h1 : Declared es1 x1.length) (t1 t2 : List (Triplet α)) (w1 w2 : List (Warning α))
    (hj1 : jacobianAll es1 (lookup x1) = .ok (t1, w1))
    (hj2 : jacobianAll es2 (lookup x2) = .ok (t2, w2)) :
    jacobianAll (unionEntries x1.length es1 es2) (lookup (x1 ++ x2)) =
      .ok (blockJac (numRows es1) x1.length t1 t2, w1 ++ w2) := by
  rw [jacobianAll_union_eq es1 es2 x1 x2 h1, hj1, hj2]

/-- Converse: if the union's Jacobian evaluates, both groups' Jacobians evaluate and the union's is
their block combination. -/
theorem jacobianAll_union_ok_inv (es1 es2 : List (Entry α)) (x1 x2 : List α)
    (h1 : Declared es1 x1.length) (t : List (Triplet α)) (w : List (Warning α))
    (h : jacobianAll (unionEntries x1.length es1 es2) (lookup (x1 ++ x2)) = .ok (t, w)) :
    ∃ t1 w1 t2 w2, jacobianAll es1 (lookup x1) = .ok (t1, w1) ∧
      jacobianAll es2 (lookup x2) = .ok (t2, w2) ∧
      t = blockJac (numRows es1) x1.length t1 t2 ∧ w = w1 ++ w2 := by
  rw [jacobianAll_union_eq es1 es2 x1 x2 h1] at h
  cases hj1 : jacobianAll es1 (lookup x1) with
  | error e => simp [hj1] at h
  | ok p =>
    obtain ⟨t1, w1⟩ := p
    cases hj2 : jacobianAll es2 (lookup x2) with
    | error e => simp [hj1, hj2] at h
    | ok q =>
      obtain ⟨t2, w2⟩ := q
      simp [hj1, hj2] at h
      exact ⟨t1, w1, t2, w2, rfl, rfl, h.1.symm, h.2.symm⟩

/-- Every contribution of a group's own Jacobian lies in the group's rows and columns. -/
theorem jacobianAll_in_range (es : List (Entry α)) (x : Nat → Option α) (n : Nat)
    (hd : Declared es n) (ts : List (Triplet α)) (ws : List (Warning α))
    (h : jacobianAll es x = .ok (ts, ws)) : ∀ t ∈ ts, t.1 < numRows es ∧ t.2.1 < n := by
  rintro ⟨r, c, v⟩ hm
  obtain ⟨_, hb, e, he, hc⟩ := jacobianFrom_rows_cols _ x es 0 ts ws h r c v hm
  exact ⟨by simpa using hb, hd e he c hc⟩

/-- The block structure, spelled out: in the union's Jacobian the first group's contributions have
rows `< numRows es1` and columns `< n1`, the second group's have rows `≥ numRows es1` and columns
`≥ n1` — no contribution couples a row of one group with a variable of the other. -/
theorem blockJac_no_coupling (R1 n1 : Nat) (jac1 jac2 : List (Triplet α))
    (h1 : ∀ t ∈ jac1, t.1 < R1 ∧ t.2.1 < n1) :
    ∀ t ∈ blockJac R1 n1 jac1 jac2, (t.1 < R1 ↔ t.2.1 < n1) := by
  intro t ht
  rcases List.mem_append.mp ht with ht | ht
  · have := h1 t ht; exact ⟨fun _ => this.2, fun _ => this.1⟩
  · simp only [shiftTriplets, List.mem_map] at ht
    obtain ⟨t', _, rfl⟩ := ht
    constructor <;> intro h <;> simp only at h <;> omega

/-! ### 4. Applying a concatenated step -/

/-- `x += d` on concatenated lists is done group by group. -/
theorem applyStep_append (x1 x2 d1 d2 : List α) (h : d1.length = x1.length) :
    applyStep (x1 ++ x2) (d1 ++ d2) = applyStep x1 d1 ++ applyStep x2 d2 := by
  unfold applyStep
  exact List.zipWith_append h.symm

/-- All values of a concatenation are finite iff all values of both parts are. -/
theorem allFinite_append (a b : List α) : allFinite (a ++ b) = (allFinite a && allFinite b) := by
  simp [allFinite]

/-! ### 5. The block-solver hypothesis -/

/-- **Block solver**: whenever the groups' solvers answer `d1` and `d2` (of the right lengths) for
in-range data `(jac1, r1)` and `(jac2, r2)`, the union's solver answers `d1 ++ d2` for the block
combination.  (Over ℝ this is what `GN.step_of_blocks` together with `GN.step_unique` give for the
exact damped step; here it is a hypothesis on the three solver parameters.)  `R1, R2` are the
groups' numbers of rows and `n1, n2` their numbers of variables. -/
def BlockSolve (solveU solve1 solve2 : Nat → List (Triplet α) → List α → Except SolveError (List α))
    (R1 R2 n1 n2 : Nat) : Prop :=
  ∀ (k : Nat) (jac1 jac2 : List (Triplet α)) (r1 r2 d1 d2 : List α),
    r1.length = R1 → r2.length = R2 →
    (∀ t ∈ jac1, t.1 < R1 ∧ t.2.1 < n1) → (∀ t ∈ jac2, t.1 < R2 ∧ t.2.1 < n2) →
    solve1 k jac1 r1 = .ok d1 → solve2 k jac2 r2 = .ok d2 → d1.length = n1 → d2.length = n2 →
    solveU k (blockJac R1 n1 jac1 jac2) (r1 ++ r2) = .ok (d1 ++ d2)

/-- The hypothesis is satisfiable (here by the solvers that always answer "no movement"). -/
example (R1 R2 n1 n2 : Nat) :
    BlockSolve (α := α) (fun _ _ _ => .ok (List.replicate (n1 + n2) 0.0))
      (fun _ _ _ => .ok (List.replicate n1 0.0)) (fun _ _ _ => .ok (List.replicate n2 0.0))
      R1 R2 n1 n2 := by
  intro k jac1 jac2 r1 r2 d1 d2 _ _ _ _ hd1 hd2 _ _
  injection hd1 with hd1; injection hd2 with hd2
  subst hd1 hd2
  simp [List.replicate_append_replicate]

/-! ### 6. One round of the union's loop (every scalar type) -/

/-- One round of the loop once the residual, the Jacobian and the largest residual are known. -/
theorem newtonStep_eval (es : List (Entry α)) (cfg : Config α)
    (solve : Nat → List (Triplet α) → List α → Except SolveError (List α)) (k : Nat) (x : List α)
    (ws : List (Warning α)) (r : List α) (wr : List (Warning α)) (jac : List (Triplet α))
    (wj : List (Warning α)) (m : α) (hr : residualAll es (lookup x) = .ok (r, wr))
    (hj : jacobianAll es (lookup x) = .ok (jac, wj)) (hm : maxAbs? r = some m) :
    newtonStep es cfg solve k x ws =
      if m ≤ cfg.convergenceTolerance then .done ⟨x, k, ws ++ wr ++ wj, jac, true⟩
      else
        match solve k jac r with
        | .error e => .fail e (ws ++ wr ++ wj)
        | .ok d =>
          if d.length ≠ x.length then .fail (.panic "d has the wrong length") (ws ++ wr ++ wj)
          else if !allFinite (applyStep x d) then .fail .didNotConverge (ws ++ wr ++ wj)
          else if stepInfNorm d ≤ stepThreshold cfg x then
            .done ⟨applyStep x d, k, ws ++ wr ++ wj, jac, false⟩
          else .next (applyStep x d) (ws ++ wr ++ wj) := by
  simp only [newtonStep, hr, hj, hm]
  rfl

/-- Anatomy of a round that continues, with the warnings: the residual test failed, the solver
answered `d` of the right length, the new values are finite, the step test failed, and the round's
warnings are the residual's followed by the Jacobian's. -/
theorem newtonStep_next_inv (es : List (Entry α)) (cfg : Config α)
    (solve : Nat → List (Triplet α) → List α → Except SolveError (List α)) (k : Nat) (x : List α)
    (ws : List (Warning α)) (x' : List α) (ws' : List (Warning α))
    (h : newtonStep es cfg solve k x ws = .next x' ws') :
    ∃ r wr jac wj m d, residualAll es (lookup x) = .ok (r, wr) ∧
      jacobianAll es (lookup x) = .ok (jac, wj) ∧ maxAbs? r = some m ∧
      ¬ m ≤ cfg.convergenceTolerance ∧ solve k jac r = .ok d ∧ d.length = x.length ∧
      allFinite (applyStep x d) = true ∧ ¬ stepInfNorm d ≤ stepThreshold cfg x ∧
      x' = applyStep x d ∧ ws' = ws ++ wr ++ wj := by
  unfold newtonStep at h
  split at h
  · simp at h
  · rename_i r w1 hr
    split at h
    · simp at h
    · rename_i jac w2 hj
      split at h
      · simp at h
      · rename_i largest hm
        split at h
        · simp at h
        · rename_i hl
          split at h
          · simp at h
          · rename_i d hd
            split at h
            · simp at h
            · rename_i hlen
              split at h
              · simp at h
              · rename_i hfin
                split at h
                · simp at h
                · rename_i hst
                  injection h with h1 h2
                  exact ⟨r, w1, jac, w2, largest, d, hr, hj, hm, hl, hd, by simpa using hlen,
                    by simpa using hfin, hst, h1.symm, h2.symm⟩

/-- A round returns at the residual test exactly when residual and Jacobian evaluate and the
largest absolute residual is within the tolerance; the returned record is then determined. -/
theorem newtonStep_done_byResidual_iff (es : List (Entry α)) (cfg : Config α)
    (solve : Nat → List (Triplet α) → List α → Except SolveError (List α)) (k : Nat) (x : List α)
    (ws : List (Warning α)) (res : NewtonOk α) :
    (newtonStep es cfg solve k x ws = .done res ∧ res.byResidual = true) ↔
      ∃ r wr jac wj m, residualAll es (lookup x) = .ok (r, wr) ∧
        jacobianAll es (lookup x) = .ok (jac, wj) ∧ maxAbs? r = some m ∧
        m ≤ cfg.convergenceTolerance ∧ res = ⟨x, k, ws ++ wr ++ wj, jac, true⟩ := by
  constructor
  · rintro ⟨h, hb⟩
    unfold newtonStep at h
    split at h
    · simp at h
    · rename_i r w1 hr
      split at h
      · simp at h
      · rename_i jac w2 hj
        split at h
        · simp at h
        · rename_i largest hm
          split at h
          · rename_i hl
            injection h with h
            exact ⟨r, w1, jac, w2, largest, hr, hj, hm, hl, h.symm⟩
          · split at h
            · simp at h
            · split at h
              · simp at h
              · split at h
                · simp at h
                · split at h
                  · injection h with h; subst h; simp at hb
                  · simp at h
  · rintro ⟨r, wr, jac, wj, m, hr, hj, hm, hl, rfl⟩
    rw [newtonStep_eval es cfg solve k x ws r wr jac wj m hr hj hm, if_pos hl]
    exact ⟨rfl, rfl⟩

/-- A non-empty request list has a non-empty residual vector. -/
theorem residualAll_ne_nil (es : List (Entry α)) (x : Nat → Option α) (r : List α)
    (w : List (Warning α)) (h : residualAll es x = .ok (r, w)) (hne : es ≠ []) : r ≠ [] := by
  have hlen := residualAll_length x es r w h
  cases es with
  | nil => exact absurd rfl hne
  | cons e rest =>
    rw [numRows_cons] at hlen
    intro hr
    subst hr
    rcases residualDim_range e.c with h1 | h1 | h1 <;> simp [h1] at hlen <;> omega

/-- The largest absolute entry exists exactly for a non-empty list. -/
theorem maxAbs?_eq_none_iff (r : List α) : maxAbs? r = none ↔ r = [] := by
  cases r <;> simp [maxAbs?]

/-- The data of one group at one round: residual, Jacobian, the solver's step. -/
structure GroupRound (es : List (Entry α))
    (solve : Nat → List (Triplet α) → List α → Except SolveError (List α)) (k : Nat) (x : List α)
    (r : List α) (wr : List (Warning α)) (jac : List (Triplet α)) (wj : List (Warning α))
    (d : List α) : Prop where
  /-- every declared id is a position of `x` -/
  hdecl : Declared es x.length
  /-- the residual at `x` -/
  hres : residualAll es (lookup x) = .ok (r, wr)
  /-- the Jacobian at `x` -/
  hjac : jacobianAll es (lookup x) = .ok (jac, wj)
  /-- the group's own step -/
  hstep : solve k jac r = .ok d
  /-- the step has one component per variable -/
  hlen : d.length = x.length

/-- **One round of the union, as a formula in the groups' own data**: if both groups evaluate and
their solvers answer `d1`, `d2`, then under the block-solver hypothesis the union's round is:
residual test on `r1 ++ r2` (returning `x1 ++ x2` untouched), else the new values
`applyStep x1 d1 ++ applyStep x2 d2`, the finiteness check on them, and the step test on
`d1 ++ d2` against the threshold of `x1 ++ x2`.  The warnings are the groups' residual warnings
followed by the groups' Jacobian warnings. -/
theorem newtonStep_union_eq (es1 es2 : List (Entry α)) (cfg : Config α)
    (solveU solve1 solve2 : Nat → List (Triplet α) → List α → Except SolveError (List α))
    (k : Nat) (x1 x2 : List α) (ws : List (Warning α))
    (r1 r2 : List α) (wr1 wr2 : List (Warning α)) (jac1 jac2 : List (Triplet α))
    (wj1 wj2 : List (Warning α)) (d1 d2 : List α)
    (g1 : GroupRound es1 solve1 k x1 r1 wr1 jac1 wj1 d1)
    (g2 : GroupRound es2 solve2 k x2 r2 wr2 jac2 wj2 d2)
    (hB : BlockSolve solveU solve1 solve2 (numRows es1) (numRows es2) x1.length x2.length)
    (m : α) (hm : maxAbs? (r1 ++ r2) = some m) :
    newtonStep (unionEntries x1.length es1 es2) cfg solveU k (x1 ++ x2) ws =
      if m ≤ cfg.convergenceTolerance then
        .done ⟨x1 ++ x2, k, ws ++ (wr1 ++ wr2) ++ (wj1 ++ wj2),
          blockJac (numRows es1) x1.length jac1 jac2, true⟩
      else if !(allFinite (applyStep x1 d1) && allFinite (applyStep x2 d2)) then
        .fail .didNotConverge (ws ++ (wr1 ++ wr2) ++ (wj1 ++ wj2))
      else if stepInfNorm (d1 ++ d2) ≤ stepThreshold cfg (x1 ++ x2) then
        .done ⟨applyStep x1 d1 ++ applyStep x2 d2, k, ws ++ (wr1 ++ wr2) ++ (wj1 ++ wj2),
          blockJac (numRows es1) x1.length jac1 jac2, false⟩
      else .next (applyStep x1 d1 ++ applyStep x2 d2) (ws ++ (wr1 ++ wr2) ++ (wj1 ++ wj2)) := by
  have hr := residualAll_union es1 es2 x1 x2 g1.hdecl r1 r2 wr1 wr2 g1.hres g2.hres
  have hj := jacobianAll_union es1 es2 x1 x2 g1.hdecl jac1 jac2 wj1 wj2 g1.hjac g2.hjac
  have hs : solveU k (blockJac (numRows es1) x1.length jac1 jac2) (r1 ++ r2) = .ok (d1 ++ d2) :=
    hB k jac1 jac2 r1 r2 d1 d2 (residualAll_length _ es1 r1 wr1 g1.hres)
      (residualAll_length _ es2 r2 wr2 g2.hres)
      (jacobianAll_in_range es1 _ _ g1.hdecl jac1 wj1 g1.hjac)
      (jacobianAll_in_range es2 _ _ g2.hdecl jac2 wj2 g2.hjac) g1.hstep g2.hstep g1.hlen g2.hlen
  have hlen : (d1 ++ d2).length = (x1 ++ x2).length := by
    simp [g1.hlen, g2.hlen]
  rw [newtonStep_eval _ cfg solveU k (x1 ++ x2) ws _ _ _ _ m hr hj hm, hs]
  simp only [hlen, ne_eq, not_true_eq_false, ↓reduceIte, applyStep_append x1 x2 d1 d2 g1.hlen,
    allFinite_append]

/-- The values a round produces: `none` for a failure, the returned values for `.done`, the next
iterate for `.next`. -/
def StepResult.values? : StepResult α → Option (List α)
  | .done r => some r.values
  | .fail _ _ => none
  | .next x _ => some x

/-- **The values of one group never depend on the other group** (`union_values_split`): in every
case where the union's round produces values — return at the residual test, return at the step
test, or continue — they are the concatenation of values that each depend on one group only:
`x1 ++ x2` untouched at the residual test, and otherwise `applyStep x1 d1 ++ applyStep x2 d2` with
`d1`, `d2` the groups' own steps.  Only the decision when to stop is global. -/
theorem union_values_split (es1 es2 : List (Entry α)) (cfg : Config α)
    (solveU solve1 solve2 : Nat → List (Triplet α) → List α → Except SolveError (List α))
    (k : Nat) (x1 x2 : List α) (ws : List (Warning α))
    (r1 r2 : List α) (wr1 wr2 : List (Warning α)) (jac1 jac2 : List (Triplet α))
    (wj1 wj2 : List (Warning α)) (d1 d2 : List α)
    (g1 : GroupRound es1 solve1 k x1 r1 wr1 jac1 wj1 d1)
    (g2 : GroupRound es2 solve2 k x2 r2 wr2 jac2 wj2 d2)
    (hB : BlockSolve solveU solve1 solve2 (numRows es1) (numRows es2) x1.length x2.length) :
    (∀ xU' wsU', newtonStep (unionEntries x1.length es1 es2) cfg solveU k (x1 ++ x2) ws =
        .next xU' wsU' → xU' = applyStep x1 d1 ++ applyStep x2 d2) ∧
    (∀ res, newtonStep (unionEntries x1.length es1 es2) cfg solveU k (x1 ++ x2) ws = .done res →
      (res.byResidual = true ∧ res.values = x1 ++ x2) ∨
      (res.byResidual = false ∧ res.values = applyStep x1 d1 ++ applyStep x2 d2)) := by
  cases hm : maxAbs? (r1 ++ r2) with
  | none =>
    have hr := residualAll_union es1 es2 x1 x2 g1.hdecl r1 r2 wr1 wr2 g1.hres g2.hres
    have hj := jacobianAll_union es1 es2 x1 x2 g1.hdecl jac1 jac2 wj1 wj2 g1.hjac g2.hjac
    constructor
    · intro xU' wsU' h; simp [newtonStep, hr, hj, hm] at h
    · intro res h; simp [newtonStep, hr, hj, hm] at h
  | some m =>
    rw [newtonStep_union_eq es1 es2 cfg solveU solve1 solve2 k x1 x2 ws r1 r2 wr1 wr2 jac1 jac2
      wj1 wj2 d1 d2 g1 g2 hB m hm]
    constructor
    · intro xU' wsU' h
      split at h
      · simp at h
      · split at h
        · simp at h
        · split at h
          · simp at h
          · injection h with h1 _; exact h1.symm
    · intro res h
      split at h
      · injection h with h; subst h; exact Or.inl ⟨rfl, rfl⟩
      · split at h
        · simp at h
        · split at h
          · injection h with h; subst h; exact Or.inr ⟨rfl, rfl⟩
          · simp at h

/-! ### 7. Rounds that continue -/

/-- `j` rounds that all continue: the values and warnings after them, `none` if some round among
them returned or failed. -/
def newtonRun (es : List (Entry α)) (cfg : Config α)
    (solve : Nat → List (Triplet α) → List α → Except SolveError (List α)) :
    Nat → Nat → List α → List (Warning α) → Option (List α × List (Warning α))
  | 0, _, x, ws => some (x, ws)
  | j + 1, k, x, ws =>
    match newtonStep es cfg solve k x ws with
    | .next x' ws' => newtonRun es cfg solve j (k + 1) x' ws'
    | _ => none

/-- After `j` continuing rounds the loop is where it would be had it been started there. -/
theorem newtonLoop_of_run (es : List (Entry α)) (cfg : Config α)
    (solve : Nat → List (Triplet α) → List α → Except SolveError (List α)) :
    ∀ (j fuel k : Nat) (x : List α) (ws : List (Warning α)) (y : List α) (wy : List (Warning α)),
      newtonRun es cfg solve j k x ws = some (y, wy) →
      newtonLoop es cfg solve (j + fuel) k x ws = newtonLoop es cfg solve fuel (k + j) y wy := by
  intro j
  induction j with
  | zero =>
    intro fuel k x ws y wy h
    simp only [newtonRun, Option.some.injEq, Prod.mk.injEq] at h
    obtain ⟨rfl, rfl⟩ := h
    simp
  | succ j ih =>
    intro fuel k x ws y wy h
    unfold newtonRun at h
    split at h
    · rename_i x' ws' hs
      have e : j + 1 + fuel = (j + fuel) + 1 := by omega
      rw [e, newtonLoop, hs]
      simp only
      rw [ih fuel (k + 1) x' ws' y wy h]
      congr 1; omega
    · simp at h

end Ezpz
