/-
Facts about what a prioritised solve reports: which per-level result is returned, and how request
positions flow into the report.  All statements hold for every scalar type.
-/
import Ezpz.Proofs.SolveInner
import Ezpz.Proofs.Priority
set_option linter.unusedSectionVars false
namespace Ezpz
open Transc

variable {α : Type} [Add α] [Sub α] [Mul α] [Div α] [Neg α] [OfScientific α]
  [LT α] [DecidableLT α] [LE α] [DecidableLE α] [Transc α]

/-! ### `enumerate` -/

theorem enumerate_ids (reqs : List (Constraint α × Nat)) :
    (enumerate reqs).map (·.id) = List.range reqs.length := by
  have : (enumerate reqs).map (·.id) = (reqs.zipIdx).map Prod.snd := by
    simp [enumerate, List.map_map, Function.comp_def]
  rw [this, List.zipIdx_map_snd]
  simp [List.range_eq_range']

theorem mem_enumerate (reqs : List (Constraint α × Nat)) (e : Entry α) (h : e ∈ enumerate reqs) :
    reqs[e.id]? = some (e.c, e.priority) := by
  simp only [enumerate, List.mem_map] at h
  obtain ⟨⟨⟨c, p⟩, i⟩, hm, rfl⟩ := h
  exact List.mem_zipIdx_iff_getElem?.mp hm

theorem enumerate_length (reqs : List (Constraint α × Nat)) :
    (enumerate reqs).length = reqs.length := by simp [enumerate]

theorem enumerate_priorities (reqs : List (Constraint α × Nat)) (q : Nat) :
    (∃ e ∈ enumerate reqs, e.priority = q) ↔ ∃ r ∈ reqs, r.2 = q := by
  constructor
  · rintro ⟨e, he, rfl⟩
    have := mem_enumerate reqs e he
    exact ⟨(e.c, e.priority), List.mem_of_getElem? this, rfl⟩
  · rintro ⟨⟨c, p⟩, hr, rfl⟩
    obtain ⟨i, hi, hget⟩ := List.getElem_of_mem hr
    refine ⟨⟨c, i, p⟩, ?_, rfl⟩
    simp only [enumerate, List.mem_map]
    refine ⟨((c, p), i), ?_, rfl⟩
    apply List.mem_zipIdx_iff_getElem?.mpr
    simp [List.getElem?_eq_getElem hi, hget]

theorem levels_ne_nil (reqs : List (Constraint α × Nat)) (h : reqs ≠ []) :
    levels (enumerate reqs) ≠ [] := by
  cases reqs with
  | nil => exact absurd rfl h
  | cons r rest =>
    intro hl
    have : r.2 ∈ levels (enumerate (r :: rest)) := by
      rw [mem_levels, enumerate_priorities]; exact ⟨r, by simp, rfl⟩
    rw [hl] at this
    simp at this

/-! ### Which per-level result the loop returns -/

theorem loopOver_ok_mem :
    ∀ (rs : List (Except (Failure α) (Outcome α))) (res : Option (Outcome α)) (o : Outcome α),
      loopOver rs res = .ok (some o) → res = some o ∨ .ok o ∈ rs := by
  intro rs
  induction rs with
  | nil => intro res o h; simp [loopOver] at h; exact Or.inl h
  | cons r rest ih =>
    intro res o h
    cases r with
    | error f =>
      cases res with
      | none => simp [loopOver] at h
      | some o' => simp [loopOver] at h; exact Or.inl (by rw [h])
    | ok o' =>
      simp only [loopOver] at h
      split at h
      · cases res with
        | none => simp at h; subst h; exact Or.inr (by simp)
        | some o'' => simp at h; subst h; exact Or.inl rfl
      · rcases ih (some o') o h with h1 | h1
        · injection h1 with h1; subst h1; exact Or.inr (by simp)
        · exact Or.inr (by simp [h1])

theorem loopOver_error :
    ∀ (rs : List (Except (Failure α) (Outcome α))) (f : Failure α),
      loopOver rs none = .error f → rs.head? = some (.error f) := by
  intro rs f h
  cases rs with
  | nil => simp [loopOver] at h
  | cons r rest =>
    cases r with
    | error f' => simp [loopOver] at h; simp [h]
    | ok o' =>
      simp only [loopOver] at h
      split at h
      · simp at h
      · -- once something is held the loop cannot fail
        exfalso
        have key : ∀ (rs : List (Except (Failure α) (Outcome α))) (o : Outcome α) (f : Failure α),
            loopOver rs (some o) ≠ .error f := by
          intro rs
          induction rs with
          | nil => intro o f; simp [loopOver]
          | cons r rest ih =>
            intro o f
            cases r with
            | error _ => simp [loopOver]
            | ok o2 =>
              simp only [loopOver]
              split
              · simp
              · exact ih o2 f
        exact key rest o' f h

/-- Once an outcome is held, the loop returns an outcome. -/
theorem loopOver_some_ne_none :
    ∀ (rs : List (Except (Failure α) (Outcome α))) (o : Outcome α),
      loopOver rs (some o) ≠ .ok none := by
  intro rs
  induction rs with
  | nil => intro o; simp [loopOver]
  | cons r rest ih =>
    intro o
    cases r with
    | error _ => simp [loopOver]
    | ok o2 =>
      simp only [loopOver]
      split
      · simp
      · exact ih o2

theorem loopOver_none_nil_only :
    ∀ (rs : List (Except (Failure α) (Outcome α))), loopOver rs none = .ok none → rs = [] := by
  intro rs h
  cases rs with
  | nil => rfl
  | cons r rest =>
    exfalso
    cases r with
    | error f => simp [loopOver] at h
    | ok o =>
      simp only [loopOver] at h
      split at h
      · simp at h
      · exact loopOver_some_ne_none rest o h

theorem mem_levelResults (es : List (Entry α)) (guesses : List (Nat × α)) (cfg : Config α)
    (solve : LinSolve α) (svd : Option (Svd α)) :
    ∀ (lvls : List Nat) (call : Nat) (r : Except (Failure α) (Outcome α)),
      r ∈ levelResults es guesses cfg solve svd lvls call →
      ∃ p ∈ lvls, ∃ i, r = levelRun es guesses cfg solve svd i p := by
  intro lvls
  induction lvls with
  | nil => intro call r h; simp [levelResults] at h
  | cons p rest ih =>
    intro call r h
    simp only [levelResults, List.mem_cons] at h
    rcases h with h | h
    · exact ⟨p, by simp, call, h⟩
    · obtain ⟨q, hq, i, hi⟩ := ih (call + 1) r h
      exact ⟨q, by simp [hq], i, hi⟩

theorem levelResults_head (es : List (Entry α)) (guesses : List (Nat × α)) (cfg : Config α)
    (solve : LinSolve α) (svd : Option (Svd α)) (p : Nat) (rest : List Nat) (call : Nat) :
    (levelResults es guesses cfg solve svd (p :: rest) call).head? =
      some (levelRun es guesses cfg solve svd call p) := rfl

end Ezpz
