/-
Helper lemmas about the Newton loop (`newtonStep`, `newtonLoop`).  All statements hold for every
scalar type.
-/
import Ezpz.Model.Solve
namespace Ezpz
open Transc

variable {α : Type} [Add α] [Sub α] [Mul α] [Div α] [Neg α] [OfScientific α]
  [LT α] [DecidableLT α] [LE α] [DecidableLE α] [Transc α]

section
variable (es : List (Entry α)) (cfg : Config α)
  (solve : Nat → List (Triplet α) → List α → Except SolveError (List α))

/-- A round that returns reports the current round number. -/
theorem newtonStep_done_iterations (k : Nat) (x : List α) (ws : List (Warning α)) (r : NewtonOk α)
    (h : newtonStep es cfg solve k x ws = .done r) : r.iterations = k := by
  fun_cases newtonStep es cfg solve k x ws <;> simp_all [newtonStep] <;> (subst h; rfl)

/-- The reported iteration count lies in `[k, k + fuel)`. -/
theorem newtonLoop_iterations :
    ∀ (fuel k : Nat) (x : List α) (ws : List (Warning α)) (r : NewtonOk α),
      newtonLoop es cfg solve fuel k x ws = .ok r → k ≤ r.iterations ∧ r.iterations < k + fuel := by
  intro fuel
  induction fuel with
  | zero => intro k x ws r h; simp [newtonLoop] at h
  | succ fuel ih =>
    intro k x ws r h
    unfold newtonLoop at h
    split at h
    · rename_i r' hs
      injection h with h; subst h
      have := newtonStep_done_iterations es cfg solve k x ws _ hs
      omega
    · simp at h
    · have := ih (k + 1) _ _ r h
      omega

/-- A result that is not "did not converge" is reproduced with any larger amount of fuel. -/
theorem newtonLoop_fuel_mono :
    ∀ (fuel j k : Nat) (x : List α) (ws : List (Warning α))
      (res : Except (SolveError × List (Warning α)) (NewtonOk α)),
      newtonLoop es cfg solve fuel k x ws = res →
      (∀ ws', res ≠ .error (.didNotConverge, ws')) →
      newtonLoop es cfg solve (fuel + j) k x ws = res := by
  intro fuel
  induction fuel with
  | zero =>
    intro j k x ws res h hne
    simp [newtonLoop] at h
    exact absurd h.symm (hne ws)
  | succ fuel ih =>
    intro j k x ws res h hne
    have e : fuel + 1 + j = (fuel + j) + 1 := by omega
    rw [e]
    unfold newtonLoop at h ⊢
    split
    · rename_i r hs; rw [hs] at h; exact h
    · rename_i e' ws' hs; rw [hs] at h; exact h
    · rename_i x' ws' hs
      rw [hs] at h
      exact ih j (k + 1) x' ws' res h hne

/-- Running out of iterations under some cap means the same under every smaller cap. -/
theorem newtonLoop_err_mono (fuel j k : Nat) (x : List α) (ws ws' : List (Warning α))
    (h : newtonLoop es cfg solve (fuel + j) k x ws = .error (.didNotConverge, ws')) :
    ∃ ws'', newtonLoop es cfg solve fuel k x ws = .error (.didNotConverge, ws'') := by
  cases hres : newtonLoop es cfg solve fuel k x ws with
  | ok r =>
    have := newtonLoop_fuel_mono es cfg solve fuel j k x ws _ hres (by intro ws'; simp)
    rw [this] at h; simp at h
  | error ew =>
    obtain ⟨e, w⟩ := ew
    by_cases he : e = .didNotConverge
    · subst he; exact ⟨w, rfl⟩
    · have := newtonLoop_fuel_mono es cfg solve fuel j k x ws _ hres
        (by intro ws'; simp; intro h1; exact absurd h1 he)
      rw [this] at h
      simp at h
      exact absurd h.1 he

/-- If the residual test passes at the current values, the round returns them untouched and never
calls the linear solver. -/
theorem newtonStep_converged (k : Nat) (x : List α) (ws w1 w2 : List (Warning α)) (r : List α)
    (jac : List (Triplet α)) (largest : α)
    (hr : residualAll es (lookup x) = .ok (r, w1))
    (hj : jacobianAll es (lookup x) = .ok (jac, w2))
    (hm : maxAbs? r = some largest) (hc : largest ≤ cfg.convergenceTolerance) :
    newtonStep es cfg solve k x ws = .done ⟨x, k, ws ++ w1 ++ w2, jac, true⟩ := by
  simp [newtonStep, hr, hj, hm, hc]

end
end Ezpz
