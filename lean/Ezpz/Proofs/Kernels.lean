/-
Index discipline of the per-kind kernels: every slot a kernel reads is declared, every Jacobian
entry it emits is for a variable declared in the same row, rows beyond `residualDim` are empty,
`residualDim ∈ {1,2,3}` and agrees with the table extracted from the Rust source.
Holds for every scalar type.
-/
import Ezpz.Model.Solve
set_option linter.unusedSectionVars false
namespace Ezpz
open Transc

variable {α : Type} [Add α] [Sub α] [Mul α] [Div α] [Neg α] [OfScientific α]
  [LT α] [DecidableLT α] [LE α] [DecidableLE α] [Transc α]

/-- Every slot read by `residual` is a declared variable of the constraint. -/
theorem residualReads_subset (c : Constraint α) : ∀ i ∈ c.residualReads, i ∈ c.nonzeroes.all := by
  cases c <;>
    simp [Constraint.residualReads, Constraint.nonzeroes, Rows.all, Pt.vars, Seg.vars, Circ.vars,
      ArcD.vars] <;> grind

/-- Every slot read by `jacobian_rows` is a declared variable of the constraint. -/
theorem jacobianReads_subset (c : Constraint α) : ∀ i ∈ c.jacobianReads, i ∈ c.nonzeroes.all := by
  cases c <;>
    simp [Constraint.jacobianReads, Constraint.nonzeroes, Rows.all, Pt.vars, Seg.vars, Circ.vars,
      ArcD.vars] <;> grind

/-- `residual_dim` is 1, 2 or 3 (so `is_satisfied`'s `unreachable!` is unreachable). -/
theorem residualDim_range (c : Constraint α) :
    c.residualDim = 1 ∨ c.residualDim = 2 ∨ c.residualDim = 3 := by
  cases c <;> simp [Constraint.residualDim]

/-- The model's `residualDim` is the table extracted from `Constraint::residual_dim`. -/
theorem residualDim_eq_table (c : Constraint α) :
    Gen.RESIDUAL_DIM.lookup c.kindName = some c.residualDim := by
  cases c <;> simp only [Constraint.kindName, Constraint.residualDim] <;> decide

/-- The model's kind names are the variants of the Rust enum, in the same number. -/
theorem kindName_mem_variants (c : Constraint α) : c.kindName ∈ Gen.VARIANTS := by
  cases c <;> simp only [Constraint.kindName] <;> decide

/-- Declared rows beyond `residualDim` are empty. -/
theorem nonzeroes_rows_beyond_dim (c : Constraint α) :
    (c.residualDim < 2 → c.nonzeroes.r1 = []) ∧ (c.residualDim < 3 → c.nonzeroes.r2 = []) := by
  cases c <;> simp [Constraint.residualDim, Constraint.nonzeroes]


theorem distJacRow_ids (v : Nat → α) (p0 p1 : Pt) (row : List (JVar α))
    (h : distJacRow v p0 p1 = some row) : row.map (·.id) = [p0.x, p0.y, p1.x, p1.y] := by
  simp only [distJacRow] at h
  split at h
  · simp at h
  · injection h with h; subst h; rfl

theorem linesAtAngleJac_ids (v : Nat → α) (l0 l1 : Seg) (k : AngleKind α) :
    (∀ jv ∈ (linesAtAngleJac v l0 l1 k).r0, jv.id ∈ l0.vars ++ l1.vars) ∧
    (linesAtAngleJac v l0 l1 k).r1 = [] ∧ (linesAtAngleJac v l0 l1 k).r2 = [] := by
  unfold linesAtAngleJac
  cases k with
  | parallel => simp [jvars4, Seg.vars] <;> grind
  | perpendicular => simp [jvars4, Seg.vars] <;> grind
  | other a =>
    dsimp only
    split
    · simp
    · simp [jvars4, Seg.vars] <;> grind

/-- Every Jacobian entry emitted for row `k` is for a variable declared in row `k`
(so the scatter's lookup in the sparsity pattern cannot fail). -/
theorem jacobianV_ids_subset (c : Constraint α) (v : Nat → α) :
    (∀ jv ∈ (c.jacobianV v).r0, jv.id ∈ c.nonzeroes.r0) ∧
    (∀ jv ∈ (c.jacobianV v).r1, jv.id ∈ c.nonzeroes.r1) ∧
    (∀ jv ∈ (c.jacobianV v).r2, jv.id ∈ c.nonzeroes.r2) := by
  cases c with
  | linesAtAngle l0 l1 k =>
    have := linesAtAngleJac_ids v l0 l1 k
    simp only [Constraint.jacobianV, Constraint.nonzeroes]
    refine ⟨this.1, ?_, ?_⟩ <;> simp [this.2.1, this.2.2]
  | arcAngle a ang =>
    have := linesAtAngleJac_ids v ⟨a.center, a.start⟩ ⟨a.center, a.stop⟩ (.other ang)
    simp only [Constraint.jacobianV, Constraint.nonzeroes]
    refine ⟨this.1, ?_, ?_⟩ <;> simp [this.2.1, this.2.2]
  | distance p0 p1 d =>
    simp only [Constraint.jacobianV, Constraint.nonzeroes]
    cases h : distJacRow v p0 p1 with
    | none => simp
    | some row =>
      have := distJacRow_ids v p0 p1 row h
      simp only [Pt.vars]
      refine ⟨?_, by simp, by simp⟩
      intro jv hjv
      have : jv.id ∈ row.map (·.id) := List.mem_map_of_mem hjv
      simp_all
  | arcRadius a r =>
    simp only [Constraint.jacobianV, Constraint.nonzeroes, Pt.vars]
    refine ⟨?_, ?_, by simp⟩
    · cases h : distJacRow v a.center a.start with
      | none => simp
      | some row =>
        intro jv hjv
        have : jv.id ∈ row.map (·.id) := List.mem_map_of_mem (by simpa using hjv)
        rw [distJacRow_ids v _ _ row h] at this
        simpa using this
    · cases h : distJacRow v a.center a.stop with
      | none => simp
      | some row =>
        intro jv hjv
        have : jv.id ∈ row.map (·.id) := List.mem_map_of_mem (by simpa using hjv)
        rw [distJacRow_ids v _ _ row h] at this
        simpa using this
  | pointArcCoincident a p =>
    simp only [Constraint.jacobianV, Constraint.nonzeroes, Pt.vars]
    have hD : ∀ jv ∈ (distJacRow v a.center p).getD [], jv.id ∈ [a.center.x, a.center.y, p.x, p.y] := by
      cases h : distJacRow v a.center p with
      | none => simp
      | some row =>
        intro jv hjv
        have : jv.id ∈ row.map (·.id) := List.mem_map_of_mem (by simpa using hjv)
        rw [distJacRow_ids v _ _ row h] at this
        exact this
    split
    · refine ⟨?_, by simp, by simp⟩
      intro jv hjv
      rcases List.mem_append.mp hjv with h | h
      · have := hD jv h; simp at this ⊢ <;> grind
      · split at h
        · simp at h ⊢ <;> grind
        · simp at h
    · refine ⟨?_, ?_, ?_⟩
      · intro jv hjv
        rcases List.mem_append.mp hjv with h | h
        · have := hD jv h; simp at this ⊢ <;> grind
        · split at h
          · simp at h ⊢ <;> grind
          · simp at h
      · simp <;> grind
      · simp <;> grind
  | lineTangentToCircle l c =>
    simp only [Constraint.jacobianV, Constraint.nonzeroes, Seg.vars, Circ.vars]
    split <;> simp <;> grind
  | circleTangentToCircle a b =>
    simp [Constraint.jacobianV, Constraint.nonzeroes, Circ.vars] <;> grind
  | linesEqualLength l0 l1 =>
    simp only [Constraint.jacobianV, Constraint.nonzeroes, Seg.vars, jvars4]
    split <;> simp <;> grind
  | pointLineDistance p l d =>
    simp [Constraint.jacobianV, Constraint.nonzeroes, Seg.vars, Pt.vars] <;> grind
  | verticalPointLineDistance p l d =>
    simp only [Constraint.jacobianV, Constraint.nonzeroes, Seg.vars, Pt.vars]
    split <;> simp <;> grind
  | horizontalPointLineDistance p l d =>
    simp only [Constraint.jacobianV, Constraint.nonzeroes, Seg.vars, Pt.vars]
    split <;> simp <;> grind
  | symmetric l a b =>
    simp only [Constraint.jacobianV, Constraint.nonzeroes, Seg.vars, Pt.vars]
    split <;> simp <;> grind
  | arcLength a d =>
    simp only [Constraint.jacobianV, Constraint.nonzeroes, ArcD.vars]
    split <;> simp <;> grind
  | verticalDistance p0 p1 d => simp [Constraint.jacobianV, Constraint.nonzeroes]
  | horizontalDistance p0 p1 d => simp [Constraint.jacobianV, Constraint.nonzeroes]
  | vertical l => simp [Constraint.jacobianV, Constraint.nonzeroes]
  | horizontal l => simp [Constraint.jacobianV, Constraint.nonzeroes]
  | fixed id x => simp [Constraint.jacobianV, Constraint.nonzeroes]
  | scalarEqual x y => simp [Constraint.jacobianV, Constraint.nonzeroes]
  | pointsCoincident p0 p1 => simp [Constraint.jacobianV, Constraint.nonzeroes]
  | circleRadius c r => simp [Constraint.jacobianV, Constraint.nonzeroes]
  | isArc a => simp [Constraint.jacobianV, Constraint.nonzeroes, ArcD.vars]
  | midpoint l p => simp [Constraint.jacobianV, Constraint.nonzeroes]


/-- The error measure depends only on the slots it reads. -/
theorem residualV_congr (c : Constraint α) (v w : Nat → α)
    (h : ∀ i ∈ c.residualReads, v i = w i) : c.residualV v = c.residualV w := by
  cases c <;>
    simp only [Constraint.residualReads, List.mem_append, Pt.vars, Seg.vars, Circ.vars, ArcD.vars,
      List.mem_cons, List.not_mem_nil, or_false] at h <;>
    simp only [Constraint.residualV, linesAtAngleResidual, distResidual] <;>
    grind

/-- The error measure is unchanged by changes to variables the constraint does not declare: its
sensitivity to an undeclared variable is zero. -/
theorem residualV_undeclared (c : Constraint α) (v w : Nat → α)
    (h : ∀ i ∈ c.nonzeroes.all, v i = w i) : c.residualV v = c.residualV w :=
  residualV_congr c v w (fun i hi => h i (residualReads_subset c i hi))

end Ezpz
