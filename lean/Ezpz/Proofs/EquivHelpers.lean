/-
Helpers (every scalar type) for lifting C12 to the Newton loop and to `solveInner`:

* a pattern-free description of the assembled system (`tripsOf`, `resOf`) and the theorem that
  reordering the requests renumbers the rows by a bijection of `{0..R-1}`
  (`assembly_rowPres`): the Jacobian contributions of the reordered list are, up to the order of
  the contributions, the original ones with the row index mapped through the bijection, and the
  residual components are moved the same way;
* order-independence of `lint`, `maxPriority`, `unsatisfiedSweep`, `modelNew`;
* the relations in which the results of two runs are compared.
-/
import Ezpz.Proofs.Union
import Ezpz.Proofs.SolveInner
set_option linter.unusedSectionVars false
set_option linter.unusedSimpArgs false
namespace Ezpz
open Transc

variable {α : Type} [Add α] [Sub α] [Mul α] [Div α] [Neg α] [OfScientific α]
  [LT α] [DecidableLT α] [LE α] [DecidableLE α] [Transc α]

/-! ### Bijections of `{0..R-1}` and row renumberings -/

/-- `τ` maps `{0..R-1}` into itself and is injective there (hence a bijection of `{0..R-1}`); no
assumption outside. -/
def PermOn (R : Nat) (τ : Nat → Nat) : Prop :=
  (∀ i, i < R → τ i < R) ∧ ∀ i j, i < R → j < R → τ i = τ j → i = j

/-- The identity is a bijection of `{0..R-1}`. -/
theorem permOn_id (R : Nat) : PermOn R (fun i => i) :=
  ⟨fun _ h => h, fun _ _ _ _ h => h⟩

/-- Bijections of `{0..R-1}` compose. -/
theorem permOn_comp (R : Nat) (τ1 τ2 : Nat → Nat) (h1 : PermOn R τ1) (h2 : PermOn R τ2) :
    PermOn R (fun i => τ2 (τ1 i)) :=
  ⟨fun i h => h2.1 _ (h1.1 i h),
    fun i j hi hj h => h1.2 i j hi hj (h2.2 _ _ (h1.1 i hi) (h1.1 j hj) h)⟩

/-- Renumber the row of a Jacobian contribution; column and value unchanged. -/
def mapRow (τ : Nat → Nat) (t : Triplet α) : Triplet α := (τ t.1, t.2)

/-- Renumbering rows twice is renumbering by the composition. -/
theorem map_mapRow_mapRow (f g : Nat → Nat) (L : List (Triplet α)) :
    (L.map (mapRow f)).map (mapRow g) = L.map (mapRow (fun i => g (f i))) := by
  simp [mapRow, Function.comp_def]

/-- A row renumbering only matters at the rows that occur. -/
theorem map_mapRow_congr (f g : Nat → Nat) (L : List (Triplet α))
    (h : ∀ t ∈ L, f t.1 = g t.1) : L.map (mapRow f) = L.map (mapRow g) := by
  apply List.map_congr_left
  intro t ht
  simp only [mapRow, h t ht]

/-- Renumbering the rows by the identity changes nothing. -/
theorem map_mapRow_id (L : List (Triplet α)) : L.map (mapRow (fun i => i)) = L := by
  rw [show (mapRow (fun i => i) : Triplet α → Triplet α) = id from rfl, List.map_id]

/-- `jac'` is a **row-permuted presentation** of `jac` (with `R` rows): up to the order of the
contributions, `jac'` is `jac` with every row index mapped through a bijection of `{0..R-1}`. -/
def JacRowPerm (R : Nat) (jac jac' : List (Triplet α)) : Prop :=
  ∃ τ, PermOn R τ ∧ jac'.Perm (jac.map (mapRow τ))

/-- `(jac', r')` is a **row-permuted presentation** of the linear system `(jac, r)` (with `R`
rows): one bijection `τ` of `{0..R-1}` moves the rows of the Jacobian contributions
(`jac' ~ jac` with rows mapped through `τ`) and the residual components (`r'[τ i] = r[i]`). -/
def RowPres (R : Nat) (jac : List (Triplet α)) (r : List α) (jac' : List (Triplet α))
    (r' : List α) : Prop :=
  ∃ τ, PermOn R τ ∧ jac'.Perm (jac.map (mapRow τ)) ∧ ∀ i, i < R → r'[τ i]? = r[i]?

/-- A row-permuted presentation of the system gives one of the Jacobian. -/
theorem RowPres.jac {R : Nat} {jac jac' : List (Triplet α)} {r r' : List α}
    (h : RowPres R jac r jac' r') : JacRowPerm R jac jac' := by
  obtain ⟨τ, h1, h2, _⟩ := h
  exact ⟨τ, h1, h2⟩

/-- Every system is a row-permuted presentation of itself. -/
theorem rowPres_refl (R : Nat) (jac : List (Triplet α)) (r : List α) : RowPres R jac r jac r :=
  ⟨fun i => i, permOn_id R, by rw [map_mapRow_id], fun _ _ => rfl⟩

/-! ### The assembled system without the pattern -/

/-- The contributions of one request at first row `row0` (none if it cannot read its slots). -/
def entryTripsAt (e : Entry α) (x : Nat → Option α) (row0 : Nat) : List (Triplet α) :=
  match e.c.jacobianRows x with
  | some j => entryTrips e j row0
  | none => []

/-- All contributions of a request list starting at row `row0`, in scatter order. -/
def tripsOf (es : List (Entry α)) (x : Nat → Option α) (row0 : Nat) : List (Triplet α) :=
  match es with
  | [] => []
  | e :: rest => entryTripsAt e x row0 ++ tripsOf rest x (row0 + e.c.residualDim)

/-- The residual components of one request (zeros if it cannot read its slots). -/
def entryRes (e : Entry α) (x : Nat → Option α) : List α :=
  match e.c.residual x with
  | some r => takeRows e.c.residualDim r.r0 r.r1 r.r2
  | none => List.replicate e.c.residualDim 0.0

/-- All residual components of a request list, in listing order. -/
def resOf (es : List (Entry α)) (x : Nat → Option α) : List α := es.flatMap (fun e => entryRes e x)

/-- One request has as many residual components as its dimension. -/
theorem entryRes_length (e : Entry α) (x : Nat → Option α) :
    (entryRes e x).length = e.c.residualDim := by
  unfold entryRes
  split
  · exact takeRows_length_dim e.c _ _ _
  · simp

/-- The residual components of a cons. -/
theorem resOf_cons (e : Entry α) (rest : List (Entry α)) (x : Nat → Option α) :
    resOf (e :: rest) x = entryRes e x ++ resOf rest x := by
  simp [resOf]

/-- There is one residual component per row. -/
theorem resOf_length (x : Nat → Option α) (es : List (Entry α)) :
    (resOf es x).length = numRows es := by
  induction es with
  | nil => rfl
  | cons e rest ih => rw [resOf_cons, List.length_append, entryRes_length, ih, numRows_cons]

/-- A successful scatter reports exactly `tripsOf`, whatever the pattern. -/
theorem jacobianFrom_eq_tripsOf (pat : List (Nat × Nat)) (x : Nat → Option α) :
    ∀ (es : List (Entry α)) (row0 : Nat) (ts : List (Triplet α)) (ws : List (Warning α)),
      jacobianFrom pat es x row0 = .ok (ts, ws) → ts = tripsOf es x row0 := by
  intro es
  induction es with
  | nil => intro row0 ts ws h; simp [jacobianFrom] at h; simp [h.1, tripsOf]
  | cons e rest ih =>
    intro row0 ts ws h
    obtain ⟨j, ts', ws', hj, _, hrest, rfl, rfl⟩ := jacobianFrom_cons_ok pat e rest x row0 ts ws h
    rw [tripsOf, entryTripsAt, hj, ih _ ts' ws' hrest]

/-- A successful residual evaluation reports exactly `resOf`. -/
theorem residualAll_eq_resOf (x : Nat → Option α) :
    ∀ (es : List (Entry α)) (rs : List α) (ws : List (Warning α)),
      residualAll es x = .ok (rs, ws) → rs = resOf es x := by
  intro es
  induction es with
  | nil => intro rs ws h; simp [residualAll] at h; simp [h.1, resOf]
  | cons e rest ih =>
    intro rs ws h
    obtain ⟨r, rs', ws', hr, hrest, rfl, rfl⟩ := residualAll_cons_ok e rest x rs ws h
    rw [resOf_cons, entryRes, hr, ih rs' ws' hrest]

/-- Moving a request's first row down by `d` adds `d` to the rows of its contributions. -/
theorem entryTripsAt_shift (e : Entry α) (x : Nat → Option α) (row0 d : Nat) :
    entryTripsAt e x (row0 + d) = (entryTripsAt e x row0).map (mapRow (· + d)) := by
  unfold entryTripsAt
  split
  · rw [entryTrips_shift]; rfl
  · rfl

/-- The rows of one request's contributions lie in the request's row range. -/
theorem entryTripsAt_rows (e : Entry α) (x : Nat → Option α) (row0 : Nat) :
    ∀ t ∈ entryTripsAt e x row0, row0 ≤ t.1 ∧ t.1 < row0 + e.c.residualDim := by
  intro t ht
  unfold entryTripsAt at ht
  split at ht
  · obtain ⟨k, jv, hk, _, rfl⟩ := (mem_entryTrips e _ _ _).mp ht
    simp only; omega
  · simp at ht

/-- Starting `d` rows lower adds `d` to the row of every contribution. -/
theorem tripsOf_shift (x : Nat → Option α) (d : Nat) :
    ∀ (es : List (Entry α)) (row0 : Nat),
      tripsOf es x (row0 + d) = (tripsOf es x row0).map (mapRow (· + d)) := by
  intro es
  induction es with
  | nil => intro _; rfl
  | cons e rest ih =>
    intro row0
    rw [tripsOf, tripsOf, List.map_append, entryTripsAt_shift, Nat.add_right_comm, ih]

/-- The contributions starting at row `d` are those starting at row 0, moved down by `d`. -/
theorem tripsOf_at (x : Nat → Option α) (es : List (Entry α)) (d : Nat) :
    tripsOf es x d = (tripsOf es x 0).map (mapRow (· + d)) := by
  have := tripsOf_shift x d es 0
  rwa [Nat.zero_add] at this

/-- Same for one request. -/
theorem entryTripsAt_at (e : Entry α) (x : Nat → Option α) (d : Nat) :
    entryTripsAt e x d = (entryTripsAt e x 0).map (mapRow (· + d)) := by
  have := entryTripsAt_shift e x 0 d
  rwa [Nat.zero_add] at this

/-- The rows of a list's contributions lie in the list's row range. -/
theorem tripsOf_rows (x : Nat → Option α) :
    ∀ (es : List (Entry α)) (row0 : Nat), ∀ t ∈ tripsOf es x row0,
      row0 ≤ t.1 ∧ t.1 < row0 + numRows es := by
  intro es
  induction es with
  | nil => intro _ t ht; simp [tripsOf] at ht
  | cons e rest ih =>
    intro row0 t ht
    rw [tripsOf, List.mem_append] at ht
    rw [numRows_cons]
    rcases ht with ht | ht
    · have := entryTripsAt_rows e x row0 t ht; omega
    · have := ih _ t ht; omega

/-! ### Exchanging two blocks of a list -/

/-- Reading `A ++ (B ++ C)` at `i` and `B ++ (A ++ C)` at the position `i` is moved to when the
blocks `A` and `B` trade places. -/
theorem getElem?_swap_blocks {β : Type} (A B C : List β) (i : Nat) :
    (B ++ (A ++ C))[if i < A.length then i + B.length
        else if i < A.length + B.length then i - A.length else i]? = (A ++ (B ++ C))[i]? := by
  simp only [List.getElem?_append]
  by_cases h1 : i < A.length
  · simp only [h1, ↓reduceIte]
    rw [if_neg (by omega), if_pos (by omega)]
    congr 1; omega
  · by_cases h2 : i < A.length + B.length
    · simp only [h1, h2, ↓reduceIte]
      rw [if_pos (by omega), if_pos (by omega)]
    · simp only [h1, h2, ↓reduceIte]
      rw [if_neg (by omega), if_neg (by omega), if_neg (by omega)]
      congr 1; omega

/-! ### Reordering the requests renumbers the rows -/

/-- **Reordering the requests renumbers the rows of the assembled system by a bijection**: there is
a bijection `τ` of `{0..R-1}` (`R` the number of rows) such that the contributions of the reordered
list are, up to order, the original contributions with rows mapped through `τ`, and component
`τ i` of the reordered residual is component `i` of the original. -/
theorem assembly_rowPres {es es' : List (Entry α)} (hp : es.Perm es') (x : Nat → Option α) :
    RowPres (numRows es) (tripsOf es x 0) (resOf es x) (tripsOf es' x 0) (resOf es' x) := by
  induction hp with
  | nil => exact rowPres_refl _ _ _
  | @cons e l l' _ ih =>
    obtain ⟨τ, hτ, hperm, hres⟩ := ih
    let d := e.c.residualDim
    refine ⟨fun i => if i < d then i else τ (i - d) + d, ⟨?_, ?_⟩, ?_, ?_⟩
    · intro i hi
      rw [numRows_cons] at hi ⊢
      dsimp only
      split
      · omega
      · have := hτ.1 (i - d) (by omega); omega
    · intro i j hi hj h
      rw [numRows_cons] at hi hj
      dsimp only at h
      split at h <;> split at h
      · exact h
      · omega
      · omega
      · have h1 := hτ.1 (i - d) (by omega)
        have := hτ.2 (i - d) (j - d) (by omega) (by omega) (by omega)
        omega
    · rw [tripsOf, tripsOf, Nat.zero_add, tripsOf_at x l, tripsOf_at x l', List.map_append,
        map_mapRow_mapRow]
      have h1 : (entryTripsAt e x 0).map (mapRow fun i => if i < d then i else τ (i - d) + d) =
          entryTripsAt e x 0 := by
        rw [map_mapRow_congr _ (fun i => i), map_mapRow_id]
        intro t ht
        have := entryTripsAt_rows e x 0 t ht
        rw [if_pos (by omega)]
      have h2 : (tripsOf l x 0).map (mapRow fun i => if i + e.c.residualDim < d then
            i + e.c.residualDim else τ (i + e.c.residualDim - d) + d) =
          ((tripsOf l x 0).map (mapRow τ)).map (mapRow (· + e.c.residualDim)) := by
        rw [map_mapRow_mapRow]
        apply map_mapRow_congr
        intro t _
        show (if t.1 + d < d then _ else _) = _
        rw [if_neg (by omega), Nat.add_sub_cancel]
      rw [h1, h2]
      exact List.Perm.append_left _ (hperm.map _)
    · intro i hi
      rw [numRows_cons] at hi
      rw [resOf_cons, resOf_cons]
      dsimp only
      split
      · rename_i h
        rw [List.getElem?_append_left (by rw [entryRes_length]; exact h),
          List.getElem?_append_left (by rw [entryRes_length]; exact h)]
      · rename_i h
        rw [List.getElem?_append_right (by rw [entryRes_length]; omega),
          List.getElem?_append_right (by rw [entryRes_length]; omega), entryRes_length,
          Nat.add_sub_cancel]
        exact hres (i - d) (by omega)
  | swap a b l =>
    -- `es = b :: a :: l`, `es' = a :: b :: l`
    let da := a.c.residualDim
    let db := b.c.residualDim
    refine ⟨fun i => if i < db then i + da else if i < db + da then i - db else i, ⟨?_, ?_⟩, ?_, ?_⟩
    · intro i hi
      rw [numRows_cons, numRows_cons] at hi ⊢
      dsimp only
      split
      · omega
      · split <;> omega
    · intro i j _ _ h
      dsimp only at h
      split at h <;> split at h <;> (try split at h) <;> (try split at h) <;> omega
    · simp only [tripsOf, Nat.zero_add]
      rw [entryTripsAt_at a x db, entryTripsAt_at b x da, tripsOf_at x l (db + da),
        tripsOf_at x l (da + db)]
      simp only [List.map_append, map_mapRow_mapRow]
      have h1 : (entryTripsAt b x 0).map
            (mapRow fun i => if i < db then i + da else if i < db + da then i - db else i) =
          (entryTripsAt b x 0).map (mapRow (· + da)) := by
        apply map_mapRow_congr
        intro t ht
        have := entryTripsAt_rows b x 0 t ht
        rw [if_pos (by omega)]
      have h2 : (entryTripsAt a x 0).map
            (mapRow fun i => if i + db < db then i + db + da
              else if i + db < db + da then i + db - db else i + db) =
          entryTripsAt a x 0 := by
        rw [map_mapRow_congr _ (fun i => i), map_mapRow_id]
        intro t ht
        have := entryTripsAt_rows a x 0 t ht
        rw [if_neg (by omega), if_pos (by omega), Nat.add_sub_cancel]
      have h3 : (tripsOf l x 0).map
            (mapRow fun i => if i + (db + da) < db then i + (db + da) + da
              else if i + (db + da) < db + da then i + (db + da) - db else i + (db + da)) =
          (tripsOf l x 0).map (mapRow (· + (da + db))) := by
        apply map_mapRow_congr
        intro t _
        rw [if_neg (by omega), if_neg (by omega)]
        omega
      rw [h1, h2, h3]
      simp only [← List.append_assoc]
      exact List.Perm.append_right _ List.perm_append_comm
    · intro i _
      simp only [resOf_cons]
      have := getElem?_swap_blocks (entryRes b x) (entryRes a x) (resOf l x) i
      rw [entryRes_length, entryRes_length] at this
      exact this
  | @trans l1 l2 l3 h12 _ ih1 ih2 =>
    obtain ⟨τ1, hτ1, hp1, hr1⟩ := ih1
    obtain ⟨τ2, hτ2, hp2, hr2⟩ := ih2
    rw [← numRows_perm h12] at hτ2 hr2
    refine ⟨fun i => τ2 (τ1 i), permOn_comp _ τ1 τ2 hτ1 hτ2, ?_, ?_⟩
    · rw [← map_mapRow_mapRow]
      exact hp2.trans (hp1.map _)
    · intro i hi
      rw [hr2 (τ1 i) (hτ1.1 i hi), hr1 i hi]

/-! ### Order-independent parts of `solveInner` -/

/-- A Boolean test on all elements does not depend on the order. -/
theorem all_perm {β : Type} {l l' : List β} (hp : l.Perm l') (f : β → Bool) : l.all f = l'.all f := by
  rw [Bool.eq_iff_iff, List.all_eq_true, List.all_eq_true]
  exact ⟨fun h a ha => h a (hp.mem_iff.mpr ha), fun h a ha => h a (hp.mem_iff.mp ha)⟩

/-- The lint warnings of a reordered request list are the same up to order. -/
theorem lint_perm {es es' : List (Entry α)} (hp : es.Perm es') : (lint es).Perm (lint es') :=
  hp.filterMap _

/-- The highest priority does not depend on the listing order. -/
theorem maxPriority_perm {es es' : List (Entry α)} (hp : es.Perm es') :
    maxPriority es = maxPriority es' := by
  unfold maxPriority
  apply hp.foldl_eq'
  intro a _ b _ z
  simp only [Nat.max_assoc, Nat.max_comm a.priority]

/-- The post-solve sweep in closed form: it succeeds exactly when every request can read its slots,
and then lists the caller ids of the requests whose verdict is "not satisfied", in listing order;
the only possible error is the out-of-bounds panic. -/
theorem unsatisfiedSweep_closed (x : Nat → Option α) : ∀ es : List (Entry α),
    unsatisfiedSweep es x =
      if es.all (fun e => (e.c.residual x).isSome) then
        .ok ((es.filter (fun e => !satisfiedAt e x)).map (·.id))
      else .error (.panic "residual: index out of bounds") := by
  intro es
  induction es with
  | nil => rfl
  | cons e rest ih =>
    unfold unsatisfiedSweep
    cases hr : e.c.residual x with
    | none => simp [List.all_cons, hr]
    | some r =>
      have hsat : ∃ b, isSatisfied e.c.residualDim r = some b := by
        rcases residualDim_range e.c with hd | hd | hd <;> rw [hd] <;> simp [isSatisfied]
      obtain ⟨b, hb⟩ := hsat
      have hs : satisfiedAt e x = b := by simp [satisfiedAt, hr, hb]
      simp only [hb, ih, List.all_cons, hr, Option.isSome_some, Bool.true_and]
      by_cases hall : (rest.all fun e => (e.c.residual x).isSome) = true
      · simp only [hall, if_true]
        cases b <;> simp [hs]
      · simp only [hall]
        rfl

/-- **The post-solve sweep under reordering**: it fails with the same error, or succeeds on both
lists with the same ids up to order. -/
theorem unsatisfiedSweep_perm {es es' : List (Entry α)} (hp : es.Perm es') (x : Nat → Option α) :
    (∃ err, unsatisfiedSweep es x = .error err ∧ unsatisfiedSweep es' x = .error err) ∨
    (∃ us us', unsatisfiedSweep es x = .ok us ∧ unsatisfiedSweep es' x = .ok us' ∧ us'.Perm us) := by
  rw [unsatisfiedSweep_closed x es, unsatisfiedSweep_closed x es', ← all_perm hp]
  split
  · exact Or.inr ⟨_, _, rfl, rfl, ((hp.filter _).map _).symm⟩
  · exact Or.inl ⟨_, rfl, rfl⟩

/-- Validation succeeds exactly when no request has a declared id without a guess. -/
theorem validateVariables_ok_iff (vars : List Nat) : ∀ es : List (Entry α),
    validateVariables es vars = .ok () ↔ ∀ e ∈ es, firstMissing vars e.c.nonzeroes = none := by
  intro es
  induction es with
  | nil => simp [validateVariables]
  | cons e rest ih =>
    unfold validateVariables
    cases h : firstMissing vars e.c.nonzeroes with
    | none => simp [ih, h]
    | some v => simp [h]

/-- `err` names a request of `es` one of whose declared ids has no guess, together with the first
such id of that request. -/
def IsMissingGuessOf (es : List (Entry α)) (vars : List Nat) (err : SolveError) : Prop :=
  ∃ e ∈ es, ∃ v, firstMissing vars e.c.nonzeroes = some v ∧ err = .missingGuess e.id v

/-- A validation error names a request with a missing guess. -/
theorem validateVariables_error (vars : List Nat) : ∀ (es : List (Entry α)) (err : SolveError),
    validateVariables es vars = .error err → IsMissingGuessOf es vars err := by
  intro es
  induction es with
  | nil => intro err h; simp [validateVariables] at h
  | cons e rest ih =>
    intro err h
    unfold validateVariables at h
    cases hf : firstMissing vars e.c.nonzeroes with
    | none =>
      simp only [hf] at h
      obtain ⟨e', he', v, h1, h2⟩ := ih err h
      exact ⟨e', List.mem_cons_of_mem _ he', v, h1, h2⟩
    | some v =>
      simp only [hf] at h
      injection h with h
      exact ⟨e, List.mem_cons_self .., v, hf, h.symm⟩

/-- The column-range test of `Model::new` does not depend on the listing order. -/
theorem pattern_all_perm {es es' : List (Entry α)} (hp : es.Perm es') (n : Nat) :
    (pattern es).all (fun (_, col) => col < n) = (pattern es').all (fun (_, col) => col < n) := by
  have h := (patternFrom_perm_cols hp 0 0).1
  have e1 : ∀ l : List (Nat × Nat), l.all (fun (_, col) => decide (col < n)) =
      (l.map Prod.snd).all (fun col => decide (col < n)) := by
    intro l; rw [List.all_map]; rfl
  show (patternFrom es 0).all _ = (patternFrom es' 0).all _
  rw [e1, e1]
  exact all_perm h _

/-- **`Model::new` under reordering, success**: it succeeds on the reordered list iff it succeeds on
the original. -/
theorem modelNew_perm_ok {es es' : List (Entry α)} (hp : es.Perm es') (vars : List Nat)
    (h : modelNew es vars = .ok ()) : modelNew es' vars = .ok () := by
  unfold modelNew at h ⊢
  cases hv : validateVariables es vars with
  | error e => simp [hv] at h
  | ok u =>
    have hv' : validateVariables es' vars = .ok () :=
      (validateVariables_ok_iff vars es').mpr
        (fun e he => (validateVariables_ok_iff vars es).mp hv e (hp.mem_iff.mpr he))
    simp only [hv] at h
    simp only [hv', ← pattern_all_perm hp]
    exact h

/-- **`Model::new` under reordering, failure**: if it fails on the original list it fails on the
reordered one, and either both report `faerMatrix` (a declared id beyond the number of guesses), or
both report a missing guess — each naming *some* request with a missing guess and that request's
first missing id.  Which request is named depends on the listing order (the first one wins). -/
theorem modelNew_perm_error {es es' : List (Entry α)} (hp : es.Perm es') (vars : List Nat)
    (err : SolveError) (h : modelNew es vars = .error err) :
    ∃ err', modelNew es' vars = .error err' ∧
      ((err = .faerMatrix ∧ err' = .faerMatrix) ∨
        (IsMissingGuessOf es vars err ∧ IsMissingGuessOf es' vars err')) := by
  unfold modelNew at h ⊢
  cases hv : validateVariables es vars with
  | error e =>
    simp only [hv] at h
    injection h with h
    subst h
    cases hv' : validateVariables es' vars with
    | error e' =>
      exact ⟨e', rfl, Or.inr ⟨validateVariables_error vars es e hv,
        validateVariables_error vars es' e' hv'⟩⟩
    | ok u =>
      have := (validateVariables_ok_iff vars es).mpr
        (fun e he => (validateVariables_ok_iff vars es').mp hv' e (hp.mem_iff.mp he))
      rw [hv] at this
      simp at this
  | ok u =>
    have hv' : validateVariables es' vars = .ok () :=
      (validateVariables_ok_iff vars es').mpr
        (fun e he => (validateVariables_ok_iff vars es).mp hv e (hp.mem_iff.mpr he))
    simp only [hv] at h
    simp only [hv', ← pattern_all_perm hp]
    split at h
    · simp at h
    · rename_i hc
      injection h with h
      rw [if_neg hc]
      exact ⟨_, rfl, Or.inl ⟨h.symm, rfl⟩⟩

/-- When exactly one request has a missing guess, both orders report the same error. -/
theorem isMissingGuessOf_unique {es es' : List (Entry α)} (hp : es.Perm es') (vars : List Nat)
    (err err' : SolveError) (h : IsMissingGuessOf es vars err) (h' : IsMissingGuessOf es' vars err')
    (huniq : ∀ e1 ∈ es, ∀ e2 ∈ es, firstMissing vars e1.c.nonzeroes ≠ none →
      firstMissing vars e2.c.nonzeroes ≠ none → e1 = e2) : err' = err := by
  obtain ⟨e, he, v, hf, rfl⟩ := h
  obtain ⟨e', he', v', hf', rfl⟩ := h'
  have := huniq e he e' (hp.mem_iff.mpr he') (by simp [hf]) (by simp [hf'])
  subst this
  rw [hf] at hf'
  injection hf' with hf'
  rw [hf']

/-! ### Comparing two runs up to order -/

/-- The row-permutation hypothesis on two linear solvers (`R` the number of rows): on a row-permuted
presentation `(jac', r')` of a system `(jac, r)` whose rows are in range, the second solver answers
exactly what the first answers on `(jac, r)` — in every round `k`, errors included. -/
def RowPermSolve (solve solve' : Nat → List (Triplet α) → List α → Except SolveError (List α))
    (R : Nat) : Prop :=
  ∀ (k : Nat) (jac jac' : List (Triplet α)) (r r' : List α), r.length = R → r'.length = R →
    (∀ t ∈ jac, t.1 < R) → RowPres R jac r jac' r' → solve' k jac' r' = solve k jac r

/-- Two successful Newton results agree up to order: same values, same round number, same stopping
test, warnings equal up to order, last Jacobian a row-permuted presentation. -/
def NewtonOk.PermEq (R : Nat) (a b : NewtonOk α) : Prop :=
  b.values = a.values ∧ b.iterations = a.iterations ∧ b.byResidual = a.byResidual ∧
    b.warnings.Perm a.warnings ∧ JacRowPerm R a.lastJac b.lastJac

/-- Two rounds agree up to order: same constructor, same values / error, warnings equal up to
order. -/
def StepResult.PermEq (R : Nat) : StepResult α → StepResult α → Prop
  | .done a, .done b => NewtonOk.PermEq R a b
  | .fail e ws, .fail e' ws' => e' = e ∧ ws'.Perm ws
  | .next x ws, .next x' ws' => x' = x ∧ ws'.Perm ws
  | _, _ => False

/-- Two runs of the loop agree up to order. -/
def LoopPermEq (R : Nat) :
    Except (SolveError × List (Warning α)) (NewtonOk α) →
    Except (SolveError × List (Warning α)) (NewtonOk α) → Prop
  | .ok a, .ok b => NewtonOk.PermEq R a b
  | .error (e, ws), .error (e', ws') => e' = e ∧ ws'.Perm ws
  | _, _ => False

/-- Two successful outcomes of `solveInner` agree up to order: same final values, iteration count,
priority, freedom analysis; unsatisfied ids and warnings equal up to order. -/
def Outcome.PermEq (a b : Outcome α) : Prop :=
  b.finalValues = a.finalValues ∧ b.iterations = a.iterations ∧
    b.prioritySolved = a.prioritySolved ∧ b.underconstrained = a.underconstrained ∧
    b.unsatisfied.Perm a.unsatisfied ∧ b.warnings.Perm a.warnings

/-- Two failures of `solveInner` agree up to order: same error, same counts, warnings equal up to
order. -/
def Failure.PermEq (a b : Failure α) : Prop :=
  b.error = a.error ∧ b.numVars = a.numVars ∧ b.numEqs = a.numEqs ∧ b.warnings.Perm a.warnings

/-- Two results of `solveInner` agree up to order. -/
def SolvePermEq : Except (Failure α) (Outcome α) → Except (Failure α) (Outcome α) → Prop
  | .ok a, .ok b => Outcome.PermEq a b
  | .error a, .error b => Failure.PermEq a b
  | _, _ => False

/-! ### Renumbering the variables: reordered value lists -/

/-- `x'` is `x` **reordered by `π`**: both have `n` entries and `x'[π i] = x[i]` for `i < n`. -/
def Reordered {β : Type} (π : Nat → Nat) (n : Nat) (x x' : List β) : Prop :=
  x.length = n ∧ x'.length = n ∧ ∀ i, i < n → x'[π i]? = x[i]?

/-- Applying a reordered step to reordered values gives the reordered new values. -/
theorem applyStep_reordered (π : Nat → Nat) (n : Nat) (x x' d d' : List α)
    (hx : Reordered π n x x') (hd : Reordered π n d d') :
    Reordered π n (applyStep x d) (applyStep x' d') := by
  obtain ⟨hx1, hx2, hx3⟩ := hx
  obtain ⟨hd1, hd2, hd3⟩ := hd
  refine ⟨by simp [applyStep, hx1, hd1], by simp [applyStep, hx2, hd2], ?_⟩
  intro i hi
  simp only [applyStep, List.getElem?_zipWith, hx3 i hi, hd3 i hi]

/-- `find?` only looks at the predicate on the elements of the list. -/
theorem find?_congr_mem {β : Type} (p q : β → Bool) : ∀ l : List β, (∀ a ∈ l, p a = q a) →
    l.find? p = l.find? q := by
  intro l
  induction l with
  | nil => intro _; rfl
  | cons a l ih =>
    intro h
    simp only [List.find?_cons, h a (List.mem_cons_self ..),
      ih (fun b hb => h b (List.mem_cons_of_mem _ hb))]

/-- The first declared id without a guess, when the guess labels are renumbered consistently on
the declared ids. -/
theorem firstMissing_renumber (π : Nat → Nat) (vars vars' : List Nat) (n : Nat)
    (hlab : ∀ v, v < n → vars'.contains (π v) = vars.contains v) (rows : Rows Nat)
    (hrows : ∀ v ∈ rows.all, v < n) :
    firstMissing vars' (rows.map π) = (firstMissing vars rows).map π := by
  simp only [firstMissing, Rows.map, ← List.map_append, List.find?_map]
  congr 1
  apply find?_congr_mem
  intro v hv
  simp only [Function.comp, hlab v (hrows v (by simpa [Rows.all] using hv))]

/-- Validation of the renumbered system against consistently renumbered guess labels gives the
original verdict, with the variable named in a `MissingGuess` error mapped through `π`. -/
theorem validateVariables_renumber (π : Nat → Nat) (vars vars' : List Nat) (n : Nat)
    (hlab : ∀ v, v < n → vars'.contains (π v) = vars.contains v) :
    ∀ (es : List (Entry α)), Declared es n →
      validateVariables (es.map (Entry.rename π)) vars' =
        (validateVariables es vars).mapError (SolveError.rename π) := by
  intro es
  induction es with
  | nil => intro _; rfl
  | cons e rest ih =>
    intro hd
    simp only [List.map_cons, validateVariables,
      ih (fun e' he' => hd e' (List.mem_cons_of_mem _ he'))]
    rw [show (Entry.rename π e).c = e.c.rename π from rfl, nonzeroes_rename,
      firstMissing_renumber π vars vars' n hlab _ (hd e (List.mem_cons_self ..))]
    cases firstMissing vars e.c.nonzeroes <;> rfl

/-- When every declared id is `< n`, the column-range test of `Model::new` passes. -/
theorem pattern_all_of_declared (es : List (Entry α)) (n : Nat) (hd : Declared es n) :
    (pattern es).all (fun (_, col) => col < n) = true := by
  rw [List.all_eq_true]
  rintro ⟨r, c⟩ hm
  obtain ⟨_, _, e, he, hc⟩ := mem_patternFrom_rows es 0 r c hm
  simpa using hd e he c hc

/-- Renumbering by a map of `{0..n-1}` into itself keeps all declared ids `< n`. -/
theorem declared_rename (π : Nat → Nat) (n : Nat) (hπ : ∀ i, i < n → π i < n)
    (es : List (Entry α)) (hd : Declared es n) : Declared (es.map (Entry.rename π)) n := by
  intro e he i hi
  obtain ⟨e0, he0, rfl⟩ := List.mem_map.mp he
  rw [show (Entry.rename π e0).c = e0.c.rename π from rfl, nonzeroes_all_rename,
    List.mem_map] at hi
  obtain ⟨j, hj, rfl⟩ := hi
  exact hπ j (hd e0 he0 j hj)

/-- **`Model::new` under renumbering** (all declared ids `< n`, `n` guesses on both sides, labels
renumbered consistently): the original verdict, with the variable named in a `MissingGuess` error
mapped through `π`. -/
theorem modelNew_renumber (π : Nat → Nat) (vars vars' : List Nat) (n : Nat)
    (hπ : ∀ i, i < n → π i < n) (hn : vars.length = n) (hn' : vars'.length = n)
    (hlab : ∀ v, v < n → vars'.contains (π v) = vars.contains v)
    (es : List (Entry α)) (hd : Declared es n) :
    modelNew (es.map (Entry.rename π)) vars' =
      (modelNew es vars).mapError (SolveError.rename π) := by
  unfold modelNew
  rw [validateVariables_renumber π vars vars' n hlab es hd, hn, hn',
    pattern_all_of_declared es n hd,
    pattern_all_of_declared _ n (declared_rename π n hπ es hd)]
  cases validateVariables es vars with
  | error e => rfl
  | ok u => rfl

/-! ### Renumbering the variables: comparing two runs -/

/-- The column-permutation hypothesis on two linear solvers (`n` variables, renumbering `π`): when
the Jacobian contributions (columns in range) have their columns mapped through `π` and the
residual is the same, the second solver fails with the same error, or both answer, with steps of
the same length and — when that length is `n` — the second step is the first reordered by `π`
(`d'[π i] = d[i]`). -/
def ColPermSolve (solve solve' : Nat → List (Triplet α) → List α → Except SolveError (List α))
    (π : Nat → Nat) (n : Nat) : Prop :=
  ∀ (k : Nat) (jac : List (Triplet α)) (r : List α), (∀ t ∈ jac, t.2.1 < n) →
    match solve k jac r, solve' k (jac.map (renameTriplet π)) r with
    | .ok d, .ok d' => d'.length = d.length ∧ (d.length = n → ∀ i, i < n → d'[π i]? = d[i]?)
    | .error e, .error e' => e' = e
    | _, _ => False

/-- Two successful Newton results of a run and the renumbered run: values reordered by `π`, same
round number, stopping test and warnings, last Jacobian with columns mapped through `π`. -/
def NewtonOk.RenumEq (π : Nat → Nat) (n : Nat) (a b : NewtonOk α) : Prop :=
  Reordered π n a.values b.values ∧ b.iterations = a.iterations ∧ b.byResidual = a.byResidual ∧
    b.warnings = a.warnings ∧ b.lastJac = a.lastJac.map (renameTriplet π)

/-- Two rounds of a run and the renumbered run: same constructor, same error and warnings, values
reordered by `π`. -/
def StepResult.RenumEq (π : Nat → Nat) (n : Nat) : StepResult α → StepResult α → Prop
  | .done a, .done b => NewtonOk.RenumEq π n a b
  | .fail e ws, .fail e' ws' => e' = e ∧ ws' = ws
  | .next x ws, .next x' ws' => Reordered π n x x' ∧ ws' = ws
  | _, _ => False

/-- Two runs of the loop, original and renumbered. -/
def LoopRenumEq (π : Nat → Nat) (n : Nat) :
    Except (SolveError × List (Warning α)) (NewtonOk α) →
    Except (SolveError × List (Warning α)) (NewtonOk α) → Prop
  | .ok a, .ok b => NewtonOk.RenumEq π n a b
  | .error (e, ws), .error (e', ws') => e' = e ∧ ws' = ws
  | _, _ => False

/-- Two outcomes of `solveInner`, original and renumbered: same unsatisfied ids, iteration count,
priority, warnings and analysis result; final values reordered by `π`. -/
def Outcome.RenumEq (π : Nat → Nat) (n : Nat) (a b : Outcome α) : Prop :=
  Reordered π n a.finalValues b.finalValues ∧ b.unsatisfied = a.unsatisfied ∧
    b.iterations = a.iterations ∧ b.prioritySolved = a.prioritySolved ∧
    b.warnings = a.warnings ∧ b.underconstrained = a.underconstrained

/-- Two failures of `solveInner`, original and renumbered: same counts and warnings; the same
error, except that the variable named by a `MissingGuess` is mapped through `π`. -/
def Failure.RenumEq (π : Nat → Nat) (a b : Failure α) : Prop :=
  b.numVars = a.numVars ∧ b.numEqs = a.numEqs ∧ b.warnings = a.warnings ∧
    (b.error = a.error ∨ ∃ id v, a.error = .missingGuess id v ∧ b.error = .missingGuess id (π v))

/-- Two results of `solveInner`, original and renumbered. -/
def SolveRenumEq (π : Nat → Nat) (n : Nat) :
    Except (Failure α) (Outcome α) → Except (Failure α) (Outcome α) → Prop
  | .ok a, .ok b => Outcome.RenumEq π n a b
  | .error a, .error b => Failure.RenumEq π a b
  | _, _ => False

end Ezpz
