/-
The cumulative priority loop: `priorityLoop` is a fold over the per-level results, and that fold
returns the last outcome of the maximal fully-satisfied prefix.  Holds for every scalar type.
-/
import Ezpz.Model.Solve
set_option linter.unusedSectionVars false
namespace Ezpz
open Transc

variable {α : Type} [Add α] [Sub α] [Mul α] [Div α] [Neg α] [OfScientific α]
  [LT α] [DecidableLT α] [LE α] [DecidableLE α] [Transc α]

/-- The result of one level: `solve_inner` on the requests of priority `≤ p`. -/
def levelRun (es : List (Entry α)) (guesses : List (Nat × α)) (cfg : Config α)
    (solve : LinSolve α) (svd : Option (Svd α)) (call p : Nat) :
    Except (Failure α) (Outcome α) :=
  solveInner (es.filter (fun e => e.priority ≤ p)) guesses cfg (solve call)
    (svd.map (fun s => s call))

/-- The results of the levels `lvls`, the first one being call number `call`. -/
def levelResults (es : List (Entry α)) (guesses : List (Nat × α)) (cfg : Config α)
    (solve : LinSolve α) (svd : Option (Svd α)) : List Nat → Nat →
    List (Except (Failure α) (Outcome α))
  | [], _ => []
  | p :: rest, call =>
    levelRun es guesses cfg solve svd call p :: levelResults es guesses cfg solve svd rest (call + 1)

/-- A level is *good* when it solved without error and left nothing unsatisfied. -/
def goodB (r : Except (Failure α) (Outcome α)) : Bool :=
  match r with
  | .ok o => o.unsatisfied.isEmpty
  | .error _ => false

/-- The loop of `solve_with_priority_inner` over a list of per-level results. -/
def loopOver (rs : List (Except (Failure α) (Outcome α))) (res : Option (Outcome α)) :
    Except (Failure α) (Option (Outcome α)) :=
  match rs with
  | [] => .ok res
  | .ok o :: rest =>
    if !o.unsatisfied.isEmpty then .ok (some (res.getD o)) else loopOver rest (some o)
  | .error f :: _ =>
    match res with
    | some o => .ok (some o)
    | none => .error f

theorem priorityLoop_eq_loopOver (es : List (Entry α)) (guesses : List (Nat × α)) (cfg : Config α)
    (solve : LinSolve α) (svd : Option (Svd α)) :
    ∀ (lvls : List Nat) (call : Nat) (res : Option (Outcome α)),
      priorityLoop es guesses cfg solve svd lvls call res =
        loopOver (levelResults es guesses cfg solve svd lvls call) res := by
  intro lvls
  induction lvls with
  | nil => intro call res; rfl
  | cons p rest ih =>
    intro call res
    simp only [priorityLoop, levelResults, levelRun]
    cases h : solveInner (List.filter (fun e => decide (e.priority ≤ p)) es) guesses cfg (solve call)
        (Option.map (fun s => s call) svd) with
    | error f => cases res <;> simp [loopOver]
    | ok o =>
      simp only [loopOver]
      split
      · rfl
      · exact ih (call + 1) (some o)

/-- The outcome held after a run of good levels: the last of them (or what was held before). -/
def lastGood (pre : List (Except (Failure α) (Outcome α))) (res : Option (Outcome α)) :
    Option (Outcome α) :=
  pre.foldl (fun acc r => match r with | .ok o => some o | .error _ => acc) res

/-- **Loop specification.**  The loop returns the last outcome of the maximal good prefix; when that
prefix is empty and nothing was held, it returns the first level's own result (its error, or its
best-effort outcome with the unsatisfied requests listed). -/
theorem loopOver_spec :
    ∀ (rs : List (Except (Failure α) (Outcome α))) (res : Option (Outcome α)),
      loopOver rs res =
        match rs.dropWhile goodB with
        | [] => .ok (lastGood (rs.takeWhile goodB) res)
        | r :: _ =>
          match lastGood (rs.takeWhile goodB) res with
          | some o => .ok (some o)
          | none =>
            match r with
            | .ok o => .ok (some o)
            | .error f => .error f := by
  intro rs
  induction rs with
  | nil => intro res; simp [loopOver, lastGood]
  | cons r rest ih =>
    intro res
    cases r with
    | error f =>
      cases res <;> simp [loopOver, goodB, lastGood]
    | ok o =>
      by_cases hu : o.unsatisfied.isEmpty
      · have hg : goodB (Except.ok o : Except (Failure α) (Outcome α)) = true := by simp [goodB, hu]
        simp only [loopOver, hu, Bool.not_true, Bool.false_eq_true, if_false,
          List.dropWhile_cons_of_pos hg, List.takeWhile_cons_of_pos hg]
        rw [ih (some o)]
        simp [lastGood]
      · have hg : ¬ goodB (Except.ok o : Except (Failure α) (Outcome α)) = true := by
          simp [goodB, hu]
        simp only [loopOver, hu, Bool.not_false, if_true,
          List.dropWhile_cons_of_neg hg, List.takeWhile_cons_of_neg hg]
        cases res <;> simp [lastGood]

end Ezpz
