/-
Assembly of the global residual vector and Jacobian: row bookkeeping (C12) and block structure for
groups of requests sharing no variables (C17).  Holds for every scalar type.
-/
import Ezpz.Proofs.Total
set_option linter.unusedSectionVars false
namespace Ezpz
open Transc

variable {α : Type} [Add α] [Sub α] [Mul α] [Div α] [Neg α] [OfScientific α]
  [LT α] [DecidableLT α] [LE α] [DecidableLE α] [Transc α]

/-! ### Row counter -/

/-- The empty list has no rows. -/
theorem numRows_nil : numRows ([] : List (Entry α)) = 0 := rfl

/-- A request adds its own dimension to the number of rows. -/
theorem numRows_cons (e : Entry α) (es : List (Entry α)) :
    numRows (e :: es) = e.c.residualDim + numRows es := by
  simp [numRows]

/-- The number of rows of a concatenation is the sum of the numbers of rows. -/
theorem numRows_append (es1 es2 : List (Entry α)) :
    numRows (es1 ++ es2) = numRows es1 + numRows es2 := by
  simp [numRows]

/-- The number of rows does not depend on the listing order of the requests. -/
theorem numRows_perm {es es' : List (Entry α)} (h : es.Perm es') : numRows es = numRows es' := by
  induction h with
  | nil => rfl
  | cons e _ ih => simp [numRows_cons, ih]
  | swap a b l => simp [numRows_cons]; omega
  | trans _ _ ih1 ih2 => exact ih1.trans ih2

/-- `takeRows` of a request's own dimension has exactly that many elements. -/
theorem takeRows_length_dim {β : Type} (c : Constraint α) (a b d : β) :
    (takeRows c.residualDim a b d).length = c.residualDim := by
  rcases residualDim_range c with h | h | h <;> simp [takeRows, h]

/-- The global residual has one component per row. -/
theorem residualAll_length (x : Nat → Option α) :
    ∀ (es : List (Entry α)) (rs : List α) (ws : List (Warning α)),
      residualAll es x = .ok (rs, ws) → rs.length = numRows es := by
  intro es
  induction es with
  | nil => intro rs ws h; simp [residualAll] at h; simp [h.1, numRows]
  | cons e rest ih =>
    intro rs ws h
    unfold residualAll at h
    split at h
    · simp at h
    · split at h
      · simp at h
      · rename_i r _ rs' ws' hrest
        injection h with h
        injection h with h1 h2
        subst h1
        rw [List.length_append, takeRows_length_dim, ih _ _ hrest, numRows_cons]

/-! ### Concatenation of request lists -/

/-- The cells one request contributes to the pattern when its first row is `row0`. -/
def entryCells (e : Entry α) (row0 : Nat) : List (Nat × Nat) :=
  ((takeRows e.c.residualDim e.c.nonzeroes.r0 e.c.nonzeroes.r1 e.c.nonzeroes.r2).zipIdx).flatMap
    (fun (ids, k) => ids.map (fun id => (row0 + k, id)))

/-- The pattern of `e :: rest`: the cells of `e`, then the pattern of `rest` starting after the rows of `e`. -/
theorem patternFrom_cons (e : Entry α) (rest : List (Entry α)) (row0 : Nat) :
    patternFrom (e :: rest) row0 = entryCells e row0 ++ patternFrom rest (row0 + e.c.residualDim) :=
  rfl

/-- The pattern of a concatenation: the second list starts after the rows of the first. -/
theorem patternFrom_append (es1 es2 : List (Entry α)) :
    ∀ row0, patternFrom (es1 ++ es2) row0 =
      patternFrom es1 row0 ++ patternFrom es2 (row0 + numRows es1) := by
  induction es1 with
  | nil => intro row0; simp [patternFrom, numRows]
  | cons e rest ih =>
    intro row0
    simp only [List.cons_append, patternFrom_cons, ih, numRows_cons, List.append_assoc, Nat.add_assoc]

/-- One step of the residual fill, as an equation. -/
theorem residualAll_cons (e : Entry α) (rest : List (Entry α)) (x : Nat → Option α) :
    residualAll (e :: rest) x =
      match e.c.residual x with
      | none => .error (.panic "residual: index out of bounds")
      | some r =>
        match residualAll rest x with
        | .error err => .error err
        | .ok (rs, ws) =>
          .ok (takeRows e.c.residualDim r.r0 r.r1 r.r2 ++ rs,
               (if r.degenerate then [degenerateWarning e] else []) ++ ws) := by
  rw [residualAll]; rfl

/-- The residual of a concatenation: the first failing list decides the error; otherwise both
the components and the warnings are concatenated. -/
theorem residualAll_append (es1 es2 : List (Entry α)) (x : Nat → Option α) :
    residualAll (es1 ++ es2) x =
      match residualAll es1 x with
      | .error err => .error err
      | .ok (rs1, ws1) =>
        match residualAll es2 x with
        | .error err => .error err
        | .ok (rs2, ws2) => .ok (rs1 ++ rs2, ws1 ++ ws2) := by
  induction es1 with
  | nil =>
    simp only [List.nil_append, residualAll]
    cases residualAll es2 x with
    | error e => rfl
    | ok p => obtain ⟨a, b⟩ := p; simp
  | cons e rest ih =>
    simp only [List.cons_append, residualAll_cons, ih]
    cases hr : e.c.residual x with
    | none => rfl
    | some r =>
      cases h1 : residualAll rest x with
      | error e => rfl
      | ok p =>
        obtain ⟨a, b⟩ := p
        cases h2 : residualAll es2 x with
        | error e => rfl
        | ok q => obtain ⟨a', b'⟩ := q; simp

/-- Inversion of `residualAll_append` for a successful evaluation. -/
theorem residualAll_append_ok (es1 es2 : List (Entry α)) (x : Nat → Option α) (rs : List α)
    (ws : List (Warning α)) (h : residualAll (es1 ++ es2) x = .ok (rs, ws)) :
    ∃ rs1 ws1 rs2 ws2, residualAll es1 x = .ok (rs1, ws1) ∧ residualAll es2 x = .ok (rs2, ws2) ∧
      rs = rs1 ++ rs2 ∧ ws = ws1 ++ ws2 := by
  rw [residualAll_append] at h
  cases h1 : residualAll es1 x with
  | error e => simp [h1] at h
  | ok p =>
    obtain ⟨a, b⟩ := p
    cases h2 : residualAll es2 x with
    | error e => simp [h1, h2] at h
    | ok q =>
      obtain ⟨a', b'⟩ := q
      simp [h1, h2] at h
      exact ⟨a, b, a', b', rfl, rfl, h.1.symm, h.2.symm⟩

/-- The contributions `(row, col, pd)` of one request whose first row is `row0`. -/
def entryTrips (e : Entry α) (j : Jac α) (row0 : Nat) : List (Triplet α) :=
  ((takeRows e.c.residualDim j.r0 j.r1 j.r2).zipIdx).flatMap
    (fun (row, k) => row.map (fun jv => (row0 + k, jv.id, jv.pd)))

/-- One step of the derivative scatter, as an equation (in terms of `entryTrips`). -/
theorem jacobianFrom_cons (pat : List (Nat × Nat)) (e : Entry α) (rest : List (Entry α))
    (x : Nat → Option α) (row0 : Nat) :
    jacobianFrom pat (e :: rest) x row0 =
      match e.c.jacobianRows x with
      | none => .error (.panic "jacobian_rows: index out of bounds")
      | some j =>
        if (entryTrips e j row0).all (fun (r, c, _) => pat.contains (r, c)) then
          match jacobianFrom pat rest x (row0 + e.c.residualDim) with
          | .error err => .error err
          | .ok (ts, ws) =>
            .ok (entryTrips e j row0 ++ ts, (if j.degenerate then [degenerateWarning e] else []) ++ ws)
        else .error (.panic "refresh_jacobian: cell not in sparsity pattern") := by
  rw [jacobianFrom]; rfl

/-- Inversion of one successful scatter step. -/
theorem jacobianFrom_cons_ok (pat : List (Nat × Nat)) (e : Entry α) (rest : List (Entry α))
    (x : Nat → Option α) (row0 : Nat) (ts : List (Triplet α)) (ws : List (Warning α))
    (h : jacobianFrom pat (e :: rest) x row0 = .ok (ts, ws)) :
    ∃ j ts' ws', e.c.jacobianRows x = some j ∧
      (entryTrips e j row0).all (fun (r, c, _) => pat.contains (r, c)) = true ∧
      jacobianFrom pat rest x (row0 + e.c.residualDim) = .ok (ts', ws') ∧
      ts = entryTrips e j row0 ++ ts' ∧
      ws = (if j.degenerate then [degenerateWarning e] else []) ++ ws' := by
  rw [jacobianFrom_cons] at h
  cases hj : e.c.jacobianRows x with
  | none => simp [hj] at h
  | some j =>
    simp only [hj] at h
    split at h
    · rename_i hall
      cases hr : jacobianFrom pat rest x (row0 + e.c.residualDim) with
      | error err => simp [hr] at h
      | ok p =>
        obtain ⟨a, b⟩ := p
        simp [hr] at h
        exact ⟨j, a, b, rfl, hall, rfl, h.1.symm, h.2.symm⟩
    · simp at h

/-- The Jacobian scatter of a concatenation: the second list starts after the rows of the first;
the first failing list decides the error; otherwise contributions and warnings are concatenated. -/
theorem jacobianFrom_append (pat : List (Nat × Nat)) (es1 es2 : List (Entry α))
    (x : Nat → Option α) :
    ∀ row0, jacobianFrom pat (es1 ++ es2) x row0 =
      match jacobianFrom pat es1 x row0 with
      | .error err => .error err
      | .ok (ts1, ws1) =>
        match jacobianFrom pat es2 x (row0 + numRows es1) with
        | .error err => .error err
        | .ok (ts2, ws2) => .ok (ts1 ++ ts2, ws1 ++ ws2) := by
  induction es1 with
  | nil =>
    intro row0
    simp only [List.nil_append, jacobianFrom, numRows_nil, Nat.add_zero]
    cases jacobianFrom pat es2 x row0 with
    | error e => rfl
    | ok p => obtain ⟨a, b⟩ := p; simp
  | cons e rest ih =>
    intro row0
    simp only [List.cons_append, jacobianFrom_cons, ih, numRows_cons, Nat.add_assoc]
    cases hj : e.c.jacobianRows x with
    | none => rfl
    | some j =>
      dsimp only
      split
      · cases h1 : jacobianFrom pat rest x (row0 + e.c.residualDim) with
        | error e => rfl
        | ok p =>
          obtain ⟨a, b⟩ := p
          cases h2 : jacobianFrom pat es2 x (row0 + (e.c.residualDim + numRows rest)) with
          | error e => simp
          | ok q => obtain ⟨a', b'⟩ := q; simp
      · rfl

/-- Inversion of `jacobianFrom_append` for a successful scatter. -/
theorem jacobianFrom_append_ok (pat : List (Nat × Nat)) (es1 es2 : List (Entry α))
    (x : Nat → Option α) (row0 : Nat) (ts : List (Triplet α)) (ws : List (Warning α))
    (h : jacobianFrom pat (es1 ++ es2) x row0 = .ok (ts, ws)) :
    ∃ ts1 ws1 ts2 ws2, jacobianFrom pat es1 x row0 = .ok (ts1, ws1) ∧
      jacobianFrom pat es2 x (row0 + numRows es1) = .ok (ts2, ws2) ∧
      ts = ts1 ++ ts2 ∧ ws = ws1 ++ ws2 := by
  rw [jacobianFrom_append] at h
  cases h1 : jacobianFrom pat es1 x row0 with
  | error e => simp [h1] at h
  | ok p =>
    obtain ⟨a, b⟩ := p
    cases h2 : jacobianFrom pat es2 x (row0 + numRows es1) with
    | error e => simp [h1, h2] at h
    | ok q =>
      obtain ⟨a', b'⟩ := q
      simp [h1, h2] at h
      exact ⟨a, b, a', b', rfl, rfl, h.1.symm, h.2.symm⟩

/-! ### The three row counters agree -/

/-- Membership in the pattern cells of one request. -/
theorem mem_entryCells (e : Entry α) (row0 r c : Nat) :
    (r, c) ∈ entryCells e row0 ↔
      ∃ k, k < e.c.residualDim ∧ r = row0 + k ∧
        c ∈ rowK k e.c.nonzeroes.r0 e.c.nonzeroes.r1 e.c.nonzeroes.r2 := by
  unfold entryCells
  rw [mem_cells _ (fun k id => (row0 + k, id))]
  constructor
  · rintro ⟨k, row, b, hk, hb, heq⟩
    injection heq with h1 h2
    subst h1 h2
    obtain ⟨hkd, hcase⟩ := takeRows_get _ _ _ _ k row hk
    refine ⟨k, hkd, rfl, ?_⟩
    rcases hcase with ⟨rfl, rfl⟩ | ⟨rfl, rfl⟩ | ⟨rfl, rfl⟩ <;> exact hb
  · rintro ⟨k, hk, rfl, hc⟩
    have hk3 : k < 3 := by rcases residualDim_range e.c with h | h | h <;> omega
    exact ⟨k, _, c, takeRows_get_of_lt _ _ _ _ k hk hk3, hc, rfl⟩

/-- Row `k` of the declared variables is part of all declared variables. -/
theorem rowK_subset_all (c : Constraint α) (k id : Nat)
    (h : id ∈ rowK k c.nonzeroes.r0 c.nonzeroes.r1 c.nonzeroes.r2) : id ∈ c.nonzeroes.all := by
  unfold Rows.all
  match k, h with
  | 0, h => simp [rowK] at h; simp [h]
  | 1, h => simp [rowK] at h; simp [h]
  | k + 2, h => simp [rowK] at h; simp [h]

/-- Every pattern cell lies in the row range owned by the list, and its column is a declared
variable of one of the requests. -/
theorem mem_patternFrom_rows :
    ∀ (es : List (Entry α)) (row0 r c : Nat), (r, c) ∈ patternFrom es row0 →
      row0 ≤ r ∧ r < row0 + numRows es ∧ ∃ e ∈ es, c ∈ e.c.nonzeroes.all := by
  intro es
  induction es with
  | nil => intro row0 r c h; simp [patternFrom] at h
  | cons e rest ih =>
    intro row0 r c h
    rw [patternFrom_cons, List.mem_append] at h
    rw [numRows_cons]
    rcases h with h | h
    · obtain ⟨k, hk, rfl, hc⟩ := (mem_entryCells e row0 r c).mp h
      exact ⟨by omega, by omega, e, by simp, rowK_subset_all e.c k c hc⟩
    · obtain ⟨h1, h2, e', he', hc⟩ := ih _ r c h
      exact ⟨by omega, by omega, e', by simp [he'], hc⟩

/-- Membership in the contributions of one request. -/
theorem mem_entryTrips (e : Entry α) (j : Jac α) (row0 : Nat) (t : Triplet α) :
    t ∈ entryTrips e j row0 ↔
      ∃ k jv, k < e.c.residualDim ∧ jv ∈ rowK k j.r0 j.r1 j.r2 ∧ t = (row0 + k, jv.id, jv.pd) := by
  unfold entryTrips
  rw [mem_cells _ (fun k (jv : JVar α) => (row0 + k, jv.id, jv.pd))]
  constructor
  · rintro ⟨k, row, jv, hk, hjv, heq⟩
    obtain ⟨hkd, hcase⟩ := takeRows_get _ _ _ _ k row hk
    refine ⟨k, jv, hkd, ?_, heq⟩
    rcases hcase with ⟨rfl, rfl⟩ | ⟨rfl, rfl⟩ | ⟨rfl, rfl⟩ <;> exact hjv
  · rintro ⟨k, jv, hk, hjv, heq⟩
    have hk3 : k < 3 := by rcases residualDim_range e.c with h | h | h <;> omega
    exact ⟨k, _, jv, takeRows_get_of_lt _ _ _ _ k hk hk3, hjv, heq⟩

/-- Every contribution of one request is for a cell that the same request, at the same first row,
contributes to the pattern. -/
theorem entryTrips_sub_entryCells (e : Entry α) (x : Nat → Option α) (j : Jac α)
    (hj : e.c.jacobianRows x = some j) (row0 r c : Nat) (v : α)
    (h : (r, c, v) ∈ entryTrips e j row0) : (r, c) ∈ entryCells e row0 := by
  obtain ⟨k, jv, hk, hjv, heq⟩ := (mem_entryTrips e j row0 _).mp h
  injection heq with h1 h2
  injection h2 with h2 h3
  subst h1 h2
  have hjv' : j = e.c.jacobianV (fun i => (x i).getD 0.0) := by
    unfold Constraint.jacobianRows at hj
    split at hj
    · injection hj with hj; exact hj.symm
    · simp at hj
  subst hjv'
  have hids := jacobianV_ids_subset e.c (fun i => (x i).getD 0.0)
  refine (mem_entryCells e row0 _ _).mpr ⟨k, hk, rfl, ?_⟩
  match k, hjv with
  | 0, hjv => exact hids.1 jv hjv
  | 1, hjv => exact hids.2.1 jv hjv
  | k + 2, hjv => exact hids.2.2 jv hjv

/-- **Scatter and pattern use the same rows**: every scattered contribution `(r, c, v)` is for a
pattern cell `(r, c)` of the same list at the same row offset. -/
theorem jacobianFrom_sub_pattern (pat : List (Nat × Nat)) (x : Nat → Option α) :
    ∀ (es : List (Entry α)) (row0 : Nat) (ts : List (Triplet α)) (ws : List (Warning α)),
      jacobianFrom pat es x row0 = .ok (ts, ws) →
      ∀ r c v, (r, c, v) ∈ ts → (r, c) ∈ patternFrom es row0 := by
  intro es
  induction es with
  | nil => intro row0 ts ws h r c v hm; simp [jacobianFrom] at h; simp [h.1] at hm
  | cons e rest ih =>
    intro row0 ts ws h r c v hm
    obtain ⟨j, ts', ws', hj, _, hrest, rfl, rfl⟩ := jacobianFrom_cons_ok pat e rest x row0 ts ws h
    rw [patternFrom_cons]
    rcases List.mem_append.mp hm with hm | hm
    · exact List.mem_append_left _ (entryTrips_sub_entryCells e x j hj row0 r c v hm)
    · exact List.mem_append_right _ (ih _ ts' ws' hrest r c v hm)

/-- Every scattered contribution lies in the row range owned by the list, and its column is a
declared variable of one of the requests. -/
theorem jacobianFrom_rows_cols (pat : List (Nat × Nat)) (x : Nat → Option α)
    (es : List (Entry α)) (row0 : Nat) (ts : List (Triplet α)) (ws : List (Warning α))
    (h : jacobianFrom pat es x row0 = .ok (ts, ws)) (r c : Nat) (v : α) (hm : (r, c, v) ∈ ts) :
    row0 ≤ r ∧ r < row0 + numRows es ∧ ∃ e ∈ es, c ∈ e.c.nonzeroes.all :=
  mem_patternFrom_rows es row0 r c (jacobianFrom_sub_pattern pat x es row0 ts ws h r c v hm)

/-- First row of request number `i`. -/
def rowOffset (es : List (Entry α)) (i : Nat) : Nat := numRows (es.take i)

/-- Request `i`'s residual components sit at rows `rowOffset es i …` of the global residual. -/
theorem residual_block (es : List (Entry α)) (x : Nat → Option α) (rs : List α)
    (ws : List (Warning α)) (i : Nat) (e : Entry α) (r : Res α)
    (h : residualAll es x = .ok (rs, ws)) (hi : es[i]? = some e) (hr : e.c.residual x = some r) :
    (rs.drop (rowOffset es i)).take e.c.residualDim = takeRows e.c.residualDim r.r0 r.r1 r.r2 := by
  have hsplit : es = es.take i ++ e :: es.drop (i + 1) := by
    have hlt : i < es.length := by
      rcases Nat.lt_or_ge i es.length with h | h
      · exact h
      · rw [List.getElem?_eq_none h] at hi; simp at hi
    have : es[i] = e := by
      rw [List.getElem?_eq_getElem hlt] at hi; injection hi
    rw [← this]
    simp
  rw [hsplit] at h
  obtain ⟨rs1, ws1, rs2, ws2, h1, h2, rfl, rfl⟩ := residualAll_append_ok _ _ x rs ws h
  have hlen := residualAll_length x _ _ _ h1
  rw [residualAll_cons, hr] at h2
  dsimp only at h2
  cases h3 : residualAll (es.drop (i + 1)) x with
  | error err => simp [h3] at h2
  | ok p =>
    obtain ⟨a, b⟩ := p
    simp [h3] at h2
    obtain ⟨h2a, _⟩ := h2
    subst h2a
    unfold rowOffset
    rw [← hlen, List.drop_left, List.take_left' (takeRows_length_dim e.c _ _ _)]

/-! ### Block structure for groups of requests (C17) -/

/-- All declared variables of a list of requests. -/
def varsOf (es : List (Entry α)) : List Nat := es.flatMap (fun e => e.c.nonzeroes.all)

/-- A variable belongs to `varsOf es` exactly when some request of `es` declares it. -/
theorem mem_varsOf (es : List (Entry α)) (c : Nat) :
    c ∈ varsOf es ↔ ∃ e ∈ es, c ∈ e.c.nonzeroes.all := by
  simp [varsOf, List.mem_flatMap]

/-- The variables of a concatenation are the variables of the parts. -/
theorem varsOf_append (es1 es2 : List (Entry α)) : varsOf (es1 ++ es2) = varsOf es1 ++ varsOf es2 := by
  simp [varsOf]

/-- The Jacobian of two groups listed one after the other splits into the Jacobian of the first
group (rows below `row0 + numRows es1`, columns among the first group's variables) followed by the
Jacobian of the second group (rows from `row0 + numRows es1` on, columns among the second group's
variables). -/
theorem disjoint_block_structure (pat : List (Nat × Nat)) (es1 es2 : List (Entry α))
    (x : Nat → Option α) (row0 : Nat) (ts : List (Triplet α)) (ws : List (Warning α))
    (h : jacobianFrom pat (es1 ++ es2) x row0 = .ok (ts, ws)) :
    ∃ ts1 ws1 ts2 ws2, ts = ts1 ++ ts2 ∧ ws = ws1 ++ ws2 ∧
      jacobianFrom pat es1 x row0 = .ok (ts1, ws1) ∧
      jacobianFrom pat es2 x (row0 + numRows es1) = .ok (ts2, ws2) ∧
      (∀ r c v, (r, c, v) ∈ ts1 → row0 ≤ r ∧ r < row0 + numRows es1 ∧ c ∈ varsOf es1) ∧
      (∀ r c v, (r, c, v) ∈ ts2 → row0 + numRows es1 ≤ r ∧
        r < row0 + numRows (es1 ++ es2) ∧ c ∈ varsOf es2) := by
  obtain ⟨ts1, ws1, ts2, ws2, h1, h2, rfl, rfl⟩ := jacobianFrom_append_ok pat es1 es2 x row0 ts ws h
  refine ⟨ts1, ws1, ts2, ws2, rfl, rfl, h1, h2, ?_, ?_⟩
  · intro r c v hm
    obtain ⟨ha, hb, hc⟩ := jacobianFrom_rows_cols pat x es1 row0 ts1 ws1 h1 r c v hm
    exact ⟨ha, hb, (mem_varsOf es1 c).mpr hc⟩
  · intro r c v hm
    obtain ⟨ha, hb, hc⟩ := jacobianFrom_rows_cols pat x es2 _ ts2 ws2 h2 r c v hm
    rw [numRows_append]
    exact ⟨ha, by omega, (mem_varsOf es2 c).mpr hc⟩

/-- **Independent parts do not couple**: when two groups of requests share no variable, every
Jacobian contribution is either (row of group 1, variable of group 1) or (row of group 2, variable
of group 2) — the Jacobian is block diagonal. -/
theorem disjoint_no_coupling (pat : List (Nat × Nat)) (es1 es2 : List (Entry α))
    (x : Nat → Option α) (row0 : Nat) (ts : List (Triplet α)) (ws : List (Warning α))
    (h : jacobianFrom pat (es1 ++ es2) x row0 = .ok (ts, ws))
    (hdisj : ∀ c, c ∈ varsOf es1 → c ∈ varsOf es2 → False) :
    ∀ r c v, (r, c, v) ∈ ts →
      (r < row0 + numRows es1 ↔ c ∈ varsOf es1) ∧ (row0 + numRows es1 ≤ r ↔ c ∈ varsOf es2) ∧
      (c ∈ varsOf es1 ∨ c ∈ varsOf es2) := by
  obtain ⟨ts1, ws1, ts2, ws2, rfl, rfl, _, _, hA, hB⟩ :=
    disjoint_block_structure pat es1 es2 x row0 ts ws h
  intro r c v hm
  rcases List.mem_append.mp hm with hm | hm
  · obtain ⟨_, hb, hc⟩ := hA r c v hm
    refine ⟨⟨fun _ => hc, fun _ => hb⟩, ⟨fun hge => ?_, fun hc2 => ?_⟩, Or.inl hc⟩
    · omega
    · exact (hdisj c hc hc2).elim
  · obtain ⟨ha, _, hc⟩ := hB r c v hm
    refine ⟨⟨fun hlt => ?_, fun hc1 => ?_⟩, ⟨fun _ => hc, fun _ => ha⟩, Or.inr hc⟩
    · omega
    · exact (hdisj c hc1 hc).elim

/-! ### Evaluation locality -/

/-- The derivative rows depend only on the slots they read. -/
theorem jacobianV_congr (c : Constraint α) (v w : Nat → α)
    (h : ∀ i ∈ c.jacobianReads, v i = w i) : c.jacobianV v = c.jacobianV w := by
  cases c <;>
    simp only [Constraint.jacobianReads, List.mem_append, Pt.vars, Seg.vars, Circ.vars, ArcD.vars,
      List.mem_cons, List.not_mem_nil, or_false] at h <;>
    simp only [Constraint.jacobianV, linesAtAngleJac, distJacRow] <;>
    grind

/-- Whether all listed slots are present is the same for two assignments that agree on them. -/
theorem all_isSome_congr (l : List Nat) (x y : Nat → Option α) (h : ∀ i ∈ l, x i = y i) :
    l.all (fun i => (x i).isSome) = l.all (fun i => (y i).isSome) := by
  induction l with
  | nil => rfl
  | cons a l ih =>
    simp only [List.all_cons]
    rw [h a (by simp), ih (fun i hi => h i (by simp [hi]))]

/-- Two assignments that agree on the declared variables of a request give the same error measure
and the same derivative rows (including the out-of-bounds outcome and the degeneracy flag). -/
theorem residual_congr_on_vars (c : Constraint α) (x y : Nat → Option α)
    (h : ∀ i ∈ c.nonzeroes.all, x i = y i) :
    c.residual x = c.residual y ∧ c.jacobianRows x = c.jacobianRows y := by
  constructor
  · unfold Constraint.residual
    rw [all_isSome_congr c.residualReads x y (fun i hi => h i (residualReads_subset c i hi)),
      residualV_congr c (fun i => (x i).getD 0.0) (fun i => (y i).getD 0.0)
        (fun i hi => by simp only [h i (residualReads_subset c i hi)])]
  · unfold Constraint.jacobianRows
    rw [all_isSome_congr c.jacobianReads x y (fun i hi => h i (jacobianReads_subset c i hi)),
      jacobianV_congr c (fun i => (x i).getD 0.0) (fun i => (y i).getD 0.0)
        (fun i hi => by simp only [h i (jacobianReads_subset c i hi)])]

/-- The global residual of a group depends only on the group's own variables. -/
theorem residualAll_congr_on_vars (x y : Nat → Option α) :
    ∀ (es : List (Entry α)), (∀ i ∈ varsOf es, x i = y i) → residualAll es x = residualAll es y := by
  intro es
  induction es with
  | nil => intro _; rfl
  | cons e rest ih =>
    intro h
    have he := (residual_congr_on_vars e.c x y
      (fun i hi => h i ((mem_varsOf _ i).mpr ⟨e, by simp, hi⟩))).1
    have hrest := ih (fun i hi => by
      obtain ⟨e', he', hi'⟩ := (mem_varsOf _ i).mp hi
      exact h i ((mem_varsOf _ i).mpr ⟨e', by simp [he'], hi'⟩))
    rw [residualAll_cons, residualAll_cons, he, hrest]

/-- The Jacobian contributions of a group depend only on the group's own variables. -/
theorem jacobianFrom_congr_on_vars (pat : List (Nat × Nat)) (x y : Nat → Option α) :
    ∀ (es : List (Entry α)) (row0 : Nat), (∀ i ∈ varsOf es, x i = y i) →
      jacobianFrom pat es x row0 = jacobianFrom pat es y row0 := by
  intro es
  induction es with
  | nil => intro _ _; rfl
  | cons e rest ih =>
    intro row0 h
    have he := (residual_congr_on_vars e.c x y
      (fun i hi => h i ((mem_varsOf _ i).mpr ⟨e, by simp, hi⟩))).2
    have hrest := ih (row0 + e.c.residualDim) (fun i hi => by
      obtain ⟨e', he', hi'⟩ := (mem_varsOf _ i).mp hi
      exact h i ((mem_varsOf _ i).mpr ⟨e', by simp [he'], hi'⟩))
    rw [jacobianFrom_cons, jacobianFrom_cons, he, hrest]

/-- The contributions of a two-group system whose row is below / not below the boundary are
exactly the contributions of group 1 / group 2. -/
theorem jacobian_filter_groups (pat : List (Nat × Nat)) (es1 es2 : List (Entry α))
    (x : Nat → Option α) (row0 : Nat) (ts ts1 ts2 : List (Triplet α)) (ws1 ws2 : List (Warning α))
    (h1 : jacobianFrom pat es1 x row0 = .ok (ts1, ws1))
    (h2 : jacobianFrom pat es2 x (row0 + numRows es1) = .ok (ts2, ws2)) (hts : ts = ts1 ++ ts2) :
    ts.filter (fun t => decide (t.1 < row0 + numRows es1)) = ts1 ∧
    ts.filter (fun t => !decide (t.1 < row0 + numRows es1)) = ts2 := by
  subst hts
  have hA : ∀ t ∈ ts1, t.1 < row0 + numRows es1 := by
    rintro ⟨r, c, v⟩ hm
    exact (jacobianFrom_rows_cols pat x es1 row0 ts1 ws1 h1 r c v hm).2.1
  have hB : ∀ t ∈ ts2, ¬ t.1 < row0 + numRows es1 := by
    rintro ⟨r, c, v⟩ hm
    have := (jacobianFrom_rows_cols pat x es2 _ ts2 ws2 h2 r c v hm).1
    simp only; omega
  constructor
  · rw [List.filter_append, List.filter_eq_self.mpr (fun t ht => by simp [hA t ht]),
      List.filter_eq_nil_iff.mpr (fun t ht => by simp [hB t ht]), List.append_nil]
  · rw [List.filter_append, List.filter_eq_nil_iff.mpr (fun t ht => by simp [hA t ht]),
      List.filter_eq_self.mpr (fun t ht => by simp [hB t ht]), List.nil_append]

/-- **A group's rows ignore the other groups' variables** (C17): in a system made of two groups,
two assignments that agree on the variables of group 1 (and differ arbitrarily elsewhere) give the
same residual components in group 1's rows and the same Jacobian contributions in group 1's rows. -/
theorem group1_independent (pat : List (Nat × Nat)) (es1 es2 : List (Entry α))
    (x y : Nat → Option α) (row0 : Nat) (h1 : ∀ i ∈ varsOf es1, x i = y i)
    (rs rs' : List α) (ws ws' : List (Warning α))
    (hx : residualAll (es1 ++ es2) x = .ok (rs, ws))
    (hy : residualAll (es1 ++ es2) y = .ok (rs', ws'))
    (ts ts' : List (Triplet α)) (wj wj' : List (Warning α))
    (hjx : jacobianFrom pat (es1 ++ es2) x row0 = .ok (ts, wj))
    (hjy : jacobianFrom pat (es1 ++ es2) y row0 = .ok (ts', wj')) :
    rs.take (numRows es1) = rs'.take (numRows es1) ∧
    ts.filter (fun t => decide (t.1 < row0 + numRows es1)) =
      ts'.filter (fun t => decide (t.1 < row0 + numRows es1)) := by
  obtain ⟨a1, b1, a2, b2, e1, e2, rfl, rfl⟩ := residualAll_append_ok es1 es2 x rs ws hx
  obtain ⟨a1', b1', a2', b2', e1', e2', rfl, rfl⟩ := residualAll_append_ok es1 es2 y rs' ws' hy
  obtain ⟨t1, v1, t2, v2, f1, f2, rfl, rfl⟩ := jacobianFrom_append_ok pat es1 es2 x row0 ts wj hjx
  obtain ⟨t1', v1', t2', v2', f1', f2', rfl, rfl⟩ :=
    jacobianFrom_append_ok pat es1 es2 y row0 ts' wj' hjy
  have hr := residualAll_congr_on_vars x y es1 h1
  have hj := jacobianFrom_congr_on_vars pat x y es1 row0 h1
  rw [e1, e1'] at hr
  rw [f1, f1'] at hj
  injection hr with hr; injection hr with hr1 hr2
  injection hj with hj; injection hj with hj1 hj2
  subst hr1 hj1
  constructor
  · rw [← residualAll_length x es1 a1 b1 e1, List.take_left, List.take_left]
  · rw [(jacobian_filter_groups pat es1 es2 x row0 _ t1 t2 v1 v2 f1 f2 rfl).1,
      (jacobian_filter_groups pat es1 es2 y row0 _ t1 t2' v1' v2' f1' f2' rfl).1]

/-- The same for group 2: agreement on the variables of group 2 fixes group 2's rows. -/
theorem group2_independent (pat : List (Nat × Nat)) (es1 es2 : List (Entry α))
    (x y : Nat → Option α) (row0 : Nat) (h2 : ∀ i ∈ varsOf es2, x i = y i)
    (rs rs' : List α) (ws ws' : List (Warning α))
    (hx : residualAll (es1 ++ es2) x = .ok (rs, ws))
    (hy : residualAll (es1 ++ es2) y = .ok (rs', ws'))
    (ts ts' : List (Triplet α)) (wj wj' : List (Warning α))
    (hjx : jacobianFrom pat (es1 ++ es2) x row0 = .ok (ts, wj))
    (hjy : jacobianFrom pat (es1 ++ es2) y row0 = .ok (ts', wj')) :
    rs.drop (numRows es1) = rs'.drop (numRows es1) ∧
    ts.filter (fun t => !decide (t.1 < row0 + numRows es1)) =
      ts'.filter (fun t => !decide (t.1 < row0 + numRows es1)) := by
  obtain ⟨a1, b1, a2, b2, e1, e2, rfl, rfl⟩ := residualAll_append_ok es1 es2 x rs ws hx
  obtain ⟨a1', b1', a2', b2', e1', e2', rfl, rfl⟩ := residualAll_append_ok es1 es2 y rs' ws' hy
  obtain ⟨t1, v1, t2, v2, f1, f2, rfl, rfl⟩ := jacobianFrom_append_ok pat es1 es2 x row0 ts wj hjx
  obtain ⟨t1', v1', t2', v2', f1', f2', rfl, rfl⟩ :=
    jacobianFrom_append_ok pat es1 es2 y row0 ts' wj' hjy
  have hr := residualAll_congr_on_vars x y es2 h2
  have hj := jacobianFrom_congr_on_vars pat x y es2 (row0 + numRows es1) h2
  rw [e2, e2'] at hr
  rw [f2, f2'] at hj
  injection hr with hr; injection hr with hr1 hr2
  injection hj with hj; injection hj with hj1 hj2
  subst hr1 hj1
  constructor
  · rw [← residualAll_length x es1 a1 b1 e1, List.drop_left]
    rw [residualAll_length x es1 a1 b1 e1, ← residualAll_length y es1 a1' b1' e1', List.drop_left]
  · rw [(jacobian_filter_groups pat es1 es2 x row0 _ t1 t2 v1 v2 f1 f2 rfl).2,
      (jacobian_filter_groups pat es1 es2 y row0 _ t1' t2 v1' v2' f1' f2' rfl).2]

/-- Non-vacuity: two groups sharing no variable (a `pointsCoincident` request on variables 0–3 and
a `scalarEqual` request on variables 4, 5) meet the hypotheses of `disjoint_no_coupling`. -/
example :
    let es1 : List (Entry Float) := [⟨.pointsCoincident ⟨0, 1⟩ ⟨2, 3⟩, 0, 0⟩]
    let es2 : List (Entry Float) := [⟨.scalarEqual 4 5, 1, 0⟩]
    (∃ ts ws, jacobianFrom (pattern (es1 ++ es2)) (es1 ++ es2) (fun _ => some 0.0) 0 = .ok (ts, ws)) ∧
      (∀ c, c ∈ varsOf es1 → c ∈ varsOf es2 → False) ∧ numRows es1 = 2 ∧ numRows es2 = 1 := by
  refine ⟨⟨_, _, rfl⟩, ?_, rfl, rfl⟩
  intro c h1 h2
  simp [varsOf, Constraint.nonzeroes, Rows.all] at h1 h2
  omega

end Ezpz
