/-
Equivariance of the model under renumbering the variables (property C12): mapping every variable id
of every constraint through `π` and reading the assignment through `π` gives the same residuals,
the same Jacobian entries with columns mapped through `π`, the same warnings and the same
unsatisfied list.  Holds for every scalar type (no algebraic laws used).
-/
import Ezpz.Proofs.Kernels
set_option linter.unusedSectionVars false
set_option linter.unusedSimpArgs false
namespace Ezpz
open Transc

variable {α : Type} [Add α] [Sub α] [Mul α] [Div α] [Neg α] [OfScientific α]
  [LT α] [DecidableLT α] [LE α] [DecidableLE α] [Transc α]

/-! ### 1. Renaming -/

/-- Rename both coordinates of a point. -/
def Pt.rename (π : Nat → Nat) (p : Pt) : Pt := ⟨π p.x, π p.y⟩
/-- Rename the four coordinates of a segment. -/
def Seg.rename (π : Nat → Nat) (l : Seg) : Seg := ⟨l.p0.rename π, l.p1.rename π⟩
/-- Rename centre and radius of a circle. -/
def Circ.rename (π : Nat → Nat) (c : Circ) : Circ := ⟨c.center.rename π, π c.radius⟩
/-- Rename the six coordinates of an arc. -/
def ArcD.rename (π : Nat → Nat) (a : ArcD) : ArcD :=
  ⟨a.center.rename π, a.start.rename π, a.stop.rename π⟩

/-- Map every variable id of a constraint through `π`; numeric parameters are unchanged. -/
def Constraint.rename (π : Nat → Nat) : Constraint α → Constraint α
  | .lineTangentToCircle l c => .lineTangentToCircle (l.rename π) (c.rename π)
  | .circleTangentToCircle a b => .circleTangentToCircle (a.rename π) (b.rename π)
  | .distance p0 p1 d => .distance (p0.rename π) (p1.rename π) d
  | .verticalDistance p0 p1 d => .verticalDistance (p0.rename π) (p1.rename π) d
  | .horizontalDistance p0 p1 d => .horizontalDistance (p0.rename π) (p1.rename π) d
  | .vertical l => .vertical (l.rename π)
  | .horizontal l => .horizontal (l.rename π)
  | .linesAtAngle l0 l1 k => .linesAtAngle (l0.rename π) (l1.rename π) k
  | .fixed id v => .fixed (π id) v
  | .scalarEqual x y => .scalarEqual (π x) (π y)
  | .pointsCoincident p0 p1 => .pointsCoincident (p0.rename π) (p1.rename π)
  | .circleRadius c r => .circleRadius (c.rename π) r
  | .linesEqualLength l0 l1 => .linesEqualLength (l0.rename π) (l1.rename π)
  | .arcRadius a r => .arcRadius (a.rename π) r
  | .isArc a => .isArc (a.rename π)
  | .midpoint l p => .midpoint (l.rename π) (p.rename π)
  | .pointLineDistance p l d => .pointLineDistance (p.rename π) (l.rename π) d
  | .verticalPointLineDistance p l d => .verticalPointLineDistance (p.rename π) (l.rename π) d
  | .horizontalPointLineDistance p l d => .horizontalPointLineDistance (p.rename π) (l.rename π) d
  | .symmetric l a b => .symmetric (l.rename π) (a.rename π) (b.rename π)
  | .pointArcCoincident a p => .pointArcCoincident (a.rename π) (p.rename π)
  | .arcLength a d => .arcLength (a.rename π) d
  | .arcAngle a ang => .arcAngle (a.rename π) ang

/-- Rename the constraint of an entry; its position and priority are unchanged. -/
def Entry.rename (π : Nat → Nat) (e : Entry α) : Entry α := { e with c := e.c.rename π }

/-- Rename the variable of one Jacobian entry; the partial derivative is unchanged. -/
def JVar.rename (π : Nat → Nat) (jv : JVar α) : JVar α := { jv with id := π jv.id }

/-- Map every item of every row. -/
def Rows.map {β γ : Type} (f : β → γ) (r : Rows β) : Rows γ :=
  ⟨r.r0.map f, r.r1.map f, r.r2.map f⟩

/-- Rename the variable of every entry of a `jacobian_rows` result (same order, same flag). -/
def Jac.rename (π : Nat → Nat) (j : Jac α) : Jac α :=
  ⟨j.r0.map (JVar.rename π), j.r1.map (JVar.rename π), j.r2.map (JVar.rename π), j.degenerate⟩

/-- The residual of the renumbered constraint at `v` is the residual of the original at `v ∘ π`. -/
theorem residualV_rename (π : Nat → Nat) (c : Constraint α) (v : Nat → α) :
    (c.rename π).residualV v = c.residualV (fun i => v (π i)) := by
  cases c <;> rfl

/-- Each declared row of the renumbered constraint is the original row mapped through `π`. -/
theorem nonzeroes_rename (π : Nat → Nat) (c : Constraint α) :
    (c.rename π).nonzeroes = c.nonzeroes.map π := by
  cases c <;> rfl

/-- Split on the first `if`, rewrite the other copies of the same condition, close by `rfl`. -/
local macro "ite_rfl" : tactic =>
  `(tactic| (split <;> first | rfl | (rename_i h; simp only [h, ↓reduceIte]; rfl)))

/-- The `Distance` Jacobian row of renumbered points: same degeneracy test, same derivatives, ids
mapped through `π`. -/
theorem distJacRow_rename (π : Nat → Nat) (v : Nat → α) (p0 p1 : Pt) :
    distJacRow v (p0.rename π) (p1.rename π) =
      (distJacRow (fun i => v (π i)) p0 p1).map (List.map (JVar.rename π)) := by
  simp only [distJacRow, Pt.rename]
  ite_rfl

/-- The `LinesAtAngle` Jacobian of renumbered lines is the original at `v ∘ π` with ids mapped
through `π`. -/
theorem linesAtAngleJac_rename (π : Nat → Nat) (v : Nat → α) (l0 l1 : Seg) (k : AngleKind α) :
    linesAtAngleJac v (l0.rename π) (l1.rename π) k =
      (linesAtAngleJac (fun i => v (π i)) l0 l1 k).rename π := by
  cases k with
  | parallel => rfl
  | perpendicular => rfl
  | other a =>
    simp only [linesAtAngleJac, Seg.rename, Pt.rename]
    ite_rfl

/-- The Jacobian rows of the renumbered constraint at `v` are those of the original at `v ∘ π` with
every entry's id mapped through `π`: same partial derivatives in the same order, same degeneracy
flag (all 23 kinds). -/
theorem jacobianV_rename (π : Nat → Nat) (c : Constraint α) (v : Nat → α) :
    (c.rename π).jacobianV v = (c.jacobianV (fun i => v (π i))).rename π := by
  cases c with
  | linesAtAngle l0 l1 k => exact linesAtAngleJac_rename π v l0 l1 k
  | arcAngle a ang => exact linesAtAngleJac_rename π v ⟨a.center, a.start⟩ ⟨a.center, a.stop⟩ (.other ang)
  | distance p0 p1 d =>
    simp only [Constraint.rename, Constraint.jacobianV, distJacRow_rename]
    cases distJacRow (fun i => v (π i)) p0 p1 <;> rfl
  | arcRadius a r =>
    simp only [Constraint.rename, Constraint.jacobianV, ArcD.rename, distJacRow_rename]
    cases distJacRow (fun i => v (π i)) a.center a.start <;>
      cases distJacRow (fun i => v (π i)) a.center a.stop <;> rfl
  | pointArcCoincident a p =>
    simp only [Constraint.rename, Constraint.jacobianV, ArcD.rename, distJacRow_rename]
    cases distJacRow (fun i => v (π i)) a.center p <;>
    by_cases h1 : (EPS : α) ≤ hypot (v (π a.center.x) - v (π a.start.x)) (v (π a.center.y) - v (π a.start.y)) <;>
    by_cases h2 : abs (hypot (v (π a.center.x) - v (π p.x)) (v (π a.center.y) - v (π p.y)) - hypot (v (π a.center.x) - v (π a.start.x)) (v (π a.center.y) - v (π a.start.y))) ≤ (ANG_TOL : α) <;>
    simp only [Pt.rename, h1, h2, ↓reduceIte, decide_true, decide_false] <;>
    first | rfl | (simp only [Jac.rename, List.map_append]; rfl)
  | lineTangentToCircle l c =>
    simp only [Constraint.rename, Constraint.jacobianV, Seg.rename, Pt.rename, Circ.rename]
    ite_rfl
  | linesEqualLength l0 l1 =>
    simp only [Constraint.rename, Constraint.jacobianV, Seg.rename, Pt.rename, Circ.rename]
    ite_rfl
  | verticalPointLineDistance p l d =>
    simp only [Constraint.rename, Constraint.jacobianV, Seg.rename, Pt.rename, Circ.rename]
    ite_rfl
  | horizontalPointLineDistance p l d =>
    simp only [Constraint.rename, Constraint.jacobianV, Seg.rename, Pt.rename, Circ.rename]
    ite_rfl
  | symmetric l a b =>
    simp only [Constraint.rename, Constraint.jacobianV, Seg.rename, Pt.rename, Circ.rename]
    ite_rfl
  | arcLength a d =>
    simp only [Constraint.rename, Constraint.jacobianV, ArcD.rename, Pt.rename, Circ.rename]
    ite_rfl
  | circleTangentToCircle a b =>
    simp only [Constraint.rename, Constraint.jacobianV, Pt.rename, Circ.rename]
    ite_rfl
  | _ => rfl
/-- All declared ids of the renumbered constraint are the original ones mapped through `π`. -/
theorem nonzeroes_all_rename (π : Nat → Nat) (c : Constraint α) :
    (c.rename π).nonzeroes.all = c.nonzeroes.all.map π := by
  simp only [nonzeroes_rename, Rows.map, Rows.all, List.map_append]

/-- Spelled out: the renumbered constraint's Jacobian rows carry the same partial derivatives in the
same order and the same degeneracy flag as the original at `v ∘ π`, and the ids are the original
ids mapped through `π`. -/
theorem jacobianV_rename_spelled (π : Nat → Nat) (c : Constraint α) (v : Nat → α) :
    let j' := (c.rename π).jacobianV v
    let j := c.jacobianV (fun i => v (π i))
    j'.degenerate = j.degenerate ∧
    j'.r0.map (·.pd) = j.r0.map (·.pd) ∧ j'.r1.map (·.pd) = j.r1.map (·.pd) ∧
    j'.r2.map (·.pd) = j.r2.map (·.pd) ∧
    j'.r0.map (·.id) = (j.r0.map (·.id)).map π ∧ j'.r1.map (·.id) = (j.r1.map (·.id)).map π ∧
    j'.r2.map (·.id) = (j.r2.map (·.id)).map π := by
  simp only [jacobianV_rename, Jac.rename, List.map_map]
  exact ⟨trivial, rfl, rfl, rfl, rfl, rfl, rfl⟩

/-- Renumbering does not change the number of residual rows. -/
theorem residualDim_rename (π : Nat → Nat) (c : Constraint α) :
    (c.rename π).residualDim = c.residualDim := by
  cases c <;> rfl

/-- Renumbering does not change the kind of a constraint. -/
theorem kindName_rename (π : Nat → Nat) (c : Constraint α) :
    (c.rename π).kindName = c.kindName := by
  cases c <;> rfl

/-- The slots read by the residual of the renumbered constraint are the original ones mapped through
`π`. -/
theorem residualReads_rename (π : Nat → Nat) (c : Constraint α) :
    (c.rename π).residualReads = c.residualReads.map π := by
  cases c <;> rfl

/-- The slots read by the Jacobian of the renumbered constraint are the original ones mapped through
`π`. -/
theorem jacobianReads_rename (π : Nat → Nat) (c : Constraint α) :
    (c.rename π).jacobianReads = c.jacobianReads.map π := by
  cases c <;> rfl

/-- Partial-assignment residual: the renumbered constraint at `x` behaves (including the out-of-
bounds panic) as the original at `x ∘ π`. -/
theorem residual_rename (π : Nat → Nat) (c : Constraint α) (x : Nat → Option α) :
    (c.rename π).residual x = c.residual (fun i => x (π i)) := by
  simp only [Constraint.residual, residualReads_rename, residualV_rename, List.all_map]
  rfl

/-- Partial-assignment Jacobian rows: the renumbered constraint at `x` gives (including the out-of-
bounds panic) the rows of the original at `x ∘ π` with ids mapped through `π`. -/
theorem jacobianRows_rename (π : Nat → Nat) (c : Constraint α) (x : Nat → Option α) :
    (c.rename π).jacobianRows x = (c.jacobianRows (fun i => x (π i))).map (Jac.rename π) := by
  simp only [Constraint.jacobianRows, jacobianReads_rename, jacobianV_rename, List.all_map]
  show (if c.jacobianReads.all (fun i => (x (π i)).isSome) = true then _ else _) = _
  split <;> rfl

/-- The global residual and its degeneracy warnings of the renumbered system at `x` equal those of
the original system at `x ∘ π`. -/
theorem residualAll_rename (π : Nat → Nat) (es : List (Entry α)) (x : Nat → Option α) :
    residualAll (es.map (Entry.rename π)) x = residualAll es (fun i => x (π i)) := by
  induction es with
  | nil => rfl
  | cons e rest ih =>
    simp only [List.map_cons, residualAll, ih]
    rw [show (Entry.rename π e).c = e.c.rename π from rfl, residual_rename, residualDim_rename]
    rfl

/-- The unsatisfied list of the renumbered system at `x` equals that of the original system at `x ∘
π`. -/
theorem unsatisfiedSweep_rename (π : Nat → Nat) (es : List (Entry α)) (x : Nat → Option α) :
    unsatisfiedSweep (es.map (Entry.rename π)) x = unsatisfiedSweep es (fun i => x (π i)) := by
  induction es with
  | nil => rfl
  | cons e rest ih =>
    simp only [List.map_cons, unsatisfiedSweep, ih]
    rw [show (Entry.rename π e).c = e.c.rename π from rfl, residual_rename, residualDim_rename]
    rfl
/-! ### 3. Assembly: pattern and Jacobian -/

/-- Rename the column of a pattern cell. -/
def renameCell (π : Nat → Nat) : Nat × Nat → Nat × Nat := fun (r, c) => (r, π c)
/-- Rename the column of a Jacobian contribution. -/
def renameTriplet (π : Nat → Nat) : Triplet α → Triplet α := fun (r, c, v) => (r, π c, v)

/-- `takeRows` commutes with mapping the three rows. -/
theorem takeRows_map {β γ : Type} (f : β → γ) (dim : Nat) (a b c : β) :
    takeRows dim (f a) (f b) (f c) = (takeRows dim a b c).map f := by
  simp [takeRows, List.map_take]

/-- Scattering rows whose items were mapped through `f` is scattering the original rows with `f`
applied inside. -/
theorem flatMap_zipIdx_map {β γ δ : Type} (f : β → γ) (g : Nat → γ → δ) (rows : List (List β))
    (k : Nat) :
    ((rows.map (List.map f)).zipIdx k).flatMap (fun p => p.1.map (g p.2)) =
      ((rows.zipIdx k).flatMap (fun p => p.1.map (fun b => g p.2 (f b)))) := by
  induction rows generalizing k with
  | nil => rfl
  | cons r rs ih => simp [List.zipIdx_cons, ih]

/-- The sparsity pattern of the renumbered system has the same cells in the same order with the same
rows, columns mapped through `π`. -/
theorem patternFrom_rename (π : Nat → Nat) (es : List (Entry α)) (row0 : Nat) :
    patternFrom (es.map (Entry.rename π)) row0 = (patternFrom es row0).map (renameCell π) := by
  induction es generalizing row0 with
  | nil => rfl
  | cons e rest ih =>
    simp only [List.map_cons, patternFrom, ih, List.map_append]
    rw [show (Entry.rename π e).c = e.c.rename π from rfl, nonzeroes_rename, residualDim_rename]
    simp only [Rows.map, takeRows_map (List.map π)]
    congr 1
    simp only [List.map_flatMap, List.map_map]
    exact flatMap_zipIdx_map π (fun k id => (row0 + k, id)) _ 0

/-- `patternFrom_rename` from row 0. -/
theorem pattern_rename (π : Nat → Nat) (es : List (Entry α)) :
    pattern (es.map (Entry.rename π)) = (pattern es).map (renameCell π) :=
  patternFrom_rename π es 0

/-- Renumbering does not change the total number of residual rows. -/
theorem numRows_rename (π : Nat → Nat) (es : List (Entry α)) :
    numRows (es.map (Entry.rename π)) = numRows es := by
  simp only [numRows, List.map_map]
  congr 1
  apply List.map_congr_left
  intro e _
  exact residualDim_rename π e.c

/-- For injective `π`, a renamed cell is in the renamed pattern exactly when the cell is in the
pattern. -/
theorem contains_renameCell (π : Nat → Nat) (hπ : ∀ a b, π a = π b → a = b)
    (pat : List (Nat × Nat)) (r c : Nat) :
    (pat.map (renameCell π)).contains (r, π c) = pat.contains (r, c) := by
  rw [Bool.eq_iff_iff]
  simp only [List.contains_iff_mem, List.mem_map, renameCell]
  constructor
  · rintro ⟨⟨r', c'⟩, hm, he⟩
    simp only [Prod.mk.injEq] at he
    obtain ⟨rfl, h2⟩ := he
    rw [← hπ _ _ h2]; exact hm
  · intro hm
    exact ⟨(r, c), hm, rfl⟩

/-- For injective `π`: the Jacobian scatter of the renumbered system at `x` against the renamed
pattern is that of the original system at `x ∘ π` with every contribution's column mapped through
`π`; rows, values, order, warnings and errors (including the not-in-pattern panic) are identical. -/
theorem jacobianFrom_rename (π : Nat → Nat) (hπ : ∀ a b, π a = π b → a = b)
    (pat : List (Nat × Nat)) (es : List (Entry α)) (x : Nat → Option α) (row0 : Nat) :
    jacobianFrom (pat.map (renameCell π)) (es.map (Entry.rename π)) x row0 =
      (jacobianFrom pat es (fun i => x (π i)) row0).map
        (fun (ts, ws) => (ts.map (renameTriplet π), ws)) := by
  induction es generalizing row0 with
  | nil => rfl
  | cons e rest ih =>
    simp only [List.map_cons, jacobianFrom, ih]
    rw [show (Entry.rename π e).c = e.c.rename π from rfl, jacobianRows_rename, residualDim_rename]
    cases hj : e.c.jacobianRows (fun i => x (π i)) with
    | none => rfl
    | some j =>
      simp only [Option.map_some, Jac.rename, takeRows_map (List.map (JVar.rename π))]
      have htr : ∀ rows : List (List (JVar α)),
          List.flatMap (fun x => List.map (fun jv => (row0 + x.snd, jv.id, jv.pd)) x.fst)
            (List.map (List.map (JVar.rename π)) rows).zipIdx =
          (List.flatMap (fun x => List.map (fun jv => (row0 + x.snd, jv.id, jv.pd)) x.fst)
            rows.zipIdx).map (renameTriplet π) := by
        intro rows
        simp only [List.map_flatMap, List.map_map]
        exact flatMap_zipIdx_map (JVar.rename π) (fun k jv => (row0 + k, jv.id, jv.pd)) rows 0
      rw [htr]
      generalize List.flatMap (fun x => List.map (fun jv => (row0 + x.snd, jv.id, jv.pd)) x.fst)
        (takeRows e.c.residualDim j.r0 j.r1 j.r2).zipIdx = trips
      have hall : ((trips.map (renameTriplet π)).all
            fun x => (List.map (renameCell π) pat).contains (x.fst, x.2.fst)) =
          trips.all fun x => pat.contains (x.fst, x.2.fst) := by
        rw [List.all_map]
        apply List.all_congr rfl
        intro t
        exact contains_renameCell π hπ pat t.1 t.2.1
      rw [hall]
      split
      · cases jacobianFrom pat rest (fun i => x (π i)) (row0 + e.c.residualDim) with
        | error err => rfl
        | ok p => obtain ⟨ts, ws⟩ := p; simp [Except.map, degenerateWarning, Entry.rename]
      · rfl
/-- `jacobianFrom_rename` for the system's own pattern. -/
theorem jacobianAll_rename (π : Nat → Nat) (hπ : ∀ a b, π a = π b → a = b)
    (es : List (Entry α)) (x : Nat → Option α) :
    jacobianAll (es.map (Entry.rename π)) x =
      (jacobianAll es (fun i => x (π i))).map (fun (ts, ws) => (ts.map (renameTriplet π), ws)) := by
  simp only [jacobianAll, pattern_rename]
  exact jacobianFrom_rename π hπ _ es x 0

/-! ### 4. The guess list reordered to match -/

/-- The `Distance` Jacobian row depends only on the four coordinates. -/
theorem distJacRow_congr (v w : Nat → α) (p0 p1 : Pt)
    (h : ∀ i ∈ p0.vars ++ p1.vars, v i = w i) : distJacRow v p0 p1 = distJacRow w p0 p1 := by
  simp only [Pt.vars, List.mem_append, List.mem_cons, List.not_mem_nil, or_false] at h
  simp only [distJacRow]
  grind

/-- The `LinesAtAngle` Jacobian depends only on the eight coordinates. -/
theorem linesAtAngleJac_congr (v w : Nat → α) (l0 l1 : Seg) (k : AngleKind α)
    (h : ∀ i ∈ l0.vars ++ l1.vars, v i = w i) :
    linesAtAngleJac v l0 l1 k = linesAtAngleJac w l0 l1 k := by
  simp only [Seg.vars, List.mem_append, List.mem_cons, List.not_mem_nil, or_false] at h
  simp only [linesAtAngleJac]
  grind

/-- `jacobian_rows` depends only on the slots it reads. -/
theorem jacobianV_congr_reads (c : Constraint α) (v w : Nat → α)
    (h : ∀ i ∈ c.jacobianReads, v i = w i) : c.jacobianV v = c.jacobianV w := by
  cases c <;>
    simp only [Constraint.jacobianReads, List.mem_append, Pt.vars, Seg.vars, Circ.vars, ArcD.vars,
      List.mem_cons, List.not_mem_nil, or_false] at h <;>
    simp only [Constraint.jacobianV, linesAtAngleJac, distJacRow] <;>
    grind
/-- The in-range test of a list of slots depends only on the assignment at those slots. -/
theorem all_isSome_congr (l : List Nat) (x y : Nat → Option α) (h : ∀ i ∈ l, x i = y i) :
    l.all (fun i => (x i).isSome) = l.all (fun i => (y i).isSome) := by
  induction l with
  | nil => rfl
  | cons a l ih =>
    simp only [List.all_cons]
    rw [h a (List.mem_cons_self ..), ih (fun i hi => h i (List.mem_cons_of_mem _ hi))]

/-- The partial-assignment residual depends only on the slots it reads. -/
theorem residual_congr (c : Constraint α) (x y : Nat → Option α)
    (h : ∀ i ∈ c.residualReads, x i = y i) : c.residual x = c.residual y := by
  simp only [Constraint.residual]
  rw [all_isSome_congr _ x y h,
    residualV_congr c (fun i => (x i).getD 0.0) (fun i => (y i).getD 0.0)
      (fun i hi => by simp only [h i hi])]

/-- The partial-assignment Jacobian rows depend only on the slots they read. -/
theorem jacobianRows_congr (c : Constraint α) (x y : Nat → Option α)
    (h : ∀ i ∈ c.jacobianReads, x i = y i) : c.jacobianRows x = c.jacobianRows y := by
  simp only [Constraint.jacobianRows]
  rw [all_isSome_congr _ x y h,
    jacobianV_congr_reads c (fun i => (x i).getD 0.0) (fun i => (y i).getD 0.0)
      (fun i hi => by simp only [h i hi])]

/-- The global residual depends only on the slots read by its entries. -/
theorem residualAll_congr (es : List (Entry α)) (x y : Nat → Option α)
    (h : ∀ e ∈ es, ∀ i ∈ e.c.residualReads, x i = y i) : residualAll es x = residualAll es y := by
  induction es with
  | nil => rfl
  | cons e rest ih =>
    simp only [residualAll]
    rw [residual_congr e.c x y (h e (List.mem_cons_self ..)),
      ih (fun e' he' => h e' (List.mem_cons_of_mem _ he'))]

/-- The satisfaction sweep depends only on the slots read by its entries. -/
theorem unsatisfiedSweep_congr (es : List (Entry α)) (x y : Nat → Option α)
    (h : ∀ e ∈ es, ∀ i ∈ e.c.residualReads, x i = y i) :
    unsatisfiedSweep es x = unsatisfiedSweep es y := by
  induction es with
  | nil => rfl
  | cons e rest ih =>
    simp only [unsatisfiedSweep]
    rw [residual_congr e.c x y (h e (List.mem_cons_self ..)),
      ih (fun e' he' => h e' (List.mem_cons_of_mem _ he'))]

/-- The Jacobian scatter depends only on the slots read by its entries. -/
theorem jacobianFrom_congr (pat : List (Nat × Nat)) (es : List (Entry α)) (x y : Nat → Option α)
    (row0 : Nat) (h : ∀ e ∈ es, ∀ i ∈ e.c.jacobianReads, x i = y i) :
    jacobianFrom pat es x row0 = jacobianFrom pat es y row0 := by
  induction es generalizing row0 with
  | nil => rfl
  | cons e rest ih =>
    simp only [jacobianFrom]
    rw [jacobianRows_congr e.c x y (h e (List.mem_cons_self ..))]
    simp only [fun r => ih r (fun e' he' => h e' (List.mem_cons_of_mem _ he'))]

/-- Every declared id of every entry is `< n`. -/
def Declared (es : List (Entry α)) (n : Nat) : Prop :=
  ∀ e ∈ es, ∀ i ∈ e.c.nonzeroes.all, i < n

/-- Guess list reordered to match: if `x'[π i] = x[i]` for every `i < n` and every declared id of
`c` is `< n`, the renumbered constraint at `x'` has the residual of the original at `x`.  (Equal
lengths and bijectivity of `π` on `{0..n-1}` are not needed here.) -/
theorem residual_reorder (π : Nat → Nat) (x x' : List α) (n : Nat)
    (hx : ∀ i, i < n → x'[π i]? = x[i]?) (c : Constraint α)
    (hc : ∀ i ∈ c.nonzeroes.all, i < n) :
    (c.rename π).residual (lookup x') = c.residual (lookup x) := by
  rw [residual_rename]
  exact residual_congr c _ _ (fun i hi => hx i (hc i (residualReads_subset c i hi)))

/-- Guess list reordered to match: the Jacobian rows of the renumbered constraint at `x'` are those
of the original at `x` with ids mapped through `π`. -/
theorem jacobianRows_reorder (π : Nat → Nat) (x x' : List α) (n : Nat)
    (hx : ∀ i, i < n → x'[π i]? = x[i]?) (c : Constraint α)
    (hc : ∀ i ∈ c.nonzeroes.all, i < n) :
    (c.rename π).jacobianRows (lookup x') = (c.jacobianRows (lookup x)).map (Jac.rename π) := by
  rw [jacobianRows_rename]
  congr 1
  exact jacobianRows_congr c _ _ (fun i hi => hx i (hc i (jacobianReads_subset c i hi)))

/-- Guess list reordered to match: the global residual and warnings of the renumbered system at `x'`
equal those of the original system at `x`. -/
theorem residualAll_reorder (π : Nat → Nat) (x x' : List α) (n : Nat)
    (hx : ∀ i, i < n → x'[π i]? = x[i]?) (es : List (Entry α)) (hes : Declared es n) :
    residualAll (es.map (Entry.rename π)) (lookup x') = residualAll es (lookup x) := by
  rw [residualAll_rename]
  exact residualAll_congr es _ _
    (fun e he i hi => hx i (hes e he i (residualReads_subset e.c i hi)))

/-- Guess list reordered to match: the unsatisfied list of the renumbered system at the reordered
values equals the original's. -/
theorem unsatisfiedSweep_reorder (π : Nat → Nat) (x x' : List α) (n : Nat)
    (hx : ∀ i, i < n → x'[π i]? = x[i]?) (es : List (Entry α)) (hes : Declared es n) :
    unsatisfiedSweep (es.map (Entry.rename π)) (lookup x') = unsatisfiedSweep es (lookup x) := by
  rw [unsatisfiedSweep_rename]
  exact unsatisfiedSweep_congr es _ _
    (fun e he i hi => hx i (hes e he i (residualReads_subset e.c i hi)))

/-- Guess list reordered to match, `π` injective: the Jacobian contributions of the renumbered
system at `x'` are the original's at `x` with columns mapped through `π` (rows, values, order,
warnings, errors identical). -/
theorem jacobianAll_reorder (π : Nat → Nat) (hπ : ∀ a b, π a = π b → a = b) (x x' : List α)
    (n : Nat) (hx : ∀ i, i < n → x'[π i]? = x[i]?) (es : List (Entry α)) (hes : Declared es n) :
    jacobianAll (es.map (Entry.rename π)) (lookup x') =
      (jacobianAll es (lookup x)).map (fun (ts, ws) => (ts.map (renameTriplet π), ws)) := by
  rw [jacobianAll_rename π hπ]
  congr 1
  exact jacobianFrom_congr _ es _ _ 0
    (fun e he i hi => hx i (hes e he i (jacobianReads_subset e.c i hi)))

/-! ### 5. Lint and validation -/

/-- The lint of one entry ignores variable ids. -/
theorem lintOne_rename (π : Nat → Nat) (e : Entry α) : lintOne (e.rename π) = lintOne e := by
  obtain ⟨c, id, pr⟩ := e
  cases c with
  | linesAtAngle l0 l1 k => cases k <;> rfl
  | _ => rfl

/-- The lint warnings of the renumbered system are exactly those of the original (a warning carries
only the angle and the entry id). -/
theorem lint_rename (π : Nat → Nat) (es : List (Entry α)) :
    lint (es.map (Entry.rename π)) = lint es := by
  simp only [lint, List.filterMap_map]
  congr 1
  funext e
  exact lintOne_rename π e

/-- Renumbering does not change the highest priority. -/
theorem maxPriority_rename (π : Nat → Nat) (es : List (Entry α)) :
    maxPriority (es.map (Entry.rename π)) = maxPriority es := by
  simp only [maxPriority, List.foldl_map]
  rfl
/-- Rename the variable named in a `MissingGuess` error. -/
def SolveError.rename (π : Nat → Nat) : SolveError → SolveError
  | .missingGuess cid v => .missingGuess cid (π v)
  | e => e

/-- For injective `π`, `π v` is among the renamed guess ids exactly when `v` is among the guess ids.
-/
theorem contains_map_inj (π : Nat → Nat) (hπ : ∀ a b, π a = π b → a = b) (vars : List Nat)
    (v : Nat) : (vars.map π).contains (π v) = vars.contains v := by
  rw [Bool.eq_iff_iff]
  simp only [List.contains_iff_mem, List.mem_map]
  constructor
  · rintro ⟨w, hm, he⟩
    rw [← hπ _ _ he]; exact hm
  · intro hm
    exact ⟨v, hm, rfl⟩

/-- For injective `π`, the first declared id without a guess in the renumbered setting is the image
of the original one. -/
theorem firstMissing_rename (π : Nat → Nat) (hπ : ∀ a b, π a = π b → a = b) (vars : List Nat)
    (rows : Rows Nat) :
    firstMissing (vars.map π) (rows.map π) = (firstMissing vars rows).map π := by
  simp only [firstMissing, Rows.map, ← List.map_append, List.find?_map]
  congr 2
  funext v
  simp only [Function.comp, contains_map_inj π hπ]

/-- For injective `π`: validation of the renumbered system against the renamed guess ids gives the
original verdict, with the variable named in a `MissingGuess` error mapped through `π` (same entry
id). -/
theorem validateVariables_rename (π : Nat → Nat) (hπ : ∀ a b, π a = π b → a = b)
    (es : List (Entry α)) (vars : List Nat) :
    validateVariables (es.map (Entry.rename π)) (vars.map π) =
      (validateVariables es vars).mapError (SolveError.rename π) := by
  induction es with
  | nil => rfl
  | cons e rest ih =>
    simp only [List.map_cons, validateVariables, ih]
    rw [show (Entry.rename π e).c = e.c.rename π from rfl, nonzeroes_rename,
      firstMissing_rename π hπ]
    cases firstMissing vars e.c.nonzeroes <;> rfl

/-- For injective `π`, validation of the renumbered system succeeds iff validation of the original
does. -/
theorem validateVariables_rename_ok (π : Nat → Nat) (hπ : ∀ a b, π a = π b → a = b)
    (es : List (Entry α)) (vars : List Nat) :
    validateVariables (es.map (Entry.rename π)) (vars.map π) = .ok () ↔
      validateVariables es vars = .ok () := by
  rw [validateVariables_rename π hπ]
  cases validateVariables es vars <;> simp [Except.mapError]

/-- For injective `π` that keeps `{0..n-1}` and its complement apart (`n` the number of guesses):
`Model::new` on the renumbered system gives the original verdict, with the variable of a
`MissingGuess` error mapped through `π`. -/
theorem modelNew_rename (π : Nat → Nat) (hπ : ∀ a b, π a = π b → a = b)
    (es : List (Entry α)) (vars : List Nat)
    (hlt : ∀ i, π i < vars.length ↔ i < vars.length) :
    modelNew (es.map (Entry.rename π)) (vars.map π) =
      (modelNew es vars).mapError (SolveError.rename π) := by
  have hall : (pattern (es.map (Entry.rename π))).all (fun (_, col) => col < (vars.map π).length) =
      (pattern es).all (fun (_, col) => col < vars.length) := by
    rw [pattern_rename, List.all_map, List.length_map]
    congr 1
    funext x
    simp only [Function.comp, renameCell, hlt]
  unfold modelNew
  rw [validateVariables_rename π hπ, hall]
  cases validateVariables es vars with
  | error e => rfl
  | ok u =>
    simp only [Except.mapError]
    split <;> rfl
/-! ### A renumbering of `{0..n-1}` extends to an injective renumbering of all ids -/

/-- `π` on `{0..n-1}`, the identity elsewhere. -/
def extendId (n : Nat) (π : Nat → Nat) : Nat → Nat := fun i => if i < n then π i else i

/-- `extendId n π` agrees with `π` below `n`. -/
theorem extendId_of_lt (n : Nat) (π : Nat → Nat) (i : Nat) (h : i < n) : extendId n π i = π i := by
  simp [extendId, h]

/-- If `π` maps `{0..n-1}` into itself, `extendId n π` keeps `{0..n-1}` and its complement apart. -/
theorem extendId_lt_iff (n : Nat) (π : Nat → Nat) (hr : ∀ i, i < n → π i < n) (i : Nat) :
    extendId n π i < n ↔ i < n := by
  unfold extendId
  split
  · rename_i h; simp [h, hr i h]
  · rfl

/-- If `π` maps `{0..n-1}` injectively into itself, `extendId n π` is injective on all ids. -/
theorem extendId_injective (n : Nat) (π : Nat → Nat) (hr : ∀ i, i < n → π i < n)
    (hi : ∀ a b, a < n → b < n → π a = π b → a = b) :
    ∀ a b, extendId n π a = extendId n π b → a = b := by
  intro a b h
  unfold extendId at h
  split at h <;> split at h
  · rename_i ha hb; exact hi a b ha hb h
  · rename_i ha hb; have := hr a ha; omega
  · rename_i ha hb; have := hr b hb; omega
  · exact h

/-- Renaming Jacobian rows depends only on the renaming at the ids that occur in them. -/
theorem Jac.rename_congr (π π' : Nat → Nat) (j : Jac α)
    (h : ∀ jv ∈ j.r0 ++ j.r1 ++ j.r2, π jv.id = π' jv.id) : j.rename π = j.rename π' := by
  have hm : ∀ l : List (JVar α), (∀ jv ∈ l, jv ∈ j.r0 ++ j.r1 ++ j.r2) →
      l.map (JVar.rename π) = l.map (JVar.rename π') := by
    intro l hl
    apply List.map_congr_left
    intro jv hjv
    simp only [JVar.rename, h jv (hl jv hjv)]
  simp only [Jac.rename]
  rw [hm j.r0 (by intro jv hjv; simp [hjv]), hm j.r1 (by intro jv hjv; simp [hjv]),
    hm j.r2 (by intro jv hjv; simp [hjv])]

/-- The declared rows of the renumbered constraint depend only on the renaming at the declared ids.
-/
theorem nonzeroes_rename_congr (π π' : Nat → Nat) (c : Constraint α)
    (h : ∀ i ∈ c.nonzeroes.all, π i = π' i) :
    (c.rename π).nonzeroes = (c.rename π').nonzeroes := by
  have hm : ∀ l : List Nat, (∀ i ∈ l, i ∈ c.nonzeroes.all) → l.map π = l.map π' := by
    intro l hl
    apply List.map_congr_left
    intro i hi
    exact h i (hl i hi)
  simp only [nonzeroes_rename, Rows.map]
  rw [hm c.nonzeroes.r0 (by intro i hi; simp [Rows.all, hi]),
    hm c.nonzeroes.r1 (by intro i hi; simp [Rows.all, hi]),
    hm c.nonzeroes.r2 (by intro i hi; simp [Rows.all, hi])]

/-- The Jacobian rows of the renumbered constraint depend only on the renaming at the declared ids
(undeclared fields such as the unused coordinate of `VerticalDistance` play no role). -/
theorem jacobianRows_rename_congr (π π' : Nat → Nat) (c : Constraint α) (x : Nat → Option α)
    (h : ∀ i ∈ c.nonzeroes.all, π i = π' i) :
    (c.rename π).jacobianRows x = (c.rename π').jacobianRows x := by
  rw [jacobianRows_rename, jacobianRows_rename,
    jacobianRows_congr c (fun i => x (π i)) (fun i => x (π' i))
      (fun i hi => congrArg x (h i (jacobianReads_subset c i hi)))]
  simp only [Constraint.jacobianRows]
  split
  · simp only [Option.map_some]
    congr 1
    apply Jac.rename_congr
    intro jv hjv
    have hs := jacobianV_ids_subset c (fun i => (x (π' i)).getD 0.0)
    apply h
    simp only [List.mem_append] at hjv
    simp only [Rows.all, List.mem_append]
    rcases hjv with (hjv | hjv) | hjv
    · exact Or.inl (Or.inl (hs.1 jv hjv))
    · exact Or.inl (Or.inr (hs.2.1 jv hjv))
    · exact Or.inr (hs.2.2 jv hjv)
  · rfl

/-- The pattern depends on the entries only through `residualDim` and `nonzeroes`. -/
theorem patternFrom_ext (es : List (Entry α)) (f g : Entry α → Entry α) (row0 : Nat)
    (h : ∀ e ∈ es, (f e).c.residualDim = (g e).c.residualDim ∧
      (f e).c.nonzeroes = (g e).c.nonzeroes) :
    patternFrom (es.map f) row0 = patternFrom (es.map g) row0 := by
  induction es generalizing row0 with
  | nil => rfl
  | cons e rest ih =>
    have he := h e (List.mem_cons_self ..)
    simp only [List.map_cons, patternFrom, he.1, he.2,
      fun r => ih r (fun e' he' => h e' (List.mem_cons_of_mem _ he'))]

/-- The Jacobian scatter depends on the entries only through their id, `residualDim` and
`jacobianRows`. -/
theorem jacobianFrom_ext (pat : List (Nat × Nat)) (es : List (Entry α)) (f g : Entry α → Entry α)
    (x : Nat → Option α) (row0 : Nat)
    (h : ∀ e ∈ es, (f e).id = (g e).id ∧ (f e).c.residualDim = (g e).c.residualDim ∧
      (f e).c.jacobianRows x = (g e).c.jacobianRows x) :
    jacobianFrom pat (es.map f) x row0 = jacobianFrom pat (es.map g) x row0 := by
  induction es generalizing row0 with
  | nil => rfl
  | cons e rest ih =>
    have he := h e (List.mem_cons_self ..)
    simp only [List.map_cons, jacobianFrom, he.2.1, he.2.2, degenerateWarning, he.1,
      fun r => ih r (fun e' he' => h e' (List.mem_cons_of_mem _ he'))]

/-- The Jacobian of the renumbered system depends only on the renaming at the declared ids. -/
theorem jacobianAll_rename_congr (π π' : Nat → Nat) (es : List (Entry α)) (x : Nat → Option α)
    (h : ∀ e ∈ es, ∀ i ∈ e.c.nonzeroes.all, π i = π' i) :
    jacobianAll (es.map (Entry.rename π)) x = jacobianAll (es.map (Entry.rename π')) x := by
  simp only [jacobianAll, pattern]
  rw [patternFrom_ext es (Entry.rename π) (Entry.rename π') 0
    (fun e he => ⟨by simp only [Entry.rename, residualDim_rename],
      nonzeroes_rename_congr π π' e.c (h e he)⟩)]
  exact jacobianFrom_ext _ es _ _ x 0
    (fun e he => ⟨rfl, by simp only [Entry.rename, residualDim_rename],
      jacobianRows_rename_congr π π' e.c x (h e he)⟩)

/-- Every column of a successfully scattered Jacobian is a declared id of some entry. -/
theorem jacobianFrom_cols (pat : List (Nat × Nat)) (es : List (Entry α)) (x : Nat → Option α) :
    ∀ (row0 : Nat) (ts : List (Triplet α)) (ws : List (Warning α)),
      jacobianFrom pat es x row0 = .ok (ts, ws) →
      ∀ t ∈ ts, ∃ e ∈ es, t.2.1 ∈ e.c.nonzeroes.all := by
  induction es with
  | nil =>
    intro row0 ts ws h t ht
    simp only [jacobianFrom, Except.ok.injEq, Prod.mk.injEq] at h
    rw [← h.1] at ht
    simp at ht
  | cons e rest ih =>
    intro row0 ts ws h t ht
    unfold jacobianFrom at h
    split at h
    · simp at h
    · rename_i j hj
      dsimp only at h
      split at h
      · split at h
        · simp at h
        · rename_i ts' ws' hrec
          simp only [Except.ok.injEq, Prod.mk.injEq] at h
          rw [← h.1] at ht
          rcases List.mem_append.mp ht with ht | ht
          · refine ⟨e, List.mem_cons_self .., ?_⟩
            simp only [List.mem_flatMap, List.mem_map] at ht
            obtain ⟨⟨row, k⟩, hm, jv, hjv, rfl⟩ := ht
            have hrow : row ∈ takeRows e.c.residualDim j.r0 j.r1 j.r2 :=
              (List.mem_zipIdx_iff_getElem?.mp hm) |> List.mem_of_getElem?
            have hrow3 : row ∈ [j.r0, j.r1, j.r2] := List.mem_of_mem_take hrow
            simp only [Constraint.jacobianRows] at hj
            split at hj
            · simp only [Option.some.injEq] at hj
              have hs := jacobianV_ids_subset e.c (fun i => (x i).getD 0.0)
              rw [hj] at hs
              simp only [Rows.all, List.mem_append]
              simp only [List.mem_cons, List.not_mem_nil, or_false] at hrow3
              rcases hrow3 with rfl | rfl | rfl
              · exact Or.inl (Or.inl (hs.1 jv hjv))
              · exact Or.inl (Or.inr (hs.2.1 jv hjv))
              · exact Or.inr (hs.2.2 jv hjv)
            · simp at hj
          · obtain ⟨e', he', h'⟩ := ih _ ts' ws' hrec t ht
            exact ⟨e', List.mem_cons_of_mem _ he', h'⟩
      · simp at h

/-- Guess list reordered to match, `π` a bijection of `{0..n-1}` (maps it into itself, injective on
it; no assumption outside), all declared ids `< n`: the Jacobian contributions of the renumbered
system at `x'` are the original's at `x` with columns mapped through `π`; rows, values, order,
warnings and errors identical. -/
theorem jacobianAll_reorder_perm (π : Nat → Nat) (x x' : List α) (n : Nat)
    (hr : ∀ i, i < n → π i < n) (hi : ∀ a b, a < n → b < n → π a = π b → a = b)
    (hx : ∀ i, i < n → x'[π i]? = x[i]?) (es : List (Entry α)) (hes : Declared es n) :
    jacobianAll (es.map (Entry.rename π)) (lookup x') =
      (jacobianAll es (lookup x)).map (fun (ts, ws) => (ts.map (renameTriplet π), ws)) := by
  rw [jacobianAll_rename_congr π (extendId n π) es _
    (fun e he i hi => (extendId_of_lt n π i (hes e he i hi)).symm)]
  rw [jacobianAll_reorder (extendId n π) (extendId_injective n π hr hi) x x' n
    (fun i h => by rw [extendId_of_lt n π i h]; exact hx i h) es hes]
  cases hjac : jacobianAll es (lookup x) with
  | error err => rfl
  | ok p =>
    obtain ⟨ts, ws⟩ := p
    simp only [Except.map]
    congr 2
    apply List.map_congr_left
    intro t ht
    obtain ⟨e, he, hcol⟩ := jacobianFrom_cols _ es _ 0 ts ws hjac t ht
    simp only [renameTriplet, extendId_of_lt n π _ (hes e he _ hcol)]

/-- Exchange ids 0 and 1. -/
def swap01 : Nat → Nat := fun i => if i = 0 then 1 else if i = 1 then 0 else i

/-- A non-trivial instance of the hypotheses of the `_reorder` theorems: two values swapped. -/
example (a b : α) :
    [a, b].length = 2 ∧ [b, a].length = 2 ∧ (∀ i, i < 2 → swap01 i < 2) ∧
      (∀ p q, p < 2 → q < 2 → swap01 p = swap01 q → p = q) ∧
      (∀ i, i < 2 → [b, a][swap01 i]? = [a, b][i]?) ∧
      Declared [(⟨.scalarEqual 0 1, 0, 0⟩ : Entry α)] 2 := by
  have h2 : ∀ i, i < 2 → i = 0 ∨ i = 1 := by omega
  refine ⟨rfl, rfl, ?_, ?_, ?_, ?_⟩
  · intro i hi
    rcases h2 i hi with rfl | rfl <;> decide
  · intro p q hp hq
    rcases h2 p hp with rfl | rfl <;> rcases h2 q hq with rfl | rfl <;> simp [swap01]
  · intro i hi
    rcases h2 i hi with rfl | rfl <;> rfl
  · intro e he i hi
    simp only [List.mem_singleton] at he
    subst he
    simp [Constraint.nonzeroes, Rows.all] at hi
    omega

/-- `swap01` is injective on all ids, so it also meets the hypothesis of the Jacobian theorems. -/
example : ∀ a b, swap01 a = swap01 b → a = b := by
  intro a b
  unfold swap01
  repeat' split
  all_goals omega
/-- Property C12 for the post-solve sweep, with the hypotheses exactly as the property states them:
`x` and `x'` have length `n`, `π` maps `{0..n-1}` bijectively to itself, `x'[π i] = x[i]`, and every
declared id is `< n`.  Then the residual with warnings, the unsatisfied list, the lint warnings, the
number of rows and the highest priority of the renumbered system at the reordered values are the
original's, and its Jacobian contributions are the original's with columns mapped through `π`. -/
theorem renumbering_consistent (π : Nat → Nat) (x x' : List α) (n : Nat)
    (_hlen : x.length = n) (_hlen' : x'.length = n)
    (hr : ∀ i, i < n → π i < n) (hi : ∀ a b, a < n → b < n → π a = π b → a = b)
    (hx : ∀ i, i < n → x'[π i]? = x[i]?) (es : List (Entry α)) (hes : Declared es n) :
    residualAll (es.map (Entry.rename π)) (lookup x') = residualAll es (lookup x) ∧
    unsatisfiedSweep (es.map (Entry.rename π)) (lookup x') = unsatisfiedSweep es (lookup x) ∧
    jacobianAll (es.map (Entry.rename π)) (lookup x') =
      (jacobianAll es (lookup x)).map (fun (ts, ws) => (ts.map (renameTriplet π), ws)) ∧
    lint (es.map (Entry.rename π)) = lint es ∧
    numRows (es.map (Entry.rename π)) = numRows es ∧
    maxPriority (es.map (Entry.rename π)) = maxPriority es :=
  ⟨residualAll_reorder π x x' n hx es hes, unsatisfiedSweep_reorder π x x' n hx es hes,
    jacobianAll_reorder_perm π x x' n hr hi hx es hes, lint_rename π es, numRows_rename π es,
    maxPriority_rename π es⟩
end Ezpz
