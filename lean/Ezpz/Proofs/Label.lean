/-
The labelled outcome of the text front-end (`labelOutcome`): for an accepted problem every value is
reported under the label it belongs to, at the variable ids of the layout specification
(`Ezpz/Spec/TextSpec.lean`), and labelling the initial guesses gives back the guesses of the text.
-/
import Ezpz.Proofs.TextStrict
set_option linter.unusedSectionVars false
namespace Ezpz.Text
open Ezpz

variable {α : Type}

/-! ### `IndexMap::insert` over distinct labels is an append -/

theorem imInsert_fresh {β : Type} (m : List (String × β)) (k : String) (b : β)
    (h : k ∉ keys m) : imInsert m k b = m ++ [(k, b)] := by
  unfold imInsert
  have : m.any (fun e => e.1 == k) = false := by
    cases hb : m.any (fun e => e.1 == k) with
    | false => rfl
    | true =>
      exfalso; apply h
      obtain ⟨e, he, hk⟩ := List.any_eq_true.mp hb
      simp only [keys, List.mem_map]
      exact ⟨e, he, by simpa using hk⟩
  simp [this]

/-- The fold of `labelOutcome` over distinct labels: it succeeds when every read does, appends one
entry per label in order, and the `i`-th entry is the `i`-th label with the value read for it. -/
theorem foldlM_imInsert {β : Type} (f : Nat → Option β) :
    ∀ (ls : List String) (k : Nat) (acc : List (String × β)),
      ls.Nodup → (∀ l ∈ ls, l ∉ keys acc) → (∀ i, i < ls.length → (f (k + i)).isSome) →
      ∃ r, (ls.zipIdx k).foldlM (fun acc (e : String × Nat) => do
              let b ← f e.2
              pure (imInsert acc e.1 b)) acc = some (acc ++ r) ∧
        r.length = ls.length ∧
        ∀ i lab, ls[i]? = some lab → ∃ b, f (k + i) = some b ∧ r[i]? = some (lab, b) := by
  intro ls
  induction ls with
  | nil =>
    intro k acc _ _ _
    exact ⟨[], by simp, rfl, by simp⟩
  | cons l rest ih =>
    intro k acc hnd hfresh hsome
    have h0 := hsome 0 (by simp)
    obtain ⟨b, hb⟩ := Option.isSome_iff_exists.mp h0
    simp only [Nat.add_zero] at hb
    have hl : l ∉ keys acc := hfresh l (by simp)
    obtain ⟨hlr, hndr⟩ := List.nodup_cons.mp hnd
    have hfresh' : ∀ l' ∈ rest, l' ∉ keys (acc ++ [(l, b)]) := by
      intro l' hl' hmem
      simp only [keys, List.map_append, List.map_cons, List.map_nil, List.mem_append,
        List.mem_singleton] at hmem
      rcases hmem with hmem | hmem
      · exact hfresh l' (by simp [hl']) (by simpa [keys] using hmem)
      · subst hmem; exact hlr hl'
    have hsome' : ∀ i, i < rest.length → (f (k + 1 + i)).isSome := by
      intro i hi
      have := hsome (i + 1) (by simp; omega)
      rwa [show k + (i + 1) = k + 1 + i by omega] at this
    obtain ⟨r, hr, hlen, hget⟩ := ih (k + 1) (acc ++ [(l, b)]) hndr hfresh' hsome'
    refine ⟨(l, b) :: r, ?_, by simp [hlen], ?_⟩
    · simp only [List.zipIdx_cons, List.foldlM_cons, hb, Option.bind_eq_bind, Option.bind_some,
        Option.pure_def, imInsert_fresh acc l b hl]
      simp only [Option.bind_eq_bind, Option.pure_def] at hr
      rw [hr]; simp
    · intro i lab hi
      cases i with
      | zero =>
        simp only [List.getElem?_cons_zero, Option.some.injEq] at hi
        subst hi
        exact ⟨b, hb, by simp⟩
      | succ i =>
        simp only [List.getElem?_cons_succ] at hi
        obtain ⟨b', hb', hr'⟩ := hget i lab hi
        exact ⟨b', by rw [show k + (i + 1) = k + 1 + i by omega]; exact hb', by simpa using hr'⟩

/-! ### Accepted problems declare each label once -/

theorem buildPoints_nodup : ∀ (labels : List String) (gp : List (String × α × α)) (v v' : Vars α)
    (gp' : List (String × α × α)), buildPoints labels gp v = .ok (v', gp') → labels.Nodup := by
  intro labels
  induction labels with
  | nil => intros; exact List.nodup_nil
  | cons l rest ih =>
    intro gp v v' gp' h
    unfold buildPoints at h
    split at h
    · simp at h
    · rename_i g gp1 hr
      obtain ⟨_, hiff⟩ := amRemove_some gp l g gp1 hr
      obtain ⟨h1, _⟩ := buildPoints_keys rest gp1 _ v' gp' h
      refine List.nodup_cons.mpr ⟨?_, ih gp1 _ v' gp' h⟩
      intro hl
      exact ((hiff l).mp (h1 l hl)).2 rfl

/-- If the circle guesses could all be consumed, no circle label is declared twice. -/
theorem buildCircles_nodup : ∀ (labels : List String) (gp : List (String × α × α))
    (gs : List (String × α)) (v v' : Vars α) (gp' : List (String × α × α)) (gs' : List (String × α)),
    buildCircles labels gp gs v = .ok (v', gp', gs') → labels.Nodup := by
  intro labels
  induction labels with
  | nil => intros; exact List.nodup_nil
  | cons l rest ih =>
    intro gp gs v v' gp' gs' h
    unfold buildCircles at h
    split at h
    · simp at h
    · rename_i c gp1 hr1
      split at h
      · simp at h
      · rename_i r gs1 hr2
        obtain ⟨_, hiff⟩ := amRemove_some gp _ c gp1 hr1
        obtain ⟨h1, _⟩ := buildCircles_keys rest gp1 gs1 _ v' gp' gs' h
        refine List.nodup_cons.mpr ⟨?_, ih gp1 gs1 _ v' gp' gs' h⟩
        intro hl
        exact ((hiff _).mp (h1 l hl).1).2 rfl

/-- If the arc guesses could all be consumed, no arc label is declared twice. -/
theorem buildArcs_nodup : ∀ (labels : List String) (gp : List (String × α × α)) (v v' : Vars α)
    (gp' : List (String × α × α)), buildArcs labels gp v = .ok (v', gp') → labels.Nodup := by
  intro labels
  induction labels with
  | nil => intros; exact List.nodup_nil
  | cons l rest ih =>
    intro gp v v' gp' h
    unfold buildArcs at h
    split at h
    · simp at h
    · rename_i c gp1 hr1
      split at h
      · simp at h
      · rename_i a gp2 hr2
        split at h
        · simp at h
        · rename_i b gp3 hr3
          obtain ⟨_, hiff1⟩ := amRemove_some gp _ c gp1 hr1
          obtain ⟨_, hiff2⟩ := amRemove_some gp1 _ a gp2 hr2
          obtain ⟨_, hiff3⟩ := amRemove_some gp2 _ b gp3 hr3
          obtain ⟨h1, _⟩ := buildArcs_keys rest gp3 _ v' gp' h
          refine List.nodup_cons.mpr ⟨?_, ih gp3 _ v' gp' h⟩
          intro hl
          have := (h1 l hl).1
          exact ((hiff1 _).mp ((hiff2 _).mp ((hiff3 _).mp this).1).1).2 rfl

/-- **An accepted problem declares every point, circle and arc label once** (a label declared twice
would need its guess twice, and a guess is consumed by its first use). -/
theorem buildVars_nodup (p : Problem α) (v : Vars α) (h : buildVars p = .ok v) :
    p.innerPoints.Nodup ∧ p.innerCircles.Nodup ∧ p.innerArcs.Nodup := by
  unfold buildVars at h
  split at h
  · simp at h
  · rename_i v1 gp1 h1
    split at h
    · simp at h
    · rename_i v2 gp2 gs2 h2
      split at h
      · simp at h
      · rename_i v3 gp3 h3
        exact ⟨buildPoints_nodup _ _ _ _ _ h1, buildCircles_nodup _ _ _ _ _ _ _ h2,
          buildArcs_nodup _ _ _ _ _ h3⟩

/-! ### The labelled outcome, slot by slot -/

/-- The value of a point in `final` at the ids `ids`. -/
def readPt (final : List α) (ids : Pt) : Option (α × α) := do
  let x ← final[ids.x]?
  let y ← final[ids.y]?
  pure (x, y)

/-- The value of a circle (centre, radius) in `final` at the ids `ids`. -/
def readCirc (final : List α) (ids : Circ) : Option ((α × α) × α) := do
  let c ← readPt final ids.center
  let r ← final[ids.radius]?
  pure (c, r)

/-- The value of an arc (centre, start `a`, end `b`) in `final` at the ids `ids`. -/
def readArc (final : List α) (ids : ArcD) : Option ((α × α) × (α × α) × (α × α)) := do
  let c ← readPt final ids.center
  let a ← readPt final ids.start
  let b ← readPt final ids.stop
  pure (c, a, b)

/-- `readPt` returns `(x, y)` exactly when `final` holds `x` and `y` at the point's two ids. -/
theorem readPt_eq_some (final : List α) (ids : Pt) (x y : α) :
    readPt final ids = some (x, y) ↔ final[ids.x]? = some x ∧ final[ids.y]? = some y := by
  unfold readPt
  cases final[ids.x]? <;> cases final[ids.y]? <;> simp

/-- Reading a point succeeds when both ids are in range. -/
theorem readPt_isSome (final : List α) (ids : Pt) (hx : ids.x < final.length)
    (hy : ids.y < final.length) : (readPt final ids).isSome := by
  simp [readPt, List.getElem?_eq_getElem hx, List.getElem?_eq_getElem hy]

/-- Reading a circle succeeds when its three ids are in range. -/
theorem readCirc_isSome (final : List α) (ids : Circ) (hx : ids.center.x < final.length)
    (hy : ids.center.y < final.length) (hr : ids.radius < final.length) :
    (readCirc final ids).isSome := by
  simp [readCirc, readPt, List.getElem?_eq_getElem hx, List.getElem?_eq_getElem hy,
    List.getElem?_eq_getElem hr]

/-- Reading an arc succeeds when its six ids are in range. -/
theorem readArc_isSome (final : List α) (ids : ArcD) (h1 : ids.center.x < final.length)
    (h2 : ids.center.y < final.length) (h3 : ids.start.x < final.length)
    (h4 : ids.start.y < final.length) (h5 : ids.stop.x < final.length)
    (h6 : ids.stop.y < final.length) : (readArc final ids).isSome := by
  simp [readArc, readPt, List.getElem?_eq_getElem h1, List.getElem?_eq_getElem h2,
    List.getElem?_eq_getElem h3, List.getElem?_eq_getElem h4, List.getElem?_eq_getElem h5,
    List.getElem?_eq_getElem h6]

/-- What `labelOutcome` computes, for distinct labels and enough final values. -/
theorem labelOutcome_of_nodup (p : Problem α) (final : List α)
    (hP : p.innerPoints.Nodup) (hC : p.innerCircles.Nodup) (hA : p.innerArcs.Nodup)
    (hlen : Spec.numVars p.innerPoints.length p.innerCircles.length p.innerArcs.length
      ≤ final.length) :
    ∃ l, labelOutcome p final = some l ∧
      l.points.length = p.innerPoints.length ∧
      l.circles.length = p.innerCircles.length ∧
      l.arcs.length = p.innerArcs.length ∧
      (∀ i lab, p.innerPoints[i]? = some lab →
        ∃ b, readPt final (Spec.pointIds i) = some b ∧ l.points[i]? = some (lab, b)) ∧
      (∀ j lab, p.innerCircles[j]? = some lab →
        ∃ b, readCirc final (Spec.circleIds p.innerPoints.length j) = some b ∧
          l.circles[j]? = some (lab, b)) ∧
      (∀ k lab, p.innerArcs[k]? = some lab →
        ∃ b, readArc final (Spec.arcIds p.innerPoints.length p.innerCircles.length k) = some b ∧
          l.arcs[k]? = some (lab, b)) := by
  simp only [Spec.numVars] at hlen
  obtain ⟨r1, e1, len1, get1⟩ := foldlM_imInsert (fun i => readPt final (Spec.pointIds i))
    p.innerPoints 0 [] hP (by simp [keys]) (by
      intro i hi
      apply readPt_isSome <;> simp only [Spec.pointIds] <;> omega)
  obtain ⟨r2, e2, len2, get2⟩ := foldlM_imInsert
    (fun j => readCirc final (Spec.circleIds p.innerPoints.length j))
    p.innerCircles 0 [] hC (by simp [keys]) (by
      intro i hi
      apply readCirc_isSome <;> simp only [Spec.circleIds] <;> omega)
  obtain ⟨r3, e3, len3, get3⟩ := foldlM_imInsert
    (fun k => readArc final (Spec.arcIds p.innerPoints.length p.innerCircles.length k))
    p.innerArcs 0 [] hA (by simp [keys]) (by
      intro i hi
      apply readArc_isSome <;> simp only [Spec.arcIds] <;> omega)
  simp only [List.nil_append, Nat.zero_add] at e1 e2 e3 get1 get2 get3
  refine ⟨⟨r1, r2, r3⟩, ?_, len1, len2, len3, get1, get2, get3⟩
  unfold labelOutcome
  have f1 : (fun (acc : List (String × α × α)) (x : String × Nat) =>
      match x with
      | (l, i) => do
        let x ← final[2 * i]?
        let y ← final[2 * i + 1]?
        pure (imInsert acc l (x, y))) =
      (fun (acc : List (String × α × α)) (e : String × Nat) => do
        let b ← readPt final (Spec.pointIds e.2)
        pure (imInsert acc e.1 b)) := by
    funext acc ⟨l, i⟩
    simp only [readPt, Spec.pointIds]
    (cases final[2 * i]? <;> cases final[2 * i + 1]? <;> rfl)
  have f2 : (fun (acc : List (String × (α × α) × α)) (x : String × Nat) =>
      match x with
      | (l, i) => do
        let cx ← final[2 * p.innerPoints.length + 3 * i]?
        let cy ← final[2 * p.innerPoints.length + 3 * i + 1]?
        let r ← final[2 * p.innerPoints.length + 3 * i + 2]?
        pure (imInsert acc l ((cx, cy), r))) =
      (fun (acc : List (String × (α × α) × α)) (e : String × Nat) => do
        let b ← readCirc final (Spec.circleIds p.innerPoints.length e.2)
        pure (imInsert acc e.1 b)) := by
    funext acc ⟨l, i⟩
    simp only [readCirc, readPt, Spec.circleIds]
    (cases final[2 * p.innerPoints.length + 3 * i]? <;>
      cases final[2 * p.innerPoints.length + 3 * i + 1]? <;>
      cases final[2 * p.innerPoints.length + 3 * i + 2]? <;> rfl)
  have f3 : (fun (acc : List (String × (α × α) × (α × α) × (α × α))) (x : String × Nat) =>
      match x with
      | (l, i) => do
        let ax ← final[2 * p.innerPoints.length + 3 * p.innerCircles.length + Gen.VARS_PER_ARC * i]?
        let ay ← final[2 * p.innerPoints.length + 3 * p.innerCircles.length + Gen.VARS_PER_ARC * i + 1]?
        let bx ← final[2 * p.innerPoints.length + 3 * p.innerCircles.length + Gen.VARS_PER_ARC * i + 2]?
        let bY ← final[2 * p.innerPoints.length + 3 * p.innerCircles.length + Gen.VARS_PER_ARC * i + 3]?
        let cx ← final[2 * p.innerPoints.length + 3 * p.innerCircles.length + Gen.VARS_PER_ARC * i + 4]?
        let cy ← final[2 * p.innerPoints.length + 3 * p.innerCircles.length + Gen.VARS_PER_ARC * i + 5]?
        pure (imInsert acc l ((cx, cy), (ax, ay), (bx, bY)))) =
      (fun (acc : List (String × (α × α) × (α × α) × (α × α))) (e : String × Nat) => do
        let b ← readArc final (Spec.arcIds p.innerPoints.length p.innerCircles.length e.2)
        pure (imInsert acc e.1 b)) := by
    funext acc ⟨l, i⟩
    simp only [readArc, readPt, Spec.arcIds, Gen.VARS_PER_ARC]
    (cases final[2 * p.innerPoints.length + 3 * p.innerCircles.length + 6 * i]? <;>
      cases final[2 * p.innerPoints.length + 3 * p.innerCircles.length + 6 * i + 1]? <;>
      cases final[2 * p.innerPoints.length + 3 * p.innerCircles.length + 6 * i + 2]? <;>
      cases final[2 * p.innerPoints.length + 3 * p.innerCircles.length + 6 * i + 3]? <;>
      cases final[2 * p.innerPoints.length + 3 * p.innerCircles.length + 6 * i + 4]? <;>
      cases final[2 * p.innerPoints.length + 3 * p.innerCircles.length + 6 * i + 5]? <;> rfl)
  dsimp only
  rw [f1, f2, f3, e1, e2, e3]
  rfl

/-- `readCirc` returns `((cx, cy), r)` exactly when `final` holds these values at the circle's three ids. -/
theorem readCirc_eq_some (final : List α) (ids : Circ) (cx cy r : α) :
    readCirc final ids = some ((cx, cy), r) ↔
      final[ids.center.x]? = some cx ∧ final[ids.center.y]? = some cy ∧
      final[ids.radius]? = some r := by
  unfold readCirc readPt
  cases final[ids.center.x]? <;> cases final[ids.center.y]? <;> cases final[ids.radius]? <;>
    simp [and_assoc]

/-- `readArc` returns `(centre, a, b)` exactly when `final` holds these six values at the arc's ids. -/
theorem readArc_eq_some (final : List α) (ids : ArcD) (cx cy ax ay bx bY : α) :
    readArc final ids = some ((cx, cy), (ax, ay), (bx, bY)) ↔
      final[ids.center.x]? = some cx ∧ final[ids.center.y]? = some cy ∧
      final[ids.start.x]? = some ax ∧ final[ids.start.y]? = some ay ∧
      final[ids.stop.x]? = some bx ∧ final[ids.stop.y]? = some bY := by
  unfold readArc readPt
  cases final[ids.center.x]? <;> cases final[ids.center.y]? <;> cases final[ids.start.x]? <;>
    cases final[ids.start.y]? <;> cases final[ids.stop.x]? <;> cases final[ids.stop.y]? <;>
    simp [and_assoc]

/-- **The labelled outcome returns each value under the label it belongs to.**  For an accepted
problem (its variables build) and one final value per variable, `labelOutcome` succeeds; it lists
one entry per declared point, circle and arc, in declaration order; and the entry of the `i`-th
point / `j`-th circle / `k`-th arc carries that entity's label together with the final values *at
the variable ids the layout specification gives that entity* (`Spec.pointIds`, `Spec.circleIds`,
`Spec.arcIds` — the ids `C08.labels_bind_spec_vars` proves the executor binds to the label): the
value reported for label `L`'s slot `s` is `final[specId L s]`.  For arcs the reported triple is
`(centre, a, b)` although the variables are laid out `[ax, ay, bx, by, cx, cy]`. -/
theorem labelOutcome_spec (p : Problem α) (v : Vars α) (h : buildVars p = .ok v) (final : List α)
    (hlen : final.length =
      Spec.numVars p.innerPoints.length p.innerCircles.length p.innerArcs.length) :
    ∃ l, labelOutcome p final = some l ∧
      l.points.length = p.innerPoints.length ∧
      l.circles.length = p.innerCircles.length ∧
      l.arcs.length = p.innerArcs.length ∧
      (∀ i lab, p.innerPoints[i]? = some lab →
        ∃ x y, l.points[i]? = some (lab, x, y) ∧
          final[(Spec.pointIds i).x]? = some x ∧ final[(Spec.pointIds i).y]? = some y) ∧
      (∀ j lab, p.innerCircles[j]? = some lab →
        ∃ cx cy r, l.circles[j]? = some (lab, (cx, cy), r) ∧
          final[(Spec.circleIds p.innerPoints.length j).center.x]? = some cx ∧
          final[(Spec.circleIds p.innerPoints.length j).center.y]? = some cy ∧
          final[(Spec.circleIds p.innerPoints.length j).radius]? = some r) ∧
      (∀ k lab, p.innerArcs[k]? = some lab →
        ∃ cx cy ax ay bx bY, l.arcs[k]? = some (lab, (cx, cy), (ax, ay), (bx, bY)) ∧
          final[(Spec.arcIds p.innerPoints.length p.innerCircles.length k).center.x]? = some cx ∧
          final[(Spec.arcIds p.innerPoints.length p.innerCircles.length k).center.y]? = some cy ∧
          final[(Spec.arcIds p.innerPoints.length p.innerCircles.length k).start.x]? = some ax ∧
          final[(Spec.arcIds p.innerPoints.length p.innerCircles.length k).start.y]? = some ay ∧
          final[(Spec.arcIds p.innerPoints.length p.innerCircles.length k).stop.x]? = some bx ∧
          final[(Spec.arcIds p.innerPoints.length p.innerCircles.length k).stop.y]? = some bY) := by
  obtain ⟨hP, hC, hA⟩ := buildVars_nodup p v h
  obtain ⟨l, hl, n1, n2, n3, g1, g2, g3⟩ :=
    labelOutcome_of_nodup p final hP hC hA (by rw [hlen]; exact Nat.le_refl _)
  refine ⟨l, hl, n1, n2, n3, ?_, ?_, ?_⟩
  · intro i lab hi
    obtain ⟨⟨x, y⟩, hb, hget⟩ := g1 i lab hi
    exact ⟨x, y, hget, (readPt_eq_some _ _ _ _).mp hb⟩
  · intro j lab hj
    obtain ⟨⟨⟨cx, cy⟩, r⟩, hb, hget⟩ := g2 j lab hj
    exact ⟨cx, cy, r, hget, (readCirc_eq_some _ _ _ _ _).mp hb⟩
  · intro k lab hk
    obtain ⟨⟨⟨cx, cy⟩, ⟨ax, ay⟩, ⟨bx, bY⟩⟩, hb, hget⟩ := g3 k lab hk
    exact ⟨cx, cy, ax, ay, bx, bY, hget, (readArc_eq_some _ _ _ _ _ _ _ _).mp hb⟩

/-- An accepted constraint system was built from accepted variables, and a vector with one value per
solver variable (what the solver returns, `C07.final_length`) has the length the layout
specification prescribes. -/
theorem accepted_vars (p : Problem α) (cs : ConstraintSystem α)
    (h : toConstraintSystem p = .ok cs) (final : List α)
    (hlen : final.length = cs.vars.variables.length) :
    buildVars p = .ok cs.vars ∧
    final.length = Spec.numVars p.innerPoints.length p.innerCircles.length p.innerArcs.length := by
  unfold toConstraintSystem at h
  cases hv : buildVars p with
  | error e => simp [hv] at h
  | ok v =>
    simp only [hv] at h
    cases hl : lowerAll p v p.instructions with
    | error e => simp [hl] at h
    | ok c =>
      simp only [hl] at h
      injection h with h; subst h
      obtain ⟨hok, h1, h2, h3⟩ := buildVars_ok p v hv
      refine ⟨rfl, ?_⟩
      rw [hlen, hok.len, h1, h2, h3]; rfl

/-- The entries of the labelled outcome carry exactly the declared labels, in declaration order. -/
theorem labelOutcome_labels (p : Problem α) (v : Vars α) (h : buildVars p = .ok v) (final : List α)
    (l : Labelled α) (hl : labelOutcome p final = some l)
    (hlen : final.length =
      Spec.numVars p.innerPoints.length p.innerCircles.length p.innerArcs.length) :
    l.points.map (·.1) = p.innerPoints ∧ l.circles.map (·.1) = p.innerCircles ∧
    l.arcs.map (·.1) = p.innerArcs := by
  obtain ⟨l', hl', n1, n2, n3, g1, g2, g3⟩ := labelOutcome_spec p v h final hlen
  rw [hl] at hl'; injection hl' with hl'; subst hl'
  refine ⟨?_, ?_, ?_⟩
  · apply List.ext_getElem? ; intro i
    cases hi : p.innerPoints[i]? with
    | none =>
      have : l.points.length ≤ i := by rw [n1]; exact List.getElem?_eq_none_iff.mp hi
      simp [List.getElem?_eq_none_iff.mpr this]
    | some lab =>
      obtain ⟨x, y, hg, _⟩ := g1 i lab hi
      simp [hg]
  · apply List.ext_getElem? ; intro i
    cases hi : p.innerCircles[i]? with
    | none =>
      have : l.circles.length ≤ i := by rw [n2]; exact List.getElem?_eq_none_iff.mp hi
      simp [List.getElem?_eq_none_iff.mpr this]
    | some lab =>
      obtain ⟨cx, cy, r, hg, _⟩ := g2 i lab hi
      simp [hg]
  · apply List.ext_getElem? ; intro i
    cases hi : p.innerArcs[i]? with
    | none =>
      have : l.arcs.length ≤ i := by rw [n3]; exact List.getElem?_eq_none_iff.mp hi
      simp [List.getElem?_eq_none_iff.mpr this]
    | some lab =>
      obtain ⟨cx, cy, ax, ay, bx, bY, hg, _⟩ := g3 i lab hi
      simp [hg]

/-- **Closed form of the labelled outcome.**  The same statement as `labelOutcome_spec`, as
equations between lists: the labelled points / circles / arcs are the declared labels, in order,
each paired with the final values at its specified ids (`some` on the left because every read is in
range). -/
theorem labelOutcome_closed_form (p : Problem α) (v : Vars α) (h : buildVars p = .ok v)
    (final : List α)
    (hlen : final.length =
      Spec.numVars p.innerPoints.length p.innerCircles.length p.innerArcs.length) :
    ∃ l : Labelled α, labelOutcome p final = some l ∧
      l.points.map (fun e => (e.1, some e.2.1, some e.2.2)) =
        p.innerPoints.zipIdx.map (fun e =>
          (e.1, final[(Spec.pointIds e.2).x]?, final[(Spec.pointIds e.2).y]?)) ∧
      l.circles.map (fun e => (e.1, some e.2.1.1, some e.2.1.2, some e.2.2)) =
        p.innerCircles.zipIdx.map (fun e =>
          (e.1, final[(Spec.circleIds p.innerPoints.length e.2).center.x]?,
            final[(Spec.circleIds p.innerPoints.length e.2).center.y]?,
            final[(Spec.circleIds p.innerPoints.length e.2).radius]?)) ∧
      l.arcs.map (fun e => (e.1, (some e.2.1.1, some e.2.1.2),
          (some e.2.2.1.1, some e.2.2.1.2), (some e.2.2.2.1, some e.2.2.2.2))) =
        p.innerArcs.zipIdx.map (fun e =>
          let ids := Spec.arcIds p.innerPoints.length p.innerCircles.length e.2
          (e.1, (final[ids.center.x]?, final[ids.center.y]?),
            (final[ids.start.x]?, final[ids.start.y]?), (final[ids.stop.x]?, final[ids.stop.y]?))) := by
  obtain ⟨l, hl, n1, n2, n3, g1, g2, g3⟩ := labelOutcome_spec p v h final hlen
  refine ⟨l, hl, ?_, ?_, ?_⟩
  · apply List.ext_getElem?
    intro i
    simp only [List.getElem?_map, List.getElem?_zipIdx, Nat.zero_add]
    cases hi : p.innerPoints[i]? with
    | none =>
      have : l.points.length ≤ i := by rw [n1]; exact List.getElem?_eq_none_iff.mp hi
      simp [List.getElem?_eq_none_iff.mpr this]
    | some lab =>
      obtain ⟨x, y, hg, hx, hy⟩ := g1 i lab hi
      simp [hg, hx, hy]
  · apply List.ext_getElem?
    intro i
    simp only [List.getElem?_map, List.getElem?_zipIdx, Nat.zero_add]
    cases hi : p.innerCircles[i]? with
    | none =>
      have : l.circles.length ≤ i := by rw [n2]; exact List.getElem?_eq_none_iff.mp hi
      simp [List.getElem?_eq_none_iff.mpr this]
    | some lab =>
      obtain ⟨cx, cy, r, hg, hx, hy, hr⟩ := g2 i lab hi
      simp [hg, hx, hy, hr]
  · apply List.ext_getElem?
    intro i
    simp only [List.getElem?_map, List.getElem?_zipIdx, Nat.zero_add]
    cases hi : p.innerArcs[i]? with
    | none =>
      have : l.arcs.length ≤ i := by rw [n3]; exact List.getElem?_eq_none_iff.mp hi
      simp [List.getElem?_eq_none_iff.mpr this]
    | some lab =>
      obtain ⟨cx, cy, ax, ay, bx, bY, hg, e1, e2, e3, e4, e5, e6⟩ := g3 i lab hi
      simp [hg, e1, e2, e3, e4, e5, e6]

/-! ### Labelling the initial guesses gives back the guesses of the text -/

/-- Lookup in the association-list model of the guess `HashMap`. -/
def amGet {β : Type} (m : List (String × β)) (k : String) : Option β :=
  (m.find? (fun e => e.1 == k)).map (·.2)

/-- The guess the text gives for key `k`: the last `k roughly …` line (a later line overwrites an
earlier one, as `HashMap::insert` does; for a key given once it is that line's value, see
`lastGuess_of_mem`). -/
def lastGuess {β : Type} (gs : List (String × β)) (k : String) : Option β := amGet gs.reverse k

/-- Lookup after `HashMap::insert`: the inserted key gives the new value, any other key is unchanged. -/
theorem amGet_amInsert {β : Type} (m : List (String × β)) (k : String) (v : β) (k' : String) :
    amGet (amInsert m k v) k' = if k = k' then some v else amGet m k' := by
  unfold amGet amInsert
  by_cases hk : k = k'
  · simp [hk]
  · simp only [hk, if_false, List.find?_cons]
    have : ((k, v).1 == k') = false := by simpa using hk
    rw [this]
    simp only [List.find?_filter]
    congr 2
    funext a
    by_cases ha : a.1 = k'
    · subst ha; simp; exact fun h => hk h.symm
    · simp [ha]

/-- Lookup in a concatenation: the first list wins. -/
theorem amGet_append {β : Type} (m₁ m₂ : List (String × β)) (k : String) :
    amGet (m₁ ++ m₂) k = (amGet m₁ k).or (amGet m₂ k) := by
  unfold amGet
  rw [List.find?_append]
  cases m₁.find? (fun e => e.1 == k) <;> simp

/-- The guess map built from the text returns, for every key, the text's (last) guess for it. -/
theorem amGet_amFromList {β : Type} (xs : List (String × β)) (k : String) :
    amGet (amFromList xs) k = lastGuess xs k := by
  have : ∀ (xs : List (String × β)) (m : List (String × β)),
      amGet (xs.foldl (fun m e => amInsert m e.1 e.2) m) k = (lastGuess xs k).or (amGet m k) := by
    intro xs
    induction xs with
    | nil => intro m; simp [lastGuess, amGet]
    | cons e rest ih =>
      intro m
      simp only [List.foldl_cons, ih, amGet_amInsert, lastGuess, List.reverse_cons, amGet_append]
      cases amGet rest.reverse k with
      | some g => simp
      | none =>
        by_cases hk : e.1 = k
        · simp [hk, amGet]
        · simp [hk, amGet]
  have h := this xs []
  simpa [amFromList, amGet] using h

/-- For a key the text gives once, `lastGuess` is that line's value. -/
theorem lastGuess_of_mem {β : Type} (gs : List (String × β)) (k : String) (g : β)
    (hmem : (k, g) ∈ gs) (hnd : (gs.map (·.1)).Nodup) : lastGuess gs k = some g := by
  induction gs with
  | nil => simp at hmem
  | cons e rest ih =>
    simp only [List.map_cons, List.nodup_cons] at hnd
    simp only [lastGuess, List.reverse_cons, amGet_append]
    rcases List.mem_cons.mp hmem with he | hr
    · subst he
      have : amGet rest.reverse k = none := by
        unfold amGet
        rw [Option.map_eq_none_iff, List.find?_eq_none]
        intro a ha hk
        apply hnd.1
        simp only [List.mem_map]
        exact ⟨a, by simpa using ha, by simpa using hk⟩
      rw [this]; simp [amGet]
    · have := ih hr hnd.2
      simp only [lastGuess] at this
      simp [this]

/-- `HashMap::remove` returns the value the key was bound to, and whatever is found afterwards was already bound to the same value before. -/
theorem amRemove_get {β : Type} (m : List (String × β)) (k : String) (g : β)
    (m' : List (String × β)) (h : amRemove m k = some (g, m')) :
    amGet m k = some g ∧ ∀ k' g', amGet m' k' = some g' → amGet m k' = some g' := by
  unfold amRemove at h
  split at h
  · rename_i e he
    injection h with h
    injection h with h1 h2
    subst h1 h2
    refine ⟨by simp [amGet, he], ?_⟩
    intro k' g' hg
    unfold amGet at hg ⊢
    rw [List.find?_filter] at hg
    by_cases hk : k' = k
    · subst hk
      have : (fun a : String × β => decide ((a.1 != k') = true ∧ (a.1 == k') = true)) =
          fun _ => false := by
        funext a; by_cases ha : a.1 = k' <;> simp [ha]
      rw [this, List.find?_eq_none.mpr (by simp)] at hg
      simp at hg
    · have : (fun a : String × β => decide ((a.1 != k) = true ∧ (a.1 == k') = true)) =
          fun a => a.1 == k' := by
        funext a
        by_cases ha : a.1 = k'
        · subst ha; simp [hk]
        · simp [ha]
      rw [this] at hg
      exact hg
  · simp at h

/-- The values (initial guesses) of the solver variables, in id order. -/
def vals (v : Vars α) : List α := v.variables.map (·.2)

/-- Pushing a scalar appends its guess to the value list. -/
theorem vals_pushScalar (v : Vars α) (g : α) : vals (v.pushScalar g) = vals v ++ [g] := by
  simp [vals, Vars.pushScalar]

/-- Pushing a point appends its two guessed coordinates. -/
theorem vals_pushPoint (v : Vars α) (x y : α) : vals (v.pushPoint x y) = vals v ++ [x, y] := by
  unfold Vars.pushPoint
  rw [vals_pushScalar, vals_pushScalar]; simp [vals]

/-- Pushing a circle appends centre x, centre y, radius. -/
theorem vals_pushCircle (v : Vars α) (x y r : α) :
    vals (v.pushCircle x y r) = vals v ++ [x, y, r] := by
  unfold Vars.pushCircle
  rw [vals_pushScalar, vals_pushScalar, vals_pushScalar]; simp [vals]

/-- Pushing an arc appends `a`, `b`, then the centre (two coordinates each). -/
theorem vals_pushArc (v : Vars α) (a b c : α × α) :
    vals (v.pushArc a b c) = vals v ++ [a.1, a.2, b.1, b.2, c.1, c.2] := by
  unfold Vars.pushArc
  rw [vals_pushScalar, vals_pushScalar, vals_pushScalar, vals_pushScalar, vals_pushScalar,
    vals_pushScalar]; simp [vals]

/-- Building the points appends, for the `i`-th label, the two coordinates the guess map holds for it; what remains in the map was there before. -/
theorem buildPoints_vals : ∀ (labels : List String) (gp : List (String × α × α)) (v v' : Vars α)
    (gp' : List (String × α × α)), buildPoints labels gp v = .ok (v', gp') →
    ∃ ext, vals v' = vals v ++ ext ∧ ext.length = 2 * labels.length ∧
      (∀ i lab, labels[i]? = some lab → ∃ g, amGet gp lab = some g ∧
        ext[2 * i]? = some g.1 ∧ ext[2 * i + 1]? = some g.2) ∧
      (∀ k g, amGet gp' k = some g → amGet gp k = some g) := by
  intro labels
  induction labels with
  | nil =>
    intro gp v v' gp' h
    simp [buildPoints] at h
    obtain ⟨rfl, rfl⟩ := h
    exact ⟨[], by simp, rfl, by simp, fun _ _ h => h⟩
  | cons l rest ih =>
    intro gp v v' gp' h
    unfold buildPoints at h
    split at h
    · simp at h
    · rename_i g gp1 hr
      obtain ⟨hg, hmono⟩ := amRemove_get gp l g gp1 hr
      obtain ⟨ext, he, hlen, hget, hm⟩ := ih gp1 _ v' gp' h
      refine ⟨g.1 :: g.2 :: ext, ?_, by simp [hlen]; omega, ?_, fun k g' hk => hmono k g' (hm k g' hk)⟩
      · rw [he, vals_pushPoint]; simp
      · intro i lab hi
        cases i with
        | zero =>
          simp only [List.getElem?_cons_zero, Option.some.injEq] at hi
          subst hi
          exact ⟨g, hg, by simp, by simp⟩
        | succ i =>
          simp only [List.getElem?_cons_succ] at hi
          obtain ⟨g', hg', h1, h2⟩ := hget i lab hi
          refine ⟨g', hmono _ _ hg', ?_, ?_⟩
          · rw [show 2 * (i + 1) = 2 * i + 1 + 1 by omega]; simpa using h1
          · rw [show 2 * (i + 1) + 1 = 2 * i + 1 + 1 + 1 by omega]; simpa using h2

/-- Building the circles appends, for the `i`-th label, the guessed centre and radius; what remains in the point-guess map was there before. -/
theorem buildCircles_vals : ∀ (labels : List String) (gp : List (String × α × α))
    (gs : List (String × α)) (v v' : Vars α) (gp' : List (String × α × α)) (gs' : List (String × α)),
    buildCircles labels gp gs v = .ok (v', gp', gs') →
    ∃ ext, vals v' = vals v ++ ext ∧ ext.length = 3 * labels.length ∧
      (∀ i lab, labels[i]? = some lab → ∃ c r, amGet gp (lab ++ ".center") = some c ∧
        amGet gs (lab ++ ".radius") = some r ∧
        ext[3 * i]? = some c.1 ∧ ext[3 * i + 1]? = some c.2 ∧ ext[3 * i + 2]? = some r) ∧
      (∀ k g, amGet gp' k = some g → amGet gp k = some g) := by
  intro labels
  induction labels with
  | nil =>
    intro gp gs v v' gp' gs' h
    simp [buildCircles] at h
    obtain ⟨rfl, rfl, rfl⟩ := h
    exact ⟨[], by simp, rfl, by simp, fun _ _ h => h⟩
  | cons l rest ih =>
    intro gp gs v v' gp' gs' h
    unfold buildCircles at h
    split at h
    · simp at h
    · rename_i c gp1 hr1
      split at h
      · simp at h
      · rename_i r gs1 hr2
        obtain ⟨hc, hmono1⟩ := amRemove_get gp _ c gp1 hr1
        obtain ⟨hrr, hmono2⟩ := amRemove_get gs _ r gs1 hr2
        obtain ⟨ext, he, hlen, hget, hm⟩ := ih gp1 gs1 _ v' gp' gs' h
        refine ⟨c.1 :: c.2 :: r :: ext, ?_, by simp [hlen]; omega, ?_,
          fun k g' hk => hmono1 k g' (hm k g' hk)⟩
        · rw [he, vals_pushCircle]; simp
        · intro i lab hi
          cases i with
          | zero =>
            simp only [List.getElem?_cons_zero, Option.some.injEq] at hi
            subst hi
            exact ⟨c, r, hc, hrr, by simp, by simp, by simp⟩
          | succ i =>
            simp only [List.getElem?_cons_succ] at hi
            obtain ⟨c', r', hc', hr', h1, h2, h3⟩ := hget i lab hi
            refine ⟨c', r', hmono1 _ _ hc', hmono2 _ _ hr', ?_, ?_, ?_⟩
            · rw [show 3 * (i + 1) = 3 * i + 1 + 1 + 1 by omega]; simpa using h1
            · rw [show 3 * (i + 1) + 1 = 3 * i + 1 + 1 + 1 + 1 by omega]; simpa using h2
            · rw [show 3 * (i + 1) + 2 = 3 * i + 2 + 1 + 1 + 1 by omega]; simpa using h3

/-- Building the arcs appends, for the `i`-th label, the guessed `a`, `b` and centre, in this order. -/
theorem buildArcs_vals : ∀ (labels : List String) (gp : List (String × α × α)) (v v' : Vars α)
    (gp' : List (String × α × α)), buildArcs labels gp v = .ok (v', gp') →
    ∃ ext, vals v' = vals v ++ ext ∧ ext.length = 6 * labels.length ∧
      (∀ i lab, labels[i]? = some lab → ∃ c a b, amGet gp (lab ++ ".center") = some c ∧
        amGet gp (lab ++ ".a") = some a ∧ amGet gp (lab ++ ".b") = some b ∧
        ext[6 * i]? = some a.1 ∧ ext[6 * i + 1]? = some a.2 ∧
        ext[6 * i + 2]? = some b.1 ∧ ext[6 * i + 3]? = some b.2 ∧
        ext[6 * i + 4]? = some c.1 ∧ ext[6 * i + 5]? = some c.2) := by
  intro labels
  induction labels with
  | nil =>
    intro gp v v' gp' h
    simp [buildArcs] at h
    obtain ⟨rfl, rfl⟩ := h
    exact ⟨[], by simp, rfl, by simp⟩
  | cons l rest ih =>
    intro gp v v' gp' h
    unfold buildArcs at h
    split at h
    · simp at h
    · rename_i c gp1 hr1
      split at h
      · simp at h
      · rename_i a gp2 hr2
        split at h
        · simp at h
        · rename_i b gp3 hr3
          obtain ⟨hc, hmono1⟩ := amRemove_get gp _ c gp1 hr1
          obtain ⟨ha, hmono2⟩ := amRemove_get gp1 _ a gp2 hr2
          obtain ⟨hb, hmono3⟩ := amRemove_get gp2 _ b gp3 hr3
          have up : ∀ k g, amGet gp3 k = some g → amGet gp k = some g :=
            fun k g hk => hmono1 k g (hmono2 k g (hmono3 k g hk))
          obtain ⟨ext, he, hlen, hget⟩ := ih gp3 _ v' gp' h
          refine ⟨a.1 :: a.2 :: b.1 :: b.2 :: c.1 :: c.2 :: ext, ?_, by simp [hlen]; omega, ?_⟩
          · rw [he, vals_pushArc]; simp
          · intro i lab hi
            cases i with
            | zero =>
              simp only [List.getElem?_cons_zero, Option.some.injEq] at hi
              subst hi
              exact ⟨c, a, b, hc, hmono1 _ _ ha, hmono1 _ _ (hmono2 _ _ hb),
                by simp, by simp, by simp, by simp, by simp, by simp⟩
            | succ i =>
              simp only [List.getElem?_cons_succ] at hi
              obtain ⟨c', a', b', hc', ha', hb', h0, h1, h2, h3, h4, h5⟩ := hget i lab hi
              refine ⟨c', a', b', up _ _ hc', up _ _ ha', up _ _ hb', ?_, ?_, ?_, ?_, ?_, ?_⟩
              · rw [show 6 * (i + 1) = 6 * i + 1 + 1 + 1 + 1 + 1 + 1 by omega]; simpa using h0
              · rw [show 6 * (i + 1) + 1 = 6 * i + 1 + 1 + 1 + 1 + 1 + 1 + 1 by omega]; simpa using h1
              · rw [show 6 * (i + 1) + 2 = 6 * i + 2 + 1 + 1 + 1 + 1 + 1 + 1 by omega]; simpa using h2
              · rw [show 6 * (i + 1) + 3 = 6 * i + 3 + 1 + 1 + 1 + 1 + 1 + 1 by omega]; simpa using h3
              · rw [show 6 * (i + 1) + 4 = 6 * i + 4 + 1 + 1 + 1 + 1 + 1 + 1 by omega]; simpa using h4
              · rw [show 6 * (i + 1) + 5 = 6 * i + 5 + 1 + 1 + 1 + 1 + 1 + 1 by omega]; simpa using h5

/-- The initial guesses of an accepted problem, in variable order: the point block, the circle
block, the arc block, each slot holding the text's guess for the label that owns it. -/
theorem buildVars_vals (p : Problem α) (v : Vars α) (h : buildVars p = .ok v) :
    ∃ eP eC eA, vals v = eP ++ eC ++ eA ∧
      eP.length = 2 * p.innerPoints.length ∧ eC.length = 3 * p.innerCircles.length ∧
      eA.length = 6 * p.innerArcs.length ∧
      (∀ i lab, p.innerPoints[i]? = some lab → ∃ g, lastGuess p.pointGuesses lab = some g ∧
        eP[2 * i]? = some g.1 ∧ eP[2 * i + 1]? = some g.2) ∧
      (∀ i lab, p.innerCircles[i]? = some lab → ∃ c r,
        lastGuess p.pointGuesses (lab ++ ".center") = some c ∧
        lastGuess p.scalarGuesses (lab ++ ".radius") = some r ∧
        eC[3 * i]? = some c.1 ∧ eC[3 * i + 1]? = some c.2 ∧ eC[3 * i + 2]? = some r) ∧
      (∀ i lab, p.innerArcs[i]? = some lab → ∃ c a b,
        lastGuess p.pointGuesses (lab ++ ".center") = some c ∧
        lastGuess p.pointGuesses (lab ++ ".a") = some a ∧
        lastGuess p.pointGuesses (lab ++ ".b") = some b ∧
        eA[6 * i]? = some a.1 ∧ eA[6 * i + 1]? = some a.2 ∧
        eA[6 * i + 2]? = some b.1 ∧ eA[6 * i + 3]? = some b.2 ∧
        eA[6 * i + 4]? = some c.1 ∧ eA[6 * i + 5]? = some c.2) := by
  unfold buildVars at h
  split at h
  · simp at h
  · rename_i v1 gp1 h1
    split at h
    · simp at h
    · rename_i v2 gp2 gs2 h2
      split at h
      · simp at h
      · rename_i v3 gp3 h3
        split at h
        · simp at h
        · split at h
          · simp at h
          · injection h with h; subst h
            obtain ⟨eP, e1, l1, g1, m1⟩ := buildPoints_vals _ _ _ _ _ h1
            obtain ⟨eC, e2, l2, g2, m2⟩ := buildCircles_vals _ _ _ _ _ _ _ h2
            obtain ⟨eA, e3, l3, g3⟩ := buildArcs_vals _ _ _ _ _ h3
            refine ⟨eP, eC, eA, ?_, l1, l2, l3, ?_, ?_, ?_⟩
            · rw [e3, e2, e1]; simp [vals]
            · intro i lab hi
              obtain ⟨g, hg, a, b⟩ := g1 i lab hi
              exact ⟨g, by rw [← amGet_amFromList]; exact hg, a, b⟩
            · intro i lab hi
              obtain ⟨c, r, hc, hr, a1, a2, a3⟩ := g2 i lab hi
              exact ⟨c, r, by rw [← amGet_amFromList]; exact m1 _ _ hc,
                by rw [← amGet_amFromList]; exact hr, a1, a2, a3⟩
            · intro i lab hi
              obtain ⟨c, a, b, hc, ha, hb, rest⟩ := g3 i lab hi
              exact ⟨c, a, b, by rw [← amGet_amFromList]; exact m1 _ _ (m2 _ _ hc),
                by rw [← amGet_amFromList]; exact m1 _ _ (m2 _ _ ha),
                by rw [← amGet_amFromList]; exact m1 _ _ (m2 _ _ hb), rest⟩

/-- Indexing into a list made of three blocks of known lengths. -/
theorem getElem?_append3 (A B C : List α) (a b : Nat) (hA : A.length = a) (hB : B.length = b)
    (i : Nat) :
    (i < a → (A ++ B ++ C)[i]? = A[i]?) ∧ (i < b → (A ++ B ++ C)[a + i]? = B[i]?) ∧
    (A ++ B ++ C)[a + b + i]? = C[i]? := by
  subst hA hB
  refine ⟨?_, ?_, ?_⟩
  · intro hi
    rw [List.append_assoc, List.getElem?_append_left hi]
  · intro hi
    rw [List.getElem?_append_left (by simp; omega), List.getElem?_append_right (by omega)]
    simp
  · rw [List.getElem?_append_right (by simp <;> omega)]
    simp

/-- **Labelling the initial guesses gives back the text's guesses.**  For an accepted problem, the
labelled outcome of the initial guess vector itself reports, for every declared point, exactly the
coordinates the text guesses for that label; for every circle the guessed centre (`c.center`) and
radius (`c.radius`); for every arc the guessed `a.center`, `a.a`, `a.b` — each under the right
label and in the right slot. -/
theorem label_roundtrip (p : Problem α) (v : Vars α) (h : buildVars p = .ok v) :
    ∃ l : Labelled α, labelOutcome p (v.variables.map (·.2)) = some l ∧
      (∀ (i : Nat) lab, p.innerPoints[i]? = some lab → ∃ g, lastGuess p.pointGuesses lab = some g ∧
        l.points[i]? = some (lab, g.1, g.2)) ∧
      (∀ (j : Nat) lab, p.innerCircles[j]? = some lab → ∃ c r,
        lastGuess p.pointGuesses (lab ++ ".center") = some c ∧
        lastGuess p.scalarGuesses (lab ++ ".radius") = some r ∧
        l.circles[j]? = some (lab, (c.1, c.2), r)) ∧
      (∀ (k : Nat) lab, p.innerArcs[k]? = some lab → ∃ c a b,
        lastGuess p.pointGuesses (lab ++ ".center") = some c ∧
        lastGuess p.pointGuesses (lab ++ ".a") = some a ∧
        lastGuess p.pointGuesses (lab ++ ".b") = some b ∧
        l.arcs[k]? = some (lab, (c.1, c.2), (a.1, a.2), (b.1, b.2))) := by
  obtain ⟨eP, eC, eA, hv, lP, lC, lA, gP, gC, gA⟩ := buildVars_vals p v h
  have hlen : (v.variables.map (·.2)).length =
      Spec.numVars p.innerPoints.length p.innerCircles.length p.innerArcs.length := by
    have : (vals v).length = (eP ++ eC ++ eA).length := by rw [hv]
    simp only [vals] at this
    rw [this]; simp [Spec.numVars, lP, lC, lA]; omega
  obtain ⟨l, hl, _, _, _, sP, sC, sA⟩ := labelOutcome_spec p v h _ hlen
  have hv' : v.variables.map (·.2) = eP ++ eC ++ eA := hv
  refine ⟨l, hl, ?_, ?_, ?_⟩
  · intro i lab hi
    have hi' : i < p.innerPoints.length := (List.getElem?_eq_some_iff.mp hi).1
    obtain ⟨x, y, hget, hx, hy⟩ := sP i lab hi
    obtain ⟨g, hg, ex, ey⟩ := gP i lab hi
    refine ⟨g, hg, ?_⟩
    simp only [Spec.pointIds, hv'] at hx hy
    rw [(getElem?_append3 eP eC eA _ _ lP lC (2 * i)).1 (by omega), ex] at hx
    rw [(getElem?_append3 eP eC eA _ _ lP lC (2 * i + 1)).1 (by omega), ey] at hy
    injection hx with hx; injection hy with hy
    rw [hget, ← hx, ← hy]
  · intro j lab hj
    have hj' : j < p.innerCircles.length := (List.getElem?_eq_some_iff.mp hj).1
    obtain ⟨cx, cy, r, hget, hx, hy, hr⟩ := sC j lab hj
    obtain ⟨c, r', hc, hr', e0, e1, e2⟩ := gC j lab hj
    refine ⟨c, r', hc, hr', ?_⟩
    simp only [Spec.circleIds, hv'] at hx hy hr
    rw [(getElem?_append3 eP eC eA _ _ lP lC (3 * j)).2.1 (by omega), e0] at hx
    rw [Nat.add_assoc, (getElem?_append3 eP eC eA _ _ lP lC (3 * j + 1)).2.1 (by omega), e1] at hy
    rw [Nat.add_assoc, (getElem?_append3 eP eC eA _ _ lP lC (3 * j + 2)).2.1 (by omega), e2] at hr
    injection hx with hx; injection hy with hy; injection hr with hr
    rw [hget, ← hx, ← hy, ← hr]
  · intro k lab hk
    obtain ⟨cx, cy, ax, ay, bx, bY, hget, h4, h5, h0, h1, h2, h3⟩ := sA k lab hk
    obtain ⟨c, a, b, hc, ha, hb, e0, e1, e2, e3, e4, e5⟩ := gA k lab hk
    refine ⟨c, a, b, hc, ha, hb, ?_⟩
    simp only [Spec.arcIds, hv'] at h0 h1 h2 h3 h4 h5
    rw [(getElem?_append3 eP eC eA _ _ lP lC (6 * k)).2.2, e0] at h0
    rw [Nat.add_assoc, (getElem?_append3 eP eC eA _ _ lP lC (6 * k + 1)).2.2, e1] at h1
    rw [Nat.add_assoc, (getElem?_append3 eP eC eA _ _ lP lC (6 * k + 2)).2.2, e2] at h2
    rw [Nat.add_assoc, (getElem?_append3 eP eC eA _ _ lP lC (6 * k + 3)).2.2, e3] at h3
    rw [Nat.add_assoc, (getElem?_append3 eP eC eA _ _ lP lC (6 * k + 4)).2.2, e4] at h4
    rw [Nat.add_assoc, (getElem?_append3 eP eC eA _ _ lP lC (6 * k + 5)).2.2, e5] at h5
    injection h0 with h0; injection h1 with h1; injection h2 with h2
    injection h3 with h3; injection h4 with h4; injection h5 with h5
    rw [hget, ← h0, ← h1, ← h2, ← h3, ← h4, ← h5]

/-- `label_roundtrip` stated for the constraint system the CLI builds: labelling the system's own
initial guesses returns the text's guesses, label by label. -/
theorem label_roundtrip_cs (p : Problem α) (cs : ConstraintSystem α)
    (h : toConstraintSystem p = .ok cs) :
    ∃ l : Labelled α, labelOutcome p (cs.vars.variables.map (·.2)) = some l ∧
      (∀ (i : Nat) lab, p.innerPoints[i]? = some lab → ∃ g,
        lastGuess p.pointGuesses lab = some g ∧ l.points[i]? = some (lab, g.1, g.2)) ∧
      (∀ (j : Nat) lab, p.innerCircles[j]? = some lab → ∃ c r,
        lastGuess p.pointGuesses (lab ++ ".center") = some c ∧
        lastGuess p.scalarGuesses (lab ++ ".radius") = some r ∧
        l.circles[j]? = some (lab, (c.1, c.2), r)) ∧
      (∀ (k : Nat) lab, p.innerArcs[k]? = some lab → ∃ c a b,
        lastGuess p.pointGuesses (lab ++ ".center") = some c ∧
        lastGuess p.pointGuesses (lab ++ ".a") = some a ∧
        lastGuess p.pointGuesses (lab ++ ".b") = some b ∧
        l.arcs[k]? = some (lab, (c.1, c.2), (a.1, a.2), (b.1, b.2))) :=
  label_roundtrip p cs.vars (accepted_vars p cs h (cs.vars.variables.map (·.2)) (by simp)).1

/-! ### The reported value is the value of the variable the constraints on that label use -/

theorem findIdx?_of_nodup (xs : List String) (hnd : xs.Nodup) (i : Nat) (a : String)
    (h : xs[i]? = some a) : xs.findIdx? (· == a) = some i := by
  induction xs generalizing i with
  | nil => simp at h
  | cons x rest ih =>
    obtain ⟨hx, hr⟩ := List.nodup_cons.mp hnd
    cases i with
    | zero =>
      simp only [List.getElem?_cons_zero, Option.some.injEq] at h
      subst h
      simp [List.findIdx?_cons]
    | succ i =>
      simp only [List.getElem?_cons_succ] at h
      have hne : x ≠ a := by
        intro he; subst he
        exact hx (List.mem_of_getElem? h)
      simp [List.findIdx?_cons, hne, ih hr i h]

/-- **For a declared point, the reported value is the final value of the very variables that every
constraint mentioning the label is lowered to.**  `datumPoint p v lab` is the id pair the executor
puts into constraints for the label `lab`; the labelled outcome reports under `lab` the final values
at exactly those two ids. -/
theorem labelled_point_is_constraint_variable (p : Problem α) (v : Vars α)
    (h : buildVars p = .ok v) (final : List α)
    (hlen : final.length =
      Spec.numVars p.innerPoints.length p.innerCircles.length p.innerArcs.length)
    (i : Nat) (lab : String) (hi : p.innerPoints[i]? = some lab) :
    ∃ (l : Labelled α) (ids : Pt) (x y : α), labelOutcome p final = some l ∧
      datumPoint p v lab = .ok ids ∧ l.points[i]? = some (lab, x, y) ∧
      final[ids.x]? = some x ∧ final[ids.y]? = some y := by
  obtain ⟨l, hl, _, _, _, sP, _, _⟩ := labelOutcome_spec p v h final hlen
  obtain ⟨x, y, hget, hx, hy⟩ := sP i lab hi
  refine ⟨l, Spec.pointIds i, x, y, hl, ?_, hget, hx, hy⟩
  rw [datumPoint_spec p v (Built.of_buildVars p v h) lab]
  have : position? p.innerPoints (· == lab) = some i :=
    findIdx?_of_nodup _ (buildVars_nodup p v h).1 i lab hi
  simp [this]

/-! ### No guess key is used by two entities -/

/-- After the points are built, their labels are no longer keys of the guess map, and the map only
shrank. -/
theorem buildPoints_consumed : ∀ (labels : List String) (gp : List (String × α × α)) (v v' : Vars α)
    (gp' : List (String × α × α)), buildPoints labels gp v = .ok (v', gp') →
    (∀ l ∈ labels, l ∉ keys gp') ∧ (∀ k ∈ keys gp', k ∈ keys gp) := by
  intro labels
  induction labels with
  | nil =>
    intro gp v v' gp' h
    simp [buildPoints] at h
    obtain ⟨_, rfl⟩ := h
    exact ⟨by simp, fun k hk => hk⟩
  | cons l rest ih =>
    intro gp v v' gp' h
    unfold buildPoints at h
    split at h
    · simp at h
    · rename_i g gp1 hr
      obtain ⟨_, hiff⟩ := amRemove_some gp l g gp1 hr
      obtain ⟨h1, h2⟩ := ih gp1 _ v' gp' h
      refine ⟨?_, fun k hk => ((hiff k).mp (h2 k hk)).1⟩
      intro l' hl' hmem
      rcases List.mem_cons.mp hl' with rfl | hl'
      · exact ((hiff _).mp (h2 _ hmem)).2 rfl
      · exact h1 l' hl' hmem

/-- After the circles are built, their `.center` keys are gone from the point-guess map, and the map
only shrank. -/
theorem buildCircles_consumed : ∀ (labels : List String) (gp : List (String × α × α))
    (gs : List (String × α)) (v v' : Vars α) (gp' : List (String × α × α)) (gs' : List (String × α)),
    buildCircles labels gp gs v = .ok (v', gp', gs') →
    (∀ l ∈ labels, l ++ ".center" ∉ keys gp') ∧ (∀ k ∈ keys gp', k ∈ keys gp) := by
  intro labels
  induction labels with
  | nil =>
    intro gp gs v v' gp' gs' h
    simp [buildCircles] at h
    obtain ⟨_, rfl, _⟩ := h
    exact ⟨by simp, fun k hk => hk⟩
  | cons l rest ih =>
    intro gp gs v v' gp' gs' h
    unfold buildCircles at h
    split at h
    · simp at h
    · rename_i c gp1 hr1
      split at h
      · simp at h
      · rename_i r gs1 hr2
        obtain ⟨_, hiff⟩ := amRemove_some gp _ c gp1 hr1
        obtain ⟨h1, h2⟩ := ih gp1 gs1 _ v' gp' gs' h
        refine ⟨?_, fun k hk => ((hiff k).mp (h2 k hk)).1⟩
        intro l' hl' hmem
        rcases List.mem_cons.mp hl' with rfl | hl'
        · exact ((hiff _).mp (h2 _ hmem)).2 rfl
        · exact h1 l' hl' hmem

/-- The three guess keys of an arc. -/
def arcKeys (a : String) : List String := [a ++ ".center", a ++ ".a", a ++ ".b"]

/-- If the arcs build, all their guess keys (`a.center`, `a.a`, `a.b` over all arcs) are pairwise
distinct. -/
theorem buildArcs_consumed : ∀ (labels : List String) (gp : List (String × α × α)) (v v' : Vars α)
    (gp' : List (String × α × α)), buildArcs labels gp v = .ok (v', gp') →
    (labels.flatMap arcKeys).Nodup ∧ (∀ k ∈ keys gp', k ∈ keys gp) := by
  intro labels
  induction labels with
  | nil =>
    intro gp v v' gp' h
    simp [buildArcs] at h
    obtain ⟨_, rfl⟩ := h
    exact ⟨by simp, fun k hk => hk⟩
  | cons l rest ih =>
    intro gp v v' gp' h
    unfold buildArcs at h
    split at h
    · simp at h
    · rename_i c gp1 hr1
      split at h
      · simp at h
      · rename_i a gp2 hr2
        split at h
        · simp at h
        · rename_i b gp3 hr3
          obtain ⟨_, hiff1⟩ := amRemove_some gp _ c gp1 hr1
          obtain ⟨hk2, hiff2⟩ := amRemove_some gp1 _ a gp2 hr2
          obtain ⟨hk3, hiff3⟩ := amRemove_some gp2 _ b gp3 hr3
          obtain ⟨ihn, ihs⟩ := ih gp3 _ v' gp' h
          obtain ⟨hin, _⟩ := buildArcs_keys rest gp3 _ v' gp' h
          have restIn : ∀ k ∈ rest.flatMap arcKeys, k ∈ keys gp3 := by
            intro k hk
            obtain ⟨x, hx, hkx⟩ := List.mem_flatMap.mp hk
            obtain ⟨a1, a2, a3⟩ := hin x hx
            simp only [arcKeys, List.mem_cons, List.mem_nil_iff, or_false] at hkx
            rcases hkx with rfl | rfl | rfl
            · exact a1
            · exact a2
            · exact a3
          have n1 : l ++ ".center" ∉ keys gp1 := fun hm => ((hiff1 _).mp hm).2 rfl
          have n2 : l ++ ".a" ∉ keys gp2 := fun hm => ((hiff2 _).mp hm).2 rfl
          have n3 : l ++ ".b" ∉ keys gp3 := fun hm => ((hiff3 _).mp hm).2 rfl
          have s32 : ∀ k, k ∈ keys gp3 → k ∈ keys gp2 := fun k hk => ((hiff3 k).mp hk).1
          have s21 : ∀ k, k ∈ keys gp2 → k ∈ keys gp1 := fun k hk => ((hiff2 k).mp hk).1
          refine ⟨?_, fun k hk => ((hiff1 k).mp (s21 k (s32 k (ihs k hk)))).1⟩
          simp only [List.flatMap_cons, arcKeys, List.cons_append, List.nil_append, List.nodup_cons,
            List.mem_cons]
          refine ⟨?_, ?_, ?_, ihn⟩
          · rintro (h | h | h)
            · rw [h] at n1; exact n1 hk2
            · rw [h] at n1; exact n1 (s21 _ hk3)
            · exact n1 (s21 _ (s32 _ (restIn _ h)))
          · rintro (h | h)
            · rw [h] at n2; exact n2 hk3
            · exact n2 (s32 _ (restIn _ h))
          · intro h; exact n3 (restIn _ h)

/-- **In an accepted problem no guess key serves two entities**: a circle's `.center` key is not a
point label; an arc's three keys are neither point labels nor a circle's `.center` key; and the
keys of all arcs are pairwise distinct. -/
theorem buildVars_keys (p : Problem α) (v : Vars α) (h : buildVars p = .ok v) :
    (∀ c ∈ p.innerCircles, c ++ ".center" ∉ p.innerPoints) ∧
    (∀ a ∈ p.innerArcs, ∀ k ∈ arcKeys a,
      k ∉ p.innerPoints ∧ ∀ c ∈ p.innerCircles, c ++ ".center" ≠ k) ∧
    (p.innerArcs.flatMap arcKeys).Nodup := by
  unfold buildVars at h
  split at h
  · simp at h
  · rename_i v1 gp1 h1
    split at h
    · simp at h
    · rename_i v2 gp2 gs2 h2
      split at h
      · simp at h
      · rename_i v3 gp3 h3
        obtain ⟨pc, _⟩ := buildPoints_consumed _ _ _ _ _ h1
        obtain ⟨cc, cs⟩ := buildCircles_consumed _ _ _ _ _ _ _ h2
        obtain ⟨ck, _, _⟩ := buildCircles_keys _ _ _ _ _ _ _ h2
        obtain ⟨ak, _⟩ := buildArcs_keys _ _ _ _ _ h3
        obtain ⟨an, _⟩ := buildArcs_consumed _ _ _ _ _ h3
        refine ⟨?_, ?_, an⟩
        · intro c hc hmem
          exact pc _ hmem (ck c hc).1
        · intro a ha k hk
          have hin : k ∈ keys gp2 := by
            obtain ⟨a1, a2, a3⟩ := ak a ha
            simp only [arcKeys, List.mem_cons, List.mem_nil_iff, or_false] at hk
            rcases hk with rfl | rfl | rfl
            · exact a1
            · exact a2
            · exact a3
          refine ⟨fun hmem => pc _ hmem (cs _ hin), ?_⟩
          intro c hc heq
          rw [← heq] at hin
          exact cc c hc hin

/-- In a duplicate-free list, the first position whose label with suffix `s` equals `a ++ s` is
the position of `a`. -/
theorem findIdx?_suffix_of_nodup (xs : List String) (hnd : xs.Nodup) (i : Nat) (a s : String)
    (h : xs[i]? = some a) : xs.findIdx? (fun x => x ++ s == a ++ s) = some i := by
  have : (fun x : String => x ++ s == a ++ s) = (· == a) := by
    funext x
    by_cases hx : x = a
    · subst hx; simp
    · rw [show (x == a) = false from beq_eq_false_iff_ne.mpr hx]
      exact beq_eq_false_iff_ne.mpr (fun he => hx ((String.append_left_inj s).mp he))
  rw [this]
  exact findIdx?_of_nodup xs hnd i a h

/-- No position satisfies a predicate that is false on every element. -/
theorem findIdx?_none_of_forall {β : Type} (xs : List β) (q : β → Bool)
    (h : ∀ x ∈ xs, q x = false) : xs.findIdx? q = none := by
  rw [List.findIdx?_eq_none_iff]
  exact h

/-- **For a declared circle, the reported centre and radius are the final values of the very
variables that constraints on `c.center` / `c.radius` are lowered to.** -/
theorem labelled_circle_is_constraint_variable (p : Problem α) (v : Vars α)
    (h : buildVars p = .ok v) (final : List α)
    (hlen : final.length =
      Spec.numVars p.innerPoints.length p.innerCircles.length p.innerArcs.length)
    (j : Nat) (lab : String) (hj : p.innerCircles[j]? = some lab) :
    ∃ (l : Labelled α) (cen : Pt) (rid : Nat) (cx cy r : α), labelOutcome p final = some l ∧
      datumPoint p v (lab ++ ".center") = .ok cen ∧ datumDistance p v (lab ++ ".radius") = .ok rid ∧
      l.circles[j]? = some (lab, (cx, cy), r) ∧
      final[cen.x]? = some cx ∧ final[cen.y]? = some cy ∧ final[rid]? = some r := by
  obtain ⟨l, hl, _, _, _, _, sC, _⟩ := labelOutcome_spec p v h final hlen
  obtain ⟨cx, cy, r, hget, hx, hy, hr⟩ := sC j lab hj
  obtain ⟨kc, _, _⟩ := buildVars_keys p v h
  obtain ⟨_, ndC, _⟩ := buildVars_nodup p v h
  have hmem : lab ∈ p.innerCircles := List.mem_of_getElem? hj
  refine ⟨l, (Spec.circleIds p.innerPoints.length j).center,
    (Spec.circleIds p.innerPoints.length j).radius, cx, cy, r, hl, ?_, ?_, hget, hx, hy, hr⟩
  · rw [datumPoint_spec p v (Built.of_buildVars p v h)]
    have h1 : position? p.innerPoints (· == lab ++ ".center") = none :=
      findIdx?_none_of_forall _ _ (by
        intro x hx
        have := kc lab hmem
        simp only [beq_eq_false_iff_ne, ne_eq]
        intro he; rw [he] at hx; exact this hx)
    have h2 : position? p.innerCircles (fun c => c ++ ".center" == lab ++ ".center") = some j :=
      findIdx?_suffix_of_nodup _ ndC j lab ".center" hj
    simp [h1, h2]
  · rw [datumDistance_spec p v (Built.of_buildVars p v h)]
    have h2 : position? p.innerCircles (fun c => c ++ ".radius" == lab ++ ".radius") = some j :=
      findIdx?_suffix_of_nodup _ ndC j lab ".radius" hj
    simp [h2]

/-- Pairwise distinct arc keys: a `.center` key of one arc is never the `.a` or `.b` key of an arc
(the same or another), and an `.a` key is never a `.b` key. -/
theorem arcKeys_distinct : ∀ (xs : List String), (xs.flatMap arcKeys).Nodup →
    ∀ x ∈ xs, ∀ a ∈ xs, x ++ ".center" ≠ a ++ ".a" ∧ x ++ ".center" ≠ a ++ ".b" ∧
      x ++ ".a" ≠ a ++ ".b" ∧ x ++ ".a" ≠ a ++ ".center" ∧ x ++ ".b" ≠ a ++ ".center" ∧
      x ++ ".b" ≠ a ++ ".a" := by
  intro xs
  induction xs with
  | nil => intro _ x hx; simp at hx
  | cons y ys ih =>
    intro hn x hx a ha
    simp only [List.flatMap_cons, arcKeys, List.cons_append, List.nil_append, List.nodup_cons,
      List.mem_cons] at hn
    obtain ⟨n1, n2, n3, n4⟩ := hn
    have memc : ∀ z ∈ ys, z ++ ".center" ∈ ys.flatMap arcKeys :=
      fun z hz => List.mem_flatMap.mpr ⟨z, hz, by simp [arcKeys]⟩
    have mema : ∀ z ∈ ys, z ++ ".a" ∈ ys.flatMap arcKeys :=
      fun z hz => List.mem_flatMap.mpr ⟨z, hz, by simp [arcKeys]⟩
    have memb : ∀ z ∈ ys, z ++ ".b" ∈ ys.flatMap arcKeys :=
      fun z hz => List.mem_flatMap.mpr ⟨z, hz, by simp [arcKeys]⟩
    rcases List.mem_cons.mp hx with rfl | hx' <;> rcases List.mem_cons.mp ha with rfl | ha'
    · exact ⟨fun h => n1 (Or.inl h), fun h => n1 (Or.inr (Or.inl h)), fun h => n2 (Or.inl h),
        fun h => n1 (Or.inl h.symm), fun h => n1 (Or.inr (Or.inl h.symm)),
        fun h => n2 (Or.inl h.symm)⟩
    · exact ⟨fun h => n1 (Or.inr (Or.inr (h ▸ mema a ha'))),
        fun h => n1 (Or.inr (Or.inr (h ▸ memb a ha'))),
        fun h => n2 (Or.inr (h ▸ memb a ha')),
        fun h => n2 (Or.inr (h ▸ memc a ha')),
        fun h => n3 (h ▸ memc a ha'),
        fun h => n3 (h ▸ mema a ha')⟩
    · exact ⟨fun h => n2 (Or.inr (h ▸ memc x hx')),
        fun h => n3 (h ▸ memc x hx'),
        fun h => n3 (h ▸ mema x hx'),
        fun h => n1 (Or.inr (Or.inr (h ▸ mema x hx'))),
        fun h => n1 (Or.inr (Or.inr (h ▸ memb x hx'))),
        fun h => n2 (Or.inr (h ▸ memb x hx'))⟩
    · exact ih n4 x hx' a ha'

/-- **For a declared arc, the reported centre, start and end are the final values of the very
variables that constraints on the arc (`a.center`, `a.a`, `a.b`) are lowered to.** -/
theorem labelled_arc_is_constraint_variable (p : Problem α) (v : Vars α)
    (h : buildVars p = .ok v) (final : List α)
    (hlen : final.length =
      Spec.numVars p.innerPoints.length p.innerCircles.length p.innerArcs.length)
    (k : Nat) (lab : String) (hk : p.innerArcs[k]? = some lab) :
    ∃ (l : Labelled α) (arc : ArcD) (cx cy ax ay bx bY : α), labelOutcome p final = some l ∧
      datumArc p v lab = .ok arc ∧
      l.arcs[k]? = some (lab, (cx, cy), (ax, ay), (bx, bY)) ∧
      final[arc.center.x]? = some cx ∧ final[arc.center.y]? = some cy ∧
      final[arc.start.x]? = some ax ∧ final[arc.start.y]? = some ay ∧
      final[arc.stop.x]? = some bx ∧ final[arc.stop.y]? = some bY := by
  obtain ⟨l, hl, _, _, _, _, _, sA⟩ := labelOutcome_spec p v h final hlen
  obtain ⟨cx, cy, ax, ay, bx, bY, hget, e1, e2, e3, e4, e5, e6⟩ := sA k lab hk
  obtain ⟨_, ka, kn⟩ := buildVars_keys p v h
  obtain ⟨_, _, ndA⟩ := buildVars_nodup p v h
  have hmem : lab ∈ p.innerArcs := List.mem_of_getElem? hk
  have hb := Built.of_buildVars p v h
  have noPt : ∀ key ∈ arcKeys lab, position? p.innerPoints (· == key) = none := by
    intro key hkey
    refine findIdx?_none_of_forall _ _ ?_
    intro x hx
    simp only [beq_eq_false_iff_ne, ne_eq]
    intro he; rw [he] at hx; exact (ka lab hmem key hkey).1 hx
  have noCirc : ∀ key ∈ arcKeys lab,
      position? p.innerCircles (fun c => c ++ ".center" == key) = none := by
    intro key hkey
    refine findIdx?_none_of_forall _ _ ?_
    intro x hx
    simp only [beq_eq_false_iff_ne, ne_eq]
    exact (ka lab hmem key hkey).2 x hx
  have dist := fun x hx => arcKeys_distinct p.innerArcs kn x hx lab hmem
  have dc : datumPoint p v (lab ++ ".center") =
      .ok (Spec.arcIds p.innerPoints.length p.innerCircles.length k).center := by
    rw [datumPoint_spec p v hb]
    simp [noPt (lab ++ ".center") (by simp [arcKeys]), noCirc (lab ++ ".center") (by simp [arcKeys]),
      show position? p.innerArcs (fun a => a ++ ".center" == lab ++ ".center") = some k from
        findIdx?_suffix_of_nodup _ ndA k lab ".center" hk]
  have da : datumPoint p v (lab ++ ".a") =
      .ok (Spec.arcIds p.innerPoints.length p.innerCircles.length k).start := by
    rw [datumPoint_spec p v hb]
    have h3 : position? p.innerArcs (fun a => a ++ ".center" == lab ++ ".a") = none :=
      findIdx?_none_of_forall _ _ (by
        intro x hx; simp only [beq_eq_false_iff_ne, ne_eq]; exact (dist x hx).1)
    simp [noPt (lab ++ ".a") (by simp [arcKeys]), noCirc (lab ++ ".a") (by simp [arcKeys]), h3,
      show position? p.innerArcs (fun a => a ++ ".a" == lab ++ ".a") = some k from
        findIdx?_suffix_of_nodup _ ndA k lab ".a" hk]
  have db : datumPoint p v (lab ++ ".b") =
      .ok (Spec.arcIds p.innerPoints.length p.innerCircles.length k).stop := by
    rw [datumPoint_spec p v hb]
    have h3 : position? p.innerArcs (fun a => a ++ ".center" == lab ++ ".b") = none :=
      findIdx?_none_of_forall _ _ (by
        intro x hx; simp only [beq_eq_false_iff_ne, ne_eq]; exact (dist x hx).2.1)
    have h4 : position? p.innerArcs (fun a => a ++ ".a" == lab ++ ".b") = none :=
      findIdx?_none_of_forall _ _ (by
        intro x hx; simp only [beq_eq_false_iff_ne, ne_eq]; exact (dist x hx).2.2.1)
    simp [noPt (lab ++ ".b") (by simp [arcKeys]), noCirc (lab ++ ".b") (by simp [arcKeys]), h3, h4,
      show position? p.innerArcs (fun a => a ++ ".b" == lab ++ ".b") = some k from
        findIdx?_suffix_of_nodup _ ndA k lab ".b" hk]
  refine ⟨l, Spec.arcIds p.innerPoints.length p.innerCircles.length k, cx, cy, ax, ay, bx, bY, hl,
    ?_, hget, e1, e2, e3, e4, e5, e6⟩
  simp only [datumArc, dc, da, db]
  rfl

/-! ### Non-vacuity -/

/-- The hypotheses of `labelOutcome_spec` and `label_roundtrip` are met by a concrete problem with a
point, a circle and an arc: its variables build. -/
example :
    let p : Problem Nat := {
      instructions := [], innerPoints := ["p"], innerCircles := ["c"], innerArcs := ["a"],
      innerLines := [],
      pointGuesses := [("p", 1, 2), ("c.center", 3, 4), ("a.center", 6, 7),
        ("a.a", 8, 9), ("a.b", 10, 11)],
      scalarGuesses := [("c.radius", 5)] }
    Option.map (fun l : Labelled Nat => (l.points, l.circles, l.arcs))
      (match buildVars p with
       | .ok v => labelOutcome p (v.variables.map (fun e : Nat × Nat => e.2))
       | .error _ => none) =
      some ([("p", 1, 2)], [("c", (3, 4), 5)], [("a", (6, 7), (8, 9), (10, 11))]) := by
  rfl

end Ezpz.Text
