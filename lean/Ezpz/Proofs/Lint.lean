/-
Warnings are truthful (scalar-generic part).

* Lint: which requests `lintOne` can warn about, that `lint` is complete, names the request, emits at
  most one warning per request, and that the lint warnings are a prefix of the warnings of *every*
  return path of `solveInner` / `solveWithPriority` (successful or failed).
* Degeneracy notices: the Newton loop only appends warnings; if the evaluation at the initial guess
  raises the flag for a request, its notice is in whatever `solveInner` returns; the kinds whose
  kernels never raise the flag.

Everything here holds for every scalar type.
-/
import Ezpz.Proofs.Total
import Ezpz.Proofs.Warnings
import Ezpz.Properties.C03
import Ezpz.Properties.C07
set_option linter.unusedSectionVars false
namespace Ezpz
open Transc

variable {α : Type} [Add α] [Sub α] [Mul α] [Div α] [Neg α] [OfScientific α]
  [LT α] [DecidableLT α] [LE α] [DecidableLE α] [Transc α]

/-! ### 1. Only explicit-angle line requests are linted -/

/-- A request that is not an explicit-angle `LinesAtAngle(.., Other(θ))` never gets a lint warning. -/
theorem lintOne_other_kinds (e : Entry α)
    (h : ∀ l0 l1 θ, e.c ≠ .linesAtAngle l0 l1 (.other θ)) : lintOne e = none := by
  unfold lintOne
  split
  · rename_i l0 l1 θ hc; exact absurd hc (h l0 l1 θ)
  · rfl

/-- A `Parallel` request never gets a lint warning. -/
theorem lintOne_parallel (e : Entry α) (l0 l1 : Seg) (h : e.c = .linesAtAngle l0 l1 .parallel) :
    lintOne e = none := by
  apply lintOne_other_kinds
  intro a b θ hc; rw [h] at hc; cases hc

/-- A `Perpendicular` request never gets a lint warning. -/
theorem lintOne_perpendicular (e : Entry α) (l0 l1 : Seg)
    (h : e.c = .linesAtAngle l0 l1 .perpendicular) : lintOne e = none := by
  apply lintOne_other_kinds
  intro a b θ hc; rw [h] at hc; cases hc

/-- An `ArcAngle` request never gets a lint warning (whatever its angle). -/
theorem lintOne_arcAngle (e : Entry α) (a : ArcD) (ang : Angle α) (h : e.c = .arcAngle a ang) :
    lintOne e = none := by
  apply lintOne_other_kinds
  intro a b θ hc; rw [h] at hc; cases hc

/-- The converse shape: a lint warning exists only for an explicit-angle line request, and is one
of the two lints about exactly that angle. -/
theorem lintOne_some_shape (e : Entry α) (w : Warning α) (h : lintOne e = some w) :
    ∃ l0 l1 θ, e.c = .linesAtAngle l0 l1 (.other θ) ∧ w.about = some e.id ∧
      (w.content = .shouldBeParallel θ ∨ w.content = .shouldBePerpendicular θ) := by
  unfold lintOne at h
  split at h
  · rename_i l0 l1 θ hc
    split at h
    · injection h with h; subst h; exact ⟨l0, l1, θ, hc, rfl, Or.inl rfl⟩
    · split at h
      · injection h with h; subst h; exact ⟨l0, l1, θ, hc, rfl, Or.inr rfl⟩
      · simp at h
  · simp at h

/-! ### 2. `lint` is complete and names the request -/

/-- Every warning `lintOne` produces for a request of the list is in `lint` of the list. -/
theorem lint_complete (es : List (Entry α)) (e : Entry α) (w : Warning α)
    (he : e ∈ es) (h : lintOne e = some w) : w ∈ lint es := by
  simp only [lint, List.mem_filterMap]
  exact ⟨e, he, h⟩

/-- A lint warning names the request it was computed from. -/
theorem lint_names_request (e : Entry α) (w : Warning α) (h : lintOne e = some w) :
    w.about = some e.id := by
  obtain ⟨_, _, _, _, ha, _⟩ := lintOne_some_shape e w h
  exact ha

/-- Every member of `lint es` is the `lintOne` of a request of `es`. -/
theorem mem_lint (es : List (Entry α)) (w : Warning α) (h : w ∈ lint es) :
    ∃ e ∈ es, lintOne e = some w := by
  simpa only [lint, List.mem_filterMap] using h

/-! ### 3. At most one lint warning per request -/

/-- `lint` of a list, one request at a time. -/
theorem lint_cons (e : Entry α) (rest : List (Entry α)) :
    lint (e :: rest) = (match lintOne e with | some w => [w] | none => []) ++ lint rest := by
  unfold lint
  rw [List.filterMap_cons]
  cases lintOne e <;> rfl

/-- When the request ids are pairwise distinct, the lint names every request at most once; in
particular a request never gets both a "use Parallel" and a "use Perpendicular" warning. -/
theorem lint_at_most_one_per_request (es : List (Entry α)) (h : (es.map (·.id)).Nodup) :
    ((lint es).map (·.about)).Nodup := by
  induction es with
  | nil => simp [lint]
  | cons e rest ih =>
    rw [List.map_cons, List.nodup_cons] at h
    obtain ⟨hnot, hrest⟩ := h
    rw [lint_cons]
    cases hl : lintOne e with
    | none => simpa using ih hrest
    | some w =>
      simp only [List.singleton_append, List.map_cons, List.nodup_cons]
      refine ⟨?_, ih hrest⟩
      intro hmem
      obtain ⟨w', hw', heq⟩ := List.mem_map.mp hmem
      obtain ⟨e', he', hl'⟩ := mem_lint rest w' hw'
      rw [lint_names_request e w hl, lint_names_request e' w' hl'] at heq
      injection heq with heq
      exact hnot (List.mem_map.mpr ⟨e', he', heq⟩)

/-- With pairwise distinct ids, two lint warnings about the same request are the same warning: the
two kinds are never both emitted for one request. -/
theorem lint_unique_per_request (es : List (Entry α)) (h : (es.map (·.id)).Nodup)
    (w1 w2 : Warning α) (h1 : w1 ∈ lint es) (h2 : w2 ∈ lint es) (ha : w1.about = w2.about) :
    w1 = w2 := by
  induction es with
  | nil => simp [lint] at h1
  | cons e rest ih =>
    rw [List.map_cons, List.nodup_cons] at h
    obtain ⟨hnot, hrest⟩ := h
    rw [lint_cons] at h1 h2
    have clash : ∀ (w w' : Warning α), lintOne e = some w → w' ∈ lint rest →
        w.about = w'.about → False := by
      intro w w' hl hw' heq
      obtain ⟨e', he', hl'⟩ := mem_lint rest w' hw'
      rw [lint_names_request e w hl, lint_names_request e' w' hl'] at heq
      injection heq with heq
      exact hnot (List.mem_map.mpr ⟨e', he', heq.symm⟩)
    rcases List.mem_append.mp h1 with h1 | h1 <;> rcases List.mem_append.mp h2 with h2 | h2
    · cases hl : lintOne e with
      | none => rw [hl] at h1; simp at h1
      | some w => rw [hl] at h1 h2; simp at h1 h2; rw [h1, h2]
    · cases hl : lintOne e with
      | none => rw [hl] at h1; simp at h1
      | some w =>
        rw [hl] at h1; simp at h1; subst h1
        exact (clash w1 w2 hl h2 ha).elim
    · cases hl : lintOne e with
      | none => rw [hl] at h2; simp at h2
      | some w =>
        rw [hl] at h2; simp at h2; subst h2
        exact (clash w2 w1 hl h1 ha.symm).elim
    · exact ih hrest h1 h2

/-- The ids handed out by `enumerate` are pairwise distinct, and stay so in every priority subset. -/
theorem enumerate_filter_ids_nodup (reqs : List (Constraint α × Nat)) (p : Entry α → Bool) :
    (((enumerate reqs).filter p).map (·.id)).Nodup := by
  have hsub : (((enumerate reqs).filter p).map (·.id)).Sublist ((enumerate reqs).map (·.id)) :=
    (List.filter_sublist).map _
  rw [enumerate_ids] at hsub
  exact List.Pairwise.sublist hsub List.nodup_range

/-! ### 4. The lint survives every return path of one level -/

/-- The warnings a Newton run ends with, successful or not. -/
def newtonWarnings : Except (SolveError × List (Warning α)) (NewtonOk α) → List (Warning α)
  | .ok r => r.warnings
  | .error (_, ws) => ws

/-- The warnings `solveInner` ends with, successful or not. -/
def resultWarnings : Except (Failure α) (Outcome α) → List (Warning α)
  | .ok o => o.warnings
  | .error f => f.warnings

/-- Once `Model::new` succeeded, every return path of `solveInner` reports the lint followed by the
warnings of the Newton run. -/
theorem solveInner_resultWarnings (es : List (Entry α)) (g : List (Nat × α)) (cfg : Config α)
    (solve : Nat → List (Triplet α) → List α → Except SolveError (List α))
    (analyze : Option (List (Triplet α) → Except SolveError (List α × List (List α))))
    (hm : modelNew es (g.map (·.1)) = .ok ()) :
    resultWarnings (solveInner es g cfg solve analyze) =
      lint es ++ newtonWarnings (newton es cfg solve (g.map (·.2))) := by
  unfold solveInner
  simp only [hm]
  cases hn : newton es cfg solve (List.map (fun x => x.2) g) with
  | error ew => obtain ⟨e, ws⟩ := ew; simp [resultWarnings, newtonWarnings]
  | ok nr =>
    dsimp only
    cases hu : unsatisfiedSweep es (lookup nr.values) with
    | error e => simp [resultWarnings, newtonWarnings]
    | ok unsat =>
      dsimp only
      cases ha : runAnalysis analyze nr.lastJac g.length with
      | error e => simp [resultWarnings, newtonWarnings]
      | ok under => simp [resultWarnings, newtonWarnings]

/-- Every return path of `solveInner` carries `lint es` as a prefix of its warnings. -/
theorem solveInner_resultWarnings_prefix (es : List (Entry α)) (g : List (Nat × α)) (cfg : Config α)
    (solve : Nat → List (Triplet α) → List α → Except SolveError (List α))
    (analyze : Option (List (Triplet α) → Except SolveError (List α × List (List α)))) :
    ∃ ws, resultWarnings (solveInner es g cfg solve analyze) = lint es ++ ws := by
  cases hm : modelNew es (g.map (·.1)) with
  | ok u => exact ⟨_, solveInner_resultWarnings es g cfg solve analyze hm⟩
  | error e =>
    refine ⟨[], ?_⟩
    unfold solveInner
    simp only [hm]
    simp [resultWarnings]

/-- **The lint survives one level**: whether `solveInner` succeeds or fails (validation error,
solver error, non-convergence, analysis error), the warnings it reports start with `lint es`. -/
theorem lint_survives_level (es : List (Entry α)) (g : List (Nat × α)) (cfg : Config α)
    (solve : Nat → List (Triplet α) → List α → Except SolveError (List α))
    (analyze : Option (List (Triplet α) → Except SolveError (List α × List (List α)))) :
    (∀ o, solveInner es g cfg solve analyze = .ok o → ∃ ws, o.warnings = lint es ++ ws) ∧
    (∀ f, solveInner es g cfg solve analyze = .error f → ∃ ws, f.warnings = lint es ++ ws) := by
  obtain ⟨ws, h⟩ := solveInner_resultWarnings_prefix es g cfg solve analyze
  constructor
  · intro o ho; rw [ho] at h; exact ⟨ws, h⟩
  · intro f hf; rw [hf] at h; exact ⟨ws, h⟩

/-! ### 5. The lint survives at the public entry point -/

/-- A successful prioritised solve reports, first of all, the lint of the attempted subset (the
requests of priority at most the solved priority). -/
theorem lint_survives (reqs : List (Constraint α × Nat)) (g : List (Nat × α)) (cfg : Config α)
    (solve : LinSolve α) (svd : Option (Svd α)) (o : Outcome α) (hne : reqs ≠ [])
    (h : solveWithPriority reqs g cfg solve svd = .ok o) :
    ∃ ws, o.warnings =
      lint ((enumerate reqs).filter (fun e => e.priority ≤ o.prioritySolved)) ++ ws := by
  obtain ⟨P, i, _, hs, hp⟩ := C03.result_is_subset_solve reqs g cfg solve svd o hne h
  rw [hp]
  exact (lint_survives_level _ g cfg (solve i) (svd.map (fun s => s i))).1 o hs

/-- A failed prioritised solve reports, first of all, the lint of the subset it was attempting: the
requests of the lowest requested priority level `P` (the only level whose failure is returned). -/
theorem lint_survives_error (reqs : List (Constraint α × Nat)) (g : List (Nat × α))
    (cfg : Config α) (solve : LinSolve α) (svd : Option (Svd α)) (f : Failure α)
    (h : solveWithPriority reqs g cfg solve svd = .error f) :
    ∃ P ws, (levels (enumerate reqs)).head? = some P ∧ (∃ r ∈ reqs, r.2 = P) ∧
      f.warnings = lint ((enumerate reqs).filter (fun e => e.priority ≤ P)) ++ ws := by
  obtain ⟨p, rest, hl, hr⟩ := C03.highest_level_error reqs g cfg solve svd f h
  unfold levelRun at hr
  obtain ⟨ws, hws⟩ := (lint_survives_level _ g cfg (solve 0) (svd.map (fun s => s 0))).2 f hr
  refine ⟨p, ws, by rw [hl]; rfl, ?_, hws⟩
  rw [← enumerate_priorities, ← mem_levels, hl]
  simp

/-- A request at position `i` of the caller's list is the entry with id `i` of `enumerate`. -/
theorem enumerate_mem_of_get (reqs : List (Constraint α × Nat)) (i : Nat) (c : Constraint α)
    (p : Nat) (h : reqs[i]? = some (c, p)) : (⟨c, i, p⟩ : Entry α) ∈ enumerate reqs := by
  simp only [enumerate, List.mem_map]
  exact ⟨((c, p), i), List.mem_zipIdx_iff_getElem?.mpr h, rfl⟩

/-- When all requests have the same priority, every priority subset that is attempted is the whole
list. -/
theorem filter_single_level (reqs : List (Constraint α × Nat)) (p P : Nat)
    (hall : ∀ r ∈ reqs, r.2 = p) (hP : ∃ r ∈ reqs, r.2 = P) :
    (enumerate reqs).filter (fun e => e.priority ≤ P) = enumerate reqs := by
  obtain ⟨r, hr, hrP⟩ := hP
  have hpP : p = P := by rw [← hall r hr, hrP]
  apply List.filter_eq_self.mpr
  intro e he
  have := List.mem_of_getElem? (mem_enumerate reqs e he)
  have := hall _ this
  simp only at this
  simp [this, hpP]

/-- **Single level**: when all requests have the same priority, the result — `Ok` or `Err` — starts
with the lint of the caller's whole list, so every request `i` for which `lintOne` produces a
warning (every special-angle request) is warned about in the result. -/
theorem lint_single_level (reqs : List (Constraint α × Nat)) (g : List (Nat × α)) (cfg : Config α)
    (solve : LinSolve α) (svd : Option (Svd α)) (p : Nat) (hall : ∀ r ∈ reqs, r.2 = p) :
    (∃ ws, resultWarnings (solveWithPriority reqs g cfg solve svd) = lint (enumerate reqs) ++ ws) ∧
    ∀ i c q w, reqs[i]? = some (c, q) → lintOne (⟨c, i, q⟩ : Entry α) = some w →
      w ∈ resultWarnings (solveWithPriority reqs g cfg solve svd) := by
  have hpre : ∃ ws, resultWarnings (solveWithPriority reqs g cfg solve svd) =
      lint (enumerate reqs) ++ ws := by
    cases hr : solveWithPriority reqs g cfg solve svd with
    | ok o =>
      by_cases hne : reqs = []
      · subst hne
        simp [solveWithPriority, noConstraintsOutcome] at hr
        subst hr
        exact ⟨[], by simp [resultWarnings, enumerate, lint]⟩
      · obtain ⟨P, i, hP, hs, hp⟩ := C03.result_is_subset_solve reqs g cfg solve svd o hne hr
        obtain ⟨ws, hws⟩ := lint_survives reqs g cfg solve svd o hne hr
        rw [hp, filter_single_level reqs p P hall hP] at hws
        exact ⟨ws, hws⟩
    | error f =>
      obtain ⟨P, ws, _, hP, hws⟩ := lint_survives_error reqs g cfg solve svd f hr
      rw [filter_single_level reqs p P hall hP] at hws
      exact ⟨ws, hws⟩
  refine ⟨hpre, ?_⟩
  intro i c q w hget hl
  obtain ⟨ws, hws⟩ := hpre
  rw [hws]
  exact List.mem_append_left _
    (lint_complete _ _ w (enumerate_mem_of_get reqs i c q hget) hl)

/-- **Limit of the lint at the public entry point.**  A request whose priority number is larger
than the solved priority was not part of the reported subset, and a successful result carries no
warning at all about it — in particular no angle lint, whatever its angle.  (The lint is computed
per level from the attempted subset only; when a later level fails or is left unsatisfied, the
earlier level's outcome, with the earlier level's lint, is what is returned.) -/
theorem no_warning_above_solved_priority (reqs : List (Constraint α × Nat)) (g : List (Nat × α))
    (cfg : Config α) (solve : LinSolve α) (svd : Option (Svd α)) (o : Outcome α)
    (h : solveWithPriority reqs g cfg solve svd = .ok o)
    (i : Nat) (c : Constraint α) (p : Nat) (hi : reqs[i]? = some (c, p))
    (hp : o.prioritySolved < p) : ∀ w ∈ o.warnings, w.about ≠ some i := by
  intro w hw ha
  have hne : reqs ≠ [] := by intro hnil; rw [hnil] at hi; simp at hi
  obtain ⟨j, c', p', haj, hget, hle, _⟩ := C07.warning_indices reqs g cfg solve svd o hne h w hw
  rw [ha] at haj
  injection haj with haj
  subst haj
  rw [hi] at hget
  injection hget with hget
  injection hget with h1 h2
  omega

/-! ### 6. Newton warnings only grow; a collapse at the guess is always reported -/

/-- When both evaluations of a round succeed, the round carries exactly the old warnings followed by
those of the residual and then the Jacobian evaluation — on all of its return paths. -/
theorem newtonStep_warnings_eq (es : List (Entry α)) (cfg : Config α)
    (solve : Nat → List (Triplet α) → List α → Except SolveError (List α))
    (k : Nat) (x : List α) (ws : List (Warning α)) (rs : List α) (w1 : List (Warning α))
    (jac : List (Triplet α)) (w2 : List (Warning α))
    (hr : residualAll es (lookup x) = .ok (rs, w1))
    (hj : jacobianAll es (lookup x) = .ok (jac, w2)) :
    stepWarnings (newtonStep es cfg solve k x ws) = ws ++ w1 ++ w2 := by
  unfold newtonStep
  simp only [hr, hj]
  repeat' split
  all_goals simp [stepWarnings]

/-- One round only appends warnings. -/
theorem newtonStep_warnings_prefix (es : List (Entry α)) (cfg : Config α)
    (solve : Nat → List (Triplet α) → List α → Except SolveError (List α))
    (k : Nat) (x : List α) (ws : List (Warning α)) :
    ∃ more, stepWarnings (newtonStep es cfg solve k x ws) = ws ++ more := by
  rcases newtonStep_warnings_shape es cfg solve k x ws with h | ⟨rs, w1, _, h⟩ |
    ⟨rs, w1, jac, w2, _, _, h⟩
  · exact ⟨[], by simp [h]⟩
  · exact ⟨w1, h⟩
  · exact ⟨w1 ++ w2, by rw [h, List.append_assoc]⟩

/-- A Newton run only appends to the warnings it starts with (successful or not). -/
theorem newtonLoop_newtonWarnings_prefix (es : List (Entry α)) (cfg : Config α)
    (solve : Nat → List (Triplet α) → List α → Except SolveError (List α)) :
    ∀ (fuel k : Nat) (x : List α) (ws : List (Warning α)),
      ∃ more, newtonWarnings (newtonLoop es cfg solve fuel k x ws) = ws ++ more := by
  intro fuel
  induction fuel with
  | zero => intro k x ws; exact ⟨[], by simp [newtonLoop, newtonWarnings]⟩
  | succ fuel ih =>
    intro k x ws
    obtain ⟨m1, hm1⟩ := newtonStep_warnings_prefix es cfg solve k x ws
    unfold newtonLoop
    cases hs : newtonStep es cfg solve k x ws with
    | done r => rw [hs] at hm1; exact ⟨m1, by simpa [newtonWarnings, stepWarnings] using hm1⟩
    | fail e ws2 => rw [hs] at hm1; exact ⟨m1, by simpa [newtonWarnings, stepWarnings] using hm1⟩
    | next x' ws2 =>
      rw [hs] at hm1
      simp only [stepWarnings] at hm1
      obtain ⟨m2, hm2⟩ := ih (k + 1) x' ws2
      exact ⟨m1 ++ m2, by simp only; rw [hm2, hm1, List.append_assoc]⟩

/-- **Newton warnings only grow**: the warnings a Newton run returns — in its result or with its
error — extend the warnings it was started with. -/
theorem newtonLoop_warnings_prefix (es : List (Entry α)) (cfg : Config α)
    (solve : Nat → List (Triplet α) → List α → Except SolveError (List α))
    (fuel k : Nat) (x : List α) (ws : List (Warning α)) :
    (∀ r, newtonLoop es cfg solve fuel k x ws = .ok r → ∃ more, r.warnings = ws ++ more) ∧
    (∀ e ws', newtonLoop es cfg solve fuel k x ws = .error (e, ws') → ∃ more, ws' = ws ++ more) := by
  obtain ⟨more, h⟩ := newtonLoop_newtonWarnings_prefix es cfg solve fuel k x ws
  constructor
  · intro r hr; rw [hr] at h; exact ⟨more, h⟩
  · intro e ws' hr; rw [hr] at h; exact ⟨more, h⟩

/-- A request whose residual evaluation raises the flag gets its notice from `Model::residual`. -/
theorem residualAll_warnings_complete (x : Nat → Option α) :
    ∀ (es : List (Entry α)) (rs : List α) (ws : List (Warning α)),
      residualAll es x = .ok (rs, ws) → ∀ e ∈ es, ∀ r, e.c.residual x = some r →
        r.degenerate = true → degenerateWarning e ∈ ws := by
  intro es
  induction es with
  | nil => intro rs ws _ e he; simp at he
  | cons e0 rest ih =>
    intro rs ws h e he r hr hd
    unfold residualAll at h
    split at h
    · simp at h
    · rename_i r0 hr0
      split at h
      · simp at h
      · rename_i rs' ws' hrest
        injection h with h
        injection h with h1 h2
        subst h2
        rcases List.mem_cons.mp he with rfl | he
        · rw [hr] at hr0
          injection hr0 with hr0
          subst hr0
          simp [hd]
        · exact List.mem_append_right _ (ih rs' ws' hrest e he r hr hd)

/-- A request whose Jacobian evaluation raises the flag gets its notice from
`Model::refresh_jacobian`. -/
theorem jacobianFrom_warnings_complete (pat : List (Nat × Nat)) (x : Nat → Option α) :
    ∀ (es : List (Entry α)) (row0 : Nat) (ts : List (Triplet α)) (ws : List (Warning α)),
      jacobianFrom pat es x row0 = .ok (ts, ws) → ∀ e ∈ es, ∀ j, e.c.jacobianRows x = some j →
        j.degenerate = true → degenerateWarning e ∈ ws := by
  intro es
  induction es with
  | nil => intro row0 ts ws _ e he; simp at he
  | cons e0 rest ih =>
    intro row0 ts ws h e he j hj hd
    unfold jacobianFrom at h
    split at h
    · simp at h
    · rename_i j0 hj0
      dsimp only at h
      split at h
      · split at h
        · simp at h
        · rename_i ts' ws' hrest
          injection h with h
          injection h with h1 h2
          subst h2
          rcases List.mem_cons.mp he with rfl | he
          · rw [hj] at hj0
            injection hj0 with hj0
            subst hj0
            simp [hd]
          · exact List.mem_append_right _ (ih _ ts' ws' hrest e he j hj hd)
      · simp at h

/-- The first round's evaluations are reported by every outcome of a Newton run with at least one
round: the warnings it ends with contain those of the residual and Jacobian evaluation at the
start values. -/
theorem newton_first_round_warnings (es : List (Entry α)) (cfg : Config α)
    (solve : Nat → List (Triplet α) → List α → Except SolveError (List α)) (x : List α)
    (hit : 1 ≤ cfg.maxIterations) (rs : List α) (w1 : List (Warning α))
    (jac : List (Triplet α)) (w2 : List (Warning α))
    (hr : residualAll es (lookup x) = .ok (rs, w1))
    (hj : jacobianAll es (lookup x) = .ok (jac, w2)) :
    ∃ more, newtonWarnings (newton es cfg solve x) = w1 ++ w2 ++ more := by
  unfold newton
  obtain ⟨m, hm⟩ : ∃ m, cfg.maxIterations = m + 1 := ⟨cfg.maxIterations - 1, by omega⟩
  rw [hm]
  have hstep := newtonStep_warnings_eq es cfg solve 0 x [] rs w1 jac w2 hr hj
  unfold newtonLoop
  cases hs : newtonStep es cfg solve 0 x [] with
  | done r => rw [hs] at hstep; exact ⟨[], by simpa [newtonWarnings, stepWarnings] using hstep⟩
  | fail e ws2 => rw [hs] at hstep; exact ⟨[], by simpa [newtonWarnings, stepWarnings] using hstep⟩
  | next x' ws2 =>
    rw [hs] at hstep
    simp only [stepWarnings, List.nil_append] at hstep
    obtain ⟨m2, hm2⟩ := newtonLoop_newtonWarnings_prefix es cfg solve m (0 + 1) x' ws2
    exact ⟨m2, by simp only; rw [hm2, hstep]⟩

/-- **A collapse at the initial guess is always reported.**  If `Model::new` accepts the system,
at least one iteration is allowed, and the residual or the Jacobian evaluation of request `e` at
the initial guess raises the degeneracy flag, then whatever `solveInner` returns — a result or a
failure — contains the degeneracy notice naming `e`. -/
theorem degenerate_complete_at_guess (es : List (Entry α)) (g : List (Nat × α)) (cfg : Config α)
    (solve : Nat → List (Triplet α) → List α → Except SolveError (List α))
    (analyze : Option (List (Triplet α) → Except SolveError (List α × List (List α))))
    (hm : modelNew es (g.map (·.1)) = .ok ()) (hit : 1 ≤ cfg.maxIterations)
    (e : Entry α) (he : e ∈ es)
    (hflag : (∃ r, e.c.residual (lookup (g.map (·.2))) = some r ∧ r.degenerate = true) ∨
      (∃ j, e.c.jacobianRows (lookup (g.map (·.2))) = some j ∧ j.degenerate = true)) :
    (∀ o, solveInner es g cfg solve analyze = .ok o → degenerateWarning e ∈ o.warnings) ∧
    (∀ f, solveInner es g cfg solve analyze = .error f → degenerateWarning e ∈ f.warnings) := by
  have hdecl := modelNew_ok_declared_lt es _ hm
  have hlen : (g.map (·.1)).length = (g.map (·.2)).length := by simp
  rw [hlen] at hdecl
  obtain ⟨rs, w1, hr⟩ := residualAll_ok (g.map (·.2)) es hdecl
  obtain ⟨jac, w2, hj⟩ := jacobianFrom_ok (pattern es) (g.map (·.2)) es 0 hdecl (fun cell hc => hc)
  have hj' : jacobianAll es (lookup (g.map (·.2))) = .ok (jac, w2) := hj
  obtain ⟨more, hmore⟩ := newton_first_round_warnings es cfg solve (g.map (·.2)) hit rs w1 jac w2
    hr hj'
  have hin : degenerateWarning e ∈ w1 ++ w2 ++ more := by
    rcases hflag with ⟨r, hres, hd⟩ | ⟨j, hjr, hd⟩
    · exact List.mem_append_left _ (List.mem_append_left _
        (residualAll_warnings_complete _ es rs w1 hr e he r hres hd))
    · exact List.mem_append_left _ (List.mem_append_right _
        (jacobianFrom_warnings_complete _ _ es 0 jac w2 hj e he j hjr hd))
  have hall : degenerateWarning e ∈ resultWarnings (solveInner es g cfg solve analyze) := by
    rw [solveInner_resultWarnings es g cfg solve analyze hm, hmore]
    exact List.mem_append_right _ hin
  constructor
  · intro o ho; rw [ho] at hall; exact hall
  · intro f hf; rw [hf] at hall; exact hall

/-- The total assignment the kernels see at the initial guess (slot `i` holds the `i`-th guess
value; the filler `0.0` is never read once `Model::new` has succeeded). -/
def guessValuation (g : List (Nat × α)) : Nat → α := fun i => ((lookup (g.map (·.2))) i).getD 0.0

/-- The same, phrased on the numeric kernels: if `Model::new` accepts the system, at least one
iteration is allowed, and the residual kernel or the Jacobian kernel of request `e` raises the flag
at the initial guess, then the result or failure of `solveInner` contains the notice naming `e`. -/
theorem degenerate_complete_at_guess_kernel (es : List (Entry α)) (g : List (Nat × α))
    (cfg : Config α)
    (solve : Nat → List (Triplet α) → List α → Except SolveError (List α))
    (analyze : Option (List (Triplet α) → Except SolveError (List α × List (List α))))
    (hm : modelNew es (g.map (·.1)) = .ok ()) (hit : 1 ≤ cfg.maxIterations)
    (e : Entry α) (he : e ∈ es)
    (hflag : (e.c.residualV (guessValuation g)).degenerate = true ∨
      (e.c.jacobianV (guessValuation g)).degenerate = true) :
    degenerateWarning e ∈ resultWarnings (solveInner es g cfg solve analyze) := by
  have hdecl := modelNew_ok_declared_lt es _ hm
  have hlen : (g.map (·.1)).length = (g.map (·.2)).length := by simp
  rw [hlen] at hdecl
  have hj := jacobianRows_isSome e.c (g.map (·.2)) (hdecl e he)
  obtain ⟨r, hr⟩ := residual_isSome e.c (g.map (·.2)) (hdecl e he)
  have hrV : r = e.c.residualV (guessValuation g) := by
    unfold Constraint.residual at hr
    split at hr
    · injection hr with hr; exact hr.symm
    · simp at hr
  have h := degenerate_complete_at_guess es g cfg solve analyze hm hit e he (by
    rcases hflag with hf | hf
    · exact Or.inl ⟨r, hr, by rw [hrV]; exact hf⟩
    · exact Or.inr ⟨_, hj, hf⟩)
  cases hs : solveInner es g cfg solve analyze with
  | ok o => exact h.1 o hs
  | error f => exact h.2 f hs

/-! ### 7. The kinds that never raise the flag -/

/-- The kinds whose residual and Jacobian code contain no degeneracy guard. -/
def neverDegenerate : Constraint α → Bool
  | .verticalDistance .. => true
  | .horizontalDistance .. => true
  | .vertical .. => true
  | .horizontal .. => true
  | .linesAtAngle _ _ .parallel => true
  | .linesAtAngle _ _ .perpendicular => true
  | .fixed .. => true
  | .scalarEqual .. => true
  | .pointsCoincident .. => true
  | .circleRadius .. => true
  | .isArc .. => true
  | .midpoint .. => true
  | _ => false

/-- For the unguarded kinds (vertical/horizontal distance, vertical,
horizontal, `Parallel`, `Perpendicular`, fixed, scalar equality, coincident points, circle radius,
`Arc`, midpoint) neither evaluation ever raises the degeneracy flag, at any assignment. -/
theorem never_degenerate_kinds (c : Constraint α) (h : neverDegenerate c = true) (v : Nat → α) :
    (c.residualV v).degenerate = false ∧ (c.jacobianV v).degenerate = false := by
  cases c with
  | linesAtAngle l0 l1 k =>
    cases k <;>
      simp_all [neverDegenerate, Constraint.residualV, Constraint.jacobianV, linesAtAngleResidual,
        linesAtAngleJac, Res.mk1]
  | _ =>
    simp_all [neverDegenerate, Constraint.residualV, Constraint.jacobianV, Res.mk1, Res.mk2]

/-- Consequently such a request never gets a degeneracy notice from an evaluation: neither
`residual` nor `jacobianRows` returns a flagged result for it. -/
theorem never_degenerate_eval (c : Constraint α) (h : neverDegenerate c = true)
    (x : Nat → Option α) :
    (∀ r, c.residual x = some r → r.degenerate = false) ∧
    (∀ j, c.jacobianRows x = some j → j.degenerate = false) := by
  constructor
  · intro r hr
    unfold Constraint.residual at hr
    split at hr
    · injection hr with hr; subst hr; exact (never_degenerate_kinds c h _).1
    · simp at hr
  · intro j hj
    unfold Constraint.jacobianRows at hj
    split at hj
    · injection hj with hj; subst hj; exact (never_degenerate_kinds c h _).2
    · simp at hj

/-! ### 8. Every reported warning is a lint of the subset or a degeneracy notice of the subset -/

/-- `w` is the degeneracy notice of a request of `es`. -/
def IsNotice (es : List (Entry α)) (w : Warning α) : Prop := ∃ e ∈ es, w = degenerateWarning e

/-- Every warning of `Model::residual` is the degeneracy notice of a request of the list. -/
theorem residualAll_warnings_form (x : Nat → Option α) :
    ∀ (es : List (Entry α)) (rs : List α) (ws : List (Warning α)),
      residualAll es x = .ok (rs, ws) → ∀ w ∈ ws, IsNotice es w := by
  intro es
  induction es with
  | nil => intro rs ws h w hw; simp [residualAll] at h; rw [h.2] at hw; simp at hw
  | cons e rest ih =>
    intro rs ws h w hw
    unfold residualAll at h
    split at h
    · simp at h
    · split at h
      · simp at h
      · rename_i rs' ws' hrest
        injection h with h
        injection h with h1 h2
        subst h2
        rcases List.mem_append.mp hw with hw | hw
        · split at hw
          · simp at hw; exact ⟨e, by simp, hw⟩
          · simp at hw
        · obtain ⟨e', he', hx⟩ := ih rs' ws' hrest w hw
          exact ⟨e', by simp [he'], hx⟩

/-- Every warning of `Model::refresh_jacobian` is the degeneracy notice of a request of the list. -/
theorem jacobianFrom_warnings_form (pat : List (Nat × Nat)) (x : Nat → Option α) :
    ∀ (es : List (Entry α)) (row0 : Nat) (ts : List (Triplet α)) (ws : List (Warning α)),
      jacobianFrom pat es x row0 = .ok (ts, ws) → ∀ w ∈ ws, IsNotice es w := by
  intro es
  induction es with
  | nil => intro row0 ts ws h w hw; simp [jacobianFrom] at h; rw [h.2] at hw; simp at hw
  | cons e rest ih =>
    intro row0 ts ws h w hw
    unfold jacobianFrom at h
    split at h
    · simp at h
    · dsimp only at h
      split at h
      · split at h
        · simp at h
        · rename_i ts' ws' hrest
          injection h with h
          injection h with h1 h2
          subst h2
          rcases List.mem_append.mp hw with hw | hw
          · split at hw
            · simp at hw; exact ⟨e, by simp, hw⟩
            · simp at hw
          · obtain ⟨e', he', hx⟩ := ih _ ts' ws' hrest w hw
            exact ⟨e', by simp [he'], hx⟩
      · simp at h

/-- Everything a Newton run reports is a degeneracy notice of a request of `es` (given that what it
started with was). -/
theorem newtonLoop_warnings_form (es : List (Entry α)) (cfg : Config α)
    (solve : Nat → List (Triplet α) → List α → Except SolveError (List α)) :
    ∀ (fuel k : Nat) (x : List α) (ws : List (Warning α)), (∀ w ∈ ws, IsNotice es w) →
      ∀ w ∈ newtonWarnings (newtonLoop es cfg solve fuel k x ws), IsNotice es w := by
  intro fuel
  induction fuel with
  | zero => intro k x ws hws; simpa [newtonLoop, newtonWarnings] using hws
  | succ fuel ih =>
    intro k x ws hws
    have hstep : ∀ w ∈ stepWarnings (newtonStep es cfg solve k x ws), IsNotice es w := by
      intro w hw
      rcases newtonStep_warnings_shape es cfg solve k x ws with h | ⟨rs, w1, h1, h⟩ |
        ⟨rs, w1, jac, w2, h1, h2, h⟩
      · rw [h] at hw; exact hws w hw
      · rw [h] at hw
        rcases List.mem_append.mp hw with hw | hw
        · exact hws w hw
        · exact residualAll_warnings_form _ es rs w1 h1 w hw
      · rw [h] at hw
        simp only [List.append_assoc, List.mem_append] at hw
        rcases hw with hw | hw | hw
        · exact hws w hw
        · exact residualAll_warnings_form _ es rs w1 h1 w hw
        · exact jacobianFrom_warnings_form _ _ es 0 jac w2 h2 w hw
    unfold newtonLoop
    cases hs : newtonStep es cfg solve k x ws with
    | done r => rw [hs] at hstep; simpa [newtonWarnings, stepWarnings] using hstep
    | fail e ws2 => rw [hs] at hstep; simpa [newtonWarnings, stepWarnings] using hstep
    | next x' ws2 =>
      rw [hs] at hstep
      exact ih (k + 1) x' ws2 hstep

/-- **Classification of one level's warnings**: every warning `solveInner` reports, in a result or
in a failure, is either a lint warning of `es` or the degeneracy notice of a request of `es`. -/
theorem solveInner_warning_classification (es : List (Entry α)) (g : List (Nat × α))
    (cfg : Config α)
    (solve : Nat → List (Triplet α) → List α → Except SolveError (List α))
    (analyze : Option (List (Triplet α) → Except SolveError (List α × List (List α)))) :
    ∀ w ∈ resultWarnings (solveInner es g cfg solve analyze), w ∈ lint es ∨ IsNotice es w := by
  intro w hw
  cases hm : modelNew es (g.map (·.1)) with
  | ok u =>
    rw [solveInner_resultWarnings es g cfg solve analyze hm] at hw
    rcases List.mem_append.mp hw with hw | hw
    · exact Or.inl hw
    · exact Or.inr (newtonLoop_warnings_form es cfg solve cfg.maxIterations 0 _ [] (by simp) w hw)
  | error e =>
    left
    unfold solveInner at hw
    simp only [hm] at hw
    simpa [resultWarnings] using hw

/-- **A lint warning in a result is truthful about its kind**: a warning of `solveInner` whose
content is "use Parallel" / "use Perpendicular" is the `lintOne` of an explicit-angle line request
of `es` which it names — never of a request of another kind, and never a relabelled degeneracy
notice. -/
theorem solveInner_lint_warning_sound (es : List (Entry α)) (g : List (Nat × α)) (cfg : Config α)
    (solve : Nat → List (Triplet α) → List α → Except SolveError (List α))
    (analyze : Option (List (Triplet α) → Except SolveError (List α × List (List α))))
    (w : Warning α) (hw : w ∈ resultWarnings (solveInner es g cfg solve analyze))
    (hk : (∃ θ, w.content = .shouldBeParallel θ) ∨ (∃ θ, w.content = .shouldBePerpendicular θ)) :
    ∃ e ∈ es, lintOne e = some w ∧ w.about = some e.id ∧
      ∃ l0 l1 θ, e.c = .linesAtAngle l0 l1 (.other θ) ∧
        (w.content = .shouldBeParallel θ ∨ w.content = .shouldBePerpendicular θ) := by
  rcases solveInner_warning_classification es g cfg solve analyze w hw with hl | ⟨e, _, rfl⟩
  · obtain ⟨e, he, hl⟩ := mem_lint es w hl
    obtain ⟨l0, l1, θ, hc, ha, hcont⟩ := lintOne_some_shape e w hl
    exact ⟨e, he, hl, ha, l0, l1, θ, hc, hcont⟩
  · rcases hk with ⟨θ, h⟩ | ⟨θ, h⟩ <;> simp [degenerateWarning] at h

/-- The classification at the public entry point: every warning of a successful prioritised solve
is a lint warning or a degeneracy notice of the attempted subset (priority at most the solved
priority); every warning of a failed one is a lint warning or a degeneracy notice of the
lowest-level subset. -/
theorem solve_warning_classification (reqs : List (Constraint α × Nat)) (g : List (Nat × α))
    (cfg : Config α) (solve : LinSolve α) (svd : Option (Svd α)) :
    (∀ o, reqs ≠ [] → solveWithPriority reqs g cfg solve svd = .ok o → ∀ w ∈ o.warnings,
      w ∈ lint ((enumerate reqs).filter (fun e => e.priority ≤ o.prioritySolved)) ∨
      IsNotice ((enumerate reqs).filter (fun e => e.priority ≤ o.prioritySolved)) w) ∧
    (∀ f, solveWithPriority reqs g cfg solve svd = .error f →
      ∃ P, (levels (enumerate reqs)).head? = some P ∧ ∀ w ∈ f.warnings,
        w ∈ lint ((enumerate reqs).filter (fun e => e.priority ≤ P)) ∨
        IsNotice ((enumerate reqs).filter (fun e => e.priority ≤ P)) w) := by
  constructor
  · intro o hne h w hw
    obtain ⟨P, i, _, hs, hp⟩ := C03.result_is_subset_solve reqs g cfg solve svd o hne h
    rw [hp]
    have := solveInner_warning_classification
      ((enumerate reqs).filter (fun e => e.priority ≤ P)) g cfg (solve i) (svd.map (fun s => s i)) w
    rw [hs] at this
    exact this hw
  · intro f h
    obtain ⟨p, rest, hl, hr⟩ := C03.highest_level_error reqs g cfg solve svd f h
    unfold levelRun at hr
    refine ⟨p, by rw [hl]; rfl, ?_⟩
    intro w hw
    have := solveInner_warning_classification
      ((enumerate reqs).filter (fun e => e.priority ≤ p)) g cfg (solve 0) (svd.map (fun s => s 0)) w
    rw [hr] at this
    exact this hw

end Ezpz
