/-
C03 at the public entry point: "the result of a prioritised solve is exactly the result of solving
only the requests whose priority is at most `P`", where the second solve is a *fresh call of the
public entry point* on the filtered request list.

A fresh call differs from the per-level call inside the loop in two ways:
(a) it re-enumerates the requests, so the positions it reports (`unsatisfied`, `warnings.about`) are
    positions in the filtered list; `pos reqs P` maps them back to positions in `reqs`;
(b) it consults the LU/SVD oracles at call indices `0, 1, …` of its own level list.  The levels of the
    filtered list are exactly the levels `≤ P` of the original list (`levels_filteredReqs`), they are
    an initial segment of the original levels, and both runs visit levels in increasing order: so
    level number `k` of the filtered run is level number `k` of the original run and uses the same
    oracle index.  No re-indexing of the oracles is needed.

All statements hold for every scalar type, every LU/SVD oracle, every request list.
-/
import Ezpz.Proofs.Relabel
set_option linter.unusedSectionVars false
set_option linter.unusedSimpArgs false
namespace Ezpz
open Transc

variable {α : Type} [Add α] [Sub α] [Mul α] [Div α] [Neg α] [OfScientific α]
  [LT α] [DecidableLT α] [LE α] [DecidableLE α] [Transc α]

/-! ### The filtered request list and the position map -/

/-- The requests whose priority is at most `P`, in the caller's order. -/
def filteredReqs (reqs : List (Constraint α × Nat)) (P : Nat) : List (Constraint α × Nat) :=
  reqs.filter (fun r => r.2 ≤ P)

/-- The positions in `reqs` of the requests whose priority is at most `P`, in increasing order. -/
def keptPositions (reqs : List (Constraint α × Nat)) (P : Nat) : List Nat :=
  ((reqs.zipIdx).filter (fun ri => ri.1.2 ≤ P)).map (·.2)

/-- The position map: `pos reqs P k` is the position in `reqs` of the `k`-th request of
`filteredReqs reqs P` (and `0` when `k` is out of range). -/
def pos (reqs : List (Constraint α × Nat)) (P : Nat) (k : Nat) : Nat :=
  (keptPositions reqs P).getD k 0

/-- There are as many kept positions as kept requests. -/
theorem keptPositions_length (reqs : List (Constraint α × Nat)) (P : Nat) :
    (keptPositions reqs P).length = (filteredReqs reqs P).length := by
  have h : filteredReqs reqs P = ((reqs.zipIdx).filter (fun ri => ri.1.2 ≤ P)).map (·.1) := by
    have := List.filter_map (f := fun ri : (Constraint α × Nat) × Nat => ri.1)
      (p := fun r : Constraint α × Nat => decide (r.2 ≤ P)) (l := reqs.zipIdx)
    rw [List.zipIdx_map_fst] at this
    exact this
  rw [h, keptPositions, List.length_map, List.length_map]

/-- **What `pos` is**: for `k` in range, `pos reqs P k` is a position of `reqs`, and the request
there is the `k`-th request of the filtered list. -/
theorem pos_spec (reqs : List (Constraint α × Nat)) (P : Nat) (k : Nat)
    (hk : k < (filteredReqs reqs P).length) :
    reqs[pos reqs P k]? = (filteredReqs reqs P)[k]? := by
  have h : filteredReqs reqs P = ((reqs.zipIdx).filter (fun ri => ri.1.2 ≤ P)).map (·.1) := by
    have := List.filter_map (f := fun ri : (Constraint α × Nat) × Nat => ri.1)
      (p := fun r : Constraint α × Nat => decide (r.2 ≤ P)) (l := reqs.zipIdx)
    rw [List.zipIdx_map_fst] at this
    exact this
  have hk' : k < ((reqs.zipIdx).filter (fun ri => ri.1.2 ≤ P)).length := by
    rw [h, List.length_map] at hk; exact hk
  have hmem : ((reqs.zipIdx).filter (fun ri => ri.1.2 ≤ P))[k] ∈ reqs.zipIdx :=
    (List.mem_filter.mp (List.getElem_mem hk')).1
  have hget := List.mem_zipIdx_iff_getElem?.mp hmem
  have hpos : pos reqs P k = (((reqs.zipIdx).filter (fun ri => ri.1.2 ≤ P))[k]).2 := by
    simp [pos, keptPositions, List.getD_eq_getElem?_getD, List.getElem?_eq_getElem hk']
  rw [hpos, hget, h, List.getElem?_map, List.getElem?_eq_getElem hk']
  rfl

/-- The kept positions are strictly increasing. -/
theorem keptPositions_sorted (reqs : List (Constraint α × Nat)) (P : Nat) :
    (keptPositions reqs P).Pairwise (· < ·) := by
  have hsub : (keptPositions reqs P).Sublist ((reqs.zipIdx).map (·.2)) :=
    (List.filter_sublist).map _
  rw [List.zipIdx_map_snd] at hsub
  exact List.Pairwise.sublist hsub (by simpa using List.pairwise_lt_range' (s := 0) (n := reqs.length))

/-- `pos` is strictly increasing on the positions of the filtered list. -/
theorem pos_strictMono (reqs : List (Constraint α × Nat)) (P : Nat) (j k : Nat) (hjk : j < k)
    (hk : k < (filteredReqs reqs P).length) : pos reqs P j < pos reqs P k := by
  rw [← keptPositions_length] at hk
  have := List.pairwise_iff_getElem.mp (keptPositions_sorted reqs P) j k (by omega) hk hjk
  simpa [pos, List.getD_eq_getElem?_getD, List.getElem?_eq_getElem hk,
    List.getElem?_eq_getElem (show j < (keptPositions reqs P).length by omega)] using this

/-- Every kept position is a position of `reqs`. -/
theorem pos_lt (reqs : List (Constraint α × Nat)) (P : Nat) (k : Nat)
    (hk : k < (filteredReqs reqs P).length) : pos reqs P k < reqs.length := by
  have h := pos_spec reqs P k hk
  rw [List.getElem?_eq_getElem hk] at h
  exact (List.getElem?_eq_some_iff.mp h).1

/-! ### Entries of the filtered list versus filtered entries -/

private theorem enumerate_get? (reqs : List (Constraint α × Nat)) (i : Nat) :
    (enumerate reqs)[i]? = (reqs[i]?).map (fun r => (⟨r.1, i, r.2⟩ : Entry α)) := by
  simp only [enumerate, List.getElem?_map, List.getElem?_zipIdx, Nat.zero_add]
  cases reqs[i]? <;> rfl

/-- Any entry list is the enumeration of its requests, relabelled by its own id list. -/
theorem entries_eq_relabel_enumerate (es : List (Entry α)) :
    es = (enumerate (es.map (fun e => (e.c, e.priority)))).map
      (Entry.relabel (fun k => (es.map (·.id)).getD k 0)) := by
  apply List.ext_getElem?
  intro i
  rw [List.getElem?_map, enumerate_get?, List.getElem?_map]
  cases h : es[i]? with
  | none => rfl
  | some e =>
    simp [Entry.relabel, List.getD_eq_getElem?_getD, h]

/-- The requests (constraint, priority) of `enumerate reqs` are `reqs`. -/
theorem enumerate_strip (reqs : List (Constraint α × Nat)) :
    (enumerate reqs).map (fun e => (e.c, e.priority)) = reqs := by
  apply List.ext_getElem?
  intro i
  rw [List.getElem?_map, enumerate_get?]
  cases reqs[i]? <;> rfl

/-- **Re-enumeration.**  The entries of `reqs` of priority `≤ P` (with their caller positions) are
the entries of a fresh enumeration of the filtered list, with position `k` mapped to `pos reqs P k`. -/
theorem filter_enumerate_eq (reqs : List (Constraint α × Nat)) (P : Nat) :
    (enumerate reqs).filter (fun e => e.priority ≤ P) =
      (enumerate (filteredReqs reqs P)).map (Entry.relabel (pos reqs P)) := by
  have h1 : ((enumerate reqs).filter (fun e => e.priority ≤ P)).map (fun e => (e.c, e.priority)) =
      filteredReqs reqs P := by
    have := List.filter_map (f := fun e : Entry α => (e.c, e.priority))
      (p := fun r : Constraint α × Nat => decide (r.2 ≤ P)) (l := enumerate reqs)
    rw [enumerate_strip] at this
    exact this.symm
  have h2 : ((enumerate reqs).filter (fun e => e.priority ≤ P)).map (·.id) =
      keptPositions reqs P := by
    simp only [enumerate, keptPositions, List.filter_map, List.map_map]
    rfl
  have h := entries_eq_relabel_enumerate ((enumerate reqs).filter (fun e => e.priority ≤ P))
  rw [h1, h2] at h
  exact h

/-- The same at a level `p ≤ P`: the entries of priority `≤ p` of `reqs` are the entries of priority
`≤ p` of the filtered list, with positions mapped back through `pos`. -/
theorem filter_enumerate_level (reqs : List (Constraint α × Nat)) (P p : Nat) (hp : p ≤ P) :
    (enumerate reqs).filter (fun e => e.priority ≤ p) =
      ((enumerate (filteredReqs reqs P)).filter (fun e => e.priority ≤ p)).map
        (Entry.relabel (pos reqs P)) := by
  have h1 : (enumerate reqs).filter (fun e => e.priority ≤ p) =
      ((enumerate reqs).filter (fun e => e.priority ≤ P)).filter (fun e => e.priority ≤ p) := by
    rw [List.filter_filter]
    apply List.filter_congr
    intro e _
    by_cases h : e.priority ≤ p
    · simp [h, Nat.le_trans h hp]
    · simp [h]
  rw [h1, filter_enumerate_eq, List.filter_map]
  rfl

/-- **The levels of the filtered list** are the levels `≤ P` of the original list. -/
theorem levels_filteredReqs (reqs : List (Constraint α × Nat)) (P : Nat) :
    levels (enumerate (filteredReqs reqs P)) = (levels (enumerate reqs)).filter (· ≤ P) := by
  apply sorted_ext _ _ (levels_sorted _)
    (List.Pairwise.sublist List.filter_sublist (levels_sorted _))
  intro q
  rw [List.mem_filter, mem_levels, mem_levels, enumerate_priorities, enumerate_priorities]
  constructor
  · rintro ⟨r, hr, rfl⟩
    have := List.mem_filter.mp hr
    exact ⟨⟨r, this.1, rfl⟩, by simpa using this.2⟩
  · rintro ⟨⟨r, hr, rfl⟩, hq⟩
    exact ⟨r, List.mem_filter.mpr ⟨hr, by simpa using hq⟩, rfl⟩

/-! ### Level by level -/

/-- How the outcome of a level of the original run relates to the same level of the filtered run:
the reported positions are mapped back through `f`, everything else is identical. -/
def OutRel (f : Nat → Nat) (a b : Outcome α) : Prop := a = b.relabel f

/-- How failures relate: warnings mapped back through `f`, sizes identical; the error is identical,
except that the request named by a `MissingGuess` error of validation is mapped through `f`. -/
def FailRel (f : Nat → Nat) (a b : Failure α) : Prop := a = b.relabel f ∨ a = b.relabelW f

/-- **One level.**  For a level `p ≤ P`, the level call of the original run and the level call of
the filtered run *with the same oracle index* both succeed or both fail, and the original result is
the filtered result with positions mapped back through `pos reqs P`. -/
theorem levelRun_filtered (reqs : List (Constraint α × Nat)) (g : List (Nat × α)) (cfg : Config α)
    (solve : LinSolve α) (svd : Option (Svd α)) (P p i : Nat) (hp : p ≤ P) :
    ResRel (FailRel (pos reqs P)) (OutRel (pos reqs P))
      (levelRun (enumerate reqs) g cfg solve svd i p)
      (levelRun (enumerate (filteredReqs reqs P)) g cfg solve svd i p) := by
  unfold levelRun
  rw [filter_enumerate_level reqs P p hp, solveInner_relabel_cases]
  cases hm : modelNew ((enumerate (filteredReqs reqs P)).filter (fun e => e.priority ≤ p))
      (g.map (·.1)) with
  | error e =>
    simp only [solveInner, hm]
    exact Or.inl rfl
  | ok u =>
    dsimp only
    cases solveInner ((enumerate (filteredReqs reqs P)).filter (fun e => e.priority ≤ p)) g cfg
        (solve i) (svd.map (fun s => s i)) with
    | ok o => exact rfl
    | error fl => exact Or.inr rfl

/-- Related outcomes agree on whether anything is unsatisfied. -/
theorem OutRel_isEmpty (f : Nat → Nat) (a b : Outcome α) (h : OutRel f a b) :
    b.unsatisfied.isEmpty = a.unsatisfied.isEmpty := by
  rw [h]
  simp [Outcome.relabel]

/-! ### The loop -/

/-- **The loop on the levels `≤ P`.**  If the original loop, over strictly increasing levels that
are all requested priorities, returns an outcome `o`, and `P` is its solved priority, then the loop
of the filtered run over the levels `≤ P` — same call numbers — returns an outcome `o'` with
`o = o'` up to the position map.  (`res`/`res'` are the outcomes held on entry; a held outcome was
solved at a priority `≤ P`.) -/
theorem loopOver_filtered (reqs : List (Constraint α × Nat)) (g : List (Nat × α)) (cfg : Config α)
    (solve : LinSolve α) (svd : Option (Svd α)) (o : Outcome α) :
    ∀ (lvls : List Nat) (call : Nat) (res res' : Option (Outcome α)),
      lvls.Pairwise (· < ·) →
      (∀ q ∈ lvls, ∃ e ∈ enumerate reqs, e.priority = q) →
      OptRel (OutRel (pos reqs o.prioritySolved)) res res' →
      loopOver (levelResults (enumerate reqs) g cfg solve svd lvls call) res = .ok (some o) →
      ∃ o', loopOver (levelResults (enumerate (filteredReqs reqs o.prioritySolved)) g cfg solve svd
          (lvls.filter (· ≤ o.prioritySolved)) call) res' = .ok (some o') ∧
        OutRel (pos reqs o.prioritySolved) o o' := by
  intro lvls
  induction lvls with
  | nil =>
    intro call res res' _ _ hres h
    simp only [levelResults, loopOver] at h
    injection h with h
    subst h
    cases res' with
    | none => exact hres.elim
    | some b => exact ⟨b, rfl, hres⟩
  | cons p rest ih =>
    intro call res res' hsorted hmem hres h
    have hsr : rest.Pairwise (· < ·) := (List.pairwise_cons.mp hsorted).2
    have hpr : ∀ q ∈ rest, p < q := (List.pairwise_cons.mp hsorted).1
    have hmr : ∀ q ∈ rest, ∃ e ∈ enumerate reqs, e.priority = q :=
      fun q hq => hmem q (List.mem_cons_of_mem _ hq)
    by_cases hp : p ≤ o.prioritySolved
    · -- the level is visited by both runs
      have hf : (p :: rest).filter (· ≤ o.prioritySolved) =
          p :: rest.filter (· ≤ o.prioritySolved) := by simp [hp]
      rw [hf]
      have hlv := levelRun_filtered reqs g cfg solve svd o.prioritySolved p call hp
      simp only [levelResults] at h ⊢
      cases hr : levelRun (enumerate reqs) g cfg solve svd call p with
      | error fl =>
        cases hr' : levelRun (enumerate (filteredReqs reqs o.prioritySolved)) g cfg solve svd
            call p with
        | ok b => rw [hr, hr'] at hlv; exact hlv.elim
        | error fl' =>
          rw [hr] at h
          cases res with
          | none => simp [loopOver] at h
          | some a =>
            simp only [loopOver] at h
            injection h with h
            injection h with h
            subst h
            cases res' with
            | none => exact hres.elim
            | some b => exact ⟨b, rfl, hres⟩
      | ok a =>
        cases hr' : levelRun (enumerate (filteredReqs reqs o.prioritySolved)) g cfg solve svd
            call p with
        | error fl' => rw [hr, hr'] at hlv; exact hlv.elim
        | ok b =>
          rw [hr, hr'] at hlv
          have hab : OutRel (pos reqs o.prioritySolved) a b := hlv
          have hu := OutRel_isEmpty _ a b hab
          rw [hr] at h
          simp only [loopOver, hu] at h ⊢
          split at h
          · rename_i hne
            simp only [hne, if_true]
            injection h with h
            injection h with h
            cases res with
            | none =>
              cases res' with
              | none =>
                simp only [Option.getD] at h ⊢
                subst h
                exact ⟨b, rfl, hab⟩
              | some b' => exact hres.elim
            | some a' =>
              cases res' with
              | none => exact hres.elim
              | some b' =>
                simp only [Option.getD] at h ⊢
                subst h
                exact ⟨b', rfl, hres⟩
          · rename_i hne
            simp only [hne, if_false]
            exact ih (call + 1) (some a) (some b) hsr hmr hab h
    · -- the level is above `P`: the filtered run has no level left
      have hf : (p :: rest).filter (· ≤ o.prioritySolved) = [] := by
        rw [List.filter_eq_nil_iff]
        intro q hq
        rcases List.mem_cons.mp hq with rfl | hq
        · simpa using hp
        · have := hpr q hq
          simp only [decide_eq_true_eq]
          omega
      rw [hf]
      simp only [levelResults, loopOver]
      -- the original run must return what it held
      have hold : res = some o := by
        rcases loopOver_ok_mem _ _ _ h with h1 | h1
        · exact h1
        · exfalso
          obtain ⟨q, hq, i, hi⟩ := mem_levelResults _ _ _ _ _ _ _ _ h1
          obtain ⟨_, _, _, _, _, _, hps, _⟩ := solveInner_ok _ _ _ _ _ _ hi.symm
          rw [maxPriority_filter _ q (hmem q hq)] at hps
          rcases List.mem_cons.mp hq with rfl | hq'
          · exact hp (by omega)
          · have := hpr q hq'
            omega
      subst hold
      cases res' with
      | none => exact hres.elim
      | some b => exact ⟨b, rfl, hres⟩

/-! ### The entry point -/

/-- **C03.3 at the public entry point.**  If a prioritised solve of `reqs` succeeds with outcome `o`
and `P = o.prioritySolved`, then a fresh prioritised solve of only the requests of priority `≤ P` —
same guesses, same configuration, *same oracles with no re-indexing* — succeeds with an outcome
`o'`, and `o` is `o'` with every reported position (in `unsatisfied` and in the `about` of each
warning) mapped back through `pos reqs P`; everything else is identical.  Every request list
(the empty one included), every scalar type. -/
theorem result_is_filtered_solve (reqs : List (Constraint α × Nat)) (g : List (Nat × α))
    (cfg : Config α) (solve : LinSolve α) (svd : Option (Svd α)) (o : Outcome α)
    (h : solveWithPriority reqs g cfg solve svd = .ok o) :
    ∃ o', solveWithPriority (filteredReqs reqs o.prioritySolved) g cfg solve svd = .ok o' ∧
      o = o'.relabel (pos reqs o.prioritySolved) := by
  cases reqs with
  | nil =>
    refine ⟨o, ?_, ?_⟩
    · simpa [filteredReqs] using h
    · simp only [solveWithPriority, List.isEmpty_nil, if_true] at h
      injection h with h
      subst h
      simp [noConstraintsOutcome, Outcome.relabel]
  | cons r0 rs =>
    generalize hreqs : r0 :: rs = reqs at h
    have hne : reqs ≠ [] := by rw [← hreqs]; simp
    have hne' : reqs.isEmpty = false := by rw [← hreqs]; rfl
    unfold solveWithPriority at h
    rw [hne'] at h
    simp only [Bool.false_eq_true, if_false] at h
    rw [priorityLoop_eq_loopOver] at h
    split at h
    · simp at h
    · rename_i o1 ho
      injection h with h
      subst h
      -- the solved priority is a requested priority
      have hP : ∃ r ∈ reqs, r.2 = o1.prioritySolved := by
        rcases loopOver_ok_mem _ _ _ ho with h1 | h1
        · simp at h1
        · obtain ⟨q, hq, i, hi⟩ := mem_levelResults _ _ _ _ _ _ _ _ h1
          obtain ⟨_, _, _, _, _, _, hps, _⟩ := solveInner_ok _ _ _ _ _ _ hi.symm
          have hq' := (mem_levels _ q).mp hq
          rw [maxPriority_filter _ q hq'] at hps
          rw [hps]
          exact (enumerate_priorities reqs q).mp hq'
      have hne2 : (filteredReqs reqs o1.prioritySolved).isEmpty = false := by
        obtain ⟨r, hr, hrp⟩ := hP
        have : r ∈ filteredReqs reqs o1.prioritySolved :=
          List.mem_filter.mpr ⟨hr, by simp [hrp]⟩
        cases hfe : filteredReqs reqs o1.prioritySolved with
        | nil => rw [hfe] at this; simp at this
        | cons _ _ => rfl
      obtain ⟨o', ho', hrel⟩ := loopOver_filtered reqs g cfg solve svd o1
        (levels (enumerate reqs)) 0 none none (levels_sorted _)
        (fun q hq => (mem_levels _ q).mp hq) trivial ho
      refine ⟨o', ?_, hrel⟩
      unfold solveWithPriority
      rw [hne2]
      simp only [Bool.false_eq_true, if_false]
      rw [priorityLoop_eq_loopOver, levels_filteredReqs, ho']
    · rename_i hnone
      exfalso
      have hnil := loopOver_none_nil_only _ hnone
      have hl := levels_ne_nil reqs hne
      cases hlv : levels (enumerate reqs) with
      | nil => exact hl hlv
      | cons p rest => rw [hlv] at hnil; simp [levelResults] at hnil

/-- `result_is_filtered_solve`, field by field: the fresh solve of the requests of priority
`≤ P = o.prioritySolved` returns the same final values, iteration count, solved priority and
freedom analysis; its unsatisfied positions, mapped through `pos reqs P`, are the original ones; its
warnings have the same content, in the same order, with `about` mapped through `pos reqs P`. -/
theorem result_is_filtered_solve_fields (reqs : List (Constraint α × Nat)) (g : List (Nat × α))
    (cfg : Config α) (solve : LinSolve α) (svd : Option (Svd α)) (o : Outcome α)
    (h : solveWithPriority reqs g cfg solve svd = .ok o) :
    ∃ o', solveWithPriority (filteredReqs reqs o.prioritySolved) g cfg solve svd = .ok o' ∧
      o'.finalValues = o.finalValues ∧ o'.iterations = o.iterations ∧
      o'.prioritySolved = o.prioritySolved ∧
      o'.unsatisfied.map (pos reqs o.prioritySolved) = o.unsatisfied ∧
      o'.warnings.map (fun w => (⟨w.about.map (pos reqs o.prioritySolved), w.content⟩ : Warning α))
        = o.warnings ∧
      o'.underconstrained = o.underconstrained := by
  obtain ⟨o', ho', hrel⟩ := result_is_filtered_solve reqs g cfg solve svd o h
  refine ⟨o', ho', ?_, ?_, ?_, ?_, ?_, ?_⟩ <;>
    · conv => rhs; rw [hrel]
      rfl

/-! ### The oracle indices coincide -/

/-- A strictly increasing list is its members `≤ P` followed by its members `> P`. -/
theorem sorted_split_le : ∀ (l : List Nat) (P : Nat), l.Pairwise (· < ·) →
    l = l.filter (· ≤ P) ++ l.filter (fun q => !decide (q ≤ P)) := by
  intro l P
  induction l with
  | nil => intro _; rfl
  | cons p rest ih =>
    intro hs
    have hsr : rest.Pairwise (· < ·) := (List.pairwise_cons.mp hs).2
    have hpr : ∀ q ∈ rest, p < q := (List.pairwise_cons.mp hs).1
    by_cases hp : p ≤ P
    · have := ih hsr
      simp only [List.filter_cons, hp, decide_true, if_true, Bool.not_true, Bool.false_eq_true,
        if_false, List.cons_append]
      exact congrArg _ this
    · have h1 : (p :: rest).filter (· ≤ P) = [] := by
        rw [List.filter_eq_nil_iff]
        intro q hq
        rcases List.mem_cons.mp hq with rfl | hq
        · simpa using hp
        · have := hpr q hq
          simp only [decide_eq_true_eq]
          omega
      have h2 : (p :: rest).filter (fun q => !decide (q ≤ P)) = p :: rest := by
        rw [List.filter_eq_self]
        intro q hq
        rcases List.mem_cons.mp hq with rfl | hq
        · simpa using hp
        · have := hpr q hq
          simp only [Bool.not_eq_eq_eq_not, Bool.not_true, decide_eq_false_iff_not]
          omega
      rw [h1, h2]
      rfl

/-- **The levels of the filtered list are an initial segment of the original levels**: the original
level list is the filtered list's level list followed by the levels above `P`. -/
theorem levels_eq_filtered_append (reqs : List (Constraint α × Nat)) (P : Nat) :
    levels (enumerate reqs) = levels (enumerate (filteredReqs reqs P)) ++
      (levels (enumerate reqs)).filter (fun q => !decide (q ≤ P)) := by
  rw [levels_filteredReqs]
  exact sorted_split_le _ P (levels_sorted _)

/-- **Level number `k` is the same level in both runs** (so both runs consult the oracles at index
`k` for it): the `k`-th level of the filtered list is the `k`-th level of the original list. -/
theorem level_index_coincide (reqs : List (Constraint α × Nat)) (P k p : Nat)
    (h : (levels (enumerate (filteredReqs reqs P)))[k]? = some p) :
    (levels (enumerate reqs))[k]? = some p ∧ p ≤ P := by
  constructor
  · rw [levels_eq_filtered_append reqs P]
    have hk : k < (levels (enumerate (filteredReqs reqs P))).length :=
      (List.getElem?_eq_some_iff.mp h).1
    rw [List.getElem?_append_left hk]
    exact h
  · have hm : p ∈ levels (enumerate (filteredReqs reqs P)) := List.mem_of_getElem? h
    rw [levels_filteredReqs, List.mem_filter] at hm
    simpa using hm.2

/-- The per-level results over a concatenated level list. -/
theorem levelResults_append (es : List (Entry α)) (g : List (Nat × α)) (cfg : Config α)
    (solve : LinSolve α) (svd : Option (Svd α)) : ∀ (l1 l2 : List Nat) (call : Nat),
    levelResults es g cfg solve svd (l1 ++ l2) call =
      levelResults es g cfg solve svd l1 call ++
        levelResults es g cfg solve svd l2 (call + l1.length) := by
  intro l1
  induction l1 with
  | nil => intro l2 call; rfl
  | cons p rest ih =>
    intro l2 call
    simp only [List.cons_append, levelResults, ih, List.length_cons]
    rw [show call + 1 + rest.length = call + (rest.length + 1) from by omega]

/-- One result per level. -/
theorem levelResults_length (es : List (Entry α)) (g : List (Nat × α)) (cfg : Config α)
    (solve : LinSolve α) (svd : Option (Svd α)) : ∀ (l : List Nat) (call : Nat),
    (levelResults es g cfg solve svd l call).length = l.length := by
  intro l
  induction l with
  | nil => intro call; rfl
  | cons p rest ih => intro call; simp [levelResults, ih]

/-- **All levels at once, for every `P`.**  The per-level results of a fresh prioritised solve of
the requests of priority `≤ P` are, level by level and with the same oracle indices, the first
per-level results of the original run (as many as there are levels `≤ P`), up to the position map:
both succeed or both fail; outcomes differ only by `pos reqs P` on the reported positions. -/
theorem levelResults_filtered (reqs : List (Constraint α × Nat)) (g : List (Nat × α))
    (cfg : Config α) (solve : LinSolve α) (svd : Option (Svd α)) (P : Nat) :
    ListRel (ResRel (FailRel (pos reqs P)) (OutRel (pos reqs P)))
      ((levelResults (enumerate reqs) g cfg solve svd (levels (enumerate reqs)) 0).take
        (levels (enumerate (filteredReqs reqs P))).length)
      (levelResults (enumerate (filteredReqs reqs P)) g cfg solve svd
        (levels (enumerate (filteredReqs reqs P))) 0) := by
  have htake : (levelResults (enumerate reqs) g cfg solve svd (levels (enumerate reqs)) 0).take
      (levels (enumerate (filteredReqs reqs P))).length =
      levelResults (enumerate reqs) g cfg solve svd (levels (enumerate (filteredReqs reqs P))) 0 := by
    conv => lhs; rw [levels_eq_filtered_append reqs P, levelResults_append]
    rw [List.take_append_of_le_length (by rw [levelResults_length]; exact Nat.le_refl _)]
    rw [List.take_of_length_le (by rw [levelResults_length]; exact Nat.le_refl _)]
  rw [htake]
  apply levelResults_rel
  intro i p hp
  exact levelRun_filtered reqs g cfg solve svd P p (0 + i) (level_index_coincide reqs P i p hp).2

/-! ### The error clause -/

/-- **C03.2b at the public entry point.**  If the prioritised solve of `reqs` fails with `f`, then
`reqs` has a lowest requested priority number `p` (the highest-priority level), and the fresh solve
of only the requests of that level fails too, with a failure `f'` such that `f` is `f'` with the
warnings' positions mapped back through `pos reqs p`: same error (the request named by a
`MissingGuess` error of validation is mapped through `pos`; an error coming out of an oracle is passed
on unchanged), same `numVars`, same `numEqs`. -/
theorem error_is_filtered_solve (reqs : List (Constraint α × Nat)) (g : List (Nat × α))
    (cfg : Config α) (solve : LinSolve α) (svd : Option (Svd α)) (f : Failure α)
    (h : solveWithPriority reqs g cfg solve svd = .error f) :
    ∃ p rest f', levels (enumerate reqs) = p :: rest ∧
      solveWithPriority (filteredReqs reqs p) g cfg solve svd = .error f' ∧
      (f = f'.relabel (pos reqs p) ∨ f = f'.relabelW (pos reqs p)) := by
  -- the first level of the original run fails with `f`
  have h0 : ∃ p rest, levels (enumerate reqs) = p :: rest ∧
      levelRun (enumerate reqs) g cfg solve svd 0 p = .error f := by
    unfold solveWithPriority at h
    split at h
    · simp at h
    · rw [priorityLoop_eq_loopOver] at h
      split at h
      · rename_i f' hf
        injection h with h; subst h
        have := loopOver_error _ _ hf
        cases hl : levels (enumerate reqs) with
        | nil => rw [hl] at this; simp [levelResults] at this
        | cons p rest =>
          rw [hl, levelResults_head] at this
          exact ⟨p, rest, rfl, by simpa using this⟩
      · simp at h
      · simp at h
  obtain ⟨p, rest, hl, hrun⟩ := h0
  have hrel := levelRun_filtered reqs g cfg solve svd p p 0 (Nat.le_refl p)
  rw [hrun] at hrel
  cases hr' : levelRun (enumerate (filteredReqs reqs p)) g cfg solve svd 0 p with
  | ok b => rw [hr'] at hrel; exact hrel.elim
  | error f' =>
    rw [hr'] at hrel
    refine ⟨p, rest, f', hl, ?_, hrel⟩
    have hs : (p :: rest).Pairwise (· < ·) := hl ▸ levels_sorted (enumerate reqs)
    have hlv : levels (enumerate (filteredReqs reqs p)) = [p] := by
      rw [levels_filteredReqs, hl]
      have hpr : ∀ q ∈ rest, p < q := (List.pairwise_cons.mp hs).1
      have : rest.filter (· ≤ p) = [] := by
        rw [List.filter_eq_nil_iff]
        intro q hq
        have := hpr q hq
        simp only [decide_eq_true_eq]
        omega
      simp [this]
    have hne : (filteredReqs reqs p).isEmpty = false := by
      cases hfe : filteredReqs reqs p with
      | nil => rw [hfe] at hlv; simp [enumerate, levels] at hlv
      | cons _ _ => rfl
    unfold solveWithPriority
    rw [hne]
    simp only [Bool.false_eq_true, if_false]
    rw [priorityLoop_eq_loopOver, hlv]
    simp only [levelResults, hr', loopOver]

/-- One level under the oracle hypothesis of `solveInner_relabel` (the LU and SVD oracles never
answer `MissingGuess`): the original level result is exactly the filtered run's level result with
every reported request mapped through `pos reqs P`. -/
theorem levelRun_filtered_eq (reqs : List (Constraint α × Nat)) (g : List (Nat × α)) (cfg : Config α)
    (solve : LinSolve α) (svd : Option (Svd α)) (P p i : Nat) (hp : p ≤ P)
    (hsolve : ∀ k jac r e, solve i k jac r = .error e → e.namesRequest = false)
    (hsvd : ∀ s, svd = some s → ∀ jac e, s i jac = .error e → e.namesRequest = false) :
    levelRun (enumerate reqs) g cfg solve svd i p =
      relabelResult (pos reqs P) (levelRun (enumerate (filteredReqs reqs P)) g cfg solve svd i p) := by
  unfold levelRun
  rw [filter_enumerate_level reqs P p hp]
  apply solveInner_relabel _ _ _ _ _ _ hsolve
  intro a ha jac e he
  cases svd with
  | none => cases ha
  | some s =>
    simp only [Option.map] at ha
    injection ha with ha
    subst ha
    exact hsvd s rfl jac e he

/-- **The error clause, in one equation**: when the oracles of call 0 never answer `MissingGuess`
(the real ones cannot), the failure of the prioritised solve is the failure of the fresh solve of
the highest-priority level with every reported request (warnings, and the request named by a
`MissingGuess`) mapped back through `pos`. -/
theorem error_is_filtered_solve_eq (reqs : List (Constraint α × Nat)) (g : List (Nat × α))
    (cfg : Config α) (solve : LinSolve α) (svd : Option (Svd α)) (f : Failure α)
    (hsolve : ∀ k jac r e, solve 0 k jac r = .error e → e.namesRequest = false)
    (hsvd : ∀ s, svd = some s → ∀ jac e, s 0 jac = .error e → e.namesRequest = false)
    (h : solveWithPriority reqs g cfg solve svd = .error f) :
    ∃ p rest f', levels (enumerate reqs) = p :: rest ∧
      solveWithPriority (filteredReqs reqs p) g cfg solve svd = .error f' ∧
      f = f'.relabel (pos reqs p) := by
  obtain ⟨p, rest, f', hl, hs, hrel⟩ := error_is_filtered_solve reqs g cfg solve svd f h
  refine ⟨p, rest, f', hl, hs, ?_⟩
  -- both failures are the level-0 results; compare them through `levelRun_filtered_eq`
  have hlv : levels (enumerate (filteredReqs reqs p)) = [p] := by
    have hsort : (p :: rest).Pairwise (· < ·) := hl ▸ levels_sorted (enumerate reqs)
    rw [levels_filteredReqs, hl]
    have hpr : ∀ q ∈ rest, p < q := (List.pairwise_cons.mp hsort).1
    have : rest.filter (· ≤ p) = [] := by
      rw [List.filter_eq_nil_iff]
      intro q hq
      have := hpr q hq
      simp only [decide_eq_true_eq]
      omega
    simp [this]
  have h1 : levelRun (enumerate reqs) g cfg solve svd 0 p = .error f := by
    unfold solveWithPriority at h
    split at h
    · simp at h
    · rw [priorityLoop_eq_loopOver, hl] at h
      split at h
      · rename_i f0 hf
        injection h with h; subst h
        have := loopOver_error _ _ hf
        rw [levelResults_head] at this
        simpa using this
      · simp at h
      · simp at h
  have h2 : levelRun (enumerate (filteredReqs reqs p)) g cfg solve svd 0 p = .error f' := by
    unfold solveWithPriority at hs
    split at hs
    · simp at hs
    · rw [priorityLoop_eq_loopOver, hlv] at hs
      split at hs
      · rename_i f0 hf
        injection hs with hs; subst hs
        have := loopOver_error _ _ hf
        rw [levelResults_head] at this
        simpa using this
      · simp at hs
      · simp at hs
  have := levelRun_filtered_eq reqs g cfg solve svd p p 0 (Nat.le_refl p) hsolve hsvd
  rw [h1, h2] at this
  simp only [relabelResult] at this
  injection this

/-! ### Non-vacuity: the position map on a two-level list -/

/-- Two levels; the request of the higher-priority level (priority number 0) sits at position 1. -/
example (c0 c1 : Constraint α) :
    filteredReqs [(c0, 1), (c1, 0)] 0 = [(c1, 0)] ∧
    keptPositions [(c0, 1), (c1, 0)] 0 = [1] ∧
    pos [(c0, 1), (c1, 0)] 0 0 = 1 ∧
    levels (enumerate [(c0, 1), (c1, 0)]) = [0, 1] ∧
    levels (enumerate (filteredReqs [(c0, 1), (c1, 0)] 0)) = [0] := by
  refine ⟨rfl, rfl, rfl, rfl, rfl⟩

/-- Three requests, two kept: positions 0 and 1 of the filtered list are positions 0 and 2. -/
example (c0 c1 c2 : Constraint α) :
    filteredReqs [(c0, 2), (c1, 7), (c2, 0)] 3 = [(c0, 2), (c2, 0)] ∧
    pos [(c0, 2), (c1, 7), (c2, 0)] 3 0 = 0 ∧ pos [(c0, 2), (c1, 7), (c2, 0)] 3 1 = 2 := by
  refine ⟨rfl, rfl, rfl⟩

end Ezpz
