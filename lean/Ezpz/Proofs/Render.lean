/-
A printer for the text format and the round trip `parse ∘ print = id` on the *structure* of a
problem: `parseProblem (render p) = some p` for every well-formed `p`.

Numbers are handled through a `NumCodec`: a type of number tokens with a printer `rn`, a value
`val : ν → Float`, and the proof that the model's number parser reads `rn x` back as `val x`.  Two
concrete codecs are given: `intCodec` prints signed decimal integers `[-]ddd`, with value the
parser's own exact decimal→binary64 conversion `decToFloat neg n 0`; `decCodec` prints signed
decimals `[-]ddd[.ddd]` (no exponent), with value `decToFloat neg mantissa (-#fraction digits)`.

Layers: (i) lexical lemmas, (ii) one lemma per instruction form (`parse_render_instr`),
(iii) lines and sections (`parseProblem_layout`), then `parse_render_codec`, `parse_render`,
`parse_render_dec`.
-/
import Ezpz.Model.Text.Parser
set_option linter.unusedSectionVars false
set_option linter.unusedVariables false
set_option linter.unusedSimpArgs false
namespace Ezpz.Text
open Ezpz

/-! ### (i) Lexical lemmas -/

theorem takeWhile_append_stop {p : Char → Bool} :
    ∀ (l rest : List Char), (∀ c ∈ l, p c = true) → (∀ c r, rest = c :: r → p c = false) →
      (l ++ rest).takeWhile p = l ∧ (l ++ rest).dropWhile p = rest := by
  intro l
  induction l with
  | nil =>
    intro rest _ hr
    cases rest with
    | nil => simp
    | cons c r => simp [hr c r rfl]
  | cons a l ih =>
    intro rest hl hr
    have ha : p a = true := hl a (by simp)
    obtain ⟨h1, h2⟩ := ih rest (fun c hc => hl c (by simp [hc])) hr
    simp [List.takeWhile_cons, List.dropWhile_cons, ha, h1, h2]

/-- Dropping as many elements as `takeWhile` took is `dropWhile`. -/
theorem drop_takeWhile_length (p : Char → Bool) (i : List Char) :
    i.drop (i.takeWhile p).length = i.dropWhile p := by
  induction i with
  | nil => rfl
  | cons a l ih =>
    by_cases ha : p a = true
    · simp [List.takeWhile_cons, List.dropWhile_cons, ha, ih]
    · simp [List.takeWhile_cons, List.dropWhile_cons, ha]

/-- Does the input stop a label: it is empty or starts with a non-alphanumeric character. -/
def stopsLabel : List Char → Bool
  | [] => true
  | c :: _ => !isAlphanum c

/-- Identifier characters per the grammar (`parse_label`): non-empty, ASCII letters and digits. -/
def isIdent (cs : List Char) : Bool := !cs.isEmpty && cs.all isAlphanum

/-- What `stopsLabel` says about a non-empty input: its first character is not alphanumeric. -/
theorem stopsLabel_spec {rest : List Char} (h : stopsLabel rest = true) :
    ∀ c r, rest = c :: r → isAlphanum c = false := by
  intro c r hr; subst hr; simpa [stopsLabel] using h

/-- `parse_label` in terms of `takeWhile`/`dropWhile`. -/
theorem parseLabel_eq (i : List Char) :
    parseLabel i = if (i.takeWhile isAlphanum).isEmpty then none
      else some (String.ofList (i.takeWhile isAlphanum), i.dropWhile isAlphanum) := by
  simp only [parseLabel, drop_takeWhile_length]

/-- `parse_label` reads an identifier back, up to the first non-identifier character. -/
theorem parseLabel_ident (l rest : List Char) (hl : isIdent l = true) (hr : stopsLabel rest = true) :
    parseLabel (l ++ rest) = some (String.ofList l, rest) := by
  simp only [isIdent, Bool.and_eq_true, Bool.not_eq_true', List.all_eq_true] at hl
  obtain ⟨h1, h2⟩ := takeWhile_append_stop (p := isAlphanum) l rest hl.2 (stopsLabel_spec hr)
  rw [parseLabel_eq, h1, h2, hl.1]
  rfl

/-- `parse_label` fails on an input that does not start with an alphanumeric character. -/
theorem parseLabel_none (i : List Char) (h : stopsLabel i = true) : parseLabel i = none := by
  cases i with
  | nil => rfl
  | cons c r =>
    have : isAlphanum c = false := by simpa [stopsLabel] using h
    simp [parseLabel, List.takeWhile_cons, this]

/-- An alphanumeric character is neither a space nor a tab. -/
theorem alnum_not_space {c : Char} (h : isAlphanum c = true) :
    (c == ' ' || c == '\t') = false := by
  cases hc : (c == ' ' || c == '\t') with
  | false => rfl
  | true =>
    exfalso
    simp only [Bool.or_eq_true, beq_iff_eq] at hc
    rcases hc with hc | hc <;> subst hc <;> exact absurd h (by decide)

/-- `space0` leaves an input alone that starts with a non-blank. -/
theorem space0_cons_of_not_space {c : Char} {r : List Char}
    (h : (c == ' ' || c == '\t') = false) : space0 (c :: r) = c :: r := by
  simp only [space0, List.dropWhile_cons, h]
  rfl

/-- `space0` leaves an input alone that starts with an identifier. -/
theorem space0_ident (l rest : List Char) (hl : isIdent l = true) : space0 (l ++ rest) = l ++ rest := by
  cases l with
  | nil => simp [isIdent] at hl
  | cons c r =>
    simp only [isIdent, Bool.and_eq_true, List.all_cons] at hl
    exact space0_cons_of_not_space (alnum_not_space hl.2.1)

/-- `space0` skips a leading space. -/
theorem space0_space (r : List Char) : space0 (' ' :: r) = space0 r := by
  simp [space0, List.dropWhile_cons]

/-- `chr c` accepts `c`. -/
theorem chr_hit (c : Char) (r : List Char) : chr c (c :: r) = some ((), r) := by simp [chr]

/-- `chr c` rejects any other character. -/
theorem chr_miss {c d : Char} (r : List Char) (h : (d == c) = false) : chr c (d :: r) = none := by
  simp [chr, h]

/-- Labels separated by `", "`. -/
def commaList : List (List Char) → List Char
  | [] => []
  | [l] => l
  | l :: l' :: ls => l ++ ',' :: ' ' :: commaList (l' :: ls)

/-- A non-empty comma list starts with its first label. -/
theorem commaList_cons_append (l : List Char) (t : List (List Char)) (rest : List Char) :
    ∃ Z, commaList (l :: t) ++ rest = l ++ Z := by
  cases t with
  | nil => exact ⟨rest, rfl⟩
  | cons l' t => exact ⟨',' :: ' ' :: commaList (l' :: t) ++ rest, by simp [commaList]⟩

/-- `commasep` reads `", "` when what follows does not start with a blank. -/
theorem commasep_hit (X : List Char) (hX : space0 X = X) :
    commasep (',' :: ' ' :: X) = some ((), X) := by
  have h1 : space0 (',' :: ' ' :: X) = ',' :: ' ' :: X := space0_cons_of_not_space (by decide)
  simp [commasep, h1, chr_hit, space0_space, hX]

/-- `n` identifiers separated by `", "` are read back by `labelsN` (which also skips the blanks
after the last one). -/
theorem labelsN_spec : ∀ (ls : List (List Char)) (rest : List Char), ls ≠ [] →
    (∀ l ∈ ls, isIdent l = true) → stopsLabel rest = true →
    labelsN ls.length (commaList ls ++ rest) = some (ls.map String.ofList, space0 rest) := by
  intro ls
  induction ls with
  | nil => intro rest h; exact absurd rfl h
  | cons l t ih =>
    intro rest _ hid hr
    have hl := hid l (by simp)
    cases t with
    | nil =>
      simp only [List.length_cons, List.length_nil, commaList, labelsN, parseLabel_ident l rest hl hr]
      rfl
    | cons l' t =>
      have hl' := hid l' (by simp)
      obtain ⟨Z, hZ⟩ := commaList_cons_append l' t rest
      have hX : space0 (commaList (l' :: t) ++ rest) = commaList (l' :: t) ++ rest := by
        rw [hZ]; exact space0_ident l' Z hl'
      have ih' := ih rest (by simp) (fun x hx => hid x (by simp [hx])) hr
      simp only [List.length_cons] at ih' ⊢
      simp only [commaList, List.append_assoc, List.cons_append, labelsN]
      rw [parseLabel_ident l _ hl (by simp [stopsLabel]; decide)]
      simp only [commasep_hit _ hX, ih']
      rfl

/-- The same for `labelsTight`, which does not skip trailing blanks. -/
theorem labelsTight_spec : ∀ (ls : List (List Char)) (rest : List Char), ls ≠ [] →
    (∀ l ∈ ls, isIdent l = true) → stopsLabel rest = true →
    labelsTight ls.length (commaList ls ++ rest) = some (ls.map String.ofList, rest) := by
  intro ls
  induction ls with
  | nil => intro rest h; exact absurd rfl h
  | cons l t ih =>
    intro rest _ hid hr
    have hl := hid l (by simp)
    cases t with
    | nil =>
      simp only [List.length_cons, List.length_nil, commaList, labelsTight,
        parseLabel_ident l rest hl hr]
      rfl
    | cons l' t =>
      have hl' := hid l' (by simp)
      obtain ⟨Z, hZ⟩ := commaList_cons_append l' t rest
      have hX : space0 (commaList (l' :: t) ++ rest) = commaList (l' :: t) ++ rest := by
        rw [hZ]; exact space0_ident l' Z hl'
      have ih' := ih rest (by simp) (fun x hx => hid x (by simp [hx])) hr
      simp only [List.length_cons] at ih' ⊢
      simp only [commaList, List.append_assoc, List.cons_append, labelsTight]
      rw [parseLabel_ident l _ hl (by simp [stopsLabel]; decide)]
      simp only [commasep_hit _ hX, ih']
      rfl

/-! ### The 24 alternatives of `parse_instruction`, named -/

def altPoint : P (List (Instr Float)) :=
  fun i => match tag "point" i with
    | some (_, r) =>
      match space1 r with
      | some r' => (parseLabel r').map fun (l, r) => ([.declarePoint l], r)
      | none => none
    | none => none
/-- Alternative 2: `circle <label>`. -/
def altCircle : P (List (Instr Float)) :=
  fun i => match tag "circle" i with
    | some (_, r) =>
      match space1 r with
      | some r' => (parseLabel r').map fun (l, r) => ([.declareCircle l], r)
      | none => none
    | none => none
/-- Alternative 3: `arc <label>`. -/
def altArc : P (List (Instr Float)) :=
  fun i => match tag "arc" i with
    | some (_, r) =>
      match space1 r with
      | some r' => (parseLabel r').map fun (l, r) => ([.declareArc l], r)
      | none => none
    | none => none
/-- Alternative 4: `<label>.<x|y> = <number>`. -/
def altFixComp : P (List (Instr Float)) :=
  fun i => match parseLabel i with
    | some (l, '.' :: r) =>
      match parseComponent r with
      | some (c, r2) =>
        match equalsSign r2 with
        | some (_, r3) => (parseNumber r3).map fun (v, r4) => ([.fixPointComponent l c v], r4)
        | none => none
      | none => none
    | _ => none
/-- Alternative 5: `<label>.center.<x|y> = <number>`. -/
def altFixCenter : P (List (Instr Float)) :=
  fun i => match parseLabel i with
    | some (l, r) =>
      match tag ".center." r with
      | some (_, r1) =>
        match parseComponent r1 with
        | some (c, r2) =>
          match equalsSign r2 with
          | some (_, r3) => (parseNumber r3).map fun (v, r4) => ([.fixCenterPointComponent l c v], r4)
          | none => none
        | none => none
      | none => none
    | none => none
/-- Alternative 6: `<label>(.<label>)? = (<number>, <number>)`. -/
def altAssign : P (List (Instr Float)) :=
  fun i => match parseLabelOptSuffix i with
    | some (l, r) =>
      match chr '=' (space0 r) with
      | some (_, r2) =>
        (parsePoint (space0 r2)).map fun ((x, y), r3) =>
          ([.fixPointComponent l .x x, .fixPointComponent l .y y], r3)
      | none => none
    | none => none

/-- The 24 alternatives of `parse_instruction`, in the order of the Rust `alt`s. -/
def alts : List (P (List (Instr Float))) := [
    altPoint, altCircle, altArc, altFixComp, altFixCenter, altAssign,
    mapP (kw "horizontal" (labelsN 2)) fun ls => match ls with
      | [a, b] => some [.horizontal a b] | _ => none,
    mapP (kw "coincident" (labelsN 2)) fun ls => match ls with
      | [a, b] => some [.pointsCoincident a b] | _ => none,
    mapP (kw "point_arc_coincident" (labelsN 2)) fun ls => match ls with
      | [a, b] => some [.pointArcCoincident a b] | _ => none,
    mapP (kw "midpoint" (labelsN 3)) fun ls => match ls with
      | [a, b, c] => some [.midpoint a b c] | _ => none,
    mapP (kw "symmetric" (labelsN 4)) fun ls => match ls with
      | [p, q, a, b] => some [.symmetric p q a b] | _ => none,
    mapP (kw "vertical" (labelsN 2)) fun ls => match ls with
      | [a, b] => some [.vertical a b] | _ => none,
    mapP (kw "distance" (labelsThen 2 parseNumberExpr)) fun (ls, d) => match ls with
      | [a, b] => some [.distance a b d] | _ => none,
    mapP (kw "parallel" (labelsN 4)) fun ls => match ls with
      | [a, b, c, d] => some [.parallel a b c d] | _ => none,
    mapP (kw "perpendicular" (labelsN 4)) fun ls => match ls with
      | [a, b, c, d] => some [.perpendicular a b c d] | _ => none,
    mapP (kw "lines_at_angle" (labelsThen 4 parseAngle)) fun (ls, ang) => match ls with
      | [a, b, c, d] => some [.angleLine a b c d ang] | _ => none,
    mapP (kw "radius" (labelsTightThen 1 parseNumberExpr)) fun (ls, r) => match ls with
      | [c] => some [.circleRadius c r] | _ => none,
    mapP (kw "tangent" (labelsTight 3)) fun ls => match ls with
      | [p0, p1, c] => some [.tangent p0 p1 c] | _ => none,
    mapP (kw "arc_radius" (labelsTightThen 1 parseNumber)) fun (ls, r) => match ls with
      | [a] => some [.arcRadius a r] | _ => none,
    mapP (kw "arc_length" (labelsTightThen 1 parseNumber)) fun (ls, d) => match ls with
      | [a] => some [.arcLength a d] | _ => none,
    mapP (kw "is_arc" (labelsTight 1)) fun ls => match ls with
      | [a] => some [.isArc a] | _ => none,
    mapP (kw "point_line_distance" threeLabelsNum) fun (ls, d) => match ls with
      | [p, l0, l1] => some [.pointLineDistance p l0 l1 d] | _ => none,
    mapP (kw "line" (labelsTight 2)) fun ls => match ls with
      | [a, b] => some [.line a b] | _ => none,
    mapP (kw "lines_equal_length" (labelsN 4)) fun ls => match ls with
      | [a, b, c, d] => some [.linesEqualLength a b c d] | _ => none
  ]

/-- `parseInstruction` is the ordered choice over the named alternatives. -/
theorem parseInstruction_eq (i0 : Input) : parseInstruction i0 = firstOf alts (space0 i0) := rfl

/-- Ordered choice: a failing first alternative is skipped. -/
theorem firstOf_skip {β : Type} {p : P β} {ps : List (P β)} {i : Input} {r : Option (β × Input)}
    (h1 : p i = none) (h2 : firstOf ps i = r) : firstOf (p :: ps) i = r := by
  simp [firstOf, h1, h2]

/-- Ordered choice: a succeeding first alternative decides. -/
theorem firstOf_hit {β : Type} {p : P β} {ps : List (P β)} {i : Input} {r : β × Input}
    (h1 : p i = some r) : firstOf (p :: ps) i = some r := by
  simp [firstOf, h1]

/-- A keyword alternative fails when its keyword is not a prefix of the input. -/
theorem kwAlt_miss {β γ : Type} (word : String) (body : P β) (f : β → Option γ) (i : Input)
    (h : tag word i = none) : mapP (kw word body) f i = none := by
  simp [mapP, kw, h]

/-- A keyword alternative fails when no `(` follows its keyword. -/
theorem kwAlt_noparen {β γ : Type} (word : String) (body : P β) (f : β → Option γ) (i r : Input)
    (h : tag word i = some ((), r)) (h2 : chr '(' (space0 r) = none) :
    mapP (kw word body) f i = none := by
  simp [mapP, kw, h, insideBrackets, h2]

/-- A tag fails when its first character differs from the input's. -/
theorem tag_miss_head (s : String) (d : Char) (t : List Char) (hs : s.toList = d :: t)
    (c : Char) (r : List Char) (h : (d == c) = false) : tag s (c :: r) = none := by
  simp only [tag, hs, List.isPrefixOf, h, Bool.false_and]
  rfl

/-- The input does not continue a label-led instruction: it is empty or starts with a character
that is none of `.`, `=`, blank. -/
def blockedHead : List Char → Bool
  | [] => true
  | c :: _ => !(c == '.') && !(c == '=') && !(c == ' ' || c == '\t')

/-- The three label-led alternatives (`l.x = n`, `l.center.x = n`, `l = (x, y)`) fail on an input
whose leading run of alphanumerics is followed by a character that is none of `.`, `=`, blank. -/
theorem labelLed_miss (i : Input) (hb : blockedHead (i.dropWhile isAlphanum) = true) :
    altFixComp i = none ∧ altFixCenter i = none ∧ altAssign i = none := by
  have h : ∀ c r, i.dropWhile isAlphanum = c :: r →
      (c == '.') = false ∧ (c == '=') = false ∧ (c == ' ' || c == '\t') = false := by
    intro c r hd
    rw [hd] at hb
    simpa [blockedHead, and_assoc] using hb
  by_cases he : (i.takeWhile isAlphanum).isEmpty = true
  · have : parseLabel i = none := by rw [parseLabel_eq, he]; rfl
    simp [altFixComp, altFixCenter, altAssign, parseLabelOptSuffix, this]
  · have hp : parseLabel i = some (String.ofList (i.takeWhile isAlphanum), i.dropWhile isAlphanum) := by
      rw [parseLabel_eq]; simp only [he]; rfl
    cases hd : i.dropWhile isAlphanum with
    | nil =>
      simp [altFixComp, altFixCenter, altAssign, parseLabelOptSuffix, hp, hd, tag, chr, space0]
    | cons c r =>
      obtain ⟨h1, h2, h3⟩ := h c r hd
      have hc1 : c ≠ '.' := by simpa using h1
      have hs : space0 (c :: r) = c :: r := space0_cons_of_not_space h3
      refine ⟨?_, ?_, ?_⟩
      · simp only [altFixComp, hp, hd]
        split
        · rename_i heq; injection heq with heq; injection heq with _ heq
          injection heq with heq; exact absurd heq.symm (by simpa using hc1.symm)
        · rfl
      · simp only [altFixCenter, hp, hd]
        have : tag ".center." (c :: r) = none :=
          tag_miss_head ".center." '.' _ (by rfl) c r (by simpa using hc1.symm)
        simp [this]
      · have : parseLabelOptSuffix i = some (String.ofList (i.takeWhile isAlphanum), c :: r) := by
          simp only [parseLabelOptSuffix, hp, hd]
          split
          · rename_i heq; injection heq with heq; exact absurd heq (by simpa using hc1)
          · rfl
        simp [altAssign, this, hs, chr_miss r h2]

/-! ### Number tokens -/

/-- Does the input end a number token: it is empty or starts with a character that cannot continue
a decimal literal (not a digit, `.`, `e`, `E`). -/
def numEnd : List Char → Bool
  | [] => true
  | c :: _ => !(isDigit c || c == '.' || c == 'e' || c == 'E')

/-- A class of number tokens: a printer `rn`, the value `val` each token denotes, and the proof
that the model's number parser reads the printed token back as that value, whatever follows it
(provided what follows cannot continue a number).  Tokens start with neither a blank nor `(`. -/
structure NumCodec (ν : Type) where
  rn : ν → List Char
  val : ν → Float
  parse_rn : ∀ x rest, numEnd rest = true → parseNumber (rn x ++ rest) = some (val x, rest)
  head_ok : ∀ x, ∃ c t, rn x = c :: t ∧ (c == '(') = false ∧ (c == ' ' || c == '\t') = false

/-- A number token does not start with a blank. -/
theorem NumCodec.space0_rn {ν : Type} (K : NumCodec ν) (x : ν) (rest : List Char) :
    space0 (K.rn x ++ rest) = K.rn x ++ rest := by
  obtain ⟨c, t, h, _, h2⟩ := K.head_ok x
  rw [h]; exact space0_cons_of_not_space h2

/-- A number token does not start with `(`. -/
theorem NumCodec.noParen {ν : Type} (K : NumCodec ν) (x : ν) (rest : List Char) :
    chr '(' (K.rn x ++ rest) = none := by
  obtain ⟨c, t, h, h1, _⟩ := K.head_ok x
  rw [h]; exact chr_miss _ h1

/-- A plain number is a number expression (no `sqrt(` nesting). -/
theorem parseNumberExpr_of_parseNumber (i r : Input) (v : Float) (h : parseNumber i = some (v, r)) :
    parseNumberExpr i = some (v, r) := by
  simp [parseNumberExpr, parseNumberExpr.countSqrt, h, parseNumberExpr.close]

/-! ### (ii) Keyword forms -/

theorem tag_self (s : String) (X : List Char) : tag s (s.toList ++ X) = some ((), X) := by
  have : s.toList.isPrefixOf (s.toList ++ X) = true := by
    rw [List.isPrefixOf_iff_prefix]; exact List.prefix_append _ _
  simp [tag, this]

/-- `space0` leaves an input alone that starts with the given non-blank character. -/
theorem space0_paren (c : Char) (r : List Char) (h : (c == ' ' || c == '\t') = false) :
    space0 (c :: r) = c :: r := space0_cons_of_not_space h

/-- A non-empty comma list of identifiers does not start with a blank. -/
theorem commaList_space0 (ls : List (List Char)) (rest : List Char) (h0 : ls ≠ [])
    (hid : ∀ l ∈ ls, isIdent l = true) : space0 (commaList ls ++ rest) = commaList ls ++ rest := by
  cases ls with
  | nil => exact absurd rfl h0
  | cons l t =>
    obtain ⟨Z, hZ⟩ := commaList_cons_append l t rest
    rw [hZ]; exact space0_ident l Z (hid l (by simp))

/-- `word(l1, …, ln)` with the blank-skipping label list. -/
theorem kw_labelsN (word : String) (ls : List (List Char)) (rest : List Char) (h0 : ls ≠ [])
    (hid : ∀ l ∈ ls, isIdent l = true) :
    kw word (labelsN ls.length) (word.toList ++ '(' :: (commaList ls ++ ')' :: rest)) =
      some (ls.map String.ofList, rest) := by
  simp only [kw, tag_self, insideBrackets, space0_paren '(' _ (by decide), chr_hit,
    commaList_space0 ls _ h0 hid, labelsN_spec ls (')' :: rest) h0 hid rfl,
    space0_paren ')' _ (by decide)]

/-- `word(l1, …, ln)` with the tight label list. -/
theorem kw_labelsTight (word : String) (ls : List (List Char)) (rest : List Char) (h0 : ls ≠ [])
    (hid : ∀ l ∈ ls, isIdent l = true) :
    kw word (labelsTight ls.length) (word.toList ++ '(' :: (commaList ls ++ ')' :: rest)) =
      some (ls.map String.ofList, rest) := by
  simp only [kw, tag_self, insideBrackets, space0_paren '(' _ (by decide), chr_hit,
    commaList_space0 ls _ h0 hid, labelsTight_spec ls (')' :: rest) h0 hid rfl]

/-- `word(l1, …, ln, Q)` where `q` reads `Q`. -/
theorem kw_labelsThen {β : Type} (word : String) (q : P β) (ls : List (List Char))
    (Q rest : List Char) (b : β) (h0 : ls ≠ []) (hid : ∀ l ∈ ls, isIdent l = true)
    (hQ : space0 (Q ++ ')' :: rest) = Q ++ ')' :: rest)
    (hq : q (Q ++ ')' :: rest) = some (b, ')' :: rest)) :
    kw word (labelsThen ls.length q)
      (word.toList ++ '(' :: (commaList ls ++ ',' :: ' ' :: (Q ++ ')' :: rest))) =
      some ((ls.map String.ofList, b), rest) := by
  simp only [kw, tag_self, insideBrackets, space0_paren '(' _ (by decide), chr_hit,
    commaList_space0 ls _ h0 hid, labelsThen,
    labelsN_spec ls (',' :: ' ' :: (Q ++ ')' :: rest)) h0 hid rfl,
    space0_paren ',' _ (by decide), commasep_hit _ hQ, hq]

/-- `word(l1, …, ln, Q)` with the tight label list, where `q` reads `Q`. -/
theorem kw_labelsTightThen {β : Type} (word : String) (q : P β) (ls : List (List Char))
    (Q rest : List Char) (b : β) (h0 : ls ≠ []) (hid : ∀ l ∈ ls, isIdent l = true)
    (hQ : space0 (Q ++ ')' :: rest) = Q ++ ')' :: rest)
    (hq : q (Q ++ ')' :: rest) = some (b, ')' :: rest)) :
    kw word (labelsTightThen ls.length q)
      (word.toList ++ '(' :: (commaList ls ++ ',' :: ' ' :: (Q ++ ')' :: rest))) =
      some ((ls.map String.ofList, b), rest) := by
  simp only [kw, tag_self, insideBrackets, space0_paren '(' _ (by decide), chr_hit,
    commaList_space0 ls _ h0 hid, labelsTightThen,
    labelsTight_spec ls (',' :: ' ' :: (Q ++ ')' :: rest)) h0 hid rfl, commasep_hit _ hQ, hq]

/-! ### The printer -/

/-- Apply a function to every number of an instruction. -/
def Instr.mapNum {ν β : Type} (f : ν → β) : Instr ν → Instr β
  | .declarePoint l => .declarePoint l
  | .declareCircle l => .declareCircle l
  | .declareArc l => .declareArc l
  | .fixPointComponent l c v => .fixPointComponent l c (f v)
  | .vertical a b => .vertical a b
  | .horizontal a b => .horizontal a b
  | .distance a b d => .distance a b (f d)
  | .parallel a b c d => .parallel a b c d
  | .perpendicular a b c d => .perpendicular a b c d
  | .angleLine a b c d ang => .angleLine a b c d ⟨f ang.val, ang.degrees⟩
  | .pointsCoincident a b => .pointsCoincident a b
  | .pointArcCoincident a b => .pointArcCoincident a b
  | .midpoint a b m => .midpoint a b m
  | .symmetric p q a b => .symmetric p q a b
  | .circleRadius c r => .circleRadius c (f r)
  | .tangent p0 p1 c => .tangent p0 p1 c
  | .arcRadius a r => .arcRadius a (f r)
  | .fixCenterPointComponent l c v => .fixCenterPointComponent l c (f v)
  | .linesEqualLength a b c d => .linesEqualLength a b c d
  | .isArc a => .isArc a
  | .pointLineDistance p l0 l1 d => .pointLineDistance p l0 l1 (f d)
  | .line a b => .line a b
  | .arcLength a d => .arcLength a (f d)

/-- The letter of a component. -/
def compChar : Component → Char
  | .x => 'x'
  | .y => 'y'

/-- `word(body)`. -/
def call (word : String) (body : List Char) : List Char := word.toList ++ '(' :: (body ++ [')'])

/-- `word(body)` followed by `rest`, in the normal form used by the keyword lemmas. -/
theorem call_append (word : String) (body rest : List Char) :
    call word body ++ rest = word.toList ++ '(' :: (body ++ ')' :: rest) := by
  simp [call]

/-- `l1, …, ln, Q`. -/
def withTail (ls : List (List Char)) (Q : List Char) : List Char := commaList ls ++ ',' :: ' ' :: Q

/-- The canonical text of one instruction (one line, no trailing newline). -/
def renderInstr {ν : Type} (K : NumCodec ν) : Instr ν → List Char
  | .declarePoint l => "point ".toList ++ l.toList
  | .declareCircle l => "circle ".toList ++ l.toList
  | .declareArc l => "arc ".toList ++ l.toList
  | .fixPointComponent l c v => l.toList ++ '.' :: compChar c :: ' ' :: '=' :: ' ' :: K.rn v
  | .fixCenterPointComponent l c v =>
    l.toList ++ ".center.".toList ++ compChar c :: ' ' :: '=' :: ' ' :: K.rn v
  | .horizontal a b => call "horizontal" (commaList [a.toList, b.toList])
  | .pointsCoincident a b => call "coincident" (commaList [a.toList, b.toList])
  | .pointArcCoincident a b => call "point_arc_coincident" (commaList [a.toList, b.toList])
  | .midpoint a b m => call "midpoint" (commaList [a.toList, b.toList, m.toList])
  | .symmetric p q a b => call "symmetric" (commaList [p.toList, q.toList, a.toList, b.toList])
  | .vertical a b => call "vertical" (commaList [a.toList, b.toList])
  | .distance a b d => call "distance" (withTail [a.toList, b.toList] (K.rn d))
  | .parallel a b c d => call "parallel" (commaList [a.toList, b.toList, c.toList, d.toList])
  | .perpendicular a b c d =>
    call "perpendicular" (commaList [a.toList, b.toList, c.toList, d.toList])
  | .angleLine a b c d ang =>
    call "lines_at_angle" (withTail [a.toList, b.toList, c.toList, d.toList]
      (K.rn ang.val ++ (if ang.degrees then "deg".toList else "rad".toList)))
  | .circleRadius c r => call "radius" (withTail [c.toList] (K.rn r))
  | .tangent p0 p1 c => call "tangent" (commaList [p0.toList, p1.toList, c.toList])
  | .arcRadius a r => call "arc_radius" (withTail [a.toList] (K.rn r))
  | .arcLength a d => call "arc_length" (withTail [a.toList] (K.rn d))
  | .isArc a => call "is_arc" (commaList [a.toList])
  | .pointLineDistance p l0 l1 d =>
    call "point_line_distance" (withTail [p.toList, l0.toList, l1.toList] (K.rn d))
  | .line a b => call "line" (commaList [a.toList, b.toList])
  | .linesEqualLength a b c d =>
    call "lines_equal_length" (commaList [a.toList, b.toList, c.toList, d.toList])

/-! ### Well-formed instructions -/

/-- A label per the grammar: one or more ASCII letters/digits. -/
def isLabel (s : String) : Bool := isIdent s.toList

/-- The label does not begin with one of the declaration keywords (needed for a label that starts
a line: `pointy.x = 1` would be read as the declaration `point y`). -/
def noKw (s : String) : Bool :=
  !("point".toList.isPrefixOf s.toList) && !("circle".toList.isPrefixOf s.toList) &&
  !("arc".toList.isPrefixOf s.toList)

/-- Well-formed instruction: every label is a grammar label, and a label that starts the line does
not begin with `point`, `circle` or `arc`. -/
def Instr.wf {ν : Type} : Instr ν → Bool
  | .declarePoint l => isLabel l
  | .declareCircle l => isLabel l
  | .declareArc l => isLabel l
  | .fixPointComponent l _ _ => isLabel l && noKw l
  | .fixCenterPointComponent l _ _ => isLabel l && noKw l
  | .vertical a b => isLabel a && isLabel b
  | .horizontal a b => isLabel a && isLabel b
  | .distance a b _ => isLabel a && isLabel b
  | .parallel a b c d => isLabel a && isLabel b && isLabel c && isLabel d
  | .perpendicular a b c d => isLabel a && isLabel b && isLabel c && isLabel d
  | .angleLine a b c d _ => isLabel a && isLabel b && isLabel c && isLabel d
  | .pointsCoincident a b => isLabel a && isLabel b
  | .pointArcCoincident a b => isLabel a && isLabel b
  | .midpoint a b m => isLabel a && isLabel b && isLabel m
  | .symmetric p q a b => isLabel p && isLabel q && isLabel a && isLabel b
  | .circleRadius c _ => isLabel c
  | .tangent p0 p1 c => isLabel p0 && isLabel p1 && isLabel c
  | .arcRadius a _ => isLabel a
  | .linesEqualLength a b c d => isLabel a && isLabel b && isLabel c && isLabel d
  | .isArc a => isLabel a
  | .pointLineDistance p l0 l1 _ => isLabel p && isLabel l0 && isLabel l1
  | .line a b => isLabel a && isLabel b
  | .arcLength a _ => isLabel a

/-- End of a line: end of input or a newline. -/
def lineEnd : List Char → Bool
  | [] => true
  | c :: _ => c == '\n'

/-- The end of a line ends a number token. -/
theorem lineEnd_numEnd {rest : List Char} (h : lineEnd rest = true) : numEnd rest = true := by
  cases rest with
  | nil => rfl
  | cons c r =>
    have : c = '\n' := by simpa [lineEnd] using h
    subst this; rfl

/-- The end of a line ends a label. -/
theorem lineEnd_stopsLabel {rest : List Char} (h : lineEnd rest = true) : stopsLabel rest = true := by
  cases rest with
  | nil => rfl
  | cons c r =>
    have : c = '\n' := by simpa [lineEnd] using h
    subst this; rfl

/-! ### (ii) One lemma per instruction form -/

syntax "alt_fail" : tactic
macro_rules
  | `(tactic| alt_fail) => `(tactic| first
    | (simp [altPoint, altCircle, altArc, tag, space0, space1, parseLabel, isAlphanum]; done)
    | exact (labelLed_miss _ rfl).1
    | exact (labelLed_miss _ rfl).2.1
    | exact (labelLed_miss _ rfl).2.2
    | (apply kwAlt_miss; simp [tag]; done)
    | (simp [mapP, kw, tag, insideBrackets, chr, space0]; done))

syntax "skip_alts" : tactic
macro_rules
  | `(tactic| skip_alts) => `(tactic| repeat (refine firstOf_skip ?_ ?_; focus alt_fail))

/-- `isLabel` unfolded. -/
theorem lbl {s : String} (h : isLabel s = true) : isIdent s.toList = true := h

/-- Round trip of the form `horizontal(a, b)`: the printed line is parsed back to the instruction. -/
theorem pr_horizontal {ν : Type} (K : NumCodec ν) (a b : String) (ha : isLabel a = true) (hb : isLabel b = true)
    (rest : List Char) :
    parseInstruction (renderInstr K (.horizontal a b) ++ rest) = some ([.horizontal a b], rest) := by
  rw [parseInstruction_eq,
    show renderInstr K (.horizontal a b) = call "horizontal" (commaList [a.toList, b.toList]) from rfl, call_append]
  have hit : kw "horizontal" (labelsN 2) _ = _ :=
    kw_labelsN "horizontal" [a.toList, b.toList] rest (by simp) (by simp [lbl ha, lbl hb])
  generalize (commaList [a.toList, b.toList] ++ ')' :: rest) = Y at hit ⊢
  simp only [show "horizontal".toList = ['h', 'o', 'r', 'i', 'z', 'o', 'n', 't', 'a', 'l'] from rfl, List.cons_append,
    List.nil_append] at hit ⊢
  rw [show ∀ X, space0 ('h' :: X) = 'h' :: X from
    fun X => space0_cons_of_not_space (by decide)]
  unfold alts
  skip_alts
  refine firstOf_hit ?_
  simp only [mapP, hit]
  simp [String.ofList_toList]

/-- Round trip of the form `coincident(a, b)`: the printed line is parsed back to the instruction. -/
theorem pr_pointsCoincident {ν : Type} (K : NumCodec ν) (a b : String) (ha : isLabel a = true) (hb : isLabel b = true)
    (rest : List Char) :
    parseInstruction (renderInstr K (.pointsCoincident a b) ++ rest) = some ([.pointsCoincident a b], rest) := by
  rw [parseInstruction_eq,
    show renderInstr K (.pointsCoincident a b) = call "coincident" (commaList [a.toList, b.toList]) from rfl, call_append]
  have hit : kw "coincident" (labelsN 2) _ = _ :=
    kw_labelsN "coincident" [a.toList, b.toList] rest (by simp) (by simp [lbl ha, lbl hb])
  generalize (commaList [a.toList, b.toList] ++ ')' :: rest) = Y at hit ⊢
  simp only [show "coincident".toList = ['c', 'o', 'i', 'n', 'c', 'i', 'd', 'e', 'n', 't'] from rfl, List.cons_append,
    List.nil_append] at hit ⊢
  rw [show ∀ X, space0 ('c' :: X) = 'c' :: X from
    fun X => space0_cons_of_not_space (by decide)]
  unfold alts
  skip_alts
  refine firstOf_hit ?_
  simp only [mapP, hit]
  simp [String.ofList_toList]

/-- Round trip of the form `point_arc_coincident(p, a)`: the printed line is parsed back to the instruction. -/
theorem pr_pointArcCoincident {ν : Type} (K : NumCodec ν) (a b : String) (ha : isLabel a = true) (hb : isLabel b = true)
    (rest : List Char) :
    parseInstruction (renderInstr K (.pointArcCoincident a b) ++ rest) = some ([.pointArcCoincident a b], rest) := by
  rw [parseInstruction_eq,
    show renderInstr K (.pointArcCoincident a b) = call "point_arc_coincident" (commaList [a.toList, b.toList]) from rfl, call_append]
  have hit : kw "point_arc_coincident" (labelsN 2) _ = _ :=
    kw_labelsN "point_arc_coincident" [a.toList, b.toList] rest (by simp) (by simp [lbl ha, lbl hb])
  generalize (commaList [a.toList, b.toList] ++ ')' :: rest) = Y at hit ⊢
  simp only [show "point_arc_coincident".toList = ['p', 'o', 'i', 'n', 't', '_', 'a', 'r', 'c', '_', 'c', 'o', 'i', 'n', 'c', 'i', 'd', 'e', 'n', 't'] from rfl, List.cons_append,
    List.nil_append] at hit ⊢
  rw [show ∀ X, space0 ('p' :: X) = 'p' :: X from
    fun X => space0_cons_of_not_space (by decide)]
  unfold alts
  skip_alts
  refine firstOf_hit ?_
  simp only [mapP, hit]
  simp [String.ofList_toList]

/-- Round trip of the form `midpoint(a, b, m)`: the printed line is parsed back to the instruction. -/
theorem pr_midpoint {ν : Type} (K : NumCodec ν) (a b m : String) (ha : isLabel a = true) (hb : isLabel b = true) (hm : isLabel m = true)
    (rest : List Char) :
    parseInstruction (renderInstr K (.midpoint a b m) ++ rest) = some ([.midpoint a b m], rest) := by
  rw [parseInstruction_eq,
    show renderInstr K (.midpoint a b m) = call "midpoint" (commaList [a.toList, b.toList, m.toList]) from rfl, call_append]
  have hit : kw "midpoint" (labelsN 3) _ = _ :=
    kw_labelsN "midpoint" [a.toList, b.toList, m.toList] rest (by simp) (by simp [lbl ha, lbl hb, lbl hm])
  generalize (commaList [a.toList, b.toList, m.toList] ++ ')' :: rest) = Y at hit ⊢
  simp only [show "midpoint".toList = ['m', 'i', 'd', 'p', 'o', 'i', 'n', 't'] from rfl, List.cons_append,
    List.nil_append] at hit ⊢
  rw [show ∀ X, space0 ('m' :: X) = 'm' :: X from
    fun X => space0_cons_of_not_space (by decide)]
  unfold alts
  skip_alts
  refine firstOf_hit ?_
  simp only [mapP, hit]
  simp [String.ofList_toList]

/-- Round trip of the form `symmetric(p, q, a, b)`: the printed line is parsed back to the instruction. -/
theorem pr_symmetric {ν : Type} (K : NumCodec ν) (p q a b : String) (hp : isLabel p = true) (hq : isLabel q = true) (ha : isLabel a = true) (hb : isLabel b = true)
    (rest : List Char) :
    parseInstruction (renderInstr K (.symmetric p q a b) ++ rest) = some ([.symmetric p q a b], rest) := by
  rw [parseInstruction_eq,
    show renderInstr K (.symmetric p q a b) = call "symmetric" (commaList [p.toList, q.toList, a.toList, b.toList]) from rfl, call_append]
  have hit : kw "symmetric" (labelsN 4) _ = _ :=
    kw_labelsN "symmetric" [p.toList, q.toList, a.toList, b.toList] rest (by simp) (by simp [lbl hp, lbl hq, lbl ha, lbl hb])
  generalize (commaList [p.toList, q.toList, a.toList, b.toList] ++ ')' :: rest) = Y at hit ⊢
  simp only [show "symmetric".toList = ['s', 'y', 'm', 'm', 'e', 't', 'r', 'i', 'c'] from rfl, List.cons_append,
    List.nil_append] at hit ⊢
  rw [show ∀ X, space0 ('s' :: X) = 's' :: X from
    fun X => space0_cons_of_not_space (by decide)]
  unfold alts
  skip_alts
  refine firstOf_hit ?_
  simp only [mapP, hit]
  simp [String.ofList_toList]

/-- Round trip of the form `vertical(a, b)`: the printed line is parsed back to the instruction. -/
theorem pr_vertical {ν : Type} (K : NumCodec ν) (a b : String) (ha : isLabel a = true) (hb : isLabel b = true)
    (rest : List Char) :
    parseInstruction (renderInstr K (.vertical a b) ++ rest) = some ([.vertical a b], rest) := by
  rw [parseInstruction_eq,
    show renderInstr K (.vertical a b) = call "vertical" (commaList [a.toList, b.toList]) from rfl, call_append]
  have hit : kw "vertical" (labelsN 2) _ = _ :=
    kw_labelsN "vertical" [a.toList, b.toList] rest (by simp) (by simp [lbl ha, lbl hb])
  generalize (commaList [a.toList, b.toList] ++ ')' :: rest) = Y at hit ⊢
  simp only [show "vertical".toList = ['v', 'e', 'r', 't', 'i', 'c', 'a', 'l'] from rfl, List.cons_append,
    List.nil_append] at hit ⊢
  rw [show ∀ X, space0 ('v' :: X) = 'v' :: X from
    fun X => space0_cons_of_not_space (by decide)]
  unfold alts
  skip_alts
  refine firstOf_hit ?_
  simp only [mapP, hit]
  simp [String.ofList_toList]

/-- Round trip of the form `parallel(a, b, c, d)`: the printed line is parsed back to the instruction. -/
theorem pr_parallel {ν : Type} (K : NumCodec ν) (a b c d : String) (ha : isLabel a = true) (hb : isLabel b = true) (hc : isLabel c = true) (hd : isLabel d = true)
    (rest : List Char) :
    parseInstruction (renderInstr K (.parallel a b c d) ++ rest) = some ([.parallel a b c d], rest) := by
  rw [parseInstruction_eq,
    show renderInstr K (.parallel a b c d) = call "parallel" (commaList [a.toList, b.toList, c.toList, d.toList]) from rfl, call_append]
  have hit : kw "parallel" (labelsN 4) _ = _ :=
    kw_labelsN "parallel" [a.toList, b.toList, c.toList, d.toList] rest (by simp) (by simp [lbl ha, lbl hb, lbl hc, lbl hd])
  generalize (commaList [a.toList, b.toList, c.toList, d.toList] ++ ')' :: rest) = Y at hit ⊢
  simp only [show "parallel".toList = ['p', 'a', 'r', 'a', 'l', 'l', 'e', 'l'] from rfl, List.cons_append,
    List.nil_append] at hit ⊢
  rw [show ∀ X, space0 ('p' :: X) = 'p' :: X from
    fun X => space0_cons_of_not_space (by decide)]
  unfold alts
  skip_alts
  refine firstOf_hit ?_
  simp only [mapP, hit]
  simp [String.ofList_toList]

/-- Round trip of the form `perpendicular(a, b, c, d)`: the printed line is parsed back to the instruction. -/
theorem pr_perpendicular {ν : Type} (K : NumCodec ν) (a b c d : String) (ha : isLabel a = true) (hb : isLabel b = true) (hc : isLabel c = true) (hd : isLabel d = true)
    (rest : List Char) :
    parseInstruction (renderInstr K (.perpendicular a b c d) ++ rest) = some ([.perpendicular a b c d], rest) := by
  rw [parseInstruction_eq,
    show renderInstr K (.perpendicular a b c d) = call "perpendicular" (commaList [a.toList, b.toList, c.toList, d.toList]) from rfl, call_append]
  have hit : kw "perpendicular" (labelsN 4) _ = _ :=
    kw_labelsN "perpendicular" [a.toList, b.toList, c.toList, d.toList] rest (by simp) (by simp [lbl ha, lbl hb, lbl hc, lbl hd])
  generalize (commaList [a.toList, b.toList, c.toList, d.toList] ++ ')' :: rest) = Y at hit ⊢
  simp only [show "perpendicular".toList = ['p', 'e', 'r', 'p', 'e', 'n', 'd', 'i', 'c', 'u', 'l', 'a', 'r'] from rfl, List.cons_append,
    List.nil_append] at hit ⊢
  rw [show ∀ X, space0 ('p' :: X) = 'p' :: X from
    fun X => space0_cons_of_not_space (by decide)]
  unfold alts
  skip_alts
  refine firstOf_hit ?_
  simp only [mapP, hit]
  simp [String.ofList_toList]

/-- Round trip of the form `tangent(p0, p1, c)`: the printed line is parsed back to the instruction. -/
theorem pr_tangent {ν : Type} (K : NumCodec ν) (p0 p1 c : String) (hp0 : isLabel p0 = true) (hp1 : isLabel p1 = true) (hc : isLabel c = true)
    (rest : List Char) :
    parseInstruction (renderInstr K (.tangent p0 p1 c) ++ rest) = some ([.tangent p0 p1 c], rest) := by
  rw [parseInstruction_eq,
    show renderInstr K (.tangent p0 p1 c) = call "tangent" (commaList [p0.toList, p1.toList, c.toList]) from rfl, call_append]
  have hit : kw "tangent" (labelsTight 3) _ = _ :=
    kw_labelsTight "tangent" [p0.toList, p1.toList, c.toList] rest (by simp) (by simp [lbl hp0, lbl hp1, lbl hc])
  generalize (commaList [p0.toList, p1.toList, c.toList] ++ ')' :: rest) = Y at hit ⊢
  simp only [show "tangent".toList = ['t', 'a', 'n', 'g', 'e', 'n', 't'] from rfl, List.cons_append,
    List.nil_append] at hit ⊢
  rw [show ∀ X, space0 ('t' :: X) = 't' :: X from
    fun X => space0_cons_of_not_space (by decide)]
  unfold alts
  skip_alts
  refine firstOf_hit ?_
  simp only [mapP, hit]
  simp [String.ofList_toList]

/-- Round trip of the form `is_arc(a)`: the printed line is parsed back to the instruction. -/
theorem pr_isArc {ν : Type} (K : NumCodec ν) (a : String) (ha : isLabel a = true)
    (rest : List Char) :
    parseInstruction (renderInstr K (.isArc a) ++ rest) = some ([.isArc a], rest) := by
  rw [parseInstruction_eq,
    show renderInstr K (.isArc a) = call "is_arc" (commaList [a.toList]) from rfl, call_append]
  have hit : kw "is_arc" (labelsTight 1) _ = _ :=
    kw_labelsTight "is_arc" [a.toList] rest (by simp) (by simp [lbl ha])
  generalize (commaList [a.toList] ++ ')' :: rest) = Y at hit ⊢
  simp only [show "is_arc".toList = ['i', 's', '_', 'a', 'r', 'c'] from rfl, List.cons_append,
    List.nil_append] at hit ⊢
  rw [show ∀ X, space0 ('i' :: X) = 'i' :: X from
    fun X => space0_cons_of_not_space (by decide)]
  unfold alts
  skip_alts
  refine firstOf_hit ?_
  simp only [mapP, hit]
  simp [String.ofList_toList]

/-- Round trip of the form `line(a, b)`: the printed line is parsed back to the instruction. -/
theorem pr_line {ν : Type} (K : NumCodec ν) (a b : String) (ha : isLabel a = true) (hb : isLabel b = true)
    (rest : List Char) :
    parseInstruction (renderInstr K (.line a b) ++ rest) = some ([.line a b], rest) := by
  rw [parseInstruction_eq,
    show renderInstr K (.line a b) = call "line" (commaList [a.toList, b.toList]) from rfl, call_append]
  have hit : kw "line" (labelsTight 2) _ = _ :=
    kw_labelsTight "line" [a.toList, b.toList] rest (by simp) (by simp [lbl ha, lbl hb])
  generalize (commaList [a.toList, b.toList] ++ ')' :: rest) = Y at hit ⊢
  simp only [show "line".toList = ['l', 'i', 'n', 'e'] from rfl, List.cons_append,
    List.nil_append] at hit ⊢
  rw [show ∀ X, space0 ('l' :: X) = 'l' :: X from
    fun X => space0_cons_of_not_space (by decide)]
  unfold alts
  skip_alts
  refine firstOf_hit ?_
  simp only [mapP, hit]
  simp [String.ofList_toList]

/-- Round trip of the form `lines_equal_length(a, b, c, d)`: the printed line is parsed back to the instruction. -/
theorem pr_linesEqualLength {ν : Type} (K : NumCodec ν) (a b c d : String) (ha : isLabel a = true) (hb : isLabel b = true) (hc : isLabel c = true) (hd : isLabel d = true)
    (rest : List Char) :
    parseInstruction (renderInstr K (.linesEqualLength a b c d) ++ rest) = some ([.linesEqualLength a b c d], rest) := by
  rw [parseInstruction_eq,
    show renderInstr K (.linesEqualLength a b c d) = call "lines_equal_length" (commaList [a.toList, b.toList, c.toList, d.toList]) from rfl, call_append]
  have hit : kw "lines_equal_length" (labelsN 4) _ = _ :=
    kw_labelsN "lines_equal_length" [a.toList, b.toList, c.toList, d.toList] rest (by simp) (by simp [lbl ha, lbl hb, lbl hc, lbl hd])
  generalize (commaList [a.toList, b.toList, c.toList, d.toList] ++ ')' :: rest) = Y at hit ⊢
  simp only [show "lines_equal_length".toList = ['l', 'i', 'n', 'e', 's', '_', 'e', 'q', 'u', 'a', 'l', '_', 'l', 'e', 'n', 'g', 't', 'h'] from rfl, List.cons_append,
    List.nil_append] at hit ⊢
  rw [show ∀ X, space0 ('l' :: X) = 'l' :: X from
    fun X => space0_cons_of_not_space (by decide)]
  unfold alts
  skip_alts
  refine firstOf_hit ?_
  simp only [mapP, hit]
  simp [String.ofList_toList]

/-- `word(l1, …, ln, Q)` followed by `rest`, in the normal form used by the keyword lemmas. -/
theorem call_withTail_append (word : String) (ls : List (List Char)) (Q rest : List Char) :
    call word (withTail ls Q) ++ rest =
      word.toList ++ '(' :: (commaList ls ++ ',' :: ' ' :: (Q ++ ')' :: rest)) := by
  simp [call, withTail]

/-- `word(l1, l2, l3, Q)` read by `three_labels_num`, where the number parser reads `Q`. -/
theorem kw_threeLabelsNum (word : String) (ls : List (List Char))
    (Q rest : List Char) (b : Float) (h0 : ls ≠ []) (h3 : ls.length = 3)
    (hid : ∀ l ∈ ls, isIdent l = true)
    (hQ : space0 (Q ++ ')' :: rest) = Q ++ ')' :: rest)
    (hq : parseNumber (Q ++ ')' :: rest) = some (b, ')' :: rest)) :
    kw word threeLabelsNum
      (word.toList ++ '(' :: (commaList ls ++ ',' :: ' ' :: (Q ++ ')' :: rest))) =
      some ((ls.map String.ofList, b), rest) := by
  have := labelsTight_spec ls (',' :: ' ' :: (Q ++ ')' :: rest)) h0 hid rfl
  rw [h3] at this
  simp only [kw, tag_self, insideBrackets, space0_paren '(' _ (by decide), chr_hit,
    commaList_space0 ls _ h0 hid, threeLabelsNum, labelsTightThen, this, commasep_hit _ hQ, hq,
    space0_paren ')' _ (by decide)]

/-- Round trip of the form `distance(a, b, d)`: the printed line is parsed back to the instruction. -/
theorem pr_distance {ν : Type} (K : NumCodec ν) (a b : String) (d : ν) (ha : isLabel a = true) (hb : isLabel b = true)
    (rest : List Char) :
    parseInstruction (renderInstr K (.distance a b d) ++ rest) =
      some ([.distance a b (K.val d)], rest) := by
  rw [parseInstruction_eq,
    show renderInstr K (.distance a b d) = call "distance" (withTail [a.toList, b.toList] (K.rn d)) from rfl,
    call_withTail_append]
  have hit : kw "distance" (labelsThen 2 parseNumberExpr) _ = _ :=
    kw_labelsThen "distance" parseNumberExpr [a.toList, b.toList] (K.rn d) rest (K.val d) (by simp) (by simp [lbl ha, lbl hb])
      (K.space0_rn d _) (parseNumberExpr_of_parseNumber _ _ _ (K.parse_rn d _ rfl))
  generalize (commaList [a.toList, b.toList] ++ ',' :: ' ' :: (K.rn d ++ ')' :: rest)) = Y at hit ⊢
  simp only [show "distance".toList = ['d', 'i', 's', 't', 'a', 'n', 'c', 'e'] from rfl, List.cons_append,
    List.nil_append] at hit ⊢
  rw [show ∀ X, space0 ('d' :: X) = 'd' :: X from
    fun X => space0_cons_of_not_space (by decide)]
  unfold alts
  skip_alts
  refine firstOf_hit ?_
  simp only [mapP, hit]
  simp [String.ofList_toList]

/-- Round trip of the form `radius(c, r)`: the printed line is parsed back to the instruction. -/
theorem pr_circleRadius {ν : Type} (K : NumCodec ν) (c : String) (r : ν) (hc : isLabel c = true)
    (rest : List Char) :
    parseInstruction (renderInstr K (.circleRadius c r) ++ rest) =
      some ([.circleRadius c (K.val r)], rest) := by
  rw [parseInstruction_eq,
    show renderInstr K (.circleRadius c r) = call "radius" (withTail [c.toList] (K.rn r)) from rfl,
    call_withTail_append]
  have hit : kw "radius" (labelsTightThen 1 parseNumberExpr) _ = _ :=
    kw_labelsTightThen "radius" parseNumberExpr [c.toList] (K.rn r) rest (K.val r) (by simp) (by simp [lbl hc])
      (K.space0_rn r _) (parseNumberExpr_of_parseNumber _ _ _ (K.parse_rn r _ rfl))
  generalize (commaList [c.toList] ++ ',' :: ' ' :: (K.rn r ++ ')' :: rest)) = Y at hit ⊢
  simp only [show "radius".toList = ['r', 'a', 'd', 'i', 'u', 's'] from rfl, List.cons_append,
    List.nil_append] at hit ⊢
  rw [show ∀ X, space0 ('r' :: X) = 'r' :: X from
    fun X => space0_cons_of_not_space (by decide)]
  unfold alts
  skip_alts
  refine firstOf_hit ?_
  simp only [mapP, hit]
  simp [String.ofList_toList]

/-- Round trip of the form `arc_radius(a, r)`: the printed line is parsed back to the instruction. -/
theorem pr_arcRadius {ν : Type} (K : NumCodec ν) (a : String) (r : ν) (ha : isLabel a = true)
    (rest : List Char) :
    parseInstruction (renderInstr K (.arcRadius a r) ++ rest) =
      some ([.arcRadius a (K.val r)], rest) := by
  rw [parseInstruction_eq,
    show renderInstr K (.arcRadius a r) = call "arc_radius" (withTail [a.toList] (K.rn r)) from rfl,
    call_withTail_append]
  have hit : kw "arc_radius" (labelsTightThen 1 parseNumber) _ = _ :=
    kw_labelsTightThen "arc_radius" parseNumber [a.toList] (K.rn r) rest (K.val r) (by simp) (by simp [lbl ha])
      (K.space0_rn r _) (K.parse_rn r _ rfl)
  generalize (commaList [a.toList] ++ ',' :: ' ' :: (K.rn r ++ ')' :: rest)) = Y at hit ⊢
  simp only [show "arc_radius".toList = ['a', 'r', 'c', '_', 'r', 'a', 'd', 'i', 'u', 's'] from rfl, List.cons_append,
    List.nil_append] at hit ⊢
  rw [show ∀ X, space0 ('a' :: X) = 'a' :: X from
    fun X => space0_cons_of_not_space (by decide)]
  unfold alts
  skip_alts
  refine firstOf_hit ?_
  simp only [mapP, hit]
  simp [String.ofList_toList]

/-- Round trip of the form `arc_length(a, d)`: the printed line is parsed back to the instruction. -/
theorem pr_arcLength {ν : Type} (K : NumCodec ν) (a : String) (d : ν) (ha : isLabel a = true)
    (rest : List Char) :
    parseInstruction (renderInstr K (.arcLength a d) ++ rest) =
      some ([.arcLength a (K.val d)], rest) := by
  rw [parseInstruction_eq,
    show renderInstr K (.arcLength a d) = call "arc_length" (withTail [a.toList] (K.rn d)) from rfl,
    call_withTail_append]
  have hit : kw "arc_length" (labelsTightThen 1 parseNumber) _ = _ :=
    kw_labelsTightThen "arc_length" parseNumber [a.toList] (K.rn d) rest (K.val d) (by simp) (by simp [lbl ha])
      (K.space0_rn d _) (K.parse_rn d _ rfl)
  generalize (commaList [a.toList] ++ ',' :: ' ' :: (K.rn d ++ ')' :: rest)) = Y at hit ⊢
  simp only [show "arc_length".toList = ['a', 'r', 'c', '_', 'l', 'e', 'n', 'g', 't', 'h'] from rfl, List.cons_append,
    List.nil_append] at hit ⊢
  rw [show ∀ X, space0 ('a' :: X) = 'a' :: X from
    fun X => space0_cons_of_not_space (by decide)]
  unfold alts
  skip_alts
  refine firstOf_hit ?_
  simp only [mapP, hit]
  simp [String.ofList_toList]

/-- Round trip of the form `point_line_distance(p, l0, l1, d)`: the printed line is parsed back to the instruction. -/
theorem pr_pointLineDistance {ν : Type} (K : NumCodec ν) (p l0 l1 : String) (d : ν) (hp : isLabel p = true) (hl0 : isLabel l0 = true) (hl1 : isLabel l1 = true)
    (rest : List Char) :
    parseInstruction (renderInstr K (.pointLineDistance p l0 l1 d) ++ rest) =
      some ([.pointLineDistance p l0 l1 (K.val d)], rest) := by
  rw [parseInstruction_eq,
    show renderInstr K (.pointLineDistance p l0 l1 d) = call "point_line_distance" (withTail [p.toList, l0.toList, l1.toList] (K.rn d)) from rfl,
    call_withTail_append]
  have hit : kw "point_line_distance" (threeLabelsNum) _ = _ :=
    kw_threeLabelsNum "point_line_distance" [p.toList, l0.toList, l1.toList] (K.rn d) rest (K.val d) (by simp) rfl (by simp [lbl hp, lbl hl0, lbl hl1])
      (K.space0_rn d _) (K.parse_rn d _ rfl)
  generalize (commaList [p.toList, l0.toList, l1.toList] ++ ',' :: ' ' :: (K.rn d ++ ')' :: rest)) = Y at hit ⊢
  simp only [show "point_line_distance".toList = ['p', 'o', 'i', 'n', 't', '_', 'l', 'i', 'n', 'e', '_', 'd', 'i', 's', 't', 'a', 'n', 'c', 'e'] from rfl, List.cons_append,
    List.nil_append] at hit ⊢
  rw [show ∀ X, space0 ('p' :: X) = 'p' :: X from
    fun X => space0_cons_of_not_space (by decide)]
  unfold alts
  skip_alts
  refine firstOf_hit ?_
  simp only [mapP, hit]
  simp [String.ofList_toList]

/-- `parse_angle` reads a number token followed by `deg` or `rad`. -/
theorem parseAngle_hit {ν : Type} (K : NumCodec ν) (v : ν) (deg : Bool) (rest : List Char) :
    parseAngle ((K.rn v ++ (if deg then "deg".toList else "rad".toList)) ++ ')' :: rest) =
      some (⟨K.val v, deg⟩, ')' :: rest) := by
  cases deg with
  | true =>
    have := K.parse_rn v ('d' :: 'e' :: 'g' :: ')' :: rest) rfl
    simp only [show "deg".toList = ['d', 'e', 'g'] from rfl, if_true, List.append_assoc,
      List.cons_append, List.nil_append, parseAngle, this]
    simp [tag]
  | false =>
    have := K.parse_rn v ('r' :: 'a' :: 'd' :: ')' :: rest) rfl
    simp only [show "rad".toList = ['r', 'a', 'd'] from rfl, Bool.false_eq_true, if_false,
      List.append_assoc, List.cons_append, List.nil_append, parseAngle, this]
    simp [tag]

/-- Round trip of the form `lines_at_angle(a, b, c, d, <n>deg|rad)`: the printed line is parsed back to the instruction. -/
theorem pr_angleLine {ν : Type} (K : NumCodec ν) (a b c d : String) (ang : Angle ν)
    (ha : isLabel a = true) (hb : isLabel b = true) (hc : isLabel c = true) (hd : isLabel d = true)
    (rest : List Char) :
    parseInstruction (renderInstr K (.angleLine a b c d ang) ++ rest) =
      some ([.angleLine a b c d ⟨K.val ang.val, ang.degrees⟩], rest) := by
  rw [parseInstruction_eq,
    show renderInstr K (.angleLine a b c d ang) = call "lines_at_angle"
      (withTail [a.toList, b.toList, c.toList, d.toList]
        (K.rn ang.val ++ (if ang.degrees then "deg".toList else "rad".toList))) from rfl,
    call_withTail_append]
  have hit : kw "lines_at_angle" (labelsThen 4 parseAngle) _ = _ :=
    kw_labelsThen "lines_at_angle" parseAngle [a.toList, b.toList, c.toList, d.toList]
      (K.rn ang.val ++ (if ang.degrees then "deg".toList else "rad".toList)) rest
      ⟨K.val ang.val, ang.degrees⟩ (by simp) (by simp [lbl ha, lbl hb, lbl hc, lbl hd])
      (by rw [List.append_assoc]; exact K.space0_rn _ _) (parseAngle_hit K _ _ _)
  generalize (commaList [a.toList, b.toList, c.toList, d.toList] ++ ',' :: ' ' ::
    ((K.rn ang.val ++ (if ang.degrees then "deg".toList else "rad".toList)) ++ ')' :: rest)) = Y
    at hit ⊢
  simp only [show "lines_at_angle".toList =
    ['l', 'i', 'n', 'e', 's', '_', 'a', 't', '_', 'a', 'n', 'g', 'l', 'e'] from rfl,
    List.cons_append, List.nil_append] at hit ⊢
  rw [show ∀ X, space0 ('l' :: X) = 'l' :: X from
    fun X => space0_cons_of_not_space (by decide)]
  unfold alts
  skip_alts
  refine firstOf_hit ?_
  simp only [mapP, hit]
  simp [String.ofList_toList]

/-! Declarations -/

theorem pr_declarePoint {ν : Type} (K : NumCodec ν) (l : String) (hl : isLabel l = true)
    (rest : List Char) (hr : lineEnd rest = true) :
    parseInstruction (renderInstr K (.declarePoint l) ++ rest) = some ([.declarePoint l], rest) := by
  rw [parseInstruction_eq,
    show renderInstr K (.declarePoint l) = "point ".toList ++ l.toList from rfl]
  have hp := parseLabel_ident l.toList rest (lbl hl) (lineEnd_stopsLabel hr)
  have hs := space0_ident l.toList rest (lbl hl)
  simp only [show "point ".toList = ['p', 'o', 'i', 'n', 't', ' '] from rfl, List.cons_append,
    List.nil_append, List.append_assoc]
  rw [show ∀ X, space0 ('p' :: X) = 'p' :: X from
    fun X => space0_cons_of_not_space (by decide)]
  unfold alts
  refine firstOf_hit ?_
  simp [altPoint, tag, space1, space0_space, hs, hp, String.ofList_toList]

/-- Round trip of the form `circle l`: the printed line is parsed back to the instruction. -/
theorem pr_declareCircle {ν : Type} (K : NumCodec ν) (l : String) (hl : isLabel l = true)
    (rest : List Char) (hr : lineEnd rest = true) :
    parseInstruction (renderInstr K (.declareCircle l) ++ rest) = some ([.declareCircle l], rest) := by
  rw [parseInstruction_eq,
    show renderInstr K (.declareCircle l) = "circle ".toList ++ l.toList from rfl]
  have hp := parseLabel_ident l.toList rest (lbl hl) (lineEnd_stopsLabel hr)
  have hs := space0_ident l.toList rest (lbl hl)
  simp only [show "circle ".toList = ['c', 'i', 'r', 'c', 'l', 'e', ' '] from rfl, List.cons_append,
    List.nil_append, List.append_assoc]
  rw [show ∀ X, space0 ('c' :: X) = 'c' :: X from
    fun X => space0_cons_of_not_space (by decide)]
  unfold alts
  skip_alts
  refine firstOf_hit ?_
  simp [altCircle, tag, space1, space0_space, hs, hp, String.ofList_toList]

/-- Round trip of the form `arc l`: the printed line is parsed back to the instruction. -/
theorem pr_declareArc {ν : Type} (K : NumCodec ν) (l : String) (hl : isLabel l = true)
    (rest : List Char) (hr : lineEnd rest = true) :
    parseInstruction (renderInstr K (.declareArc l) ++ rest) = some ([.declareArc l], rest) := by
  rw [parseInstruction_eq,
    show renderInstr K (.declareArc l) = "arc ".toList ++ l.toList from rfl]
  have hp := parseLabel_ident l.toList rest (lbl hl) (lineEnd_stopsLabel hr)
  have hs := space0_ident l.toList rest (lbl hl)
  simp only [show "arc ".toList = ['a', 'r', 'c', ' '] from rfl, List.cons_append,
    List.nil_append, List.append_assoc]
  rw [show ∀ X, space0 ('a' :: X) = 'a' :: X from
    fun X => space0_cons_of_not_space (by decide)]
  unfold alts
  skip_alts
  refine firstOf_hit ?_
  simp [altArc, tag, space1, space0_space, hs, hp, String.ofList_toList]

/-! Label-led forms -/

theorem isPrefixOf_append_stop (c : Char) (X : List Char) :
    ∀ (w l : List Char), (∀ x ∈ w, (x == c) = false) →
      w.isPrefixOf (l ++ c :: X) = true → w.isPrefixOf l = true := by
  intro w
  induction w with
  | nil => intro l _ _; simp
  | cons a w ih =>
    intro l hw h
    cases l with
    | nil =>
      simp only [List.nil_append, List.isPrefixOf, Bool.and_eq_true] at h
      have := hw a (by simp)
      rw [this] at h
      exact absurd h.1 (by simp)
    | cons b l =>
      simp only [List.cons_append, List.isPrefixOf, Bool.and_eq_true] at h ⊢
      exact ⟨h.1, ih l (fun x hx => hw x (by simp [hx])) h.2⟩

/-- A declaration keyword is not found at the start of `l.…` when `l` does not begin with it. -/
theorem tag_miss_label (word : String) (l X : List Char)
    (hw : ∀ x ∈ word.toList, (x == '.') = false)
    (hl : word.toList.isPrefixOf l = false) : tag word (l ++ '.' :: X) = none := by
  have : word.toList.isPrefixOf (l ++ '.' :: X) = false := by
    cases h : word.toList.isPrefixOf (l ++ '.' :: X) with
    | false => rfl
    | true => rw [isPrefixOf_append_stop '.' X _ l hw h] at hl; exact absurd hl (by simp)
  simp [tag, this]

/-- The three declaration alternatives fail on `l.…` when `l` begins with none of their keywords. -/
theorem decl_alts_miss (l : String) (X : List Char) (hk : noKw l = true) :
    altPoint (l.toList ++ '.' :: X) = none ∧ altCircle (l.toList ++ '.' :: X) = none ∧
    altArc (l.toList ++ '.' :: X) = none := by
  simp only [noKw, Bool.and_eq_true, Bool.not_eq_true'] at hk
  obtain ⟨⟨h1, h2⟩, h3⟩ := hk
  refine ⟨?_, ?_, ?_⟩
  · simp [altPoint, tag_miss_label "point" l.toList X (by decide) h1]
  · simp [altCircle, tag_miss_label "circle" l.toList X (by decide) h2]
  · simp [altArc, tag_miss_label "arc" l.toList X (by decide) h3]

/-- `x` / `y` is read back as the component. -/
theorem parseComponent_hit (c : Component) (X : List Char) :
    parseComponent (compChar c :: X) = some (c, X) := by
  cases c <;> rfl

/-- `" = "` is read by `equalsSign` when what follows does not start with a blank. -/
theorem equalsSign_hit (N : List Char) (hN : space0 N = N) :
    equalsSign (' ' :: '=' :: ' ' :: N) = some ((), N) := by
  simp [equalsSign, space0_space, space0_paren '=' _ (by decide), chr_hit, hN]

/-- Round trip of the form `l.x = n`: the printed line is parsed back to the instruction. -/
theorem pr_fixPointComponent {ν : Type} (K : NumCodec ν) (l : String) (c : Component) (v : ν)
    (hl : isLabel l = true) (hk : noKw l = true) (rest : List Char) (hr : lineEnd rest = true) :
    parseInstruction (renderInstr K (.fixPointComponent l c v) ++ rest) =
      some ([.fixPointComponent l c (K.val v)], rest) := by
  rw [parseInstruction_eq,
    show renderInstr K (.fixPointComponent l c v) =
      l.toList ++ '.' :: compChar c :: ' ' :: '=' :: ' ' :: K.rn v from rfl]
  simp only [List.append_assoc, List.cons_append]
  rw [space0_ident l.toList _ (lbl hl)]
  obtain ⟨m1, m2, m3⟩ := decl_alts_miss l (compChar c :: ' ' :: '=' :: ' ' :: (K.rn v ++ rest)) hk
  have hp := parseLabel_ident l.toList
    ('.' :: compChar c :: ' ' :: '=' :: ' ' :: (K.rn v ++ rest)) (lbl hl) rfl
  unfold alts
  refine firstOf_skip m1 (firstOf_skip m2 (firstOf_skip m3 (firstOf_hit ?_)))
  simp only [altFixComp, hp, parseComponent_hit,
    equalsSign_hit _ (K.space0_rn v rest), K.parse_rn v rest (lineEnd_numEnd hr)]
  simp [String.ofList_toList]

/-- Round trip of the form `l.center.x = n`: the printed line is parsed back to the instruction. -/
theorem pr_fixCenterPointComponent {ν : Type} (K : NumCodec ν) (l : String) (c : Component) (v : ν)
    (hl : isLabel l = true) (hk : noKw l = true) (rest : List Char) (hr : lineEnd rest = true) :
    parseInstruction (renderInstr K (.fixCenterPointComponent l c v) ++ rest) =
      some ([.fixCenterPointComponent l c (K.val v)], rest) := by
  rw [parseInstruction_eq,
    show renderInstr K (.fixCenterPointComponent l c v) =
      l.toList ++ ".center.".toList ++ compChar c :: ' ' :: '=' :: ' ' :: K.rn v from rfl]
  simp only [show ".center.".toList = ['.', 'c', 'e', 'n', 't', 'e', 'r', '.'] from rfl,
    List.append_assoc, List.cons_append, List.nil_append]
  rw [space0_ident l.toList _ (lbl hl)]
  obtain ⟨m1, m2, m3⟩ := decl_alts_miss l
    ('c' :: 'e' :: 'n' :: 't' :: 'e' :: 'r' :: '.' :: compChar c :: ' ' :: '=' :: ' ' ::
      (K.rn v ++ rest)) hk
  have hp := parseLabel_ident l.toList
    ('.' :: 'c' :: 'e' :: 'n' :: 't' :: 'e' :: 'r' :: '.' :: compChar c :: ' ' :: '=' :: ' ' ::
      (K.rn v ++ rest)) (lbl hl) rfl
  unfold alts
  refine firstOf_skip m1 (firstOf_skip m2 (firstOf_skip m3 (firstOf_skip ?_ (firstOf_hit ?_))))
  · simp [altFixComp, hp, parseComponent]
  · simp only [altFixCenter, hp]
    simp [tag, parseComponent_hit, equalsSign_hit _ (K.space0_rn v rest),
      K.parse_rn v rest (lineEnd_numEnd hr), String.ofList_toList]

/-- **Every instruction form round-trips.**  For each of the 23 instruction forms of the text
format, printing a well-formed instruction and parsing the line (followed by a newline or the end
of the input) yields exactly that instruction, with each number token read as its value. -/
theorem parse_render_instr {ν : Type} (K : NumCodec ν) (i : Instr ν) (hwf : i.wf = true)
    (rest : List Char) (hr : lineEnd rest = true) :
    parseInstruction (renderInstr K i ++ rest) = some ([i.mapNum K.val], rest) := by
  cases i <;> simp only [Instr.wf, Bool.and_eq_true] at hwf
  case declarePoint l => exact pr_declarePoint K l hwf rest hr
  case declareCircle l => exact pr_declareCircle K l hwf rest hr
  case declareArc l => exact pr_declareArc K l hwf rest hr
  case fixPointComponent l c v => exact pr_fixPointComponent K l c v hwf.1 hwf.2 rest hr
  case vertical a b => exact pr_vertical K a b hwf.1 hwf.2 rest
  case horizontal a b => exact pr_horizontal K a b hwf.1 hwf.2 rest
  case distance a b d => exact pr_distance K a b d hwf.1 hwf.2 rest
  case parallel a b c d => exact pr_parallel K a b c d hwf.1.1.1 hwf.1.1.2 hwf.1.2 hwf.2 rest
  case perpendicular a b c d =>
    exact pr_perpendicular K a b c d hwf.1.1.1 hwf.1.1.2 hwf.1.2 hwf.2 rest
  case angleLine a b c d ang =>
    exact pr_angleLine K a b c d ang hwf.1.1.1 hwf.1.1.2 hwf.1.2 hwf.2 rest
  case pointsCoincident a b => exact pr_pointsCoincident K a b hwf.1 hwf.2 rest
  case pointArcCoincident a b => exact pr_pointArcCoincident K a b hwf.1 hwf.2 rest
  case midpoint a b m => exact pr_midpoint K a b m hwf.1.1 hwf.1.2 hwf.2 rest
  case symmetric p q a b => exact pr_symmetric K p q a b hwf.1.1.1 hwf.1.1.2 hwf.1.2 hwf.2 rest
  case circleRadius c r => exact pr_circleRadius K c r hwf rest
  case tangent p0 p1 c => exact pr_tangent K p0 p1 c hwf.1.1 hwf.1.2 hwf.2 rest
  case arcRadius a r => exact pr_arcRadius K a r hwf rest
  case fixCenterPointComponent l c v =>
    exact pr_fixCenterPointComponent K l c v hwf.1 hwf.2 rest hr
  case linesEqualLength a b c d =>
    exact pr_linesEqualLength K a b c d hwf.1.1.1 hwf.1.1.2 hwf.1.2 hwf.2 rest
  case isArc a => exact pr_isArc K a hwf rest
  case pointLineDistance p l0 l1 d =>
    exact pr_pointLineDistance K p l0 l1 d hwf.1.1 hwf.1.2 hwf.2 rest
  case line a b => exact pr_line K a b hwf.1 hwf.2 rest
  case arcLength a d => exact pr_arcLength K a d hwf rest

/-! ### (iii) Lines and sections -/

/-- Every line preceded by a newline. -/
def tailLines (ls : List (List Char)) : List Char := (ls.map (fun l => '\n' :: l)).flatten

/-- `tailLines` of a non-empty list. -/
theorem tailLines_cons (l : List Char) (ls : List (List Char)) :
    tailLines (l :: ls) = '\n' :: (l ++ tailLines ls) := by simp [tailLines]

/-- There is at least one character per line. -/
theorem tailLines_length (ls : List (List Char)) : ls.length ≤ (tailLines ls).length := by
  induction ls with
  | nil => simp [tailLines]
  | cons l ls ih => rw [tailLines_cons]; simp; omega

/-- Lines followed by a line end start with a line end. -/
theorem lineEnd_tailLines (ls : List (List Char)) (tail : List Char) (ht : lineEnd tail = true) :
    lineEnd (tailLines ls ++ tail) = true := by
  cases ls with
  | nil => simpa [tailLines] using ht
  | cons l ls => rw [tailLines_cons]; rfl

/-- The loop of `separated(1.., p, newline)` over printed lines: it reads every line and stops,
without consuming anything, at a tail on which `p` fails. -/
theorem separated_go {β : Type} (p : P β) :
    ∀ (items : List (List Char × β)) (tail : List Char) (acc : List β) (fuel : Nat),
      (∀ it ∈ items, ∀ rest, lineEnd rest = true → p (it.1 ++ rest) = some (it.2, rest)) →
      lineEnd tail = true → (∀ t, tail = '\n' :: t → p t = none) → items.length ≤ fuel →
      separated1.go p fuel acc (tailLines (items.map (·.1)) ++ tail) =
        (acc.reverse ++ items.map (·.2), tail) := by
  intro items
  induction items with
  | nil =>
    intro tail acc fuel _ ht hp _
    simp only [List.map_nil, tailLines, List.flatten_nil, List.nil_append, List.append_nil]
    cases fuel with
    | zero => rfl
    | succ f =>
      cases tail with
      | nil => rfl
      | cons c t =>
        have : c = '\n' := by simpa [lineEnd] using ht
        subst this
        simp [separated1.go, hp t rfl]
  | cons it items ih =>
    intro tail acc fuel hit ht hp hf
    cases fuel with
    | zero => simp at hf
    | succ f =>
      have h1 := hit it (by simp) (tailLines (items.map (·.1)) ++ tail)
        (lineEnd_tailLines _ _ ht)
      have h2 := ih tail (it.2 :: acc) f (fun x hx => hit x (by simp [hx])) ht hp
        (by simp at hf; omega)
      simp only [List.map_cons, tailLines_cons, List.cons_append, List.append_assoc,
        separated1.go, h1, h2]
      simp

/-- `separated(1.., p, newline)` over one or more printed lines. -/
theorem separated1_lines {β : Type} (p : P β) (it : List Char × β) (items : List (List Char × β))
    (tail : List Char)
    (hit : ∀ x ∈ it :: items, ∀ rest, lineEnd rest = true → p (x.1 ++ rest) = some (x.2, rest))
    (ht : lineEnd tail = true) (hp : ∀ t, tail = '\n' :: t → p t = none) :
    separated1 p (it.1 ++ (tailLines (items.map (·.1)) ++ tail)) =
      some (it.2 :: items.map (·.2), tail) := by
  have h1 := hit it (by simp) (tailLines (items.map (·.1)) ++ tail) (lineEnd_tailLines _ _ ht)
  have hlen : items.length ≤ (tailLines (items.map (·.1)) ++ tail).length + 1 := by
    have := tailLines_length (items.map (·.1))
    simp at this ⊢; omega
  simp only [separated1, h1, separated_go p items tail [it.2] _
    (fun x hx => hit x (by simp [hx])) ht hp hlen]
  simp

/-! Guess lines -/

/-- A guess label per the grammar (`label ('.' label)?`): an identifier, optionally followed by a
dot and another identifier. -/
def isGuessLabel (s : String) : Bool :=
  !(s.toList.takeWhile isAlphanum).isEmpty &&
  (match s.toList.dropWhile isAlphanum with
   | [] => true
   | '.' :: t => isIdent t
   | _ => false)

/-- `l ++ "." ++ t` as strings is the string of the characters `l . t`. -/
theorem ofList_dot (l t : List Char) :
    String.ofList l ++ "." ++ String.ofList t = String.ofList (l ++ '.' :: t) := by
  apply String.toList_injective
  simp [String.toList_append, String.toList_ofList]

/-- `label ('.' label)?` reads a guess label back (followed by a space), and such a label does not start with a blank. -/
theorem parseLabelOptSuffix_hit (s : String) (hs : isGuessLabel s = true) (X : List Char) :
    parseLabelOptSuffix (s.toList ++ ' ' :: X) = some (s, ' ' :: X) ∧
    space0 (s.toList ++ ' ' :: X) = s.toList ++ ' ' :: X := by
  simp only [isGuessLabel, Bool.and_eq_true, Bool.not_eq_true'] at hs
  obtain ⟨h1, h2⟩ := hs
  have hsplit : s.toList.takeWhile isAlphanum ++ s.toList.dropWhile isAlphanum = s.toList :=
    List.takeWhile_append_dropWhile
  have hl : isIdent (s.toList.takeWhile isAlphanum) = true := by
    simp only [isIdent, h1, Bool.not_false, Bool.true_and, List.all_takeWhile]
  generalize s.toList.takeWhile isAlphanum = l at *
  cases hd : s.toList.dropWhile isAlphanum with
  | nil =>
    rw [hd, List.append_nil] at hsplit
    subst hsplit
    refine ⟨?_, space0_ident _ _ hl⟩
    simp only [parseLabelOptSuffix, parseLabel_ident s.toList (' ' :: X) hl rfl]
    simp [String.ofList_toList]
  | cons c t =>
    rw [hd] at h2 hsplit
    have hc : c = '.' := by
      by_cases hc : c = '.'
      · exact hc
      · exfalso; revert h2; split <;> simp_all
    subst hc
    have ht : isIdent t = true := by simpa using h2
    rw [← hsplit]
    refine ⟨?_, by rw [List.append_assoc]; exact space0_ident _ _ hl⟩
    simp only [List.append_assoc, List.cons_append, parseLabelOptSuffix,
      parseLabel_ident l ('.' :: (t ++ ' ' :: X)) hl rfl, parseLabel_ident t (' ' :: X) ht rfl]
    rw [ofList_dot, hsplit, String.ofList_toList]

/-- `(x, y)`. -/
def renderPoint {ν : Type} (K : NumCodec ν) (x y : ν) : List Char :=
  '(' :: (K.rn x ++ ',' :: ' ' :: (K.rn y ++ [')']))

/-- `(x, y)` is read back by `parse_point`. -/
theorem parsePoint_hit {ν : Type} (K : NumCodec ν) (x y : ν) (rest : List Char) :
    parsePoint (renderPoint K x y ++ rest) = some ((K.val x, K.val y), rest) := by
  simp only [renderPoint, List.cons_append, List.append_assoc, List.nil_append, parsePoint,
    insideBrackets, chr_hit, K.space0_rn, K.parse_rn x (',' :: ' ' :: (K.rn y ++ ')' :: rest)) rfl,
    space0_space, K.parse_rn y (')' :: rest) rfl]

/-- `<label> roughly (<x>, <y>)`. -/
def renderPointGuess {ν : Type} (K : NumCodec ν) (g : String × ν × ν) : List Char :=
  g.1.toList ++ " roughly ".toList ++ renderPoint K g.2.1 g.2.2

/-- `<label> roughly <v>`. -/
def renderScalarGuess {ν : Type} (K : NumCodec ν) (g : String × ν) : List Char :=
  g.1.toList ++ " roughly ".toList ++ K.rn g.2

/-- A printed point guess is read back by `parse_guess`. -/
theorem parseGuess_point {ν : Type} (K : NumCodec ν) (g : String × ν × ν)
    (hg : isGuessLabel g.1 = true) (rest : List Char) :
    parseGuess (renderPointGuess K g ++ rest) =
      some (.point g.1 (K.val g.2.1) (K.val g.2.2), rest) := by
  simp only [renderPointGuess, show " roughly ".toList =
    [' ', 'r', 'o', 'u', 'g', 'h', 'l', 'y', ' '] from rfl, List.append_assoc, List.cons_append,
    List.nil_append]
  obtain ⟨h1, h2⟩ := parseLabelOptSuffix_hit g.1 hg
    ('r' :: 'o' :: 'u' :: 'g' :: 'h' :: 'l' :: 'y' :: ' ' :: (renderPoint K g.2.1 g.2.2 ++ rest))
  have h3 : space0 (renderPoint K g.2.1 g.2.2 ++ rest) = renderPoint K g.2.1 g.2.2 ++ rest :=
    space0_paren '(' _ (by decide)
  simp only [parseGuess, h2, h1, space0_space]
  simp [tag, space0_paren 'r' _ (by decide), space0_space, h3, parsePoint_hit]

/-- A printed scalar guess is read back by `parse_guess`. -/
theorem parseGuess_scalar {ν : Type} (K : NumCodec ν) (g : String × ν)
    (hg : isGuessLabel g.1 = true) (rest : List Char) (hr : lineEnd rest = true) :
    parseGuess (renderScalarGuess K g ++ rest) = some (.scalar g.1 (K.val g.2), rest) := by
  simp only [renderScalarGuess, show " roughly ".toList =
    [' ', 'r', 'o', 'u', 'g', 'h', 'l', 'y', ' '] from rfl, List.append_assoc, List.cons_append,
    List.nil_append]
  obtain ⟨h1, h2⟩ := parseLabelOptSuffix_hit g.1 hg
    ('r' :: 'o' :: 'u' :: 'g' :: 'h' :: 'l' :: 'y' :: ' ' :: (K.rn g.2 ++ rest))
  have h4 : parsePoint (K.rn g.2 ++ rest) = none := by
    simp [parsePoint, insideBrackets, K.noParen]
  simp only [parseGuess, h2, h1, space0_space]
  simp [tag, space0_paren 'r' _ (by decide), space0_space, K.space0_rn, h4,
    K.parse_rn g.2 rest (lineEnd_numEnd hr)]

/-! The whole file -/

theorem parseInstruction_newline (Z : List Char) : parseInstruction ('\n' :: Z) = none := by
  rw [parseInstruction_eq, space0_paren '\n' _ (by decide)]
  unfold alts
  skip_alts
  rfl

/-- `parse_guess` fails on the empty input. -/
theorem parseGuess_nil : parseGuess [] = none := by
  simp [parseGuess, space0, parseLabelOptSuffix, parseLabel]

/-- The labels of the `point` declarations, in order. -/
def declaredPoints {ν : Type} (is : List (Instr ν)) : List String :=
  is.filterMap fun i => match i with | .declarePoint l => some l | _ => none
/-- The labels of the `circle` declarations, in order. -/
def declaredCircles {ν : Type} (is : List (Instr ν)) : List String :=
  is.filterMap fun i => match i with | .declareCircle l => some l | _ => none
/-- The labels of the `arc` declarations, in order. -/
def declaredArcs {ν : Type} (is : List (Instr ν)) : List String :=
  is.filterMap fun i => match i with | .declareArc l => some l | _ => none
/-- The `line(a, b)` instructions, in order. -/
def declaredLines {ν : Type} (is : List (Instr ν)) : List (String × String) :=
  is.filterMap fun i => match i with | .line a b => some (a, b) | _ => none

/-- The problem the parser assembles from the instruction and guess lists it has read. -/
def assemble (instructions : List (Instr Float)) (gs : List Guess) : Problem Float := {
  instructions := instructions
  innerPoints := instructions.filterMap fun i => match i with | .declarePoint l => some l | _ => none
  innerCircles := instructions.filterMap fun i => match i with | .declareCircle l => some l | _ => none
  innerArcs := instructions.filterMap fun i => match i with | .declareArc l => some l | _ => none
  innerLines := instructions.filterMap fun i => match i with | .line a b => some (a, b) | _ => none
  pointGuesses := gs.filterMap fun g => match g with | .point l x y => some (l, x, y) | _ => none
  scalarGuesses := gs.filterMap fun g => match g with | .scalar l v => some (l, v) | _ => none }

/-- The layout of a problem text: header, instruction lines, blank line, header, guess lines,
final newline. -/
def layout (ilines glines : List (List Char)) : List Char :=
  "# constraints".toList ++ (tailLines ilines ++
    ("\n\n# guesses".toList ++ (tailLines glines ++ ['\n'])))

/-- **Sections.**  If every instruction line and every guess line is read back by its line parser,
the whole text is read back by `parseProblem`: the instruction lists are concatenated in order and
the guesses are split into point guesses and scalar guesses, in order. -/
theorem parseProblem_layout (I : List (List Char × List (Instr Float)))
    (G : List (List Char × Guess)) (hI : I ≠ []) (hG : G ≠ [])
    (hIp : ∀ x ∈ I, ∀ rest, lineEnd rest = true → parseInstruction (x.1 ++ rest) = some (x.2, rest))
    (hGp : ∀ x ∈ G, ∀ rest, lineEnd rest = true → parseGuess (x.1 ++ rest) = some (x.2, rest))
    (s : String) (hs : s.toList = layout (I.map (·.1)) (G.map (·.1))) :
    parseProblem s = some (assemble (I.map (·.2)).flatten (G.map (·.2))) := by
  cases I with
  | nil => exact absurd rfl hI
  | cons i1 I =>
    cases G with
    | nil => exact absurd rfl hG
    | cons g1 G =>
      have hsepG := separated1_lines parseGuess g1 G ['\n'] hGp rfl (by
        intro t ht; injection ht with _ ht; subst ht; exact parseGuess_nil)
      have hsepI := separated1_lines parseInstruction i1 I
        ('\n' :: '\n' :: '#' :: ' ' :: 'g' :: 'u' :: 'e' :: 's' :: 's' :: 'e' :: 's' :: '\n' ::
          (g1.1 ++ (tailLines (G.map (·.1)) ++ ['\n']))) hIp rfl (by
        intro t ht; injection ht with _ ht; subst ht; exact parseInstruction_newline _)
      have hlay : layout ((i1 :: I).map (·.1)) ((g1 :: G).map (·.1)) =
          '#' :: ' ' :: 'c' :: 'o' :: 'n' :: 's' :: 't' :: 'r' :: 'a' :: 'i' :: 'n' :: 't' :: 's' ::
            '\n' :: (i1.1 ++ (tailLines (I.map (·.1)) ++
          ('\n' :: '\n' :: '#' :: ' ' :: 'g' :: 'u' :: 'e' :: 's' :: 's' :: 'e' :: 's' :: '\n' ::
            (g1.1 ++ (tailLines (G.map (·.1)) ++ ['\n']))))) := by
        unfold layout
        simp only [List.map_cons, tailLines_cons,
          show "# constraints".toList =
            ['#', ' ', 'c', 'o', 'n', 's', 't', 'r', 'a', 'i', 'n', 't', 's'] from rfl,
          show "\n\n# guesses".toList =
            ['\n', '\n', '#', ' ', 'g', 'u', 'e', 's', 's', 'e', 's'] from rfl,
          List.cons_append, List.nil_append, List.append_assoc]
      have hh1 : ∀ R, header "constraints"
          ('#' :: ' ' :: 'c' :: 'o' :: 'n' :: 's' :: 't' :: 'r' :: 'a' :: 'i' :: 'n' :: 't' :: 's' ::
            '\n' :: R) = some ((), R) := by
        intro R; simp [header, chr, space0, tag]
      have hh2 : ∀ R, header "guesses"
          (space0 ('#' :: ' ' :: 'g' :: 'u' :: 'e' :: 's' :: 's' :: 'e' :: 's' :: '\n' :: R)) =
            some ((), R) := by
        intro R; simp [header, chr, space0, tag]
      try simp only [List.append_assoc, List.cons_append, List.nil_append] at hsepI
      try simp only [List.append_assoc, List.cons_append, List.nil_append] at hsepG
      unfold parseProblem
      rw [hs, hlay]
      simp only [hh1]
      simp only [hsepI]
      simp only [hh2, hsepG]
      simp only [space0, List.dropWhile_nil, List.isEmpty_nil, if_true]
      rfl

/-! ### The printer for problems and the round trip -/

/-- Apply a function to every number of a problem. -/
def Problem.mapNum {ν β : Type} (f : ν → β) (p : Problem ν) : Problem β := {
  instructions := p.instructions.map (Instr.mapNum f)
  innerPoints := p.innerPoints
  innerCircles := p.innerCircles
  innerArcs := p.innerArcs
  innerLines := p.innerLines
  pointGuesses := p.pointGuesses.map fun g => (g.1, f g.2.1, f g.2.2)
  scalarGuesses := p.scalarGuesses.map fun g => (g.1, f g.2) }

/-- **Well-formed problems** (decidable): at least one instruction and one guess (the grammar's
`separated(1.., …)`); every instruction well-formed (`Instr.wf`); every guess label of the form
`label` or `label.label`; and the derived fields (`innerPoints`, …) are what the parser derives from
the instruction list. -/
def Problem.wf {ν : Type} (p : Problem ν) : Bool :=
  !p.instructions.isEmpty && p.instructions.all Instr.wf &&
  !(p.pointGuesses.isEmpty && p.scalarGuesses.isEmpty) &&
  p.pointGuesses.all (fun g => isGuessLabel g.1) &&
  p.scalarGuesses.all (fun g => isGuessLabel g.1) &&
  decide (p.innerPoints = declaredPoints p.instructions) &&
  decide (p.innerCircles = declaredCircles p.instructions) &&
  decide (p.innerArcs = declaredArcs p.instructions) &&
  decide (p.innerLines = declaredLines p.instructions)

/-- The canonical text of a problem, as characters: `# constraints`, one line per instruction (in
the order of `p.instructions`, declarations included), a blank line, `# guesses`, one line per
point guess then one per scalar guess, and a final newline. -/
def renderChars {ν : Type} (K : NumCodec ν) (p : Problem ν) : List Char :=
  layout (p.instructions.map (renderInstr K))
    (p.pointGuesses.map (renderPointGuess K) ++ p.scalarGuesses.map (renderScalarGuess K))

/-- The canonical text of a problem. -/
def render {ν : Type} (K : NumCodec ν) (p : Problem ν) : String := String.ofList (renderChars K p)

/-- Concatenating singletons is mapping. -/
theorem flatten_map_singleton {β γ : Type} (f : β → γ) (l : List β) :
    (l.map fun x => [f x]).flatten = l.map f := by
  induction l with
  | nil => rfl
  | cons a l ih => simp [ih]

/-- Changing the numbers of the instructions does not change the declared labels (as the parser derives them). -/
theorem declared_mapNum {ν : Type} (f : ν → Float) (is : List (Instr ν)) :
    (is.map (Instr.mapNum f)).filterMap
      (fun i => match i with | .declarePoint l => some l | _ => none) = declaredPoints is ∧
    (is.map (Instr.mapNum f)).filterMap
      (fun i => match i with | .declareCircle l => some l | _ => none) = declaredCircles is ∧
    (is.map (Instr.mapNum f)).filterMap
      (fun i => match i with | .declareArc l => some l | _ => none) = declaredArcs is ∧
    (is.map (Instr.mapNum f)).filterMap
      (fun i => match i with | .line a b => some (a, b) | _ => none) = declaredLines is := by
  induction is with
  | nil => exact ⟨rfl, rfl, rfl, rfl⟩
  | cons i is ih =>
    obtain ⟨h1, h2, h3, h4⟩ := ih
    simp only [declaredPoints, declaredCircles, declaredArcs, declaredLines, List.map_cons,
      List.filterMap_cons] at h1 h2 h3 h4 ⊢
    cases i <;> simp [Instr.mapNum, h1, h2, h3, h4]

/-- **`parse ∘ print = id` on well-formed problems.**  For every number codec `K` and every
well-formed problem `p` over `K`'s tokens, the model parser reads the canonical text of `p` back as
`p` itself — the same instructions in the same order, the same derived label lists, the same
guesses — with every number token replaced by the value the number parser gives it. -/
theorem parse_render_codec {ν : Type} (K : NumCodec ν) (p : Problem ν) (hwf : p.wf = true) :
    parseProblem (render K p) = some (p.mapNum K.val) := by
  simp only [Problem.wf, Bool.and_eq_true, Bool.not_eq_true', List.all_eq_true,
    decide_eq_true_eq] at hwf
  obtain ⟨⟨⟨⟨⟨⟨⟨⟨h0, hI⟩, hG0⟩, hPG⟩, hSG⟩, e1⟩, e2⟩, e3⟩, e4⟩ := hwf
  have key := parseProblem_layout
    (p.instructions.map fun i => (renderInstr K i, [i.mapNum K.val]))
    (p.pointGuesses.map (fun g => (renderPointGuess K g, Guess.point g.1 (K.val g.2.1) (K.val g.2.2)))
      ++ p.scalarGuesses.map (fun g => (renderScalarGuess K g, Guess.scalar g.1 (K.val g.2))))
    (by cases hp : p.instructions with
        | nil => simp [hp] at h0
        | cons a l => simp)
    (by cases hp : p.pointGuesses with
        | nil =>
          cases hq : p.scalarGuesses with
          | nil => simp [hp, hq] at hG0
          | cons a l => simp
        | cons a l => simp)
    (by
      intro x hx rest hr
      obtain ⟨i, hi, rfl⟩ := List.mem_map.mp hx
      exact parse_render_instr K i (hI i hi) rest hr)
    (by
      intro x hx rest hr
      rcases List.mem_append.mp hx with hx | hx
      · obtain ⟨g, hg, rfl⟩ := List.mem_map.mp hx
        exact parseGuess_point K g (hPG g hg) rest
      · obtain ⟨g, hg, rfl⟩ := List.mem_map.mp hx
        exact parseGuess_scalar K g (hSG g hg) rest hr)
    (render K p)
    (by simp [render, renderChars, String.toList_ofList, List.map_map, Function.comp_def])
  rw [key]
  congr 1
  obtain ⟨d1, d2, d3, d4⟩ := declared_mapNum K.val p.instructions
  have hflat : (List.map (fun x => x.2)
      (p.instructions.map fun i => (renderInstr K i, [i.mapNum K.val]))).flatten =
      p.instructions.map (Instr.mapNum K.val) := by
    rw [List.map_map]; exact flatten_map_singleton _ _
  simp only [assemble, Problem.mapNum, hflat]
  congr 1
  · rw [e1]; exact d1
  · rw [e2]; exact d2
  · rw [e3]; exact d3
  · rw [e4]; exact d4
  · simp [List.filterMap_append, List.filterMap_map, Function.comp_def]
  · simp [List.filterMap_append, List.filterMap_map, Function.comp_def]


/-- Core's `Char.isDigit` implies the model's `isDigit`. -/
theorem isDigit_of_charIsDigit {c : Char} (h : c.isDigit = true) : isDigit c = true := by
  simp only [Char.isDigit, Bool.and_eq_true, decide_eq_true_eq] at h
  simp only [isDigit, Bool.and_eq_true, decide_eq_true_eq, Char.le_def]
  exact ⟨h.1, h.2⟩

/-- `digitsVal` of digits followed by one more digit. -/
theorem digitsVal_append_singleton (ds : List Char) (c : Char) :
    digitsVal (ds ++ [c]) = digitsVal ds * 10 + (c.toNat - 48) := by
  simp [digitsVal, List.foldl_append]

/-- Reading the decimal digits of `n` gives `n`. -/
theorem digitsVal_toDigits : ∀ n : Nat, digitsVal (Nat.toDigits 10 n) = n := by
  intro n
  induction n using Nat.strongRecOn with
  | _ n ih =>
    rw [Nat.toDigits_eq_if (by decide)]
    split
    · rename_i h
      simp [digitsVal, Nat.toNat_digitChar_sub_48_of_lt_ten h]
    · rename_i h
      rw [digitsVal_append_singleton, ih (n / 10) (by omega),
        Nat.toNat_digitChar_sub_48_of_lt_ten (Nat.mod_lt n (by decide))]
      omega


/-- What `numEnd` says about a non-empty input: its first character is no digit, `.`, `e` or `E`. -/
theorem numEnd_spec {rest : List Char} (h : numEnd rest = true) :
    ∀ c r, rest = c :: r → isDigit c = false ∧ c ≠ '.' ∧ c ≠ 'e' ∧ c ≠ 'E' := by
  intro c r hr
  subst hr
  simp only [numEnd, Bool.not_eq_true', Bool.or_eq_false_iff, beq_eq_false_iff_ne] at h
  exact ⟨h.1.1.1, h.1.1.2, h.1.2, h.2⟩

/-- The sign of a float token. -/
def signPart (i : Input) : Bool × Bool × Input :=
  match i with
  | '-' :: r => (true, true, r)
  | '+' :: r => (false, true, r)
  | _ => (false, false, i)

/-- The mantissa of a float token: `digit1 ('.' digit*)? | '.' digit1`. -/
def mantPart (i1 : Input) : Option (List Char × List Char × Input) :=
  let intDs := i1.takeWhile isDigit
  let afterInt := i1.drop intDs.length
  if !intDs.isEmpty then
    match afterInt with
    | '.' :: r =>
      let fr := r.takeWhile isDigit
      some (intDs, fr, r.drop fr.length)
    | _ => some (intDs, [], afterInt)
  else
    match i1 with
    | '.' :: r =>
      let fr := r.takeWhile isDigit
      if fr.isEmpty then none else some ([], fr, r.drop fr.length)
    | _ => none

/-- The optional exponent of a float token. -/
def expPart (rest : Input) : Int × Input :=
  match rest with
  | e :: r =>
    if e == 'e' || e == 'E' then
      let (eneg, r1) := match r with
        | '-' :: r1 => (true, r1)
        | '+' :: r1 => (false, r1)
        | _ => (false, r)
      let ed := r1.takeWhile isDigit
      if ed.isEmpty then (0, rest)
      else ((if eneg then -(expDigitsVal ed : Int) else (expDigitsVal ed : Int)), r1.drop ed.length)
    else (0, rest)
  | [] => (0, rest)

/-- `parseFloat`, cut into its three lexical parts. -/
theorem parseFloat_parts (i : Input) :
    parseFloat i =
      match mantPart (signPart i).2.2 with
      | some (ip, fp, rest) =>
        let exp := (expPart rest).1
        some (decToFloat (signPart i).1 (digitsVal (ip ++ fp)) (exp - fp.length), (expPart rest).2)
      | none =>
        match tagNoCase "nan" i with
        | some (_, r) => if (signPart i).2.1 then none else some (0.0 / 0.0, r)
        | none =>
          match tagNoCase "infinity" (signPart i).2.2 with
          | some (_, r) => some (if (signPart i).1 then -(1.0 / 0.0) else 1.0 / 0.0, r)
          | none =>
            match tagNoCase "inf" (signPart i).2.2 with
            | some (_, r) => some (if (signPart i).1 then -(1.0 / 0.0) else 1.0 / 0.0, r)
            | none => none := by
  rfl


/-- A token starting with a digit has no sign. -/
theorem signPart_digit (c : Char) (r : List Char) (hc : isDigit c = true) :
    signPart (c :: r) = (false, false, c :: r) := by
  have hc1 : c ≠ '-' := by intro h; subst h; exact absurd hc (by decide)
  have hc2 : c ≠ '+' := by intro h; subst h; exact absurd hc (by decide)
  unfold signPart
  split
  · rename_i heq; injection heq with heq; exact absurd heq hc1
  · rename_i heq; injection heq with heq; exact absurd heq hc2
  · rfl

/-- Digits followed by something that cannot continue a number: integer part = the digits, no fraction. -/
theorem mantPart_int (c : Char) (t rest : List Char)
    (hd : ∀ x ∈ c :: t, isDigit x = true) (hr : numEnd rest = true) :
    mantPart (c :: t ++ rest) = some (c :: t, [], rest) := by
  obtain ⟨h1, h2⟩ := takeWhile_append_stop (p := isDigit) (c :: t) rest hd
    (fun x r hx => (numEnd_spec hr x r hx).1)
  have h3 : List.drop (c :: t).length (c :: t ++ rest) = rest := List.drop_left
  unfold mantPart
  simp only [h1, h3, List.isEmpty_cons, Bool.not_false, if_true]
  split
  · rename_i r; exact absurd rfl (numEnd_spec hr '.' r rfl).2.1
  · rfl

/-- No exponent when the input cannot continue a number. -/
theorem expPart_none (rest : List Char) (hr : numEnd rest = true) : expPart rest = (0, rest) := by
  unfold expPart
  cases rest with
  | nil => rfl
  | cons e r =>
    obtain ⟨_, _, h3, h4⟩ := numEnd_spec hr e r rfl
    have : (e == 'e' || e == 'E') = false := by simp [h3, h4]
    simp [this]

/-- The model's float parser reads an optional `-` followed by decimal digits as the exact
conversion of that integer. -/
theorem parseFloat_int (neg : Bool) (c : Char) (t rest : List Char)
    (hd : ∀ x ∈ c :: t, isDigit x = true) (hr : numEnd rest = true) :
    parseFloat ((if neg then ['-'] else []) ++ (c :: t) ++ rest) =
      some (decToFloat neg (digitsVal (c :: t)) 0, rest) := by
  have hc : isDigit c = true := hd c (by simp)
  have hs : signPart ((if neg then ['-'] else []) ++ (c :: t) ++ rest) = (neg, neg, c :: t ++ rest) := by
    cases neg with
    | false => exact signPart_digit c _ hc
    | true => rfl
  rw [parseFloat_parts, hs]
  simp only [mantPart_int c t rest hd hr, expPart_none rest hr]
  simp


/-! ### The integer codec -/

/-- A signed decimal integer literal. -/
structure IntLit where
  neg : Bool
  mag : Nat
deriving DecidableEq, Repr

/-- Printed as an optional `-` and the decimal digits of the magnitude (`-0` is a literal). -/
def IntLit.chars (x : IntLit) : List Char :=
  (if x.neg then ['-'] else []) ++ Nat.toDigits 10 x.mag

/-- Its value: the parser's own exact decimal → binary64 conversion of the integer (correctly
rounded; exact for `mag < 2^53`). -/
def IntLit.toFloat (x : IntLit) : Float := decToFloat x.neg x.mag 0

/-- The decimal digits of `n` are a non-empty list of digit characters. -/
theorem toDigits_digits (n : Nat) : ∃ c t, Nat.toDigits 10 n = c :: t ∧
    ∀ x ∈ c :: t, isDigit x = true := by
  cases h : Nat.toDigits 10 n with
  | nil => exact absurd h Nat.toDigits_ne_nil
  | cons c t =>
    refine ⟨c, t, rfl, ?_⟩
    intro x hx
    rw [← h] at hx
    exact isDigit_of_charIsDigit (Nat.isDigit_of_mem_toDigits (by decide) (by decide) hx)

/-- **The integer number codec**: signed decimal integers, read back by the model's number parser
as `decToFloat neg mag 0`. -/
def intCodec : NumCodec IntLit where
  rn := IntLit.chars
  val := IntLit.toFloat
  parse_rn := by
    intro x rest hr
    obtain ⟨c, t, h, hd⟩ := toDigits_digits x.mag
    have := parseFloat_int x.neg c t rest hd hr
    rw [← h, digitsVal_toDigits] at this
    exact this
  head_ok := by
    intro x
    obtain ⟨c, t, h, hd⟩ := toDigits_digits x.mag
    cases hn : x.neg with
    | true => exact ⟨'-', Nat.toDigits 10 x.mag, by simp [IntLit.chars, hn], by decide, by decide⟩
    | false =>
      refine ⟨c, t, by simp [IntLit.chars, hn, h], ?_, ?_⟩
      · have hc := hd c (by simp)
        cases hb : (c == '(') with
        | false => rfl
        | true => rw [eq_of_beq hb] at hc; exact absurd hc (by decide)
      · have hc := hd c (by simp)
        cases hb : (c == ' ' || c == '\t') with
        | false => rfl
        | true =>
          simp only [Bool.or_eq_true, beq_iff_eq] at hb
          rcases hb with hb | hb <;> rw [hb] at hc <;> exact absurd hc (by decide)

/-- **`parse ∘ print = id` for problems with integer numbers.**  For every well-formed problem `p`
whose numbers are signed decimal integer literals, the model parser reads the canonical text of `p`
back as exactly `p`, each literal `±n` becoming the binary64 value `decToFloat (±) n 0`. -/
theorem parse_render (p : Problem IntLit) (hwf : p.wf = true) :
    parseProblem (render intCodec p) = some (p.mapNum IntLit.toFloat) :=
  parse_render_codec intCodec p hwf

/-- Every `Problem Float` that is the image of a well-formed integer-literal problem is the parse of
some text: the parser is onto this class. -/
theorem parse_surjective_on_wf (q : Problem Float)
    (h : ∃ p : Problem IntLit, p.wf = true ∧ q = p.mapNum IntLit.toFloat) :
    ∃ s, parseProblem s = some q := by
  obtain ⟨p, hwf, rfl⟩ := h
  exact ⟨render intCodec p, parse_render p hwf⟩

/-! ### Non-vacuity -/

/-- A concrete well-formed problem using declarations, a label-led form, keyword forms with and
without numbers, an angle, point guesses with dotted labels and a scalar guess. -/
def sampleProblem : Problem IntLit := {
  instructions := [.declarePoint "p", .declarePoint "q", .declareCircle "c", .declareArc "a",
    .fixPointComponent "p" .x ⟨false, 0⟩, .fixCenterPointComponent "c" .y ⟨true, 3⟩,
    .horizontal "p" "q", .distance "p" "q" ⟨false, 5⟩,
    .angleLine "p" "q" "q" "p" ⟨⟨false, 90⟩, true⟩, .circleRadius "c" ⟨false, 2⟩,
    .pointLineDistance "p" "q" "p" ⟨false, 1⟩, .line "p" "q", .isArc "a"]
  innerPoints := ["p", "q"], innerCircles := ["c"], innerArcs := ["a"], innerLines := [("p", "q")]
  pointGuesses := [("p", ⟨false, 0⟩, ⟨false, 0⟩), ("q", ⟨false, 1⟩, ⟨true, 1⟩),
    ("c.center", ⟨false, 2⟩, ⟨false, 2⟩), ("a.center", ⟨false, 0⟩, ⟨false, 0⟩),
    ("a.a", ⟨false, 1⟩, ⟨false, 0⟩), ("a.b", ⟨false, 0⟩, ⟨false, 1⟩)]
  scalarGuesses := [("c.radius", ⟨false, 2⟩)] }

example : sampleProblem.wf = true := by decide

example : parseProblem (render intCodec sampleProblem) =
    some (sampleProblem.mapNum IntLit.toFloat) := parse_render _ (by decide)

/-- A small problem whose canonical text is shown below. -/
def tinyProblem : Problem IntLit := {
  instructions := [.declarePoint "p", .fixPointComponent "p" .x ⟨true, 12⟩,
    .distance "p" "p" ⟨false, 5⟩]
  innerPoints := ["p"], innerCircles := [], innerArcs := [], innerLines := []
  pointGuesses := [("p", ⟨false, 0⟩, ⟨false, 7⟩)]
  scalarGuesses := [("c.radius", ⟨false, 2⟩)] }

/-- What the printer produces. -/
example : render intCodec tinyProblem =
    "# constraints\npoint p\np.x = -12\ndistance(p, p, 5)\n\n# guesses\np roughly (0, 7)\nc.radius roughly 2\n" := by
  decide

example : tinyProblem.wf = true := by decide

/-! ### The decimal codec -/

/-- Digits, a dot, digits: integer part = the first digits, fraction = the second. -/
theorem mantPart_dec (c : Char) (t fpc rest : List Char)
    (hd : ∀ x ∈ c :: t, isDigit x = true) (hf : ∀ x ∈ fpc, isDigit x = true)
    (hr : numEnd rest = true) :
    mantPart (c :: t ++ '.' :: (fpc ++ rest)) = some (c :: t, fpc, rest) := by
  obtain ⟨h1, _⟩ := takeWhile_append_stop (p := isDigit) (c :: t) ('.' :: (fpc ++ rest)) hd
    (fun x r hx => by injection hx with hx _; subst hx; rfl)
  obtain ⟨h2, _⟩ := takeWhile_append_stop (p := isDigit) fpc rest hf
    (fun x r hx => (numEnd_spec hr x r hx).1)
  have h3 : List.drop (c :: t).length (c :: t ++ '.' :: (fpc ++ rest)) = '.' :: (fpc ++ rest) :=
    List.drop_left
  have h4 : List.drop fpc.length (fpc ++ rest) = rest := List.drop_left
  unfold mantPart
  simp only [h1, h3, List.isEmpty_cons, Bool.not_false, if_true, h2, h4]

/-- The model's float parser reads `[-]digits.digits` as the exact conversion of the integer
spelled by all the digits, scaled by `10^-(number of fraction digits)`. -/
theorem parseFloat_dec (neg : Bool) (c : Char) (t fpc rest : List Char)
    (hd : ∀ x ∈ c :: t, isDigit x = true) (hf : ∀ x ∈ fpc, isDigit x = true)
    (hr : numEnd rest = true) :
    parseFloat ((if neg then ['-'] else []) ++ (c :: t) ++ '.' :: (fpc ++ rest)) =
      some (decToFloat neg (digitsVal ((c :: t) ++ fpc)) (-(fpc.length : Int)), rest) := by
  have hc : isDigit c = true := hd c (by simp)
  have hs : signPart ((if neg then ['-'] else []) ++ (c :: t) ++ '.' :: (fpc ++ rest)) =
      (neg, neg, c :: t ++ '.' :: (fpc ++ rest)) := by
    cases neg with
    | false => exact signPart_digit c _ hc
    | true => rfl
  rw [parseFloat_parts, hs]
  simp only [mantPart_dec c t fpc rest hd hf hr, expPart_none rest hr]
  simp

/-- A signed decimal literal: integer part, fraction digits (possibly none). -/
structure DecLit where
  neg : Bool
  ip : Nat
  fp : List (Fin 10)
deriving DecidableEq, Repr

/-- The characters of the fraction digits. -/
def DecLit.fpChars (x : DecLit) : List Char := x.fp.map fun d => Nat.digitChar d.val

/-- Printed as `[-]<digits of ip>` and, when there are fraction digits, `.<fraction digits>`. -/
def DecLit.chars (x : DecLit) : List Char :=
  (if x.neg then ['-'] else []) ++ Nat.toDigits 10 x.ip ++
    (if x.fp.isEmpty then [] else '.' :: x.fpChars)

/-- The integer spelled by all the digits: `3.25 ↦ 325`. -/
def DecLit.mantissa (x : DecLit) : Nat := x.fp.foldl (fun acc d => acc * 10 + d.val) x.ip

/-- Its value: the parser's exact conversion of `mantissa · 10^-(number of fraction digits)`. -/
def DecLit.toFloat (x : DecLit) : Float := decToFloat x.neg x.mantissa (-(x.fp.length : Int))

/-- The printed fraction digits are digit characters. -/
theorem DecLit.fpChars_digits (x : DecLit) : ∀ c ∈ x.fpChars, isDigit c = true := by
  intro c hc
  obtain ⟨d, _, rfl⟩ := List.mem_map.mp hc
  exact isDigit_of_charIsDigit (by simp [Nat.isDigit_digitChar, d.isLt])

/-- Reading all printed digits (integer part then fraction) gives the mantissa. -/
theorem DecLit.digitsVal_all (x : DecLit) :
    digitsVal (Nat.toDigits 10 x.ip ++ x.fpChars) = x.mantissa := by
  have h : ∀ (fp : List (Fin 10)) (acc : Nat),
      (fp.map fun d => Nat.digitChar d.val).foldl
        (fun acc c => acc * 10 + (c.toNat - '0'.toNat)) acc =
      fp.foldl (fun acc d => acc * 10 + d.val) acc := by
    intro fp
    induction fp with
    | nil => intro acc; rfl
    | cons d t ih =>
      intro acc
      simp only [List.map_cons, List.foldl_cons]
      rw [show ('0'.toNat) = 48 from rfl, Nat.toNat_digitChar_sub_48_of_lt_ten d.isLt]
      exact ih _
  have := digitsVal_toDigits x.ip
  simp only [digitsVal] at this ⊢
  rw [List.foldl_append, this]
  exact h x.fp x.ip

/-- **The decimal number codec**: signed decimal literals with an optional fraction (no exponent),
read back by the model's number parser as `decToFloat neg mantissa (-#fraction digits)`. -/
def decCodec : NumCodec DecLit where
  rn := DecLit.chars
  val := DecLit.toFloat
  parse_rn := by
    intro x rest hr
    obtain ⟨c, t, h, hd⟩ := toDigits_digits x.ip
    cases hfp : x.fp.isEmpty with
    | true =>
      have hnil : x.fp = [] := List.isEmpty_iff.mp hfp
      have := parseFloat_int x.neg c t rest hd hr
      rw [← h, digitsVal_toDigits] at this
      simp only [DecLit.chars, hfp, if_true, List.append_nil, DecLit.toFloat, DecLit.mantissa, hnil,
        List.foldl_nil, List.length_nil, parseNumber]
      simpa using this
    | false =>
      have := parseFloat_dec x.neg c t x.fpChars rest hd x.fpChars_digits hr
      rw [← h, x.digitsVal_all] at this
      have hl : x.fpChars.length = x.fp.length := by simp [DecLit.fpChars]
      rw [hl] at this
      simp only [DecLit.chars, hfp, Bool.false_eq_true, if_false, DecLit.toFloat, List.append_assoc,
        List.cons_append, parseNumber] at this ⊢
      exact this
  head_ok := by
    intro x
    obtain ⟨c, t, h, hd⟩ := toDigits_digits x.ip
    cases hn : x.neg with
    | true =>
      exact ⟨'-', _, by simp [DecLit.chars, hn]; rfl, by decide, by decide⟩
    | false =>
      refine ⟨c, t ++ (if x.fp.isEmpty then [] else '.' :: x.fpChars),
        by simp [DecLit.chars, hn, h], ?_, ?_⟩
      · have hc := hd c (by simp)
        cases hb : (c == '(') with
        | false => rfl
        | true => rw [eq_of_beq hb] at hc; exact absurd hc (by decide)
      · have hc := hd c (by simp)
        cases hb : (c == ' ' || c == '\t') with
        | false => rfl
        | true =>
          simp only [Bool.or_eq_true, beq_iff_eq] at hb
          rcases hb with hb | hb <;> rw [hb] at hc <;> exact absurd hc (by decide)

/-- **`parse ∘ print = id` for problems with decimal numbers.**  For every well-formed problem `p`
whose numbers are signed decimal literals `[-]ddd[.ddd]`, the model parser reads the canonical text
of `p` back as exactly `p`, each literal becoming the binary64 value
`decToFloat neg mantissa (-#fraction digits)`. -/
theorem parse_render_dec (p : Problem DecLit) (hwf : p.wf = true) :
    parseProblem (render decCodec p) = some (p.mapNum DecLit.toFloat) :=
  parse_render_codec decCodec p hwf

/-- A small problem with decimal numbers whose canonical text is shown below. -/
def tinyDecProblem : Problem DecLit := {
  instructions := [.declareCircle "c", .circleRadius "c" ⟨false, 3, [2, 5]⟩,
    .fixCenterPointComponent "c" .y ⟨true, 0, [5]⟩]
  innerPoints := [], innerCircles := ["c"], innerArcs := [], innerLines := []
  pointGuesses := [("c.center", ⟨false, 1, []⟩, ⟨true, 10, [0, 7]⟩)]
  scalarGuesses := [("c.radius", ⟨false, 3, []⟩)] }

/-- What the printer produces for decimal numbers. -/
example : render decCodec tinyDecProblem =
    "# constraints\ncircle c\nradius(c, 3.25)\nc.center.y = -0.5\n\n# guesses\nc.center roughly (1, -10.07)\nc.radius roughly 3\n" := by
  decide

example : tinyDecProblem.wf = true := by decide

example : parseProblem (render decCodec tinyDecProblem) =
    some (tinyDecProblem.mapNum DecLit.toFloat) := parse_render_dec _ (by decide)

end Ezpz.Text
