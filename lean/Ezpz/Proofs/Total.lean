/-
Totality of one level (`solveInner`): under the contracts of the two external numeric kernels, no
Rust panic site is reachable, and a successful result is finite when the guesses are.
Holds for every scalar type.
-/
import Ezpz.Proofs.Kernels
import Ezpz.Proofs.SolveInner
set_option linter.unusedSectionVars false
namespace Ezpz
open Transc

variable {α : Type} [Add α] [Sub α] [Mul α] [Div α] [Neg α] [OfScientific α]
  [LT α] [DecidableLT α] [LE α] [DecidableLE α] [Transc α]

/-! ### The first `dim` rows -/

theorem takeRows_get {β : Type} (d : Nat) (a b c : β) (k : Nat) (x : β)
    (h : (takeRows d a b c)[k]? = some x) :
    k < d ∧ ((k = 0 ∧ x = a) ∨ (k = 1 ∧ x = b) ∨ (k = 2 ∧ x = c)) := by
  unfold takeRows at h
  rw [List.getElem?_take] at h
  split at h
  · rename_i hk
    refine ⟨hk, ?_⟩
    match k, h with
    | 0, h => simp at h; exact Or.inl ⟨rfl, h.symm⟩
    | 1, h => simp at h; exact Or.inr (Or.inl ⟨rfl, h.symm⟩)
    | 2, h => simp at h; exact Or.inr (Or.inr ⟨rfl, h.symm⟩)
    | k + 3, h => simp at h
  · simp at h

/-- Row `k` of three. -/
def rowK {β : Type} (k : Nat) (a b c : β) : β :=
  match k with
  | 0 => a
  | 1 => b
  | _ => c

theorem takeRows_get_of_lt {β : Type} (d : Nat) (a b c : β) (k : Nat) (hk : k < d) (hk3 : k < 3) :
    (takeRows d a b c)[k]? = some (rowK k a b c) := by
  unfold takeRows
  rw [List.getElem?_take, if_pos hk]
  match k, hk3 with
  | 0, _ => rfl
  | 1, _ => rfl
  | 2, _ => rfl

/-- Membership in the cells generated from a list of rows. -/
theorem mem_cells {β γ : Type} (rows : List (List β)) (f : Nat → β → γ) (y : γ) :
    y ∈ (rows.zipIdx).flatMap (fun (row, k) => row.map (f k)) ↔
      ∃ k row b, rows[k]? = some row ∧ b ∈ row ∧ y = f k b := by
  simp only [List.mem_flatMap, List.mem_map]
  constructor
  · rintro ⟨⟨row, k⟩, hm, b, hb, rfl⟩
    exact ⟨k, row, b, List.mem_zipIdx_iff_getElem?.mp hm, hb, rfl⟩
  · rintro ⟨k, row, b, hk, hb, rfl⟩
    exact ⟨(row, k), List.mem_zipIdx_iff_getElem?.mpr hk, b, hb, rfl⟩

/-! ### Pattern -/

/-- The cells one entry contributes to the pattern. -/
theorem mem_patternFrom_head (e : Entry α) (rest : List (Entry α)) (row0 k id : Nat)
    (hk : k < e.c.residualDim)
    (hid : id ∈ rowK k e.c.nonzeroes.r0 e.c.nonzeroes.r1 e.c.nonzeroes.r2) :
    (row0 + k, id) ∈ patternFrom (e :: rest) row0 := by
  have hk3 : k < 3 := by
    rcases residualDim_range e.c with h | h | h <;> omega
  unfold patternFrom
  apply List.mem_append_left
  have := (mem_cells (takeRows e.c.residualDim e.c.nonzeroes.r0 e.c.nonzeroes.r1 e.c.nonzeroes.r2)
    (fun k id => (row0 + k, id)) (row0 + k, id)).mpr
    ⟨k, _, id, takeRows_get_of_lt _ _ _ _ k hk hk3, hid, rfl⟩
  exact this

theorem patternFrom_tail_subset (e : Entry α) (rest : List (Entry α)) (row0 : Nat) :
    ∀ cell ∈ patternFrom rest (row0 + e.c.residualDim), cell ∈ patternFrom (e :: rest) row0 := by
  intro cell h
  unfold patternFrom
  exact List.mem_append_right _ h

/-- All declared variables of all entries are `< n` when every pattern column is. -/
theorem declared_lt_of_pattern (n : Nat) :
    ∀ (es : List (Entry α)) (row0 : Nat), (∀ cell ∈ patternFrom es row0, cell.2 < n) →
      ∀ e ∈ es, ∀ id ∈ e.c.nonzeroes.all, id < n := by
  intro es
  induction es with
  | nil => intro row0 _ e he; simp at he
  | cons e0 rest ih =>
    intro row0 hpat e he id hid
    rcases List.mem_cons.mp he with rfl | he
    · have hb := nonzeroes_rows_beyond_dim e.c
      simp only [Rows.all, List.mem_append] at hid
      rcases hid with (hid | hid) | hid
      · have hk : 0 < e.c.residualDim := by rcases residualDim_range e.c with h | h | h <;> omega
        exact hpat _ (mem_patternFrom_head e rest row0 0 id hk hid)
      · by_cases hd : e.c.residualDim < 2
        · rw [hb.1 hd] at hid; simp at hid
        · exact hpat _ (mem_patternFrom_head e rest row0 1 id (by omega) hid)
      · by_cases hd : e.c.residualDim < 3
        · rw [hb.2 hd] at hid; simp at hid
        · exact hpat _ (mem_patternFrom_head e rest row0 2 id (by omega) hid)
    · exact ih (row0 + e0.c.residualDim)
        (fun cell hc => hpat cell (patternFrom_tail_subset e0 rest row0 cell hc)) e he id hid

/-- `Model::new` succeeded ⇒ every declared variable of every request is a valid slot. -/
theorem modelNew_ok_declared_lt (es : List (Entry α)) (vars : List Nat)
    (h : modelNew es vars = .ok ()) : ∀ e ∈ es, ∀ id ∈ e.c.nonzeroes.all, id < vars.length := by
  unfold modelNew at h
  split at h
  · simp at h
  · split at h
    · rename_i hall
      apply declared_lt_of_pattern vars.length es 0
      intro cell hc
      have := List.all_eq_true.mp hall cell hc
      simpa using this
    · simp at h

/-! ### Evaluation never indexes out of bounds -/

theorem lookup_isSome (x : List α) (i : Nat) (h : i < x.length) : (lookup x i).isSome = true := by
  simp [lookup, h]

theorem residual_isSome (c : Constraint α) (x : List α) (h : ∀ id ∈ c.nonzeroes.all, id < x.length) :
    ∃ r, c.residual (lookup x) = some r := by
  unfold Constraint.residual
  rw [if_pos]
  · exact ⟨_, rfl⟩
  · apply List.all_eq_true.mpr
    intro i hi
    exact lookup_isSome x i (h i (residualReads_subset c i hi))

theorem jacobianRows_isSome (c : Constraint α) (x : List α)
    (h : ∀ id ∈ c.nonzeroes.all, id < x.length) :
    c.jacobianRows (lookup x) = some (c.jacobianV (fun i => (lookup x i).getD 0.0)) := by
  unfold Constraint.jacobianRows
  rw [if_pos]
  apply List.all_eq_true.mpr
  intro i hi
  exact lookup_isSome x i (h i (jacobianReads_subset c i hi))

theorem residualAll_ok (x : List α) :
    ∀ (es : List (Entry α)), (∀ e ∈ es, ∀ id ∈ e.c.nonzeroes.all, id < x.length) →
      ∃ rs ws, residualAll es (lookup x) = .ok (rs, ws) := by
  intro es
  induction es with
  | nil => intro _; exact ⟨[], [], rfl⟩
  | cons e rest ih =>
    intro h
    obtain ⟨r, hr⟩ := residual_isSome e.c x (h e (by simp))
    obtain ⟨rs, ws, hrest⟩ := ih (fun e' he' => h e' (by simp [he']))
    unfold residualAll
    rw [hr]
    simp only [hrest]
    exact ⟨_, _, rfl⟩

/-- The scatter never misses the sparsity pattern. -/
theorem jacobianFrom_ok (pat : List (Nat × Nat)) (x : List α) :
    ∀ (es : List (Entry α)) (row0 : Nat),
      (∀ e ∈ es, ∀ id ∈ e.c.nonzeroes.all, id < x.length) →
      (∀ cell ∈ patternFrom es row0, cell ∈ pat) →
      ∃ ts ws, jacobianFrom pat es (lookup x) row0 = .ok (ts, ws) := by
  intro es
  induction es with
  | nil => intro row0 _ _; exact ⟨[], [], rfl⟩
  | cons e rest ih =>
    intro row0 h hpat
    have hj := jacobianRows_isSome e.c x (h e (by simp))
    obtain ⟨ts, ws, hrest⟩ := ih (row0 + e.c.residualDim) (fun e' he' => h e' (by simp [he']))
      (fun cell hc => hpat cell (patternFrom_tail_subset e rest row0 cell hc))
    unfold jacobianFrom
    rw [hj]
    dsimp only
    rw [if_pos]
    · simp only [hrest]; exact ⟨_, _, rfl⟩
    · apply List.all_eq_true.mpr
      rintro ⟨r, c, pd⟩ hmem
      have hm := (mem_cells _ (fun k (jv : JVar α) => (row0 + k, jv.id, jv.pd)) (r, c, pd)).mp hmem
      obtain ⟨k, row, jv, hk, hjv, heq⟩ := hm
      injection heq with h1 h2
      injection h2 with h2 h3
      subst h1 h2
      obtain ⟨hkd, hcase⟩ := takeRows_get _ _ _ _ k row hk
      have hids := jacobianV_ids_subset e.c (fun i => (lookup x i).getD 0.0)
      have hin : (row0 + k, jv.id) ∈ patternFrom (e :: rest) row0 := by
        apply mem_patternFrom_head e rest row0 k jv.id hkd
        rcases hcase with ⟨rfl, rfl⟩ | ⟨rfl, rfl⟩ | ⟨rfl, rfl⟩
        · exact hids.1 jv hjv
        · exact hids.2.1 jv hjv
        · exact hids.2.2 jv hjv
      have := hpat _ hin
      simp [this]

/-! ### The Newton loop never panics -/

/-- Contract of the LU oracle that matters for totality: a returned step has one entry per
variable, and a reported error is a faer error, not a panic. -/
structure LinSolveTotal (solve : Nat → List (Triplet α) → List α → Except SolveError (List α))
    (n : Nat) : Prop where
  length : ∀ k jac r d, solve k jac r = .ok d → d.length = n
  noPanic : ∀ k jac r e, solve k jac r = .error e → e.isPanic = false

theorem newtonStep_noPanic (es : List (Entry α)) (cfg : Config α)
    (solve : Nat → List (Triplet α) → List α → Except SolveError (List α)) (n : Nat)
    (hs : LinSolveTotal solve n) (k : Nat) (x : List α) (ws : List (Warning α)) (hx : x.length = n)
    (hdecl : ∀ e ∈ es, ∀ id ∈ e.c.nonzeroes.all, id < n)
    (e : SolveError) (ws' : List (Warning α)) (h : newtonStep es cfg solve k x ws = .fail e ws') :
    e.isPanic = false := by
  obtain ⟨rs, w1, hr⟩ := residualAll_ok x es (by rw [hx]; exact hdecl)
  obtain ⟨ts, w2, hj⟩ := jacobianFrom_ok (pattern es) x es 0 (by rw [hx]; exact hdecl)
    (fun cell hc => hc)
  unfold newtonStep at h
  rw [hr] at h
  dsimp only at h
  unfold jacobianAll at h
  rw [hj] at h
  dsimp only at h
  split at h
  · injection h with h1 h2; subst h1; rfl
  · split at h
    · simp at h
    · split at h
      · rename_i err hserr
        injection h with h1 h2; subst h1
        exact hs.noPanic _ _ _ _ hserr
      · rename_i d hsok
        have hd := hs.length _ _ _ _ hsok
        split at h
        · rename_i hne; exact absurd (by rw [hd, hx]) hne
        · split at h
          · injection h with h1 h2; subst h1; rfl
          · split at h <;> simp at h

theorem newtonLoop_noPanic (es : List (Entry α)) (cfg : Config α)
    (solve : Nat → List (Triplet α) → List α → Except SolveError (List α)) (n : Nat)
    (hs : LinSolveTotal solve n) (hdecl : ∀ e ∈ es, ∀ id ∈ e.c.nonzeroes.all, id < n) :
    ∀ (fuel k : Nat) (x : List α) (ws : List (Warning α)), x.length = n →
      ∀ e ws', newtonLoop es cfg solve fuel k x ws = .error (e, ws') → e.isPanic = false := by
  intro fuel
  induction fuel with
  | zero => intro k x ws _ e ws' h; simp [newtonLoop] at h; rw [← h.1]; rfl
  | succ fuel ih =>
    intro k x ws hx e ws' h
    unfold newtonLoop at h
    split at h
    · simp at h
    · rename_i e2 ws2 hstep
      injection h with h
      injection h with h1 h2
      subst h1
      exact newtonStep_noPanic es cfg solve n hs k x ws hx hdecl _ _ hstep
    · rename_i x' ws2 hstep
      have hx' : x'.length = n := by
        rw [newtonStep_next_length es cfg solve k x x' ws ws2 hstep, hx]
      exact ih (k + 1) x' ws2 hx' e ws' h

/-! ### Finite in ⇒ finite out -/

theorem newtonStep_done_finite (es : List (Entry α)) (cfg : Config α)
    (solve : Nat → List (Triplet α) → List α → Except SolveError (List α))
    (k : Nat) (x : List α) (ws : List (Warning α)) (hx : allFinite x = true) (r : NewtonOk α)
    (h : newtonStep es cfg solve k x ws = .done r) : allFinite r.values = true := by
  fun_cases newtonStep es cfg solve k x ws <;> simp_all [newtonStep]
  all_goals (subst h; simp_all)

theorem newtonStep_next_finite (es : List (Entry α)) (cfg : Config α)
    (solve : Nat → List (Triplet α) → List α → Except SolveError (List α))
    (k : Nat) (x x' : List α) (ws ws' : List (Warning α))
    (h : newtonStep es cfg solve k x ws = .next x' ws') : allFinite x' = true := by
  fun_cases newtonStep es cfg solve k x ws <;> simp_all [newtonStep]
  all_goals (obtain ⟨h1, _⟩ := h; subst h1; simp_all)

/-- Every value returned by a successful Newton run passed the finiteness guard (or is a guess). -/
theorem newtonLoop_finite (es : List (Entry α)) (cfg : Config α)
    (solve : Nat → List (Triplet α) → List α → Except SolveError (List α)) :
    ∀ (fuel k : Nat) (x : List α) (ws : List (Warning α)) (r : NewtonOk α), allFinite x = true →
      newtonLoop es cfg solve fuel k x ws = .ok r → allFinite r.values = true := by
  intro fuel
  induction fuel with
  | zero => intro k x ws r _ h; simp [newtonLoop] at h
  | succ fuel ih =>
    intro k x ws r hx h
    unfold newtonLoop at h
    split at h
    · rename_i r' hs
      injection h with h; subst h
      exact newtonStep_done_finite es cfg solve k x ws hx _ hs
    · simp at h
    · rename_i x' ws' hs
      exact ih (k + 1) x' ws' r (newtonStep_next_finite es cfg solve k x x' ws ws' hs) h


theorem unsatisfiedSweep_ok (x : List α) :
    ∀ (es : List (Entry α)), (∀ e ∈ es, ∀ id ∈ e.c.nonzeroes.all, id < x.length) →
      ∃ us, unsatisfiedSweep es (lookup x) = .ok us := by
  intro es
  induction es with
  | nil => intro _; exact ⟨[], rfl⟩
  | cons e rest ih =>
    intro h
    obtain ⟨r, hr⟩ := residual_isSome e.c x (h e (by simp))
    obtain ⟨us, hrest⟩ := ih (fun e' he' => h e' (by simp [he']))
    unfold unsatisfiedSweep
    rw [hr]
    dsimp only
    have hsat : ∃ b, isSatisfied e.c.residualDim r = some b := by
      rcases residualDim_range e.c with hd | hd | hd <;> rw [hd] <;> simp [isSatisfied]
    obtain ⟨b, hb⟩ := hsat
    rw [hb]
    simp only [hrest]
    exact ⟨_, rfl⟩

/-- Contract of the SVD oracle that matters for totality: `V` has at least `n × n` entries, and a
reported error is a faer error, not a panic. -/
structure SvdTotal (svd : List (Triplet α) → Except SolveError (List α × List (List α))) (n : Nat) :
    Prop where
  shape : ∀ jac σ V, svd jac = .ok (σ, V) → n ≤ V.length ∧ ∀ row ∈ V, n ≤ row.length
  noPanic : ∀ jac e, svd jac = .error e → e.isPanic = false

theorem dofCalculate_noPanic (sigma : List α) (V : List (List α)) (n : Nat)
    (hV : n ≤ V.length ∧ ∀ row ∈ V, n ≤ row.length) (e : SolveError)
    (h : dofCalculate sigma V n = .error e) : e.isPanic = false := by
  unfold dofCalculate at h
  split at h
  · injection h with h; subst h; rfl
  · dsimp only at h
    split at h
    · simp at h
    · rename_i hall
      exfalso
      apply hall
      apply List.all_eq_true.mpr
      intro j hj
      apply List.all_eq_true.mpr
      intro k hk
      have hjn : j < n := by simpa using hj
      have hkn : k < n := by
        have := (List.mem_filter.mp hk).1
        simpa using this
      have hjl : j < V.length := by omega
      have hrow : n ≤ (V[j]).length := hV.2 _ (List.getElem_mem hjl)
      simp [List.getElem?_eq_getElem hjl, List.getElem?_eq_getElem (show k < (V[j]).length by omega)]

/-- **One level is total**: under the two oracle contracts, `solveInner` never reaches a Rust
panic site — for any requests (aliased / out-of-range ids included), any guesses, any config. -/
theorem solveInner_noPanic (es : List (Entry α)) (g : List (Nat × α)) (cfg : Config α)
    (solve : Nat → List (Triplet α) → List α → Except SolveError (List α))
    (analyze : Option (List (Triplet α) → Except SolveError (List α × List (List α))))
    (hs : LinSolveTotal solve g.length)
    (ha : ∀ svd, analyze = some svd → SvdTotal svd g.length)
    (f : Failure α) (h : solveInner es g cfg solve analyze = .error f) : f.error.isPanic = false := by
  unfold solveInner at h
  cases hm : modelNew es (List.map (fun x => x.1) g) with
  | error e =>
    simp only [hm] at h
    injection h with h; subst h
    -- `Model::new` fails with `MissingGuess` or a matrix-creation error
    unfold modelNew at hm
    split at hm
    · rename_i e' hv
      injection hm with hm; subst hm
      -- validation errors are `MissingGuess`
      have : ∀ (es : List (Entry α)) (vars : List Nat) (e : SolveError),
          validateVariables es vars = .error e → e.isPanic = false := by
        intro es
        induction es with
        | nil => intro vars e h; simp [validateVariables] at h
        | cons e0 rest ih =>
          intro vars e h
          unfold validateVariables at h
          split at h
          · injection h with h; subst h; rfl
          · exact ih vars e h
      exact this _ _ _ hv
    · split at hm
      · simp at hm
      · injection hm with hm; subst hm; rfl
  | ok u =>
    have hdecl := modelNew_ok_declared_lt es _ hm
    simp only [List.length_map] at hdecl
    simp only [hm] at h
    cases hn : newton es cfg solve (List.map (fun x => x.2) g) with
    | error ew =>
      obtain ⟨e, ws⟩ := ew
      simp only [hn] at h
      injection h with h; subst h
      exact newtonLoop_noPanic es cfg solve g.length hs hdecl cfg.maxIterations 0 _ [] (by simp) e ws hn
    | ok nr =>
      simp only [hn] at h
      have hlen : nr.values.length = g.length := by
        have := newtonLoop_length es cfg solve cfg.maxIterations 0 _ [] nr hn
        simpa using this
      obtain ⟨us, hus⟩ := unsatisfiedSweep_ok nr.values es (by rw [hlen]; exact hdecl)
      simp only [hus] at h
      cases hra : runAnalysis analyze nr.lastJac g.length with
      | ok under => simp [hra] at h
      | error e =>
        simp only [hra] at h
        injection h with h; subst h
        unfold runAnalysis at hra
        split at hra
        · simp at hra
        · rename_i svd
          have hsv := ha svd rfl
          split at hra
          · rename_i e' he'
            injection hra with hra; subst hra
            exact hsv.noPanic _ _ he'
          · rename_i sigma V hsvd
            split at hra
            · rename_i e' hd
              injection hra with hra; subst hra
              exact dofCalculate_noPanic sigma V g.length (hsv.shape _ _ _ hsvd) e' hd
            · simp at hra

end Ezpz
