/-
Where warnings come from: every `Degenerate` warning produced during a solve names (by caller
position) a request of the attempted subset whose evaluation raised the flag; lint warnings name
`LinesAtAngle(Other)` requests of the attempted subset.  Holds for every scalar type.
-/
import Ezpz.Proofs.Report
set_option linter.unusedSectionVars false
namespace Ezpz
open Transc

variable {α : Type} [Add α] [Sub α] [Mul α] [Div α] [Neg α] [OfScientific α]
  [LT α] [DecidableLT α] [LE α] [DecidableLE α] [Transc α]

/-- `w` names a request of `es` whose residual or Jacobian evaluation raises the flag at SOME
assignment of the right length (not necessarily one the run visited, and `w.content` is not
constrained): the weak form.  The strong form, tied to the iterates of the run, is
`DegenerateAtVisited` in `Ezpz/Proofs/Visited.lean`. -/
def DegenerateFrom (es : List (Entry α)) (n : Nat) (w : Warning α) : Prop :=
  ∃ e ∈ es, w.about = some e.id ∧ (∃ x : List α, x.length = n ∧
    ((∃ r, e.c.residual (lookup x) = some r ∧ r.degenerate = true) ∨
     (∃ j, e.c.jacobianRows (lookup x) = some j ∧ j.degenerate = true)))

theorem residualAll_warnings (x : List α) :
    ∀ (es : List (Entry α)) (rs : List α) (ws : List (Warning α)),
      residualAll es (lookup x) = .ok (rs, ws) → ∀ w ∈ ws, DegenerateFrom es x.length w := by
  intro es
  induction es with
  | nil => intro rs ws h w hw; simp [residualAll] at h; rw [h.2] at hw; simp at hw
  | cons e rest ih =>
    intro rs ws h w hw
    unfold residualAll at h
    split at h
    · simp at h
    · rename_i r hr
      split at h
      · simp at h
      · rename_i rs' ws' hrest
        injection h with h
        injection h with h1 h2
        subst h2
        rcases List.mem_append.mp hw with hw | hw
        · split at hw
          · rename_i hd
            simp at hw; subst hw
            exact ⟨e, by simp, rfl, x, rfl, Or.inl ⟨r, hr, hd⟩⟩
          · simp at hw
        · obtain ⟨e', he', ha, hx⟩ := ih rs' ws' hrest w hw
          exact ⟨e', by simp [he'], ha, hx⟩

theorem jacobianFrom_warnings (pat : List (Nat × Nat)) (x : List α) :
    ∀ (es : List (Entry α)) (row0 : Nat) (ts : List (Triplet α)) (ws : List (Warning α)),
      jacobianFrom pat es (lookup x) row0 = .ok (ts, ws) →
      ∀ w ∈ ws, DegenerateFrom es x.length w := by
  intro es
  induction es with
  | nil => intro row0 ts ws h w hw; simp [jacobianFrom] at h; rw [h.2] at hw; simp at hw
  | cons e rest ih =>
    intro row0 ts ws h w hw
    unfold jacobianFrom at h
    split at h
    · simp at h
    · rename_i j hj
      dsimp only at h
      split at h
      · split at h
        · simp at h
        · rename_i ts' ws' hrest
          injection h with h
          injection h with h1 h2
          subst h2
          rcases List.mem_append.mp hw with hw | hw
          · split at hw
            · rename_i hd
              simp at hw; subst hw
              exact ⟨e, by simp, rfl, x, rfl, Or.inr ⟨j, hj, hd⟩⟩
            · simp at hw
          · obtain ⟨e', he', ha, hx⟩ := ih _ ts' ws' hrest w hw
            exact ⟨e', by simp [he'], ha, hx⟩
      · simp at h

/-- The warnings carried by the result of one round. -/
def stepWarnings : StepResult α → List (Warning α)
  | .done r => r.warnings
  | .fail _ ws => ws
  | .next _ ws => ws

/-- One round only appends the warnings of its residual and Jacobian evaluations. -/
theorem newtonStep_warnings_shape (es : List (Entry α)) (cfg : Config α)
    (solve : Nat → List (Triplet α) → List α → Except SolveError (List α))
    (k : Nat) (x : List α) (ws : List (Warning α)) :
    stepWarnings (newtonStep es cfg solve k x ws) = ws ∨
    (∃ rs w1, residualAll es (lookup x) = .ok (rs, w1) ∧
      stepWarnings (newtonStep es cfg solve k x ws) = ws ++ w1) ∨
    (∃ rs w1 jac w2, residualAll es (lookup x) = .ok (rs, w1) ∧
      jacobianAll es (lookup x) = .ok (jac, w2) ∧
      stepWarnings (newtonStep es cfg solve k x ws) = ws ++ w1 ++ w2) := by
  unfold newtonStep
  cases hr : residualAll es (lookup x) with
  | error e => left; simp [stepWarnings]
  | ok p =>
    obtain ⟨rs, w1⟩ := p
    cases hj : jacobianAll es (lookup x) with
    | error e => right; left; exact ⟨rs, w1, rfl, by simp [stepWarnings]⟩
    | ok q =>
      obtain ⟨jac, w2⟩ := q
      right; right
      refine ⟨rs, w1, jac, w2, rfl, rfl, ?_⟩
      dsimp only
      repeat' split
      all_goals simp [stepWarnings]

/-- Warnings only accumulate, and every new one is a genuine degeneracy notice. -/
theorem newtonStep_warnings (es : List (Entry α)) (cfg : Config α)
    (solve : Nat → List (Triplet α) → List α → Except SolveError (List α))
    (k : Nat) (x : List α) (ws : List (Warning α))
    (P : Warning α → Prop) (hP : ∀ w ∈ ws, P w)
    (hnew : ∀ w, DegenerateFrom es x.length w → P w) :
    ∀ w ∈ stepWarnings (newtonStep es cfg solve k x ws), P w := by
  intro w hw
  rcases newtonStep_warnings_shape es cfg solve k x ws with h | ⟨rs, w1, h1, h⟩ | ⟨rs, w1, jac, w2, h1, h2, h⟩
  · rw [h] at hw; exact hP w hw
  · rw [h] at hw
    rcases List.mem_append.mp hw with hw | hw
    · exact hP w hw
    · exact hnew w (residualAll_warnings x es rs w1 h1 w hw)
  · rw [h] at hw
    simp only [List.append_assoc, List.mem_append] at hw
    rcases hw with hw | hw | hw
    · exact hP w hw
    · exact hnew w (residualAll_warnings x es rs w1 h1 w hw)
    · exact hnew w (jacobianFrom_warnings _ x es 0 jac w2 h2 w hw)

/-- Every warning of a Newton run (successful or not) names a request of `es` of a kind that can
raise the flag (`DegenerateFrom`, weak form).  That it was raised at a VISITED assignment, and the
exact list of notices, is `newtonLoop_warnings_visited` / `newtonLoop_warnings_eq`
(`Ezpz/Proofs/Visited.lean`). -/
theorem newtonLoop_warnings (es : List (Entry α)) (cfg : Config α)
    (solve : Nat → List (Triplet α) → List α → Except SolveError (List α)) (n : Nat) :
    ∀ (fuel k : Nat) (x : List α) (ws : List (Warning α)), x.length = n →
      (∀ w ∈ ws, DegenerateFrom es n w) →
      (∀ r, newtonLoop es cfg solve fuel k x ws = .ok r → ∀ w ∈ r.warnings, DegenerateFrom es n w) ∧
      (∀ e ws', newtonLoop es cfg solve fuel k x ws = .error (e, ws') →
        ∀ w ∈ ws', DegenerateFrom es n w) := by
  intro fuel
  induction fuel with
  | zero =>
    intro k x ws _ hws
    constructor
    · intro r h; simp [newtonLoop] at h
    · intro e ws' h; simp [newtonLoop] at h; rw [← h.2]; exact hws
  | succ fuel ih =>
    intro k x ws hx hws
    have hstep := newtonStep_warnings es cfg solve k x ws (DegenerateFrom es n) hws
      (by intro w hw; rw [hx] at hw; exact hw)
    unfold newtonLoop
    cases hs : newtonStep es cfg solve k x ws with
    | done r =>
      rw [hs] at hstep
      constructor
      · intro r' h; injection h with h; subst h; exact hstep
      · intro e ws' h; simp at h
    | fail e ws2 =>
      rw [hs] at hstep
      constructor
      · intro r' h; simp at h
      · intro e' ws' h; simp at h; rw [← h.2]; exact hstep
    | next x' ws2 =>
      rw [hs] at hstep
      have hx' : x'.length = n := by rw [newtonStep_next_length es cfg solve k x x' ws ws2 hs, hx]
      exact ih (k + 1) x' ws2 hx' hstep

end Ezpz
