/-
C09, problem level: every label an instruction refers to must resolve, for *all* instruction forms
(`line` included), stated about `toConstraintSystem`; the resolution of a label is characterised by
the declarations; guess strictness in contrapositive form; duplicate guesses (last wins).
-/
import Ezpz.Proofs.TextStrict
set_option linter.unusedSectionVars false
namespace Ezpz.Text
open Ezpz

variable {α : Type}

/-! ### The lookups an instruction performs -/

/-- The four ways in which `lower` looks a label up. -/
inductive LookupKind where
  /-- `datumPoint`: a point, `c.center`, `a.center`, `a.a`, `a.b`. -/
  | point
  /-- `datumDistance`: `c.radius`. -/
  | distance
  /-- the lookup of `fixPointComponent`: a point, or `x.center` with `x` a circle or an arc. -/
  | fixPoint
  /-- the lookup of `fixCenterPointComponent`: the name of a circle or of an arc. -/
  | centerOf
deriving DecidableEq, Repr

/-- A reference: a label in the form in which it is looked up, with the kind of lookup. -/
structure Ref where
  kind : LookupKind
  label : String
deriving DecidableEq, Repr

/-- The lookup that `lower` performs (inline) for `fixPointComponent point _ _`. -/
def fixPointLookup (p : Problem α) (v : Vars α) (point : String) : Exec Pt :=
  match position? p.innerPoints (· == point) with
  | some i => orPanic (v.pointIds i)
  | none =>
    match stripCenter point with
    | some label =>
      match position? p.innerCircles (· == label) with
      | some i => orPanic ((v.circleIds i).map (·.center))
      | none =>
        match position? p.innerArcs (· == label) with
        | some i => orPanic ((v.arcIds i).map (·.center))
        | none => .error (.text (.undefinedPoint point))
    | none => .error (.text (.undefinedPoint point))

/-- The lookup that `lower` performs (inline) for `fixCenterPointComponent obj _ _`. -/
def centerLookup (p : Problem α) (v : Vars α) (obj : String) : Exec Pt :=
  match position? p.innerCircles (· == obj) with
  | some i => orPanic ((v.circleIds i).map (·.center))
  | none =>
    match position? p.innerArcs (· == obj) with
    | some i => orPanic ((v.arcIds i).map (·.center))
    | none => .error (.text (.undefinedPoint obj))

/-- Mapping the option before `orPanic` is the same as applying the map in the continuation. -/
theorem orPanic_map_bind {β γ δ : Type} (o : Option β) (g : β → γ) (f : γ → Exec δ) :
    (orPanic (o.map g) >>= f) = (orPanic o >>= fun b => f (g b)) := by
  cases o <;> rfl

/-- `fixPointLookup` is what `lower` does for `fixPointComponent`. -/
theorem lower_fixPointComponent (p : Problem α) (v : Vars α) (point : String) (c : Component)
    (val : α) :
    lower p v (.fixPointComponent point c val) =
      (fixPointLookup p v point >>= fun q => pure [.fixed (compOf c q) val]) := by
  simp only [lower, fixPointLookup]
  split
  · rename_i h1; simp only [h1]
  · rename_i h1; simp only [h1]
    split
    · rename_i h2; simp only [h2]
      split
      · rename_i h3; simp only [h3, orPanic_map_bind]
      · rename_i h3; simp only [h3]
        split
        · rename_i h4; simp only [h4, orPanic_map_bind]
        · rename_i h4; simp only [h4]; rfl
    · rename_i h2; simp only [h2]; rfl

/-- `centerLookup` is what `lower` does for `fixCenterPointComponent`. -/
theorem lower_fixCenterPointComponent (p : Problem α) (v : Vars α) (obj : String) (c : Component)
    (val : α) :
    lower p v (.fixCenterPointComponent obj c val) =
      (centerLookup p v obj >>= fun q => pure [.fixed (compOf c q) val]) := by
  simp only [lower, centerLookup]
  split
  · rename_i h3; simp only [h3, orPanic_map_bind]
  · rename_i h3; simp only [h3]
    split
    · rename_i h4; simp only [h4, orPanic_map_bind]
    · rename_i h4; simp only [h4]; rfl

/-- A `datumPoint` lookup. -/
def Ref.pt (l : String) : Ref := ⟨.point, l⟩

/-- The lookups of `datumArc a`: centre, then `.a`, then `.b`. -/
def Ref.arc (a : String) : List Ref := [.pt (a ++ ".center"), .pt (a ++ ".a"), .pt (a ++ ".b")]

/-- The lookups for a circle `c`: `c.center` as a point, then `c.radius` as a distance. -/
def Ref.circle (c : String) : List Ref := [.pt (c ++ ".center"), ⟨.distance, c ++ ".radius"⟩]

/-- **The references of an instruction**: every label `lower` looks up, in the form and in the
order in which it is looked up.  Declarations refer to nothing. -/
def Instr.refs : Instr α → List Ref
  | .declarePoint _ => []
  | .declareCircle _ => []
  | .declareArc _ => []
  | .line a b => [.pt a, .pt b]
  | .circleRadius c _ => Ref.circle c
  | .arcRadius a _ => Ref.arc a
  | .isArc a => Ref.arc a
  | .pointLineDistance q l0 l1 _ => [.pt l0, .pt l1, .pt q]
  | .tangent l0 l1 c => Ref.circle c ++ [.pt l0, .pt l1]
  | .fixPointComponent q _ _ => [⟨.fixPoint, q⟩]
  | .fixCenterPointComponent o _ _ => [⟨.centerOf, o⟩]
  | .vertical a b => [.pt a, .pt b]
  | .horizontal a b => [.pt a, .pt b]
  | .pointsCoincident a b => [.pt a, .pt b]
  | .distance a b _ => [.pt a, .pt b]
  | .pointArcCoincident q a => .pt q :: Ref.arc a
  | .midpoint a b m => [.pt a, .pt b, .pt m]
  | .symmetric lp lq a b => [.pt a, .pt b, .pt lp, .pt lq]
  | .parallel a b c d => [.pt a, .pt b, .pt c, .pt d]
  | .linesEqualLength a b c d => [.pt a, .pt b, .pt c, .pt d]
  | .perpendicular a b c d => [.pt a, .pt b, .pt c, .pt d]
  | .angleLine a b c d _ => [.pt a, .pt b, .pt c, .pt d]
  | .arcLength a _ => Ref.arc a

/-- The labels an instruction refers to, in the form in which they are looked up. -/
def Instr.labels (i : Instr α) : List String := i.refs.map (·.label)

/-- The computation succeeds. -/
def IsOk {β : Type} (x : Exec β) : Prop := ∃ b, x = .ok b

/-- The lookup of a reference, as `lower` performs it. -/
def Ref.lookup (p : Problem α) (v : Vars α) (r : Ref) : Exec Unit :=
  match r.kind with
  | .point => (datumPoint p v r.label) >>= fun _ => pure ()
  | .distance => (datumDistance p v r.label) >>= fun _ => pure ()
  | .fixPoint => (fixPointLookup p v r.label) >>= fun _ => pure ()
  | .centerOf => (centerLookup p v r.label) >>= fun _ => pure ()

/-- **`Resolves p v r`**: the lookup that the instruction performs for `r` succeeds. -/
def Resolves (p : Problem α) (v : Vars α) (r : Ref) : Prop := IsOk (r.lookup p v)

/-- A bind succeeds iff its first part succeeds with a value on which the continuation succeeds. -/
theorem isOk_bind {β γ : Type} (x : Exec β) (f : β → Exec γ) :
    IsOk (x >>= f) ↔ ∃ a, x = .ok a ∧ IsOk (f a) := by
  cases x with
  | error e => simp [IsOk, bind, Except.bind]
  | ok a => simp [IsOk, bind, Except.bind]

/-- `pure` succeeds. -/
theorem isOk_pure {β : Type} (b : β) : IsOk (pure b : Exec β) := ⟨b, rfl⟩

/-- If the success of the continuation does not depend on the value, a bind succeeds iff its first part succeeds and the continuation does. -/
theorem isOk_bind_const {β γ : Type} (x : Exec β) (f : β → Exec γ) (P : Prop)
    (h : ∀ a, IsOk (f a) ↔ P) : IsOk (x >>= f) ↔ IsOk x ∧ P := by
  rw [isOk_bind]
  constructor
  · rintro ⟨a, ha, hf⟩; exact ⟨⟨a, ha⟩, (h a).mp hf⟩
  · rintro ⟨⟨a, ha⟩, hp⟩; exact ⟨a, ha, (h a).mpr hp⟩

/-- A `point` reference resolves iff `datumPoint` succeeds on its label. -/
theorem resolves_pt (p : Problem α) (v : Vars α) (l : String) :
    Resolves p v (.pt l) ↔ IsOk (datumPoint p v l) := by
  simp only [Resolves, Ref.lookup, Ref.pt]
  rw [isOk_bind_const _ _ True (fun _ => ⟨fun _ => trivial, fun _ => isOk_pure _⟩)]
  simp

/-- A `distance` reference resolves iff `datumDistance` succeeds on its label. -/
theorem resolves_distance (p : Problem α) (v : Vars α) (l : String) :
    Resolves p v ⟨.distance, l⟩ ↔ IsOk (datumDistance p v l) := by
  simp only [Resolves, Ref.lookup]
  rw [isOk_bind_const _ _ True (fun _ => ⟨fun _ => trivial, fun _ => isOk_pure _⟩)]
  simp

/-- A `fixPoint` reference resolves iff `fixPointLookup` succeeds on its label. -/
theorem resolves_fixPoint (p : Problem α) (v : Vars α) (l : String) :
    Resolves p v ⟨.fixPoint, l⟩ ↔ IsOk (fixPointLookup p v l) := by
  simp only [Resolves, Ref.lookup]
  rw [isOk_bind_const _ _ True (fun _ => ⟨fun _ => trivial, fun _ => isOk_pure _⟩)]
  simp

/-- A `centerOf` reference resolves iff `centerLookup` succeeds on its label. -/
theorem resolves_centerOf (p : Problem α) (v : Vars α) (l : String) :
    Resolves p v ⟨.centerOf, l⟩ ↔ IsOk (centerLookup p v l) := by
  simp only [Resolves, Ref.lookup]
  rw [isOk_bind_const _ _ True (fun _ => ⟨fun _ => trivial, fun _ => isOk_pure _⟩)]
  simp

/-- `datumArc a` succeeds iff `a.center`, `a.a` and `a.b` all resolve as points. -/
theorem datumArc_isOk (p : Problem α) (v : Vars α) (a : String) :
    IsOk (datumArc p v a) ↔ ∀ r ∈ Ref.arc a, Resolves p v r := by
  unfold datumArc
  rw [isOk_bind_const _ _ (IsOk (datumPoint p v (a ++ ".a")) ∧ IsOk (datumPoint p v (a ++ ".b")))]
  · simp [Ref.arc, resolves_pt]
  · intro _
    rw [isOk_bind_const _ _ (IsOk (datumPoint p v (a ++ ".b")))]
    intro _
    rw [isOk_bind_const _ _ True (fun _ => ⟨fun _ => trivial, fun _ => isOk_pure _⟩)]
    simp

set_option linter.unusedSimpArgs false in
/-- **An instruction is lowered successfully iff every one of its references resolves** — all
instruction forms, `line` included.  (So `Instr.refs` is exactly the set of lookups: nothing is
missing from it and nothing in it is superfluous.) -/
theorem lower_isOk_iff (p : Problem α) (v : Vars α) (i : Instr α) :
    IsOk (lower p v i) ↔ ∀ r ∈ i.refs, Resolves p v r := by
  have hp : ∀ {β : Type} (b : β), IsOk (pure b : Exec β) ↔ True := fun b => iff_true_intro (isOk_pure b)
  cases i with
  | fixPointComponent q c val =>
    rw [lower_fixPointComponent, isOk_bind_const _ _ True (fun _ => hp _)]
    simp [Instr.refs, resolves_fixPoint]
  | fixCenterPointComponent o c val =>
    rw [lower_fixCenterPointComponent, isOk_bind_const _ _ True (fun _ => hp _)]
    simp [Instr.refs, resolves_centerOf]
  | declarePoint _ => simp [lower, Instr.refs, IsOk]
  | declareCircle _ => simp [lower, Instr.refs, IsOk]
  | declareArc _ => simp [lower, Instr.refs, IsOk]
  | _ =>
    simp only [lower]
    refine Iff.trans (by
      repeat (first | exact hp _ | (apply isOk_bind_const; intro _))) ?_
    simp [Instr.refs, Ref.arc, Ref.circle, resolves_pt, resolves_distance, datumArc_isOk]

/-! ### From one instruction to the whole problem -/

/-- A list of instructions is lowered successfully iff every reference of every instruction resolves. -/
theorem lowerAll_isOk_iff (p : Problem α) (v : Vars α) (is : List (Instr α)) :
    IsOk (lowerAll p v is) ↔ ∀ i ∈ is, ∀ r ∈ i.refs, Resolves p v r := by
  induction is with
  | nil => simp [lowerAll, IsOk]
  | cons i rest ih =>
    rw [List.forall_mem_cons, ← ih, ← lower_isOk_iff]
    simp only [lowerAll]
    cases h1 : lower p v i with
    | error e => simp [IsOk]
    | ok cs =>
      cases h2 : lowerAll p v rest with
      | error e => simp [IsOk]
      | ok cs' => simp [IsOk]

/-- **Acceptance, characterised**: a problem is accepted iff its variables can be built (guess
strictness, `buildVars_strict`) and every reference of every instruction resolves. -/
theorem toConstraintSystem_isOk_iff (p : Problem α) :
    IsOk (toConstraintSystem p) ↔
      ∃ v, buildVars p = .ok v ∧ ∀ i ∈ p.instructions, ∀ r ∈ i.refs, Resolves p v r := by
  unfold toConstraintSystem
  cases hv : buildVars p with
  | error e => simp [IsOk]
  | ok v =>
    simp only [Except.ok.injEq, exists_eq_left', ← lowerAll_isOk_iff]
    cases h2 : lowerAll p v p.instructions with
    | error e => simp [IsOk]
    | ok cs => simp [IsOk]

/-- The variables of an accepted problem are the ones `buildVars` built. -/
theorem toConstraintSystem_vars (p : Problem α) (cs : ConstraintSystem α)
    (h : toConstraintSystem p = .ok cs) : buildVars p = .ok cs.vars := by
  unfold toConstraintSystem at h
  cases hv : buildVars p with
  | error e => simp [hv] at h
  | ok v =>
    simp only [hv] at h
    cases h2 : lowerAll p v p.instructions with
    | error e => simp [h2] at h
    | ok c => simp only [h2] at h; injection h with h; subst h; rfl

/-- **Strict labels (C09, problem level).**  In an accepted problem every reference of every
instruction — all 23 instruction forms, `line` included — resolves. -/
theorem strict_labels (p : Problem α) (cs : ConstraintSystem α) (h : toConstraintSystem p = .ok cs) :
    ∀ i ∈ p.instructions, ∀ r ∈ i.refs, Resolves p cs.vars r := by
  obtain ⟨v, hv, hr⟩ := (toConstraintSystem_isOk_iff p).mp ⟨cs, h⟩
  have := toConstraintSystem_vars p cs h
  rw [hv] at this
  injection this with this
  subst this
  exact hr

/-! ### Resolution in terms of the declarations -/

/-- `position?` finds something iff some element satisfies the predicate. -/
theorem position?_isSome_iff (xs : List String) (q : String → Bool) :
    (position? xs q).isSome ↔ ∃ x ∈ xs, q x = true := by
  simp [position?, List.findIdx?_isSome]

/-- `position?` finds nothing iff no element satisfies the predicate. -/
theorem position?_eq_none_iff (xs : List String) (q : String → Bool) :
    position? xs q = none ↔ ∀ x ∈ xs, q x = false := by
  simp [position?, List.findIdx?_eq_none_iff]

/-- `datumPoint` succeeds iff one of its five searches finds the label. -/
theorem datumPoint_isOk_iff (p : Problem α) (v : Vars α) (hb : Built p v) (l : String) :
    IsOk (datumPoint p v l) ↔
      l ∈ p.innerPoints ∨ (∃ c ∈ p.innerCircles, c ++ ".center" = l) ∨
      ∃ a ∈ p.innerArcs, a ++ ".center" = l ∨ a ++ ".a" = l ∨ a ++ ".b" = l := by
  have key : (l ∈ p.innerPoints ∨ (∃ c ∈ p.innerCircles, c ++ ".center" = l) ∨
      ∃ a ∈ p.innerArcs, a ++ ".center" = l ∨ a ++ ".a" = l ∨ a ++ ".b" = l) ↔
      ((position? p.innerPoints (· == l)).isSome ∨
       (position? p.innerCircles (fun c => c ++ ".center" == l)).isSome ∨
       (position? p.innerArcs (fun a => a ++ ".center" == l)).isSome ∨
       (position? p.innerArcs (fun a => a ++ ".a" == l)).isSome ∨
       (position? p.innerArcs (fun a => a ++ ".b" == l)).isSome) := by
    simp only [position?_isSome_iff, beq_iff_eq]
    constructor
    · rintro (h | h | ⟨a, ha, h | h | h⟩)
      · exact Or.inl ⟨l, h, rfl⟩
      · exact Or.inr (Or.inl h)
      · exact Or.inr (Or.inr (Or.inl ⟨a, ha, h⟩))
      · exact Or.inr (Or.inr (Or.inr (Or.inl ⟨a, ha, h⟩)))
      · exact Or.inr (Or.inr (Or.inr (Or.inr ⟨a, ha, h⟩)))
    · rintro (⟨x, hx, rfl⟩ | h | ⟨a, ha, h⟩ | ⟨a, ha, h⟩ | ⟨a, ha, h⟩)
      · exact Or.inl hx
      · exact Or.inr (Or.inl h)
      · exact Or.inr (Or.inr ⟨a, ha, Or.inl h⟩)
      · exact Or.inr (Or.inr ⟨a, ha, Or.inr (Or.inl h)⟩)
      · exact Or.inr (Or.inr ⟨a, ha, Or.inr (Or.inr h)⟩)
  rw [key, datumPoint_spec p v hb l]
  cases position? p.innerPoints (· == l) <;>
  cases position? p.innerCircles (fun c => c ++ ".center" == l) <;>
  cases position? p.innerArcs (fun a => a ++ ".center" == l) <;>
  cases position? p.innerArcs (fun a => a ++ ".a" == l) <;>
  cases position? p.innerArcs (fun a => a ++ ".b" == l) <;> simp [IsOk]

/-- `datumDistance` succeeds iff the label is `c.radius` for a declared circle `c`. -/
theorem datumDistance_isOk_iff (p : Problem α) (v : Vars α) (hb : Built p v) (l : String) :
    IsOk (datumDistance p v l) ↔ ∃ c ∈ p.innerCircles, c ++ ".radius" = l := by
  have key := position?_isSome_iff p.innerCircles (fun c => c ++ ".radius" == l)
  simp only [beq_iff_eq] at key
  rw [← key, datumDistance_spec p v hb l]
  cases position? p.innerCircles (fun c => c ++ ".radius" == l) <;> simp [IsOk]

/-- `orPanic` succeeds iff the option is `some`. -/
theorem isOk_orPanic {β : Type} (o : Option β) : IsOk (orPanic o) ↔ o.isSome := by
  cases o <;> simp [IsOk, orPanic]

/-- The lookup of `fixCenterPointComponent` succeeds iff the object is a declared circle or arc. -/
theorem centerLookup_isOk_iff (p : Problem α) (v : Vars α) (hb : Built p v) (o : String) :
    IsOk (centerLookup p v o) ↔ o ∈ p.innerCircles ∨ o ∈ p.innerArcs := by
  obtain ⟨_, hc, ha⟩ := lookups_eq_spec v hb.ok
  have k1 := position?_isSome_iff p.innerCircles (· == o)
  have k2 := position?_isSome_iff p.innerArcs (· == o)
  simp only [beq_iff_eq, exists_eq_right] at k1 k2
  rw [← k1, ← k2]
  unfold centerLookup
  cases h1 : position? p.innerCircles (· == o) with
  | some i =>
    have := findIdx?_lt _ _ _ h1
    simp [isOk_orPanic, hc i (by rw [hb.nc]; exact this)]
  | none =>
    cases h2 : position? p.innerArcs (· == o) with
    | some i =>
      have := findIdx?_lt _ _ _ h2
      simp [isOk_orPanic, ha i (by rw [hb.na]; exact this)]
    | none => simp [IsOk]

/-! #### `stripCenter` is `strip_suffix(".center")` -/

/-- `String.endsWith` on a string pattern is "is a suffix of the character list". -/
theorem endsWith_iff (s pat : String) : s.endsWith pat = true ↔ pat.toList <:+ s.toList := by
  rw [← String.endsWith_toSlice, String.Slice.endsWith_string_iff, String.copy_toSlice]

/-- The characters of `".center"`. -/
theorem center_toList : (".center" : String).toList = ['.', 'c', 'e', 'n', 't', 'e', 'r'] := by decide

/-- `stripCenter` strips an appended `.center`. -/
theorem stripCenter_append (c : String) : stripCenter (c ++ ".center") = some c := by
  unfold stripCenter
  have h : (c ++ ".center").endsWith ".center" = true := by
    rw [endsWith_iff]; simp [String.toList_append]
  rw [if_pos h]
  congr 1
  apply String.toList_inj.mp
  rw [String.toList_ofList, ← String.length_toList, String.toList_append, center_toList]
  simp

/-- If `stripCenter s` returns `c` then `s` is `c` followed by `.center`. -/
theorem stripCenter_some (s c : String) (h : stripCenter s = some c) : s = c ++ ".center" := by
  unfold stripCenter at h
  split at h
  · rename_i he
    rw [endsWith_iff] at he
    obtain ⟨t, ht⟩ := he
    injection h with h
    subst h
    apply String.toList_inj.mp
    rw [String.toList_append, String.toList_ofList, ← String.length_toList, ← ht, center_toList]
    simp
  · simp at h

/-- `stripCenter s = some c` exactly when `s` is `c` followed by `.center`. -/
theorem stripCenter_eq_some_iff (s c : String) : stripCenter s = some c ↔ s = c ++ ".center" :=
  ⟨stripCenter_some s c, fun h => h ▸ stripCenter_append c⟩

/-- The lookup of `fixPointComponent` succeeds iff the label is a declared point, or `x.center` with
`x` a declared circle or arc.  (`a.a` and `a.b` are *not* accepted here, unlike in `datumPoint`.) -/
theorem fixPointLookup_isOk_iff (p : Problem α) (v : Vars α) (hb : Built p v) (l : String) :
    IsOk (fixPointLookup p v l) ↔
      l ∈ p.innerPoints ∨ ∃ x, l = x ++ ".center" ∧ (x ∈ p.innerCircles ∨ x ∈ p.innerArcs) := by
  obtain ⟨hp, hc, ha⟩ := lookups_eq_spec v hb.ok
  have k0 := position?_isSome_iff p.innerPoints (· == l)
  simp only [beq_iff_eq, exists_eq_right] at k0
  rw [← k0]
  unfold fixPointLookup
  cases h0 : position? p.innerPoints (· == l) with
  | some i =>
    have := findIdx?_lt _ _ _ h0
    simp [isOk_orPanic, hp i (by rw [hb.np]; exact this)]
  | none =>
    cases hs : stripCenter l with
    | none =>
      have : ∀ x, l ≠ x ++ ".center" := fun x hx => by
        rw [(stripCenter_eq_some_iff l x).mpr hx] at hs; cases hs
      simp [IsOk, this]
    | some x =>
      have hl := stripCenter_some l x hs
      have k1 := position?_isSome_iff p.innerCircles (· == x)
      have k2 := position?_isSome_iff p.innerArcs (· == x)
      simp only [beq_iff_eq, exists_eq_right] at k1 k2
      have : (∃ y, l = y ++ ".center" ∧ (y ∈ p.innerCircles ∨ y ∈ p.innerArcs)) ↔
          (x ∈ p.innerCircles ∨ x ∈ p.innerArcs) := by
        constructor
        · rintro ⟨y, hy, h⟩
          rw [hl] at hy
          rw [(String.append_left_inj _).mp hy]; exact h
        · intro h; exact ⟨x, hl, h⟩
      rw [this, ← k1, ← k2]
      simp only []
      cases h1 : position? p.innerCircles (· == x) with
      | some i =>
        have := findIdx?_lt _ _ _ h1
        simp [isOk_orPanic, hc i (by rw [hb.nc]; exact this)]
      | none =>
        cases h2 : position? p.innerArcs (· == x) with
        | some i =>
          have := findIdx?_lt _ _ _ h2
          simp [isOk_orPanic, ha i (by rw [hb.na]; exact this)]
        | none => simp [IsOk]

/-- **`Declared p r`**: what the declarations of `p` must contain for the reference `r` to resolve. -/
def Ref.Declared (p : Problem α) (r : Ref) : Prop :=
  match r.kind with
  | .point => r.label ∈ p.innerPoints ∨ (∃ c ∈ p.innerCircles, c ++ ".center" = r.label) ∨
      ∃ a ∈ p.innerArcs, a ++ ".center" = r.label ∨ a ++ ".a" = r.label ∨ a ++ ".b" = r.label
  | .distance => ∃ c ∈ p.innerCircles, c ++ ".radius" = r.label
  | .fixPoint => r.label ∈ p.innerPoints ∨
      ∃ x, r.label = x ++ ".center" ∧ (x ∈ p.innerCircles ∨ x ∈ p.innerArcs)
  | .centerOf => r.label ∈ p.innerCircles ∨ r.label ∈ p.innerArcs

/-- **Resolution is declaration.**  With the variables built for the problem, a reference resolves
iff the declarations contain what it names: a `point` reference `l` iff `l` is a declared point, or
`c.center` for a declared circle `c`, or `a.center` / `a.a` / `a.b` for a declared arc `a`; a
`distance` reference iff it is `c.radius` for a declared circle; a `fixPoint` reference iff it is a
declared point or `x.center` for a declared circle or arc `x`; a `centerOf` reference iff it is a
declared circle or arc. -/
theorem resolves_iff_declared (p : Problem α) (v : Vars α) (hb : Built p v) (r : Ref) :
    Resolves p v r ↔ r.Declared p := by
  obtain ⟨k, l⟩ := r
  cases k with
  | point => exact (resolves_pt p v l).trans (datumPoint_isOk_iff p v hb l)
  | distance => exact (resolves_distance p v l).trans (datumDistance_isOk_iff p v hb l)
  | fixPoint => exact (resolves_fixPoint p v l).trans (fixPointLookup_isOk_iff p v hb l)
  | centerOf => exact (resolves_centerOf p v l).trans (centerLookup_isOk_iff p v hb l)

/-- `strict_labels` in terms of the declarations: in an accepted problem everything any instruction
refers to is declared. -/
theorem strict_labels_declared (p : Problem α) (cs : ConstraintSystem α)
    (h : toConstraintSystem p = .ok cs) : ∀ i ∈ p.instructions, ∀ r ∈ i.refs, r.Declared p := by
  intro i hi r hr
  have hb := Built.of_buildVars p cs.vars (toConstraintSystem_vars p cs h)
  exact (resolves_iff_declared p cs.vars hb r).mp (strict_labels p cs h i hi r hr)

/-- **Acceptance in terms of the text alone**: a problem is accepted iff its variables can be built
and everything its instructions refer to is declared. -/
theorem accepted_iff (p : Problem α) :
    IsOk (toConstraintSystem p) ↔
      IsOk (buildVars p) ∧ ∀ i ∈ p.instructions, ∀ r ∈ i.refs, r.Declared p := by
  rw [toConstraintSystem_isOk_iff]
  constructor
  · rintro ⟨v, hv, h⟩
    have hb := Built.of_buildVars p v hv
    exact ⟨⟨v, hv⟩, fun i hi r hr => (resolves_iff_declared p v hb r).mp (h i hi r hr)⟩
  · rintro ⟨⟨v, hv⟩, h⟩
    have hb := Built.of_buildVars p v hv
    exact ⟨v, hv, fun i hi r hr => (resolves_iff_declared p v hb r).mpr (h i hi r hr)⟩

/-- **An undeclared reference is rejected with a textual error** (contrapositive of
`strict_labels_declared`, combined with totality): never accepted, never a panic. -/
theorem undeclared_rejected (p : Problem α) (i : Instr α) (hi : i ∈ p.instructions) (r : Ref)
    (hr : r ∈ i.refs) (hu : ¬ r.Declared p) : ∃ e, toConstraintSystem p = .error (.text e) := by
  cases h : toConstraintSystem p with
  | ok cs => exact absurd (strict_labels_declared p cs h i hi r hr) hu
  | error e =>
    cases e with
    | text e => exact ⟨e, rfl⟩
    | panic => exact absurd h (toConstraintSystem_noPanic p)

/-! ### `lower` as a sequence of lookups -/

/-- Perform the lookups of a list of references in order, stopping at the first failure. -/
def runRefs (p : Problem α) (v : Vars α) : List Ref → Exec Unit
  | [] => pure ()
  | r :: rs => r.lookup p v >>= fun _ => runRefs p v rs

/-- Running two lists of lookups one after the other is running their concatenation. -/
theorem runRefs_append (p : Problem α) (v : Vars α) (xs ys : List Ref) :
    runRefs p v (xs ++ ys) = (runRefs p v xs >>= fun _ => runRefs p v ys) := by
  induction xs with
  | nil => simp [runRefs]
  | cons x xs ih => simp [runRefs, ih, bind_assoc]

set_option linter.unusedSimpArgs false in
/-- **Lowering an instruction performs exactly the lookups `Instr.refs`, in that order**: forgetting
the constraint it produces, `lower` *is* the sequence of lookups — same success, same error. -/
theorem lower_eq_runRefs (p : Problem α) (v : Vars α) (i : Instr α) :
    (lower p v i >>= fun _ => pure ()) = runRefs p v i.refs := by
  cases i with
  | fixPointComponent q c val =>
    rw [lower_fixPointComponent]; simp [Instr.refs, runRefs, Ref.lookup, bind_assoc]
  | fixCenterPointComponent o c val =>
    rw [lower_fixCenterPointComponent]; simp [Instr.refs, runRefs, Ref.lookup, bind_assoc]
  | declarePoint _ => rfl
  | declareCircle _ => rfl
  | declareArc _ => rfl
  | _ =>
    simp [lower, Instr.refs, runRefs, Ref.lookup, Ref.arc, Ref.circle, Ref.pt, datumArc, bind_assoc]

/-! ### Which error -/

/-- The only error of `orPanic` is the panic. -/
theorem orPanic_error {β : Type} {o : Option β} {e : ExecError} (h : orPanic o = .error e) :
    e = .panic := by
  cases o with
  | none => injection h with h; exact h.symm
  | some b => cases h

/-- If a computation followed by `pure ()` fails, the computation itself failed with that error. -/
theorem bind_unit_error {β : Type} {x : Exec β} {e : ExecError}
    (h : (x >>= fun _ => (pure () : Exec Unit)) = .error e) : x = .error e := by
  cases x with
  | error e' => injection h with h; rw [h]
  | ok a => cases h

/-- A lookup fails only with `undefinedPoint` of the very label looked up (or with a panic, which
`Built` excludes). -/
theorem lookup_error_cases (p : Problem α) (v : Vars α) (r : Ref) (e : ExecError)
    (h : r.lookup p v = .error e) : e = .panic ∨ e = .text (.undefinedPoint r.label) := by
  obtain ⟨k, l⟩ := r
  cases k with
  | point =>
    have h := bind_unit_error h
    simp only [datumPoint] at h
    repeat' split at h
    all_goals first
      | exact Or.inl (orPanic_error h)
      | (injection h with h; exact Or.inr h.symm)
  | distance =>
    have h := bind_unit_error h
    simp only [datumDistance] at h
    repeat' split at h
    all_goals first
      | exact Or.inl (orPanic_error h)
      | (injection h with h; exact Or.inr h.symm)
  | fixPoint =>
    have h := bind_unit_error h
    simp only [fixPointLookup] at h
    repeat' split at h
    all_goals first
      | exact Or.inl (orPanic_error h)
      | (injection h with h; exact Or.inr h.symm)
  | centerOf =>
    have h := bind_unit_error h
    simp only [centerLookup] at h
    repeat' split at h
    all_goals first
      | exact Or.inl (orPanic_error h)
      | (injection h with h; exact Or.inr h.symm)

/-- If a sequence of lookups fails, the error is that of one of the lookups. -/
theorem runRefs_error (p : Problem α) (v : Vars α) (rs : List Ref) (e : ExecError)
    (h : runRefs p v rs = .error e) : ∃ r ∈ rs, r.lookup p v = .error e := by
  induction rs with
  | nil => cases h
  | cons r rs ih =>
    simp only [runRefs] at h
    cases hr : r.lookup p v with
    | error e' =>
      rw [hr] at h
      injection h with h
      exact ⟨r, by simp, by rw [← h]; exact hr⟩
    | ok u =>
      rw [hr] at h
      obtain ⟨r', hr', he⟩ := ih h
      exact ⟨r', by simp [hr'], he⟩

/-- If lowering an instruction fails, the error is that of the lookup of one of its references. -/
theorem lower_error (p : Problem α) (v : Vars α) (i : Instr α) (e : ExecError)
    (h : lower p v i = .error e) : ∃ r ∈ i.refs, r.lookup p v = .error e := by
  apply runRefs_error
  rw [← lower_eq_runRefs, h]
  rfl

/-- If lowering a list of instructions fails, the error is that of the lookup of a reference of one of them. -/
theorem lowerAll_error (p : Problem α) (v : Vars α) (is : List (Instr α)) (e : ExecError)
    (h : lowerAll p v is = .error e) : ∃ i ∈ is, ∃ r ∈ i.refs, r.lookup p v = .error e := by
  induction is with
  | nil => cases h
  | cons i rest ih =>
    simp only [lowerAll] at h
    cases h1 : lower p v i with
    | error e' =>
      rw [h1] at h
      injection h with h
      subst h
      exact ⟨i, by simp, lower_error p v i _ h1⟩
    | ok cs =>
      rw [h1] at h
      cases h2 : lowerAll p v rest with
      | error e' =>
        rw [h2] at h
        injection h with h
        subst h
        obtain ⟨i', hi', hr⟩ := ih h2
        exact ⟨i', by simp [hi'], hr⟩
      | ok cs' => rw [h2] at h; cases h

/-- **The error names a culprit.**  If the variables are built but the problem is rejected, the
error is `undefinedPoint l` where `l` is the label of a reference of some instruction, and that
reference is not declared. -/
theorem rejected_names_culprit (p : Problem α) (v : Vars α) (hv : buildVars p = .ok v)
    (e : ExecError) (h : toConstraintSystem p = .error e) :
    ∃ i ∈ p.instructions, ∃ r ∈ i.refs, e = .text (.undefinedPoint r.label) ∧ ¬ r.Declared p := by
  have hb := Built.of_buildVars p v hv
  unfold toConstraintSystem at h
  simp only [hv] at h
  cases h2 : lowerAll p v p.instructions with
  | ok cs => rw [h2] at h; cases h
  | error e' =>
    rw [h2] at h
    injection h with h
    subst h
    obtain ⟨i, hi, r, hr, he⟩ := lowerAll_error p v _ _ h2
    refine ⟨i, hi, r, hr, ?_, ?_⟩
    · rcases lookup_error_cases p v r _ he with hp | ht
      · exact absurd (hp ▸ h2) (lowerAll_noPanic p v hb _)
      · exact ht
    · intro hd
      obtain ⟨u, hu⟩ := (resolves_iff_declared p v hb r).mpr hd
      rw [hu] at he
      cases he

/-! ### Suffixed labels -/

/-- The last character of `x ++ s` is the last character of a non-empty `s`. -/
theorem toList_append_getLast? (x s : String) (c : Char) (h : s.toList.getLast? = some c) :
    (x ++ s).toList.getLast? = some c := by
  rw [String.toList_append, List.getLast?_append, h]; rfl

/-- Two strings ending in suffixes with different last characters are different. -/
theorem suffix_ne (x y s t : String) (c d : Char) (hs : s.toList.getLast? = some c)
    (ht : t.toList.getLast? = some d) (hcd : c ≠ d) : x ++ s ≠ y ++ t := by
  intro h
  have h1 := toList_append_getLast? x s c hs
  rw [h, toList_append_getLast? y t d ht] at h1
  injection h1 with h1
  exact hcd h1.symm

/-- No string is both `x.center` and `y.a`. -/
theorem center_ne_a (x y : String) : x ++ ".center" ≠ y ++ ".a" :=
  suffix_ne x y _ _ 'r' 'a' (by decide) (by decide) (by decide)
/-- No string is both `x.center` and `y.b`. -/
theorem center_ne_b (x y : String) : x ++ ".center" ≠ y ++ ".b" :=
  suffix_ne x y _ _ 'r' 'b' (by decide) (by decide) (by decide)
/-- No string is both `x.a` and `y.b`. -/
theorem a_ne_b (x y : String) : x ++ ".a" ≠ y ++ ".b" :=
  suffix_ne x y _ _ 'a' 'b' (by decide) (by decide) (by decide)

/-- `c.center` resolves as a point iff `c` is a declared circle or arc — or the whole string
`c.center` is itself a declared point name (which the parser's grammar for declarations excludes). -/
theorem resolves_center (p : Problem α) (v : Vars α) (hb : Built p v) (c : String) :
    Resolves p v (.pt (c ++ ".center")) ↔
      c ++ ".center" ∈ p.innerPoints ∨ c ∈ p.innerCircles ∨ c ∈ p.innerArcs := by
  rw [resolves_iff_declared p v hb]
  simp only [Ref.Declared, Ref.pt, String.append_left_inj, exists_eq_right]
  constructor
  · rintro (h | h | ⟨a, ha, h | h | h⟩)
    · exact Or.inl h
    · exact Or.inr (Or.inl h)
    · exact Or.inr (Or.inr (h ▸ ha))
    · exact absurd h.symm (center_ne_a _ _)
    · exact absurd h.symm (center_ne_b _ _)
  · rintro (h | h | h)
    · exact Or.inl h
    · exact Or.inr (Or.inl h)
    · exact Or.inr (Or.inr ⟨c, h, Or.inl rfl⟩)

/-- `a.a` resolves as a point iff `a` is a declared arc (or `a.a` is itself a declared point name). -/
theorem resolves_a (p : Problem α) (v : Vars α) (hb : Built p v) (a : String) :
    Resolves p v (.pt (a ++ ".a")) ↔ a ++ ".a" ∈ p.innerPoints ∨ a ∈ p.innerArcs := by
  rw [resolves_iff_declared p v hb]
  simp only [Ref.Declared, Ref.pt, String.append_left_inj]
  constructor
  · rintro (h | ⟨c, _, h⟩ | ⟨x, hx, h | h | h⟩)
    · exact Or.inl h
    · exact absurd h (center_ne_a _ _)
    · exact absurd h (center_ne_a _ _)
    · exact Or.inr (h ▸ hx)
    · exact absurd h.symm (a_ne_b _ _)
  · rintro (h | h)
    · exact Or.inl h
    · exact Or.inr (Or.inr ⟨a, h, Or.inr (Or.inl rfl)⟩)

/-- `a.b` resolves as a point iff `a` is a declared arc (or `a.b` is itself a declared point name). -/
theorem resolves_b (p : Problem α) (v : Vars α) (hb : Built p v) (a : String) :
    Resolves p v (.pt (a ++ ".b")) ↔ a ++ ".b" ∈ p.innerPoints ∨ a ∈ p.innerArcs := by
  rw [resolves_iff_declared p v hb]
  simp only [Ref.Declared, Ref.pt, String.append_left_inj]
  constructor
  · rintro (h | ⟨c, _, h⟩ | ⟨x, hx, h | h | h⟩)
    · exact Or.inl h
    · exact absurd h (center_ne_b _ _)
    · exact absurd h (center_ne_b _ _)
    · exact absurd h (a_ne_b _ _)
    · exact Or.inr (h ▸ hx)
  · rintro (h | h)
    · exact Or.inl h
    · exact Or.inr (Or.inr ⟨a, h, Or.inr (Or.inr rfl)⟩)

/-- `c.radius` resolves as a distance iff `c` is a declared circle. -/
theorem resolves_radius (p : Problem α) (v : Vars α) (hb : Built p v) (c : String) :
    Resolves p v ⟨.distance, c ++ ".radius"⟩ ↔ c ∈ p.innerCircles := by
  rw [resolves_iff_declared p v hb]
  simp [Ref.Declared, String.append_left_inj]

/-- A label without a dot resolves as a point iff it is a declared point. -/
theorem resolves_plain (p : Problem α) (v : Vars α) (hb : Built p v) (l : String)
    (hl : '.' ∉ l.toList) : Resolves p v (.pt l) ↔ l ∈ p.innerPoints := by
  rw [resolves_iff_declared p v hb]
  have nd : ∀ (x s : String), '.' ∈ s.toList → x ++ s ≠ l := by
    intro x s hs h
    apply hl
    rw [← h, String.toList_append]
    exact List.mem_append_right _ hs
  simp only [Ref.Declared, Ref.pt]
  constructor
  · rintro (h | ⟨c, _, h⟩ | ⟨x, _, h | h | h⟩)
    · exact h
    · exact absurd h (nd _ _ (by decide))
    · exact absurd h (nd _ _ (by decide))
    · exact absurd h (nd _ _ (by decide))
    · exact absurd h (nd _ _ (by decide))
  · exact Or.inl

/-- An arc reference (`arcRadius`, `isArc`, `arcLength`, `pointArcCoincident`) resolves entirely iff
its three labels do: with dot-free point names, iff `a` is a declared arc. -/
theorem resolves_arc (p : Problem α) (v : Vars α) (hb : Built p v) (a : String)
    (hplain : ∀ l ∈ p.innerPoints, '.' ∉ l.toList) :
    (∀ r ∈ Ref.arc a, Resolves p v r) ↔ a ∈ p.innerArcs := by
  have nd : ∀ (s : String), '.' ∈ s.toList → a ++ s ∉ p.innerPoints := by
    intro s hs h
    apply hplain _ h
    rw [String.toList_append]
    exact List.mem_append_right _ hs
  simp only [Ref.arc, List.forall_mem_cons, List.not_mem_nil, false_imp_iff, implies_true,
    and_true, resolves_center p v hb, resolves_a p v hb, resolves_b p v hb,
    nd _ (by decide : '.' ∈ (".center" : String).toList),
    nd _ (by decide : '.' ∈ (".a" : String).toList),
    nd _ (by decide : '.' ∈ (".b" : String).toList), false_or]
  constructor
  · exact fun h => h.2.1
  · exact fun h => ⟨Or.inr h, h, h⟩

/-! ### The order of the searches -/

/-- Searching a list of names for the one that, suffixed, equals `x` suffixed finds the first occurrence of `x`. -/
theorem position?_suffix (xs : List String) (x s : String) (h : x ∈ xs) :
    position? xs (fun c => c ++ s == x ++ s) = some (xs.idxOf x) := by
  have : (fun c : String => c ++ s == x ++ s) = (fun c => c == x) := by
    funext c
    rw [Bool.eq_iff_iff]
    simp [String.append_left_inj]
  rw [this]
  unfold position?
  rw [List.findIdx?_eq_some_iff_findIdx_eq]
  exact ⟨List.idxOf_lt_length_of_mem h, rfl⟩

/-- Searching a list of names for `x` finds its first occurrence. -/
theorem position?_self (xs : List String) (x : String) (h : x ∈ xs) :
    position? xs (· == x) = some (xs.idxOf x) := by
  unfold position?
  rw [List.findIdx?_eq_some_iff_findIdx_eq]
  exact ⟨List.idxOf_lt_length_of_mem h, rfl⟩

/-- `position?` returns `none` when no element satisfies the predicate. -/
theorem position?_none_of_ne (xs : List String) (q : String → Bool) (h : ∀ x ∈ xs, q x = false) :
    position? xs q = none := (position?_eq_none_iff xs q).mpr h

/-- **Points are searched first**: a declared point name resolves to that point (its first
declaration), whatever circles and arcs are declared. -/
theorem datumPoint_point (p : Problem α) (v : Vars α) (hb : Built p v) (l : String)
    (h : l ∈ p.innerPoints) : datumPoint p v l = .ok (Spec.pointIds (p.innerPoints.idxOf l)) := by
  rw [datumPoint_spec p v hb l, position?_self _ _ h]

/-- **Circles are searched before arcs**: `c.center` (not itself a point name) with `c` a declared
circle is the centre of that circle, even if an arc is also called `c`. -/
theorem datumPoint_circle_center (p : Problem α) (v : Vars α) (hb : Built p v) (c : String)
    (h0 : c ++ ".center" ∉ p.innerPoints) (h : c ∈ p.innerCircles) :
    datumPoint p v (c ++ ".center") =
      .ok (Spec.circleIds p.innerPoints.length (p.innerCircles.idxOf c)).center := by
  rw [datumPoint_spec p v hb, position?_suffix _ _ _ h,
    position?_none_of_ne p.innerPoints _ (fun x hx => by
      simp only [beq_eq_false_iff_ne, ne_eq]; rintro rfl; exact h0 hx)]

/-- `a.center` with `a` a declared arc and not a declared circle is the centre of that arc. -/
theorem datumPoint_arc_center (p : Problem α) (v : Vars α) (hb : Built p v) (a : String)
    (h0 : a ++ ".center" ∉ p.innerPoints) (h1 : a ∉ p.innerCircles) (h : a ∈ p.innerArcs) :
    datumPoint p v (a ++ ".center") =
      .ok (Spec.arcIds p.innerPoints.length p.innerCircles.length (p.innerArcs.idxOf a)).center := by
  rw [datumPoint_spec p v hb, position?_suffix _ _ _ h,
    position?_none_of_ne p.innerPoints _ (fun x hx => by
      simp only [beq_eq_false_iff_ne, ne_eq]; rintro rfl; exact h0 hx),
    position?_none_of_ne p.innerCircles _ (fun x hx => by
      simp only [beq_eq_false_iff_ne, ne_eq, String.append_left_inj]; rintro rfl; exact h1 hx)]

/-- `a.a` with `a` a declared arc is the start point of that arc. -/
theorem datumPoint_arc_a (p : Problem α) (v : Vars α) (hb : Built p v) (a : String)
    (h0 : a ++ ".a" ∉ p.innerPoints) (h : a ∈ p.innerArcs) :
    datumPoint p v (a ++ ".a") =
      .ok (Spec.arcIds p.innerPoints.length p.innerCircles.length (p.innerArcs.idxOf a)).start := by
  rw [datumPoint_spec p v hb, position?_suffix _ _ _ h,
    position?_none_of_ne p.innerPoints _ (fun x hx => by
      simp only [beq_eq_false_iff_ne, ne_eq]; rintro rfl; exact h0 hx),
    position?_none_of_ne p.innerCircles _ (fun x _ => by
      simp only [beq_eq_false_iff_ne, ne_eq]; exact center_ne_a _ _),
    position?_none_of_ne p.innerArcs (fun x => x ++ ".center" == a ++ ".a") (fun x _ => by
      simp only [beq_eq_false_iff_ne, ne_eq]; exact center_ne_a _ _)]

/-- `a.b` with `a` a declared arc is the end point of that arc. -/
theorem datumPoint_arc_b (p : Problem α) (v : Vars α) (hb : Built p v) (a : String)
    (h0 : a ++ ".b" ∉ p.innerPoints) (h : a ∈ p.innerArcs) :
    datumPoint p v (a ++ ".b") =
      .ok (Spec.arcIds p.innerPoints.length p.innerCircles.length (p.innerArcs.idxOf a)).stop := by
  rw [datumPoint_spec p v hb, position?_suffix _ _ _ h,
    position?_none_of_ne p.innerPoints _ (fun x hx => by
      simp only [beq_eq_false_iff_ne, ne_eq]; rintro rfl; exact h0 hx),
    position?_none_of_ne p.innerCircles _ (fun x _ => by
      simp only [beq_eq_false_iff_ne, ne_eq]; exact center_ne_b _ _),
    position?_none_of_ne p.innerArcs (fun x => x ++ ".center" == a ++ ".b") (fun x _ => by
      simp only [beq_eq_false_iff_ne, ne_eq]; exact center_ne_b _ _),
    position?_none_of_ne p.innerArcs (fun x => x ++ ".a" == a ++ ".b") (fun x _ => by
      simp only [beq_eq_false_iff_ne, ne_eq]; exact a_ne_b _ _)]

/-! ### Guess strictness: the consumption of the guess maps -/

/-- Remove the keys one after the other; `none` as soon as one is absent. -/
def removeAll {β : Type} : List String → List (String × β) → Option (List (String × β))
  | [], m => some m
  | k :: ks, m =>
    match amRemove m k with
    | none => none
    | some (_, m') => removeAll ks m'

/-- Removing `ks1 ++ ks2` is removing `ks1` and then `ks2`. -/
theorem removeAll_append {β : Type} (ks1 ks2 : List String) (m : List (String × β)) :
    removeAll (ks1 ++ ks2) m = (removeAll ks1 m).bind (removeAll ks2) := by
  induction ks1 generalizing m with
  | nil => rfl
  | cons k ks ih =>
    simp only [List.cons_append, removeAll]
    cases amRemove m k with
    | none => rfl
    | some r => exact ih r.2

/-- Successive removals succeed exactly when the keys are distinct and all present; what is left
is what was there minus the keys removed. -/
theorem removeAll_some {β : Type} (ks : List String) (m m' : List (String × β))
    (h : removeAll ks m = some m') :
    ks.Nodup ∧ (∀ k ∈ ks, k ∈ keys m) ∧ ∀ k, k ∈ keys m' ↔ (k ∈ keys m ∧ k ∉ ks) := by
  induction ks generalizing m with
  | nil => simp [removeAll] at h; subst h; simp
  | cons k ks ih =>
    simp only [removeAll] at h
    cases hr : amRemove m k with
    | none => simp [hr] at h
    | some r =>
      obtain ⟨g, m1⟩ := r
      simp only [hr] at h
      obtain ⟨hk, hiff⟩ := amRemove_some m k g m1 hr
      obtain ⟨nd, hall, hleft⟩ := ih m1 h
      refine ⟨List.nodup_cons.mpr ⟨fun hmem => ((hiff k).mp (hall k hmem)).2 rfl, nd⟩, ?_, ?_⟩
      · intro k' hk'
        rcases List.mem_cons.mp hk' with rfl | hk'
        · exact hk
        · exact ((hiff k').mp (hall k' hk')).1
      · intro k'
        rw [hleft k', hiff k', List.mem_cons, not_or, and_assoc]

/-- Successive removals fail only if the keys are not pairwise distinct or one of them is absent. -/
theorem removeAll_none {β : Type} (ks : List String) (m : List (String × β))
    (h : removeAll ks m = none) : ¬ (ks.Nodup ∧ ∀ k ∈ ks, k ∈ keys m) := by
  induction ks generalizing m with
  | nil => simp [removeAll] at h
  | cons k ks ih =>
    simp only [removeAll] at h
    rintro ⟨nd, hall⟩
    cases hr : amRemove m k with
    | none =>
      have hk := hall k (by simp)
      unfold amRemove at hr
      split at hr
      · cases hr
      · rename_i hf
        simp only [keys, List.mem_map] at hk
        obtain ⟨e, he, rfl⟩ := hk
        have := List.find?_eq_none.mp hf e he
        simp at this
    | some r =>
      obtain ⟨g, m1⟩ := r
      simp only [hr] at h
      obtain ⟨_, hiff⟩ := amRemove_some m k g m1 hr
      apply ih m1 h
      refine ⟨(List.nodup_cons.mp nd).2, fun k' hk' => (hiff k').mpr ⟨hall k' (by simp [hk']), ?_⟩⟩
      rintro rfl
      exact (List.nodup_cons.mp nd).1 hk'

/-- The keys of the point-guess map that the declarations consume, in the order of consumption:
points, then `c.center` of the circles, then `a.center, a.a, a.b` of the arcs. -/
def Problem.pointKeys (p : Problem α) : List String :=
  p.innerPoints ++ (p.innerCircles.map (· ++ ".center") ++
    p.innerArcs.flatMap (fun a => [a ++ ".center", a ++ ".a", a ++ ".b"]))

/-- The keys of the scalar-guess map that the declarations consume: `c.radius` of the circles. -/
def Problem.scalarKeys (p : Problem α) : List String := p.innerCircles.map (· ++ ".radius")

/-- `buildPoints` removes the point labels from the guess map; it fails, with `missingGuess`, exactly when that removal fails. -/
theorem buildPoints_removeAll : ∀ (labels : List String) (gp : List (String × α × α)) (v : Vars α),
    (∃ l, buildPoints labels gp v = .error (.text (.missingGuess l)) ∧ removeAll labels gp = none) ∨
    (∃ v' gp', buildPoints labels gp v = .ok (v', gp') ∧ removeAll labels gp = some gp') := by
  intro labels
  induction labels with
  | nil => intro gp v; exact Or.inr ⟨v, gp, rfl, rfl⟩
  | cons l rest ih =>
    intro gp v
    simp only [buildPoints, removeAll]
    cases amRemove gp l with
    | none => exact Or.inl ⟨l, rfl, rfl⟩
    | some r => exact ih r.2 _

/-- `buildCircles` removes `c.center` from the point guesses and `c.radius` from the scalar guesses; it fails, with `missingGuess`, exactly when one of these removals fails. -/
theorem buildCircles_removeAll : ∀ (labels : List String) (gp : List (String × α × α))
    (gs : List (String × α)) (v : Vars α),
    (∃ l, buildCircles labels gp gs v = .error (.text (.missingGuess l)) ∧
      (removeAll (labels.map (· ++ ".center")) gp = none ∨
       removeAll (labels.map (· ++ ".radius")) gs = none)) ∨
    (∃ v' gp' gs', buildCircles labels gp gs v = .ok (v', gp', gs') ∧
      removeAll (labels.map (· ++ ".center")) gp = some gp' ∧
      removeAll (labels.map (· ++ ".radius")) gs = some gs') := by
  intro labels
  induction labels with
  | nil => intro gp gs v; exact Or.inr ⟨v, gp, gs, rfl, rfl, rfl⟩
  | cons l rest ih =>
    intro gp gs v
    simp only [buildCircles, removeAll, List.map_cons]
    cases amRemove gp (l ++ ".center") with
    | none => exact Or.inl ⟨_, rfl, Or.inl rfl⟩
    | some r =>
      cases amRemove gs (l ++ ".radius") with
      | none => exact Or.inl ⟨_, rfl, Or.inr rfl⟩
      | some r2 => exact ih r.2 r2.2 _

/-- `buildArcs` removes `a.center`, `a.a`, `a.b` from the point guesses; it fails, with `missingGuess`, exactly when that removal fails. -/
theorem buildArcs_removeAll : ∀ (labels : List String) (gp : List (String × α × α)) (v : Vars α),
    (∃ l, buildArcs labels gp v = .error (.text (.missingGuess l)) ∧
      removeAll (labels.flatMap (fun a => [a ++ ".center", a ++ ".a", a ++ ".b"])) gp = none) ∨
    (∃ v' gp', buildArcs labels gp v = .ok (v', gp') ∧
      removeAll (labels.flatMap (fun a => [a ++ ".center", a ++ ".a", a ++ ".b"])) gp = some gp') := by
  intro labels
  induction labels with
  | nil => intro gp v; exact Or.inr ⟨v, gp, rfl, rfl⟩
  | cons l rest ih =>
    intro gp v
    simp only [buildArcs, removeAll, List.flatMap_cons, List.cons_append, List.nil_append]
    cases amRemove gp (l ++ ".center") with
    | none => exact Or.inl ⟨_, rfl, rfl⟩
    | some r =>
      obtain ⟨c, gp1⟩ := r
      simp only []
      cases amRemove gp1 (l ++ ".a") with
      | none => exact Or.inl ⟨_, rfl, rfl⟩
      | some r2 =>
        obtain ⟨a, gp2⟩ := r2
        simp only []
        cases amRemove gp2 (l ++ ".b") with
        | none => exact Or.inl ⟨_, rfl, rfl⟩
        | some r3 => exact ih r3.2 _

/-- **What `buildVars` does, in one statement**: it removes `p.pointKeys` from the point-guess map
and `p.scalarKeys` from the scalar-guess map; a removal that fails is a `missingGuess` error; a
non-empty remainder is an `unusedGuesses` error (points first); otherwise the variables are built. -/
theorem buildVars_cases (p : Problem α) :
    (∃ l, buildVars p = .error (.text (.missingGuess l)) ∧
      (removeAll p.pointKeys (amFromList p.pointGuesses) = none ∨
       removeAll p.scalarKeys (amFromList p.scalarGuesses) = none)) ∨
    (∃ gp gs, removeAll p.pointKeys (amFromList p.pointGuesses) = some gp ∧
      removeAll p.scalarKeys (amFromList p.scalarGuesses) = some gs ∧
      ((gp ≠ [] ∧ buildVars p = .error (.text (.unusedGuesses (keys gp)))) ∨
       (gp = [] ∧ gs ≠ [] ∧ buildVars p = .error (.text (.unusedGuesses (keys gs)))) ∨
       (gp = [] ∧ gs = [] ∧ ∃ v, buildVars p = .ok v))) := by
  unfold buildVars Problem.pointKeys Problem.scalarKeys
  rcases buildPoints_removeAll p.innerPoints (amFromList p.pointGuesses) {} with
    ⟨l, he, hn⟩ | ⟨v1, gp1, hok1, hs1⟩
  · exact Or.inl ⟨l, by rw [he], Or.inl (by rw [removeAll_append, hn]; rfl)⟩
  · simp only [hok1]
    rcases buildCircles_removeAll p.innerCircles gp1 (amFromList p.scalarGuesses) v1 with
      ⟨l, he, hn⟩ | ⟨v2, gp2, gs2, hok2, hs2, hs2'⟩
    · refine Or.inl ⟨l, by rw [he], ?_⟩
      rcases hn with hn | hn
      · exact Or.inl (by rw [removeAll_append, hs1, Option.bind_some, removeAll_append, hn]; rfl)
      · exact Or.inr hn
    · simp only [hok2]
      rcases buildArcs_removeAll p.innerArcs gp2 v2 with ⟨l, he, hn⟩ | ⟨v3, gp3, hok3, hs3⟩
      · exact Or.inl ⟨l, by rw [he], Or.inl (by
          rw [removeAll_append, hs1, Option.bind_some, removeAll_append, hs2, Option.bind_some, hn])⟩
      · simp only [hok3]
        refine Or.inr ⟨gp3, gs2, by
          rw [removeAll_append, hs1, Option.bind_some, removeAll_append, hs2, Option.bind_some, hs3],
          hs2', ?_⟩
        cases gp3 with
        | cons e rest => exact Or.inl ⟨by simp, by simp [keys]⟩
        | nil =>
          cases gs2 with
          | cons e rest => exact Or.inr (Or.inl ⟨rfl, by simp, by simp [keys]⟩)
          | nil => exact Or.inr (Or.inr ⟨rfl, rfl, v3, by simp⟩)

/-- **Guess strictness, as an equivalence.**  The variables can be built iff the keys the
declarations require are pairwise distinct and are *exactly* the keys for which the text gives a
guess — for the point guesses (`l`, `c.center`, `a.center`, `a.a`, `a.b`) and for the scalar guesses
(`c.radius`).  "Omits a guess for a declared entity" and "gives a guess for an undeclared one" are
the two directions of the "exactly". -/
theorem buildVars_isOk_iff (p : Problem α) :
    IsOk (buildVars p) ↔
      (p.pointKeys.Nodup ∧ ∀ k, k ∈ p.pointKeys ↔ k ∈ p.pointGuesses.map (·.1)) ∧
      (p.scalarKeys.Nodup ∧ ∀ k, k ∈ p.scalarKeys ↔ k ∈ p.scalarGuesses.map (·.1)) := by
  have fromP := amFromList_keys p.pointGuesses
  have fromS := amFromList_keys p.scalarGuesses
  have full : ∀ {β : Type} (ks : List String) (m m' : List (String × β)),
      removeAll ks m = some m' → (m' = [] ↔ ∀ k ∈ keys m, k ∈ ks) := by
    intro β ks m m' h
    obtain ⟨_, _, hleft⟩ := removeAll_some ks m m' h
    constructor
    · intro hm k hk
      apply Decidable.byContradiction
      intro hn
      have := (hleft k).mpr ⟨hk, hn⟩
      rw [hm] at this
      simp [keys] at this
    · intro hall
      cases m' with
      | nil => rfl
      | cons e rest =>
        have := (hleft e.1).mp (by simp [keys])
        exact absurd (hall _ this.1) this.2
  rcases buildVars_cases p with ⟨l, he, hn⟩ | ⟨gp, gs, hp, hs, hcase⟩
  · constructor
    · rintro ⟨v, hv⟩; rw [hv] at he; cases he
    · rintro ⟨⟨nd1, h1⟩, ⟨nd2, h2⟩⟩
      rcases hn with hn | hn
      · exact absurd ⟨nd1, fun k hk => (fromP k).mpr ((h1 k).mp hk)⟩ (removeAll_none _ _ hn)
      · exact absurd ⟨nd2, fun k hk => (fromS k).mpr ((h2 k).mp hk)⟩ (removeAll_none _ _ hn)
  · obtain ⟨nd1, all1, _⟩ := removeAll_some _ _ _ hp
    obtain ⟨nd2, all2, _⟩ := removeAll_some _ _ _ hs
    have f1 := full _ _ _ hp
    have f2 := full _ _ _ hs
    constructor
    · rintro ⟨v, hv⟩
      rcases hcase with ⟨_, he⟩ | ⟨_, _, he⟩ | ⟨e1, e2, _⟩
      · rw [hv] at he; cases he
      · rw [hv] at he; cases he
      · exact ⟨⟨nd1, fun k => ⟨fun hk => (fromP k).mp (all1 k hk),
            fun hk => f1.mp e1 k ((fromP k).mpr hk)⟩⟩,
          ⟨nd2, fun k => ⟨fun hk => (fromS k).mp (all2 k hk),
            fun hk => f2.mp e2 k ((fromS k).mpr hk)⟩⟩⟩
    · rintro ⟨⟨_, h1⟩, ⟨_, h2⟩⟩
      have e1 : gp = [] := f1.mpr (fun k hk => (h1 k).mpr ((fromP k).mp hk))
      have e2 : gs = [] := f2.mpr (fun k hk => (h2 k).mpr ((fromS k).mp hk))
      rcases hcase with ⟨hne, _⟩ | ⟨_, hne, _⟩ | ⟨_, _, v, hv⟩
      · exact absurd e1 hne
      · exact absurd e2 hne
      · exact ⟨v, hv⟩

/-- An error of `buildVars` is the error of `toConstraintSystem`. -/
theorem toConstraintSystem_of_buildVars_error (p : Problem α) (e : ExecError)
    (h : buildVars p = .error e) : toConstraintSystem p = .error e := by
  unfold toConstraintSystem; rw [h]

/-- **A required point guess that the text omits is a `missingGuess` error** of
`toConstraintSystem` (for a point `l`, a circle's `c.center`, an arc's `a.center`, `a.a`, `a.b`). -/
theorem missing_point_guess_rejected (p : Problem α) (k : String) (hk : k ∈ p.pointKeys)
    (hg : k ∉ p.pointGuesses.map (·.1)) :
    ∃ l, toConstraintSystem p = .error (.text (.missingGuess l)) := by
  rcases buildVars_cases p with ⟨l, he, _⟩ | ⟨gp, gs, hp, _, _⟩
  · exact ⟨l, toConstraintSystem_of_buildVars_error p _ he⟩
  · exact absurd ((amFromList_keys _ k).mp ((removeAll_some _ _ _ hp).2.1 k hk)) hg

/-- **A required scalar guess (`c.radius`) that the text omits is a `missingGuess` error.** -/
theorem missing_scalar_guess_rejected (p : Problem α) (k : String) (hk : k ∈ p.scalarKeys)
    (hg : k ∉ p.scalarGuesses.map (·.1)) :
    ∃ l, toConstraintSystem p = .error (.text (.missingGuess l)) := by
  rcases buildVars_cases p with ⟨l, he, _⟩ | ⟨gp, gs, _, hs, _⟩
  · exact ⟨l, toConstraintSystem_of_buildVars_error p _ he⟩
  · exact absurd ((amFromList_keys _ k).mp ((removeAll_some _ _ _ hs).2.1 k hk)) hg

/-- **A point guess for something undeclared is rejected**: with `missingGuess` if some required
guess is missing as well, otherwise with `unusedGuesses` of a list that contains its key. -/
theorem extra_point_guess_rejected (p : Problem α) (k : String) (hg : k ∈ p.pointGuesses.map (·.1))
    (hk : k ∉ p.pointKeys) :
    (∃ l, toConstraintSystem p = .error (.text (.missingGuess l))) ∨
    (∃ ls, k ∈ ls ∧ toConstraintSystem p = .error (.text (.unusedGuesses ls))) := by
  rcases buildVars_cases p with ⟨l, he, _⟩ | ⟨gp, gs, hp, _, hcase⟩
  · exact Or.inl ⟨l, toConstraintSystem_of_buildVars_error p _ he⟩
  · have hin : k ∈ keys gp :=
      ((removeAll_some _ _ _ hp).2.2 k).mpr ⟨(amFromList_keys _ k).mpr hg, hk⟩
    rcases hcase with ⟨_, he⟩ | ⟨e1, _⟩ | ⟨e1, _⟩
    · exact Or.inr ⟨_, hin, toConstraintSystem_of_buildVars_error p _ he⟩
    · rw [e1] at hin; simp [keys] at hin
    · rw [e1] at hin; simp [keys] at hin

/-- **A scalar guess for something undeclared is rejected**, with `missingGuess` or with
`unusedGuesses` of a non-empty list (the left-over point guesses if there are any, otherwise the
left-over scalar guesses, which then contain its key). -/
theorem extra_scalar_guess_rejected (p : Problem α) (k : String)
    (hg : k ∈ p.scalarGuesses.map (·.1)) (hk : k ∉ p.scalarKeys) :
    (∃ l, toConstraintSystem p = .error (.text (.missingGuess l))) ∨
    (∃ ls, ls ≠ [] ∧ toConstraintSystem p = .error (.text (.unusedGuesses ls))) := by
  rcases buildVars_cases p with ⟨l, he, _⟩ | ⟨gp, gs, _, hs, hcase⟩
  · exact Or.inl ⟨l, toConstraintSystem_of_buildVars_error p _ he⟩
  · have hin : k ∈ keys gs :=
      ((removeAll_some _ _ _ hs).2.2 k).mpr ⟨(amFromList_keys _ k).mpr hg, hk⟩
    rcases hcase with ⟨hne, he⟩ | ⟨_, _, he⟩ | ⟨_, e2, _⟩
    · refine Or.inr ⟨_, ?_, toConstraintSystem_of_buildVars_error p _ he⟩
      cases gp with
      | nil => exact absurd rfl hne
      | cons e rest => simp [keys]
    · exact Or.inr ⟨_, List.ne_nil_of_mem hin, toConstraintSystem_of_buildVars_error p _ he⟩
    · rw [e2] at hin; simp [keys] at hin

/-- **Every rejection is one of three textual errors**, and which one says which rule was broken:
`missingGuess`/`unusedGuesses` come from the guesses, `undefinedPoint` from an undeclared label. -/
theorem rejection_kinds (p : Problem α) (e : ExecError) (h : toConstraintSystem p = .error e) :
    (∃ l, e = .text (.missingGuess l)) ∨ (∃ ls, ls ≠ [] ∧ e = .text (.unusedGuesses ls)) ∨
    (∃ i ∈ p.instructions, ∃ r ∈ i.refs, e = .text (.undefinedPoint r.label) ∧ ¬ r.Declared p) := by
  rcases buildVars_cases p with ⟨l, he, _⟩ | ⟨gp, gs, _, _, hcase⟩
  · rw [toConstraintSystem_of_buildVars_error p _ he] at h
    injection h with h
    exact Or.inl ⟨l, h.symm⟩
  · rcases hcase with ⟨hne, he⟩ | ⟨_, hne, he⟩ | ⟨_, _, v, hv⟩
    · rw [toConstraintSystem_of_buildVars_error p _ he] at h
      injection h with h
      refine Or.inr (Or.inl ⟨_, ?_, h.symm⟩)
      cases gp with
      | nil => exact absurd rfl hne
      | cons e rest => simp [keys]
    · rw [toConstraintSystem_of_buildVars_error p _ he] at h
      injection h with h
      refine Or.inr (Or.inl ⟨_, ?_, h.symm⟩)
      cases gs with
      | nil => exact absurd rfl hne
      | cons e rest => simp [keys]
    · exact Or.inr (Or.inr (rejected_names_culprit p v hv e h))

/-- **Acceptance, in terms of the text alone**: a problem is accepted iff the required guess keys
are pairwise distinct and are exactly the guessed keys (points and scalars), and everything the
instructions refer to is declared. -/
theorem accepted_iff_text (p : Problem α) :
    IsOk (toConstraintSystem p) ↔
      ((p.pointKeys.Nodup ∧ ∀ k, k ∈ p.pointKeys ↔ k ∈ p.pointGuesses.map (·.1)) ∧
       (p.scalarKeys.Nodup ∧ ∀ k, k ∈ p.scalarKeys ↔ k ∈ p.scalarGuesses.map (·.1))) ∧
      ∀ i ∈ p.instructions, ∀ r ∈ i.refs, r.Declared p := by
  rw [accepted_iff, buildVars_isOk_iff]

/-! ### Accepted problems are unambiguous -/

/-- **In an accepted problem the names are unambiguous**: no point, circle or arc is declared
twice, no circle shares its name with an arc, and no point is called `x.center` for a declared
circle or arc `x` — so the order in which `datumPoint` searches cannot matter. -/
theorem accepted_names_distinct (p : Problem α) (h : IsOk (buildVars p)) :
    p.innerPoints.Nodup ∧ p.innerCircles.Nodup ∧ p.innerArcs.Nodup ∧
    (∀ c ∈ p.innerCircles, c ∉ p.innerArcs) ∧
    (∀ x, x ∈ p.innerCircles ∨ x ∈ p.innerArcs → x ++ ".center" ∉ p.innerPoints) := by
  have nd := ((buildVars_isOk_iff p).mp h).1.1
  unfold Problem.pointKeys at nd
  rw [List.nodup_append] at nd
  obtain ⟨n1, n23, d1⟩ := nd
  rw [List.nodup_append] at n23
  obtain ⟨n2, n3, d2⟩ := n23
  have ofMap : ∀ (xs : List String), (xs.map (· ++ ".center")).Nodup → xs.Nodup := by
    intro xs
    induction xs with
    | nil => intro _; exact List.nodup_nil
    | cons x xs ih =>
      intro hnd
      rw [List.map_cons, List.nodup_cons] at hnd
      exact List.nodup_cons.mpr ⟨fun hx => hnd.1 (List.mem_map.mpr ⟨x, hx, rfl⟩), ih hnd.2⟩
  refine ⟨n1, ofMap _ n2, ?_, ?_, ?_⟩
  · -- arcs: a repeated arc repeats its `.center`
    have : ∀ (xs : List String),
        (xs.flatMap (fun a => [a ++ ".center", a ++ ".a", a ++ ".b"])).Nodup → xs.Nodup := by
      intro xs
      induction xs with
      | nil => intro _; exact List.nodup_nil
      | cons x xs ih =>
        intro hnd
        rw [List.flatMap_cons, List.nodup_append] at hnd
        obtain ⟨_, h2, h3⟩ := hnd
        refine List.nodup_cons.mpr ⟨fun hx => ?_, ih h2⟩
        exact h3 (x ++ ".center") (by simp) (x ++ ".center")
          (List.mem_flatMap.mpr ⟨x, hx, by simp⟩) rfl
    exact this _ n3
  · intro c hc ha
    exact d2 (c ++ ".center") (List.mem_map.mpr ⟨c, hc, rfl⟩) (c ++ ".center")
      (List.mem_flatMap.mpr ⟨c, ha, by simp⟩) rfl
  · rintro x (hx | hx) hp
    · exact d1 _ hp (x ++ ".center")
        (List.mem_append_left _ (List.mem_map.mpr ⟨x, hx, rfl⟩)) rfl
    · exact d1 _ hp (x ++ ".center")
        (List.mem_append_right _ (List.mem_flatMap.mpr ⟨x, hx, by simp⟩)) rfl

/-! ### The same, for plain label strings -/

/-- A label string is known to the problem: it is a declared name, or a declared name with one of
the suffixes of its kind. -/
def LabelKnown (p : Problem α) (l : String) : Prop :=
  l ∈ p.innerPoints ∨ l ∈ p.innerCircles ∨ l ∈ p.innerArcs ∨
  (∃ c ∈ p.innerCircles, l = c ++ ".center" ∨ l = c ++ ".radius") ∨
  (∃ a ∈ p.innerArcs, l = a ++ ".center" ∨ l = a ++ ".a" ∨ l = a ++ ".b")

/-- The label of a declared reference is known to the problem. -/
theorem Ref.Declared.known {p : Problem α} {r : Ref} (h : r.Declared p) : LabelKnown p r.label := by
  obtain ⟨k, l⟩ := r
  cases k with
  | point =>
    rcases h with h | ⟨c, hc, h⟩ | ⟨a, ha, h | h | h⟩
    · exact Or.inl h
    · exact Or.inr (Or.inr (Or.inr (Or.inl ⟨c, hc, Or.inl h.symm⟩)))
    · exact Or.inr (Or.inr (Or.inr (Or.inr ⟨a, ha, Or.inl h.symm⟩)))
    · exact Or.inr (Or.inr (Or.inr (Or.inr ⟨a, ha, Or.inr (Or.inl h.symm)⟩)))
    · exact Or.inr (Or.inr (Or.inr (Or.inr ⟨a, ha, Or.inr (Or.inr h.symm)⟩)))
  | distance =>
    obtain ⟨c, hc, h⟩ := h
    exact Or.inr (Or.inr (Or.inr (Or.inl ⟨c, hc, Or.inr h.symm⟩)))
  | fixPoint =>
    rcases h with h | ⟨x, hx, h | h⟩
    · exact Or.inl h
    · exact Or.inr (Or.inr (Or.inr (Or.inl ⟨x, h, Or.inl hx⟩)))
    · exact Or.inr (Or.inr (Or.inr (Or.inr ⟨x, h, Or.inl hx⟩)))
  | centerOf =>
    rcases h with h | h
    · exact Or.inr (Or.inl h)
    · exact Or.inr (Or.inr (Or.inl h))

/-- **Strict labels, on strings**: in an accepted problem every label of every instruction (in the
form in which it is looked up) resolves under the lookup the instruction performs for it, and is
known to the problem. -/
theorem strict_labels_strings (p : Problem α) (cs : ConstraintSystem α)
    (h : toConstraintSystem p = .ok cs) :
    ∀ i ∈ p.instructions, ∀ l ∈ i.labels,
      (∃ r ∈ i.refs, r.label = l ∧ Resolves p cs.vars r) ∧ LabelKnown p l := by
  intro i hi l hl
  obtain ⟨r, hr, rfl⟩ := List.mem_map.mp hl
  exact ⟨⟨r, hr, rfl, strict_labels p cs h i hi r hr⟩,
    (strict_labels_declared p cs h i hi r hr).known⟩

/-- **A label unknown to the problem, anywhere in any instruction, is a textual error.** -/
theorem unknown_label_rejected (p : Problem α) (i : Instr α) (hi : i ∈ p.instructions) (l : String)
    (hl : l ∈ i.labels) (hu : ¬ LabelKnown p l) : ∃ e, toConstraintSystem p = .error (.text e) := by
  obtain ⟨r, hr, rfl⟩ := List.mem_map.mp hl
  exact undeclared_rejected p i hi r hr (fun hd => hu hd.known)

/-! ### Duplicate guesses: the last one wins (observation, not a strictness property) -/

/-- Looking a key up after `amInsert`: the inserted pair if it has that key, otherwise what was there. -/
theorem amInsert_find? {β : Type} (m : List (String × β)) (e : String × β) (k : String) :
    (amInsert m e.1 e.2).find? (·.1 == k) =
      ([e].find? (·.1 == k)).or (m.find? (·.1 == k)) := by
  obtain ⟨a, b⟩ := e
  unfold amInsert
  by_cases hk : a = k
  · simp [hk]
  · have hk' : (a == k) = false := by simpa using hk
    simp only [List.find?_cons, hk', List.find?_nil, Option.none_or, List.find?_filter]
    congr 1
    funext a
    by_cases ha : a.1 = k
    · subst ha; simp; exact fun h => hk h.symm
    · simp [ha]

/-- **`amFromList` keeps, for every key, the *last* pair of the list with that key**: a text that
gives two guesses for one label is accepted and the later guess is used (`buildVars` starts from
`amFromList p.pointGuesses` / `amFromList p.scalarGuesses`; Rust: `HashMap::from_iter`). -/
theorem amFromList_find? {β : Type} (xs : List (String × β)) (k : String) :
    (amFromList xs).find? (·.1 == k) = xs.reverse.find? (·.1 == k) := by
  unfold amFromList
  have : ∀ (xs : List (String × β)) (m : List (String × β)),
      (xs.foldl (fun m e => amInsert m e.1 e.2) m).find? (·.1 == k) =
        (xs.reverse.find? (·.1 == k)).or (m.find? (·.1 == k)) := by
    intro xs
    induction xs with
    | nil => intro m; simp
    | cons e rest ih =>
      intro m
      rw [List.foldl_cons, ih, amInsert_find?, List.reverse_cons, List.find?_append,
        Option.or_assoc]
  simpa using this xs []

/-- The value `amRemove` hands to `buildPoints`/`buildCircles`/`buildArcs` for a key is the one of
the last guess given for that key. -/
theorem amRemove_amFromList {β : Type} (xs : List (String × β)) (k : String) (g : β)
    (m' : List (String × β)) (h : amRemove (amFromList xs) k = some (g, m')) :
    ∃ e, xs.reverse.find? (·.1 == k) = some e ∧ e.2 = g := by
  unfold amRemove at h
  rw [amFromList_find?] at h
  split at h
  · rename_i e he
    injection h with h
    injection h with h1 _
    exact ⟨e, he, h1⟩
  · cases h

/-- Example: two guesses for the declared point `p` — accepted, the second one is used. -/
example :
    ((toConstraintSystem (α := Nat)
        ⟨[.declarePoint "p"], ["p"], [], [], [], [("p", 1, 2), ("p", 3, 4)], []⟩).map
      (·.vars.variables)) = .ok [(0, 3), (1, 4)] := by rfl

/-- Example: `line(p, q)` with `q` undeclared is rejected with `undefinedPoint q` (finding F19). -/
example :
    ((toConstraintSystem (α := Nat)
        ⟨[.declarePoint "p", .line "p" "q"], ["p"], [], [], [], [("p", 1, 2)], []⟩).map
      (·.vars.variables)) = .error (.text (.undefinedPoint "q")) := by rfl

/-- Example: `fixPointComponent` accepts `a.center` but not `a.a` (unlike `datumPoint`). -/
example :
    ((toConstraintSystem (α := Nat)
        ⟨[.declareArc "a", .fixPointComponent "a.a" .x 0], [], [], ["a"], [],
          [("a.center", 0, 0), ("a.a", 1, 0), ("a.b", 0, 1)], []⟩).map
      (·.vars.variables)) = .error (.text (.undefinedPoint "a.a")) := by rfl

end Ezpz.Text
