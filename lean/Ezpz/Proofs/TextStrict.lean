/-
Strictness of the executor's guess handling: every declared entity consumes its guesses, and an
accepted problem has no guess left over.
-/
import Ezpz.Proofs.Text
set_option linter.unusedSectionVars false
namespace Ezpz.Text
open Ezpz

variable {α : Type}

def keys {β : Type} (m : List (String × β)) : List String := m.map (·.1)

theorem amRemove_some {β : Type} (m : List (String × β)) (k : String) (v : β) (m' : List (String × β))
    (h : amRemove m k = some (v, m')) :
    k ∈ keys m ∧ ∀ k', k' ∈ keys m' ↔ (k' ∈ keys m ∧ k' ≠ k) := by
  unfold amRemove at h
  split at h
  · rename_i e he
    injection h with h
    injection h with h1 h2
    subst h2
    have hmem := List.mem_of_find?_eq_some he
    have hk := List.find?_some he
    simp at hk
    refine ⟨by simp [keys]; exact ⟨e.2, by rw [← hk]; exact hmem⟩, ?_⟩
    intro k'
    simp only [keys, List.mem_map, List.mem_filter, bne_iff_ne, ne_eq]
    constructor
    · rintro ⟨a, ⟨ha, hne⟩, rfl⟩; exact ⟨⟨a, ha, rfl⟩, hne⟩
    · rintro ⟨⟨a, ha, rfl⟩, hne⟩; exact ⟨a, ⟨ha, hne⟩, rfl⟩
  · simp at h

theorem amInsert_keys {β : Type} (m : List (String × β)) (k : String) (v : β) (k' : String) :
    k' ∈ keys (amInsert m k v) ↔ k' = k ∨ k' ∈ keys m := by
  simp only [keys, amInsert, List.map_cons, List.mem_cons, List.mem_map, List.mem_filter,
    bne_iff_ne, ne_eq]
  constructor
  · rintro (h | ⟨a, ⟨ha, _⟩, rfl⟩)
    · exact Or.inl h
    · exact Or.inr ⟨a, ha, rfl⟩
  · rintro (h | ⟨a, ha, rfl⟩)
    · exact Or.inl h
    · by_cases hk : a.1 = k
      · exact Or.inl hk
      · exact Or.inr ⟨a, ⟨ha, hk⟩, rfl⟩

theorem amFromList_keys {β : Type} (xs : List (String × β)) (k : String) :
    k ∈ keys (amFromList xs) ↔ k ∈ xs.map (·.1) := by
  unfold amFromList
  have : ∀ (xs : List (String × β)) (m : List (String × β)),
      k ∈ keys (xs.foldl (fun m e => amInsert m e.1 e.2) m) ↔ k ∈ keys m ∨ k ∈ xs.map (·.1) := by
    intro xs
    induction xs with
    | nil => intro m; simp
    | cons e rest ih =>
      intro m
      simp only [List.foldl_cons, ih, amInsert_keys, List.map_cons, List.mem_cons]
      constructor
      · rintro ((h | h) | h)
        · exact Or.inr (Or.inl h)
        · exact Or.inl h
        · exact Or.inr (Or.inr h)
      · rintro (h | h | h)
        · exact Or.inl (Or.inr h)
        · exact Or.inl (Or.inl h)
        · exact Or.inr h
  simpa [keys] using this xs []

/-- Points: every label consumed a guess; whatever was not consumed is still there. -/
theorem buildPoints_keys : ∀ (labels : List String) (gp : List (String × α × α)) (v v' : Vars α)
    (gp' : List (String × α × α)), buildPoints labels gp v = .ok (v', gp') →
    (∀ l ∈ labels, l ∈ keys gp) ∧ (∀ k ∈ keys gp, k ∈ keys gp' ∨ k ∈ labels) := by
  intro labels
  induction labels with
  | nil =>
    intro gp v v' gp' h
    simp [buildPoints] at h
    obtain ⟨_, rfl⟩ := h
    exact ⟨by simp, fun k hk => Or.inl hk⟩
  | cons l rest ih =>
    intro gp v v' gp' h
    unfold buildPoints at h
    split at h
    · simp at h
    · rename_i g gp1 hr
      obtain ⟨hk, hiff⟩ := amRemove_some gp l g gp1 hr
      obtain ⟨h1, h2⟩ := ih gp1 _ v' gp' h
      constructor
      · intro l' hl'
        rcases List.mem_cons.mp hl' with rfl | hl'
        · exact hk
        · exact ((hiff l').mp (h1 l' hl')).1
      · intro k hkk
        by_cases hkl : k = l
        · exact Or.inr (by simp [hkl])
        · rcases h2 k ((hiff k).mpr ⟨hkk, hkl⟩) with h | h
          · exact Or.inl h
          · exact Or.inr (by simp [h])

theorem buildCircles_keys : ∀ (labels : List String) (gp : List (String × α × α))
    (gs : List (String × α)) (v v' : Vars α) (gp' : List (String × α × α)) (gs' : List (String × α)),
    buildCircles labels gp gs v = .ok (v', gp', gs') →
    (∀ l ∈ labels, l ++ ".center" ∈ keys gp ∧ l ++ ".radius" ∈ keys gs) ∧
    (∀ k ∈ keys gp, k ∈ keys gp' ∨ ∃ l ∈ labels, k = l ++ ".center") ∧
    (∀ k ∈ keys gs, k ∈ keys gs' ∨ ∃ l ∈ labels, k = l ++ ".radius") := by
  intro labels
  induction labels with
  | nil =>
    intro gp gs v v' gp' gs' h
    simp [buildCircles] at h
    obtain ⟨_, rfl, rfl⟩ := h
    exact ⟨by simp, fun k hk => Or.inl hk, fun k hk => Or.inl hk⟩
  | cons l rest ih =>
    intro gp gs v v' gp' gs' h
    unfold buildCircles at h
    split at h
    · simp at h
    · rename_i c gp1 hr1
      split at h
      · simp at h
      · rename_i r gs1 hr2
        obtain ⟨hk1, hiff1⟩ := amRemove_some gp _ c gp1 hr1
        obtain ⟨hk2, hiff2⟩ := amRemove_some gs _ r gs1 hr2
        obtain ⟨h1, h2, h3⟩ := ih gp1 gs1 _ v' gp' gs' h
        refine ⟨?_, ?_, ?_⟩
        · intro l' hl'
          rcases List.mem_cons.mp hl' with rfl | hl'
          · exact ⟨hk1, hk2⟩
          · exact ⟨((hiff1 _).mp (h1 l' hl').1).1, ((hiff2 _).mp (h1 l' hl').2).1⟩
        · intro k hkk
          by_cases hkl : k = l ++ ".center"
          · exact Or.inr ⟨l, by simp, hkl⟩
          · rcases h2 k ((hiff1 k).mpr ⟨hkk, hkl⟩) with h | ⟨l', hl', rfl⟩
            · exact Or.inl h
            · exact Or.inr ⟨l', by simp [hl'], rfl⟩
        · intro k hkk
          by_cases hkl : k = l ++ ".radius"
          · exact Or.inr ⟨l, by simp, hkl⟩
          · rcases h3 k ((hiff2 k).mpr ⟨hkk, hkl⟩) with h | ⟨l', hl', rfl⟩
            · exact Or.inl h
            · exact Or.inr ⟨l', by simp [hl'], rfl⟩

theorem buildArcs_keys : ∀ (labels : List String) (gp : List (String × α × α)) (v v' : Vars α)
    (gp' : List (String × α × α)), buildArcs labels gp v = .ok (v', gp') →
    (∀ l ∈ labels, l ++ ".center" ∈ keys gp ∧ l ++ ".a" ∈ keys gp ∧ l ++ ".b" ∈ keys gp) ∧
    (∀ k ∈ keys gp, k ∈ keys gp' ∨
      ∃ l ∈ labels, k = l ++ ".center" ∨ k = l ++ ".a" ∨ k = l ++ ".b") := by
  intro labels
  induction labels with
  | nil =>
    intro gp v v' gp' h
    simp [buildArcs] at h
    obtain ⟨_, rfl⟩ := h
    exact ⟨by simp, fun k hk => Or.inl hk⟩
  | cons l rest ih =>
    intro gp v v' gp' h
    unfold buildArcs at h
    split at h
    · simp at h
    · rename_i c gp1 hr1
      split at h
      · simp at h
      · rename_i a gp2 hr2
        split at h
        · simp at h
        · rename_i b gp3 hr3
          obtain ⟨hk1, hiff1⟩ := amRemove_some gp _ c gp1 hr1
          obtain ⟨hk2, hiff2⟩ := amRemove_some gp1 _ a gp2 hr2
          obtain ⟨hk3, hiff3⟩ := amRemove_some gp2 _ b gp3 hr3
          obtain ⟨h1, h2⟩ := ih gp3 _ v' gp' h
          have up : ∀ k, k ∈ keys gp3 → k ∈ keys gp :=
            fun k hk => ((hiff1 k).mp ((hiff2 k).mp ((hiff3 k).mp hk).1).1).1
          refine ⟨?_, ?_⟩
          · intro l' hl'
            rcases List.mem_cons.mp hl' with rfl | hl'
            · exact ⟨hk1, ((hiff1 _).mp hk2).1, ((hiff1 _).mp ((hiff2 _).mp hk3).1).1⟩
            · obtain ⟨a1, a2, a3⟩ := h1 l' hl'
              exact ⟨up _ a1, up _ a2, up _ a3⟩
          · intro k hkk
            by_cases hc : k = l ++ ".center"
            · exact Or.inr ⟨l, by simp, Or.inl hc⟩
            · by_cases ha : k = l ++ ".a"
              · exact Or.inr ⟨l, by simp, Or.inr (Or.inl ha)⟩
              · by_cases hb : k = l ++ ".b"
                · exact Or.inr ⟨l, by simp, Or.inr (Or.inr hb)⟩
                · have : k ∈ keys gp3 :=
                    (hiff3 k).mpr ⟨(hiff2 k).mpr ⟨(hiff1 k).mpr ⟨hkk, hc⟩, ha⟩, hb⟩
                  rcases h2 k this with h | ⟨l', hl', hor⟩
                  · exact Or.inl h
                  · exact Or.inr ⟨l', by simp [hl'], hor⟩

/-- **Strict guesses.**  If the variables are built, then every declared entity has all its
guesses, and every guess the text gives belongs to a declared entity. -/
theorem buildVars_strict (p : Problem α) (v : Vars α) (h : buildVars p = .ok v) :
    (∀ l ∈ p.innerPoints, l ∈ p.pointGuesses.map (·.1)) ∧
    (∀ l ∈ p.innerCircles, l ++ ".center" ∈ p.pointGuesses.map (·.1) ∧
      l ++ ".radius" ∈ p.scalarGuesses.map (·.1)) ∧
    (∀ l ∈ p.innerArcs, l ++ ".center" ∈ p.pointGuesses.map (·.1) ∧
      l ++ ".a" ∈ p.pointGuesses.map (·.1) ∧ l ++ ".b" ∈ p.pointGuesses.map (·.1)) ∧
    (∀ k ∈ p.pointGuesses.map (·.1), k ∈ p.innerPoints ∨ (∃ l ∈ p.innerCircles, k = l ++ ".center") ∨
      ∃ l ∈ p.innerArcs, k = l ++ ".center" ∨ k = l ++ ".a" ∨ k = l ++ ".b") ∧
    (∀ k ∈ p.scalarGuesses.map (·.1), ∃ l ∈ p.innerCircles, k = l ++ ".radius") := by
  unfold buildVars at h
  cases h1 : buildPoints p.innerPoints (amFromList p.pointGuesses) {} with
  | error e => simp [h1] at h
  | ok r1 =>
    obtain ⟨v1, gp1⟩ := r1
    simp only [h1] at h
    cases h2 : buildCircles p.innerCircles gp1 (amFromList p.scalarGuesses) v1 with
    | error e => simp [h2] at h
    | ok r2 =>
      obtain ⟨v2, gp2, gs2⟩ := r2
      simp only [h2] at h
      cases h3 : buildArcs p.innerArcs gp2 v2 with
      | error e => simp [h3] at h
      | ok r3 =>
        obtain ⟨v3, gp3⟩ := r3
        simp only [h3] at h
        split at h
        · simp at h
        · rename_i hgp
          split at h
          · simp at h
          · rename_i hgs
            have e3 : keys gp3 = [] := by
              simp at hgp; simp [keys, hgp]
            have e2 : keys gs2 = [] := by
              simp at hgs; simp [keys, hgs]
            obtain ⟨a1, a2⟩ := buildPoints_keys _ _ _ _ _ h1
            obtain ⟨b1, b2, b3⟩ := buildCircles_keys _ _ _ _ _ _ _ h2
            obtain ⟨c1, c2⟩ := buildArcs_keys _ _ _ _ _ h3
            have fromP : ∀ k, k ∈ keys (amFromList p.pointGuesses) ↔ k ∈ p.pointGuesses.map (·.1) :=
              amFromList_keys _
            have fromS : ∀ k, k ∈ keys (amFromList p.scalarGuesses) ↔ k ∈ p.scalarGuesses.map (·.1) :=
              amFromList_keys _
            -- keys only shrink: gp2 ⊆ gp1 ⊆ initial
            have sub1 : ∀ k, k ∈ keys gp1 → k ∈ keys (amFromList p.pointGuesses) := by
              intro k hk
              -- gp1 is obtained from the initial map by removals only
              have : ∀ (labels : List String) (gp : List (String × α × α)) (v v' : Vars α)
                  (gp' : List (String × α × α)), buildPoints labels gp v = .ok (v', gp') →
                  ∀ k, k ∈ keys gp' → k ∈ keys gp := by
                intro labels
                induction labels with
                | nil => intro gp v v' gp' h k hk; simp [buildPoints] at h; rw [h.2]; exact hk
                | cons l rest ih =>
                  intro gp v v' gp' h k hk
                  unfold buildPoints at h
                  split at h
                  · simp at h
                  · rename_i g gpx hr
                    exact (((amRemove_some gp l g gpx hr).2 k).mp (ih gpx _ v' gp' h k hk)).1
              exact this _ _ _ _ _ h1 k hk
            have sub2 : ∀ k, k ∈ keys gp2 → k ∈ keys gp1 := by
              have : ∀ (labels : List String) (gp : List (String × α × α)) (gs : List (String × α))
                  (v v' : Vars α) (gp' : List (String × α × α)) (gs' : List (String × α)),
                  buildCircles labels gp gs v = .ok (v', gp', gs') →
                  ∀ k, k ∈ keys gp' → k ∈ keys gp := by
                intro labels
                induction labels with
                | nil => intro gp gs v v' gp' gs' h k hk; simp [buildCircles] at h; rw [h.2.1]; exact hk
                | cons l rest ih =>
                  intro gp gs v v' gp' gs' h k hk
                  unfold buildCircles at h
                  split at h
                  · simp at h
                  · rename_i c gpx hr
                    split at h
                    · simp at h
                    · exact (((amRemove_some gp _ c gpx hr).2 k).mp (ih gpx _ _ v' gp' gs' h k hk)).1
              intro k hk
              exact this _ _ _ _ _ _ _ h2 k hk
            refine ⟨?_, ?_, ?_, ?_, ?_⟩
            · intro l hl; exact (fromP l).mp (a1 l hl)
            · intro l hl
              exact ⟨(fromP _).mp (sub1 _ (b1 l hl).1), (fromS _).mp (b1 l hl).2⟩
            · intro l hl
              obtain ⟨x1, x2, x3⟩ := c1 l hl
              exact ⟨(fromP _).mp (sub1 _ (sub2 _ x1)), (fromP _).mp (sub1 _ (sub2 _ x2)),
                (fromP _).mp (sub1 _ (sub2 _ x3))⟩
            · intro k hk
              rcases a2 k ((fromP k).mpr hk) with h | h
              · rcases b2 k h with h | h
                · rcases c2 k h with h | h
                  · rw [e3] at h; simp at h
                  · exact Or.inr (Or.inr h)
                · exact Or.inr (Or.inl h)
              · exact Or.inl h
            · intro k hk
              rcases b3 k ((fromS k).mpr hk) with h | h
              · rw [e2] at h; simp at h
              · exact h

end Ezpz.Text
