/-
C04.1 at the level of the loop, for every scalar type: if the linear solver returns a zero step
component for variable `j` (which the exact step does for a variable no constraint mentions,
`GN.untouched_var_step_zero`) then `j` keeps its guess through every round and in the result.
-/
import Ezpz.Properties.C03
set_option linter.unusedSectionVars false
namespace Ezpz
open Transc

variable {α : Type} [Add α] [Sub α] [Mul α] [Div α] [Neg α] [OfScientific α]
  [LT α] [DecidableLT α] [LE α] [DecidableLE α] [Transc α]

theorem applyStep_getElem? (x d : List α) (j : Nat) (a z : α) (hx : x[j]? = some a)
    (hd : d[j]? = some z) : (applyStep x d)[j]? = some (a + z) := by
  unfold applyStep
  rw [List.getElem?_zipWith, hx, hd]

/-- The solver's answer has `z` in slot `j`, and adding `z` changes nothing. -/
def ZeroStepAt (solve : Nat → List (Triplet α) → List α → Except SolveError (List α)) (j : Nat)
    (z : α) : Prop :=
  (∀ k jac r d, solve k jac r = .ok d → d[j]? = some z) ∧ ∀ a : α, a + z = a

theorem newtonStep_untouched (es : List (Entry α)) (cfg : Config α)
    (solve : Nat → List (Triplet α) → List α → Except SolveError (List α)) (j : Nat) (z a : α)
    (hz : ZeroStepAt solve j z) (k : Nat) (x : List α) (ws : List (Warning α)) (hx : x[j]? = some a) :
    (∀ r, newtonStep es cfg solve k x ws = .done r → r.values[j]? = some a) ∧
    (∀ x' ws', newtonStep es cfg solve k x ws = .next x' ws' → x'[j]? = some a) := by
  have happ : ∀ d, solve k = solve k → ∀ jac r, solve k jac r = .ok d →
      (applyStep x d)[j]? = some a := by
    intro d _ jac r hd
    have := applyStep_getElem? x d j a z hx (hz.1 k jac r d hd)
    rw [hz.2 a] at this; exact this
  constructor
  · intro r h
    unfold newtonStep at h
    split at h
    · simp at h
    · split at h
      · simp at h
      · split at h
        · simp at h
        · split at h
          · injection h with h; subst h; exact hx
          · split at h
            · simp at h
            · rename_i d hd
              split at h
              · simp at h
              · split at h
                · simp at h
                · split at h
                  · injection h with h; subst h; exact happ d rfl _ _ hd
                  · simp at h
  · intro x' ws' h
    unfold newtonStep at h
    split at h
    · simp at h
    · split at h
      · simp at h
      · split at h
        · simp at h
        · split at h
          · simp at h
          · split at h
            · simp at h
            · rename_i d hd
              split at h
              · simp at h
              · split at h
                · simp at h
                · split at h
                  · simp at h
                  · injection h with h1 h2; subst h1; exact happ d rfl _ _ hd

/-- C04.1 — **a variable the solver does not move keeps its guess**: through every round of the
loop and in the returned values, for any fuel, any starting round, any scalar type. -/
theorem newtonLoop_untouched (es : List (Entry α)) (cfg : Config α)
    (solve : Nat → List (Triplet α) → List α → Except SolveError (List α)) (j : Nat) (z a : α)
    (hz : ZeroStepAt solve j z) :
    ∀ (fuel k : Nat) (x : List α) (ws : List (Warning α)) (r : NewtonOk α), x[j]? = some a →
      newtonLoop es cfg solve fuel k x ws = .ok r → r.values[j]? = some a := by
  intro fuel
  induction fuel with
  | zero => intro k x ws r _ h; simp [newtonLoop] at h
  | succ fuel ih =>
    intro k x ws r hx h
    unfold newtonLoop at h
    have hs := newtonStep_untouched es cfg solve j z a hz k x ws hx
    split at h
    · rename_i r' hr
      injection h with h; subst h
      exact hs.1 _ hr
    · simp at h
    · rename_i x' ws' hn
      exact ih _ _ _ _ (hs.2 _ _ hn) h

/-- C04.1 at one priority level: the returned value of an unmoved variable is its guess. -/
theorem solveInner_untouched (es : List (Entry α)) (g : List (Nat × α)) (cfg : Config α)
    (solve : Nat → List (Triplet α) → List α → Except SolveError (List α))
    (analyze : Option (List (Triplet α) → Except SolveError (List α × List (List α))))
    (j : Nat) (z a : α) (hz : ZeroStepAt solve j z) (hg : (g.map (·.2))[j]? = some a)
    (o : Outcome α) (h : solveInner es g cfg solve analyze = .ok o) :
    o.finalValues[j]? = some a := by
  obtain ⟨nr, hn, _, hv, _⟩ := solveInner_ok _ _ _ _ _ _ h
  rw [hv]
  unfold newton at hn
  exact newtonLoop_untouched es cfg solve j z a hz _ _ _ _ _ hg hn

/-- C04 — an empty request list returns the guesses, in order, with nothing unsatisfied, zero
iterations and no warnings. -/
theorem no_requests_returns_guesses (g : List (Nat × α)) (cfg : Config α) (solve : LinSolve α)
    (svd : Option (Svd α)) :
    ∃ o, solveWithPriority ([] : List (Constraint α × Nat)) g cfg solve svd = .ok o ∧
      o.finalValues = g.map (·.2) ∧ o.unsatisfied = [] ∧ o.iterations = 0 ∧ o.warnings = [] :=
  ⟨_, rfl, rfl, rfl, rfl, rfl⟩

end Ezpz
