/-
Correct rounding of the `{:.2}` number formatter of the command-line program.

`Ezpz/Model/Fmt.lean` computes, from the IEEE-754 bit pattern of a double, the number of hundredths
`q` that is printed (`fmt2Core`) and the printed string (`fmt2Bits`).  Here the bit pattern is given
its exact rational meaning (`absValue`) and `q` is proved to be `absValue · 100` rounded to the
nearest integer, ties to even; this determines `q` uniquely (`fmt2Core_unique`).  The printed string
is `[-]⌊q/100⌋.dd` with exactly two fractional digits.
-/
import Mathlib.Tactic.Ring
import Mathlib.Tactic.FieldSimp
import Mathlib.Tactic.Linarith
import Mathlib.Tactic.NormNum
import Mathlib.Algebra.Order.Field.Rat
import Ezpz.Model.Fmt

namespace Ezpz.Cli

/-- The exact magnitude denoted by a finite bit pattern: with `e` the 11-bit exponent field and `f`
the 52-bit fraction field, `f · 2^-1074` for subnormals (`e = 0`) and `(2^52 + f) · 2^(e-1075)`
otherwise. -/
def absValue (bits : Nat) : ℚ :=
  let e : Nat := (bits / 2 ^ 52) % 2048
  let f : Nat := bits % 2 ^ 52
  if e = 0 then (f : ℚ) * (2 : ℚ) ^ (-1074 : ℤ)
  else ((2 : ℚ) ^ 52 + (f : ℚ)) * (2 : ℚ) ^ ((e : ℤ) - 1075)

/-! ### Sanity lemmas on `absValue` -/

/-- The magnitude is never negative. -/
theorem absValue_nonneg (bits : Nat) : 0 ≤ absValue bits := by
  unfold absValue
  simp only
  split
  · exact mul_nonneg (Nat.cast_nonneg _) (zpow_nonneg (by norm_num) _)
  · exact mul_nonneg (add_nonneg (by norm_num) (Nat.cast_nonneg _)) (zpow_nonneg (by norm_num) _)

/-- `absValue` agrees with the model's mantissa/exponent decomposition: it is `m · 2^ex`. -/
theorem absValue_decode (bits : Nat) :
    absValue bits = ((decode bits).1 : ℚ) * (2 : ℚ) ^ (decode bits).2 := by
  unfold absValue decode
  simp only [beq_iff_eq]
  split
  · rfl
  · simp only [Nat.cast_add, Nat.cast_pow, Nat.cast_ofNat]
    rw [add_comm]

/-- The sign bit does not change the magnitude. -/
theorem absValue_sign (bits : Nat) : absValue (bits + 2 ^ 63) = absValue bits := by
  have h1 : (bits + 2 ^ 63) / 2 ^ 52 % 2048 = bits / 2 ^ 52 % 2048 := by omega
  have h2 : (bits + 2 ^ 63) % 2 ^ 52 = bits % 2 ^ 52 := by omega
  unfold absValue
  simp only [h1, h2]

/-- 1.0, 0.125, 2.5, the smallest subnormal and the largest finite double have the expected values. -/
example : absValue 0x3FF0000000000000 = 1 := by
  unfold absValue; norm_num
example : absValue 0x3FC0000000000000 = 1 / 8 := by
  unfold absValue; norm_num
example : absValue 0xC004000000000000 = 5 / 2 := by
  unfold absValue; norm_num
example : absValue 1 = 1 / 2 ^ 1074 := by
  unfold absValue; norm_num
example : absValue 0x7FEFFFFFFFFFFFFF = (2 ^ 53 - 1) * 2 ^ 971 := by
  unfold absValue; norm_num

/-! ### Round-half-even on a fraction `n / d` -/

/-- Integer form of the specification of `roundHalfEven n d` (with `res` the result): it is within
half a unit of `n / d` (`|2n - 2·res·d| ≤ d`), and when it is exactly half a unit away, it is even. -/
theorem roundHalfEven_nat (n d : Nat) (hd : 0 < d) :
    2 * n ≤ 2 * (roundHalfEven n d * d) + d ∧ 2 * (roundHalfEven n d * d) ≤ 2 * n + d ∧
    ((2 * n = 2 * (roundHalfEven n d * d) + d ∨ 2 * (roundHalfEven n d * d) = 2 * n + d) →
      roundHalfEven n d % 2 = 0) := by
  have h := Nat.div_add_mod n d
  have hr := Nat.mod_lt n hd
  unfold roundHalfEven
  simp only
  generalize n / d = q at *
  generalize n % d = r at *
  subst h
  have e1 : (q + 1) * d = d * q + d := by ring
  have e2 : q * d = d * q := by ring
  split
  · rw [e1]
    generalize d * q = p at *
    omega
  · rw [e2]
    generalize d * q = p at *
    omega

/-- Rational form: `roundHalfEven n d` is a nearest integer to `n / d`, and is even on a tie. -/
theorem roundHalfEven_spec (n d : Nat) (hd : 0 < d) :
    |(n : ℚ) / d - roundHalfEven n d| ≤ 1 / 2 ∧
    (|(n : ℚ) / d - roundHalfEven n d| = 1 / 2 → roundHalfEven n d % 2 = 0) := by
  obtain ⟨h1, h2, h3⟩ := roundHalfEven_nat n d hd
  generalize roundHalfEven n d = res at *
  have hd' : (0 : ℚ) < d := by exact_mod_cast hd
  have c1 : 2 * (n : ℚ) ≤ 2 * (res * d) + d := by exact_mod_cast h1
  have c2 : 2 * ((res : ℚ) * d) ≤ 2 * n + d := by exact_mod_cast h2
  have key : (n : ℚ) / d - res = (n - res * d) / d := by field_simp
  refine ⟨?_, ?_⟩
  · rw [key, abs_le]
    constructor
    · rw [le_div_iff₀ hd']; linarith
    · rw [div_le_iff₀ hd']; linarith
  · intro ht
    apply h3
    rcases (abs_eq (by norm_num : (0 : ℚ) ≤ 1 / 2)).mp ht with h | h
    · left
      rw [key, div_eq_iff hd'.ne'] at h
      have : 2 * (n : ℚ) = 2 * (res * d) + d := by linarith
      exact_mod_cast this
    · right
      rw [key, div_eq_iff hd'.ne'] at h
      have : 2 * ((res : ℚ) * d) = 2 * n + d := by linarith
      exact_mod_cast this

/-- `hundredths m ex` is `m · 2^ex · 100` rounded to a nearest integer, even on a tie. -/
theorem hundredths_spec (m : Nat) (ex : Int) :
    |(m : ℚ) * (2 : ℚ) ^ ex * 100 - hundredths m ex| ≤ 1 / 2 ∧
    (|(m : ℚ) * (2 : ℚ) ^ ex * 100 - hundredths m ex| = 1 / 2 → hundredths m ex % 2 = 0) := by
  unfold hundredths
  split
  · rename_i hex
    obtain ⟨k, rfl⟩ := Int.eq_ofNat_of_zero_le hex
    have : (m : ℚ) * (2 : ℚ) ^ (k : ℤ) * 100 - ((m * 100 * 2 ^ (k : ℤ).toNat : ℕ) : ℚ) = 0 := by
      simp only [Int.toNat_natCast, zpow_natCast, Nat.cast_mul, Nat.cast_pow, Nat.cast_ofNat]
      ring
    rw [this]
    norm_num
  · rename_i hex
    have hneg : 0 ≤ -ex := by omega
    obtain ⟨k, hk⟩ := Int.eq_ofNat_of_zero_le hneg
    have hex' : ex = -(k : ℤ) := by omega
    subst hex'
    have hpos : 0 < 2 ^ k := Nat.two_pow_pos k
    have := roundHalfEven_spec (m * 100) (2 ^ k) hpos
    have e : (m : ℚ) * (2 : ℚ) ^ (-(k : ℤ)) * 100 = ((m * 100 : ℕ) : ℚ) / ((2 ^ k : ℕ) : ℚ) := by
      simp only [zpow_neg, zpow_natCast, Nat.cast_mul, Nat.cast_pow, Nat.cast_ofNat]
      field_simp
    simp only [neg_neg, Int.toNat_natCast]
    rw [e]
    exact this

/-! ### The main theorems -/

/-- The finite case of `fmt2Core` in closed form. -/
theorem fmt2Core_of_finite (bits : Nat) (h : (bits / 2 ^ 52) % 2048 ≠ 2047) :
    fmt2Core bits =
      some (bits / 2 ^ 63 % 2 == 1, hundredths (decode bits).1 (decode bits).2) := by
  unfold fmt2Core
  simp only [h, if_false]

/-- `fmt2Core` answers `none` exactly for the patterns whose exponent field is all ones (NaN and the
two infinities).  (No bound on `bits` is needed.) -/
theorem fmt2Core_none_iff (bits : Nat) :
    fmt2Core bits = none ↔ (bits / 2 ^ 52) % 2048 = 2047 := by
  constructor
  · intro h
    apply Decidable.byContradiction
    intro hne
    rw [fmt2Core_of_finite bits hne] at h
    cases h
  · intro h
    unfold fmt2Core
    simp only [h, if_true]

/-- `fmt2Core` answers `some _` exactly for the finite patterns (exponent field not all ones). -/
theorem fmt2Core_some_iff (bits : Nat) :
    (∃ p, fmt2Core bits = some p) ↔ (bits / 2 ^ 52) % 2048 ≠ 2047 := by
  rw [Ne, ← fmt2Core_none_iff]
  cases fmt2Core bits <;> simp

/-- The number of hundredths printed is a nearest integer to `|value| · 100`, and the sign flag is
the sign bit (bit 63). -/
theorem fmt2Core_nearest (bits : Nat) (neg : Bool) (q : Nat) (h : fmt2Core bits = some (neg, q)) :
    |absValue bits * 100 - q| ≤ 1 / 2 ∧ (neg = true ↔ bits / 2 ^ 63 % 2 = 1) := by
  have hf : (bits / 2 ^ 52) % 2048 ≠ 2047 := fun hc => by
    rw [(fmt2Core_none_iff bits).mpr hc] at h; cases h
  rw [fmt2Core_of_finite bits hf] at h
  simp only [Option.some.injEq, Prod.mk.injEq] at h
  obtain ⟨hn, hq⟩ := h
  subst hn hq
  rw [absValue_decode]
  exact ⟨(hundredths_spec _ _).1, by simp⟩

/-- On a tie (`|value| · 100` exactly half-way between two integers) the even one is printed. -/
theorem fmt2Core_ties_even (bits : Nat) (neg : Bool) (q : Nat) (h : fmt2Core bits = some (neg, q))
    (ht : |absValue bits * 100 - q| = 1 / 2) : q % 2 = 0 := by
  have hf : (bits / 2 ^ 52) % 2048 ≠ 2047 := fun hc => by
    rw [(fmt2Core_none_iff bits).mpr hc] at h; cases h
  rw [fmt2Core_of_finite bits hf] at h
  simp only [Option.some.injEq, Prod.mk.injEq] at h
  obtain ⟨_, hq⟩ := h
  subst hq
  rw [absValue_decode] at ht
  exact (hundredths_spec _ _).2 ht

/-- When `|value| · 100` is an integer `k`, exactly `k` hundredths are printed (no rounding error). -/
theorem fmt2Core_exact (bits : Nat) (neg : Bool) (q : Nat) (h : fmt2Core bits = some (neg, q))
    (k : ℤ) (hk : absValue bits * 100 = k) : (q : ℤ) = k := by
  have h1 := (fmt2Core_nearest bits neg q h).1
  rw [hk] at h1
  have h2 : |((k - (q : ℤ) : ℤ) : ℚ)| < 1 := by
    push_cast
    exact lt_of_le_of_lt h1 (by norm_num)
  have h3 : |k - (q : ℤ)| < 1 := by exact_mod_cast h2
  have := Int.abs_lt_one_iff.mp h3
  omega

/-- Nearest-with-ties-to-even determines the result: any natural number `q'` that is within half a
unit of `|value| · 100` and is even when exactly half a unit away is the `q` that `fmt2Core`
computes.  So `fmt2Core` *is* round-half-even of the exact value, not merely one admissible answer. -/
theorem fmt2Core_unique (bits : Nat) (neg : Bool) (q q' : Nat) (h : fmt2Core bits = some (neg, q))
    (hn : |absValue bits * 100 - q'| ≤ 1 / 2)
    (he : |absValue bits * 100 - q'| = 1 / 2 → q' % 2 = 0) : q' = q := by
  have h1 := (fmt2Core_nearest bits neg q h).1
  have h2 := fmt2Core_ties_even bits neg q h
  generalize absValue bits * 100 = x at *
  rw [abs_le] at h1 hn
  rcases Nat.lt_trichotomy q' q with hlt | heq | hgt
  · exfalso
    have hq : (q' : ℚ) + 1 ≤ q := by exact_mod_cast hlt
    have t1 : x - q = -(1 / 2) := by linarith [h1.1, hn.2]
    have t2 : x - q' = 1 / 2 := by linarith [h1.1, hn.2]
    have a1 : q % 2 = 0 := h2 (by rw [t1]; norm_num [abs_of_nonneg])
    have a2 : q' % 2 = 0 := he (by rw [t2]; norm_num [abs_of_nonneg])
    have : (q : ℚ) = q' + 1 := by linarith
    have : q = q' + 1 := by exact_mod_cast this
    omega
  · exact heq
  · exfalso
    have hq : (q : ℚ) + 1 ≤ q' := by exact_mod_cast hgt
    have t1 : x - q = 1 / 2 := by linarith [h1.2, hn.1]
    have t2 : x - q' = -(1 / 2) := by linarith [h1.2, hn.1]
    have a1 : q % 2 = 0 := h2 (by rw [t1]; norm_num [abs_of_nonneg])
    have a2 : q' % 2 = 0 := he (by rw [t2]; norm_num [abs_of_nonneg])
    have : (q' : ℚ) = q + 1 := by linarith
    have : q' = q + 1 := by exact_mod_cast this
    omega

/-- Zero prints as zero hundredths: both `+0.0` and `-0.0` give `q = 0`. -/
theorem fmt2Core_zero (bits : Nat) (neg : Bool) (q : Nat) (h : fmt2Core bits = some (neg, q))
    (hz : absValue bits = 0) : q = 0 := by
  have := fmt2Core_exact bits neg q h 0 (by rw [hz]; norm_num)
  exact_mod_cast this

/-- The tie hypothesis of `fmt2Core_ties_even` is satisfiable: 0.125 (hundredths 12.5) is a genuine
tie and is printed as 12 hundredths; 0.375 (37.5) is printed as 38. -/
example : fmt2Core 0x3FC0000000000000 = some (false, 12) ∧
    |absValue 0x3FC0000000000000 * 100 - (12 : ℕ)| = 1 / 2 := by
  refine ⟨by decide, ?_⟩
  unfold absValue; norm_num [abs_of_nonneg]
example : fmt2Core 0x3FD8000000000000 = some (false, 38) ∧
    |absValue 0x3FD8000000000000 * 100 - (38 : ℕ)| = 1 / 2 := by
  refine ⟨by decide, ?_⟩
  unfold absValue; norm_num [abs_of_nonneg, abs_of_nonpos]

/-- The exactness hypothesis of `fmt2Core_exact` is satisfiable: 2.5 is 250 hundredths. -/
example : fmt2Core 0x4004000000000000 = some (false, 250) ∧
    absValue 0x4004000000000000 * 100 = (250 : ℤ) := by
  refine ⟨by decide, ?_⟩
  unfold absValue; norm_num

/-! ### The printed string -/

/-- The fractional part printed for `fp < 100` consists of exactly the two decimal digits of `fp`
(tens digit, then units digit): one-digit values are zero-padded. -/
theorem frac2_digits : ∀ fp < 100,
    frac2 fp = String.ofList [Nat.digitChar (fp / 10), Nat.digitChar (fp % 10)] := by decide

/-- The fractional part always has exactly two characters. -/
theorem frac2_length : ∀ fp < 100, (frac2 fp).length = 2 := by decide

/-- The padding rule itself: `"0" ++ toString fp` below ten, `toString fp` otherwise. -/
theorem frac2_pad (fp : Nat) :
    frac2 fp = if fp < 10 then "0" ++ toString fp else toString fp := by
  unfold frac2
  split <;> rfl

/-- For a finite pattern the printed string is an optional `-` (exactly when the sign bit is set,
also for zero), the decimal numeral of `q / 100`, a dot, and the two digits of `q % 100`. -/
theorem fmt2_digits (bits : Nat) (neg : Bool) (q : Nat) (h : fmt2Core bits = some (neg, q)) :
    fmt2Bits bits =
      (if neg then "-" else "") ++ (toString (q / 100) ++ "." ++ frac2 (q % 100)) ∧
    (frac2 (q % 100)).length = 2 := by
  refine ⟨?_, frac2_length _ (Nat.mod_lt _ (by norm_num))⟩
  unfold fmt2Bits frac2
  rw [h]
  simp only [String.append_assoc]
  cases neg <;> simp [toString]

/-- For a non-finite pattern the printed string is `NaN` when the fraction field is non-zero, and
otherwise `inf` or `-inf` according to the sign bit. -/
theorem fmt2_nonfinite (bits : Nat) (h : fmt2Core bits = none) :
    fmt2Bits bits =
      if bits % 2 ^ 52 ≠ 0 then "NaN" else if bits / 2 ^ 63 % 2 = 1 then "-inf" else "inf" := by
  unfold fmt2Bits
  rw [h]
  simp only [beq_iff_eq]

end Ezpz.Cli
